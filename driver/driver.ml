(* Generic driver around an extracted model.
   usage: driver <entry-number> < lines-of-tokens > lines-of-tokens
   A token is a decimal integer or f<16 hex digits> (IEEE-754 double bits).
   For each input line "ID tok*" prints, for every output line k of the entry,
   "ID k tok*".  Coq Z/N stay the extracted inductive types (no Extract Constant). *)
open Tok
open Entry

let rec pos_of_int (n : int) : BinNums.positive =
  if n = 1 then BinNums.Coq_xH
  else if n land 1 = 0 then BinNums.Coq_xO (pos_of_int (n lsr 1))
  else BinNums.Coq_xI (pos_of_int (n lsr 1))

(* arbitrary precision decimal -> Z through OCaml ints is enough: harness values are < 2^62 *)
let z_of_int (n : int) : BinNums.coq_Z =
  if n = 0 then BinNums.Z0 else if n > 0 then BinNums.Zpos (pos_of_int n) else BinNums.Zneg (pos_of_int (-n))

let rec int_of_pos (p : BinNums.positive) : int =
  match p with
  | BinNums.Coq_xH -> 1
  | BinNums.Coq_xO q -> 2 * int_of_pos q
  | BinNums.Coq_xI q -> 2 * int_of_pos q + 1

let int_of_z (z : BinNums.coq_Z) : int =
  match z with BinNums.Z0 -> 0 | BinNums.Zpos p -> int_of_pos p | BinNums.Zneg p -> - (int_of_pos p)

let n_of_int (n : int) : BinNums.coq_N = if n = 0 then BinNums.N0 else BinNums.Npos (pos_of_int n)

let tok_of_string (s : string) : tok =
  if String.length s > 0 && s.[0] = 'f' then
    let bits = Int64.of_string ("0x" ^ String.sub s 1 (String.length s - 1)) in
    TF (Float64.of_float (Int64.float_of_bits bits))
  else TZ (z_of_int (int_of_string s))

let string_of_tok (t : tok) : string =
  match t with
  | TZ z -> string_of_int (int_of_z z)
  | TF f ->
      let x = Float64.to_float f in
      let bits = if Float.is_nan x then 0x7ff8000000000000L else Int64.bits_of_float x in
      Printf.sprintf "f%016Lx" bits

let () =
  let which = n_of_int (int_of_string Sys.argv.(1)) in
  let buf = Buffer.create 65536 in
  (try
    while true do
      let line = input_line stdin in
      match String.split_on_char ' ' (String.trim line) |> Stdlib.List.filter (fun s -> s <> "") with
      | [] -> ()
      | id :: toks ->
          let out = entry which (Stdlib.List.map tok_of_string toks) in
          Stdlib.List.iteri (fun k l ->
            Buffer.add_string buf id; Buffer.add_char buf ' ';
            Buffer.add_string buf (string_of_int k);
            Stdlib.List.iter (fun t -> Buffer.add_char buf ' '; Buffer.add_string buf (string_of_tok t)) l;
            Buffer.add_char buf '\n') out;
          if Buffer.length buf > 1_000_000 then (print_string (Buffer.contents buf); Buffer.clear buf)
    done
  with End_of_file -> ());
  print_string (Buffer.contents buf)
