From Coq Require Import ZArith Reals Lia Psatz.
From Flocq Require Import Core IEEE754.BinarySingleNaN.
Section F.
Variable prec emax : Z.
Context (prec_gt_0_ : Prec_gt_0 prec) (Hmax : Prec_lt_emax prec emax).
Notation bf := (binary_float prec emax).
Notation fsub := (@Bminus prec emax prec_gt_0_ Hmax mode_NE).
Notation fadd := (@Bplus prec emax prec_gt_0_ Hmax mode_NE).

Lemma sub_self (x : bf) : is_finite x = true -> fsub x x = B754_zero false.
Proof.
  intros Fx.
  pose proof (Bminus_correct prec emax prec_gt_0_ Hmax mode_NE x x Fx Fx) as H.
  rewrite Rminus_diag_eq in H by reflexivity.
  rewrite round_0 in H by typeclasses eauto.
  rewrite Rabs_R0 in H.
  destruct (Rlt_bool_spec 0 (bpow radix2 emax)) as [_|Hc]; [|exfalso; pose proof (bpow_gt_0 radix2 emax); lra].
  destruct H as (HR & HF & HS).
  destruct (fsub x x) as [s| | |s m e He] eqn:E; try discriminate.
  - f_equal. cbn [Bsign] in HS. rewrite HS.
    rewrite Rcompare_Eq by reflexivity. now destruct (Bsign x).
  - exfalso. cbn [B2R] in HR. apply eq_0_F2R in HR. cbn in HR. destruct s; discriminate.
Qed.
End F.
Print Assumptions sub_self.
