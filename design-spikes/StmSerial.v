From Coq Require Import List Arith Lia Bool.
Import ListNotations.

Section STM.
Variable var val res : Type.
Variable veqb : var -> var -> bool.
Hypothesis veqb_spec : forall a b, reflect (a = b) (veqb a b).

Inductive prog :=
| Ret (a : res) | Rd (v : var) (k : val -> prog) | Wr (v : var) (x : val) (k : prog) | Fail (e : nat).

Definition wlog := list (var * val).
Fixpoint wfind (ws : wlog) (v : var) : option val :=
  match ws with [] => None | (w, x) :: r => if veqb v w then Some x else wfind r v end.

(* sequential small-step over a plain store *)
Definition store := var -> val.
Inductive sstep (g : store) : prog * wlog -> prog * wlog -> Prop :=
| s_rd v k ws : sstep g (Rd v k, ws) (k (match wfind ws v with Some x => x | None => g v end), ws)
| s_wr v x k ws : sstep g (Wr v x k, ws) (k, (v, x) :: ws).
Inductive reaches (g : store) : prog * wlog -> prog * wlog -> Prop :=
| r_refl c : reaches g c c
| r_step c1 c2 c3 : reaches g c1 c2 -> sstep g c2 c3 -> reaches g c1 c3.

Definition apply (ws : wlog) (g : store) : store :=
  fun v => match wfind ws v with Some x => x | None => g v end.

(* sequential "atomically" as a relation: p0 run alone on g commits a with g' *)
Definition seq_commits (g : store) (p0 : prog) (a : res) (g' : store) : Prop :=
  exists ws, reaches g (p0, []) (Ret a, ws) /\ g' = apply ws g.

(* concurrent semantics with versions *)
Definition gstore := var -> val * nat.
Definition vals (G : gstore) : store := fun v => fst (G v).
Definition rlog := list (var * (val * nat)).
Fixpoint rfind (rs : rlog) (v : var) : option (val * nat) :=
  match rs with [] => None | (w, x) :: r => if veqb v w then Some x else rfind r v end.

Record attempt := { origin : prog; cur : prog; rs : rlog; ws : wlog }.
Inductive thread := Running (a : attempt) | Done (r : res) | Errd (e : nat).

Definition valid (G : gstore) (rs : rlog) : Prop :=
  forall v x n, In (v, (x, n)) rs -> snd (G v) = n.
Definition gapply (ws : wlog) (clock : nat) (G : gstore) : gstore :=
  fun v => match wfind ws v with Some x => (x, clock) | None => G v end.

Record cfg := { G : gstore; clock : nat; ths : nat -> thread; hist : list (prog * res) }.

Definition upd_th (l : nat -> thread) (i : nat) (t : thread) : nat -> thread :=
  fun j => if Nat.eqb j i then t else l j.

Inductive cstep : cfg -> cfg -> Prop :=
| c_rd_log c i a v k x :           (* read hits write log *)
    ths c i = Running a -> cur a = Rd v k -> wfind (ws a) v = Some x ->
    cstep c {| G := G c; clock := clock c; hist := hist c;
               ths := upd_th (ths c) i (Running {| origin := origin a; cur := k x; rs := rs a; ws := ws a |}) |}
| c_rd_rlog c i a v k x n :        (* read hits read log *)
    ths c i = Running a -> cur a = Rd v k -> wfind (ws a) v = None -> rfind (rs a) v = Some (x, n) ->
    cstep c {| G := G c; clock := clock c; hist := hist c;
               ths := upd_th (ths c) i (Running {| origin := origin a; cur := k x; rs := rs a; ws := ws a |}) |}
| c_rd_first c i a v k :           (* first read: from memory, recorded with version *)
    ths c i = Running a -> cur a = Rd v k -> wfind (ws a) v = None -> rfind (rs a) v = None ->
    cstep c {| G := G c; clock := clock c; hist := hist c;
               ths := upd_th (ths c) i (Running {| origin := origin a; cur := k (fst (G c v)); rs := (v, G c v) :: rs a; ws := ws a |}) |}
| c_wr c i a v x k :
    ths c i = Running a -> cur a = Wr v x k ->
    cstep c {| G := G c; clock := clock c; hist := hist c;
               ths := upd_th (ths c) i (Running {| origin := origin a; cur := k; rs := rs a; ws := (v, x) :: ws a |}) |}
| c_commit c i a r :
    ths c i = Running a -> cur a = Ret r -> valid (G c) (rs a) ->
    cstep c {| G := gapply (ws a) (S (clock c)) (G c); clock := S (clock c); hist := hist c ++ [(origin a, r)];
               ths := upd_th (ths c) i (Done r) |}
| c_restart c i a r :              (* validation failed *)
    ths c i = Running a -> cur a = Ret r -> ~ valid (G c) (rs a) ->
    cstep c {| G := G c; clock := clock c; hist := hist c;
               ths := upd_th (ths c) i (Running {| origin := origin a; cur := origin a; rs := []; ws := [] |}) |}
| c_abort c i a e :                (* abort(e): returned without validation, nothing published *)
    ths c i = Running a -> cur a = Fail e ->
    cstep c {| G := G c; clock := clock c; hist := hist c; ths := upd_th (ths c) i (Errd e) |}.

(* invariant *)
Definition agrees (g : store) (rs : rlog) : Prop := forall v x n, rfind rs v = Some (x, n) -> g v = x.
Definition att_inv (c : cfg) (a : attempt) : Prop :=
  (forall g, agrees g (rs a) -> reaches g (origin a, []) (cur a, ws a)) /\
  (forall v x n, rfind (rs a) v = Some (x, n) -> n <= clock c /\ (snd (G c v) = n -> fst (G c v) = x)) /\
  (forall v x n, In (v, (x, n)) (rs a) -> rfind (rs a) v = Some (x, n)).
Definition inv (c : cfg) : Prop :=
  (forall v, snd (G c v) <= clock c) /\
  forall i a, ths c i = Running a -> att_inv c a.

(* serial replay of the commit history *)
Inductive serial : store -> list (prog * res) -> store -> Prop :=
| ser_nil g : serial g [] g
| ser_snoc g h g1 p r g2 : serial g h g1 -> seq_commits g1 p r g2 -> serial g (h ++ [(p, r)]) g2.


Lemma apply_vals ws0 n G0 : forall v, vals (gapply ws0 n G0) v = apply ws0 (vals G0) v.
Proof. intros v. unfold vals, gapply, apply. now destruct (wfind ws0 v). Qed.

Lemma reaches_ext g1 g2 c1 c2 : (forall v, g1 v = g2 v) -> reaches g1 c1 c2 -> reaches g2 c1 c2.
Proof.
  intros E H. induction H; [constructor|]. eapply r_step; [eassumption|].
  destruct H0; [|constructor]. rewrite E. constructor.
Qed.

Lemma rfind_In rs0 v x : rfind rs0 v = Some x -> In (v, x) rs0.
Proof.
  induction rs0 as [|[w y] r IH]; cbn; [discriminate|].
  destruct (veqb_spec v w); [intros [= <-]; subst; now left | right; auto].
Qed.

Theorem step_inv c c' : inv c -> cstep c c' -> inv c'.
Proof.
  intros [Hclk Hth] Hs. destruct Hs; split; cbn [G clock ths hist]; try exact Hclk.
  all: try (intros j b; unfold upd_th; destruct (Nat.eqb_spec j i) as [->|Hne];
            [intros [= <-] | intros Hj; apply (Hth j b Hj)]).
  all: try pose proof (Hth i a H) as (R & V & D).
  - (* rd wlog *) split; [|split]; cbn [origin cur rs ws G clock]; auto.
    intros g Hg. eapply r_step; [apply R; auto|]. rewrite H0.
    replace (k x) with (k (match wfind (ws a) v with Some y => y | None => g v end)) by now rewrite H1.
    constructor.
  - (* rd rlog *) split; [|split]; cbn [origin cur rs ws G clock]; auto.
    intros g Hg. eapply r_step; [apply R; auto|]. rewrite H0.
    replace (k x) with (k (match wfind (ws a) v with Some y => y | None => g v end)).
    constructor. rewrite H1. f_equal. exact (Hg v x n H2).
  - (* first read *) split; [|split]; cbn [origin cur rs ws rfind G clock].
    + intros g Hg. eapply r_step.
      * apply R. intros w y n Hw. apply (Hg w y n). cbn. destruct (veqb_spec w v); [subst; congruence|auto].
      * rewrite H0.
        replace (k (fst (G c v))) with (k (match wfind (ws a) v with Some y => y | None => g v end)).
        constructor. rewrite H1. f_equal. apply (Hg v (fst (G c v)) (snd (G c v))). cbn.
        destruct (veqb_spec v v); [|congruence]. now destruct (G c v).
    + intros w y n. destruct (veqb_spec w v) as [->|].
      * intros E. injection E as E. pose proof (Hclk v) as Hc. split; [rewrite E in Hc; exact Hc | intros _; now rewrite E].
      * apply V.
    + intros w y n [E|Hin].
      * inversion E; subst. destruct (veqb_spec w w); congruence.
      * destruct (veqb_spec w v) as [->|]; [|auto].
        apply D in Hin. congruence.
  - (* wr *) split; [|split]; cbn [origin cur rs ws G clock]; auto.
    intros g Hg. eapply r_step; [apply R; auto|]. rewrite H0. constructor.
  - (* commit: clock *) intros v. unfold gapply. destruct (wfind (ws a) v); cbn; [lia|]. specialize (Hclk v). lia.
  - (* commit: other threads keep their invariant *)
    intros j b; unfold upd_th; destruct (Nat.eqb_spec j i) as [->|Hne]; [discriminate|]; intros Hj.
    destruct (Hth j b Hj) as (R' & V' & D'). split; [|split]; auto.
    intros v x n Hf. destruct (V' v x n Hf) as [Hle Himp]. cbn [G clock]. split; [lia|].
    unfold gapply. destruct (wfind (ws a) v); cbn [fst snd]; [lia | exact Himp].
  - (* restart *) split; [|split]; cbn [origin cur rs ws rfind G clock]; try discriminate.
    + intros g _. constructor.
    + intros ? ? ? [].
Qed.

Theorem commit_is_serial c i a r :
  inv c -> ths c i = Running a -> cur a = Ret r -> valid (G c) (rs a) ->
  seq_commits (vals (G c)) (origin a) r (apply (ws a) (vals (G c))).
Proof.
  intros [_ Hth] Hi Hc Hv. destruct (Hth i a Hi) as (R & V & D).
  exists (ws a). split; [|reflexivity]. rewrite <- Hc. apply R.
  intros v x n Hf. destruct (V v x n Hf) as [_ Himp]. apply Himp.
  apply (Hv v x n). now apply rfind_In.
Qed.

(* trace-level statement *)
Inductive csteps : cfg -> cfg -> Prop :=
| cs_refl c : csteps c c
| cs_step c1 c2 c3 : csteps c1 c2 -> cstep c2 c3 -> csteps c1 c3.

Definition serial_ext (g0 : store) (h : list (prog * res)) (g : store) : Prop :=
  exists g', serial g0 h g' /\ forall v, g' v = g v.

Lemma seq_commits_ext g1 g2 p r g' : (forall v, g1 v = g2 v) -> seq_commits g1 p r g' ->
  exists g'', seq_commits g2 p r g'' /\ forall v, g' v = g'' v.
Proof.
  intros E (ws0 & R & ->). exists (apply ws0 g2). split.
  - exists ws0. split; [eapply reaches_ext; eauto | reflexivity].
  - intros v. unfold apply. destruct (wfind ws0 v); auto.
Qed.

Theorem serializable c0 c g0 :
  inv c0 -> hist c0 = [] -> (forall v, vals (G c0) v = g0 v) -> csteps c0 c ->
  inv c /\ serial_ext g0 (hist c) (vals (G c)).
Proof.
  intros I0 H0 E0 Hs. induction Hs as [|c1 c2 c3 Hs IH St].
  - split; auto. rewrite H0. exists g0. split; [constructor|]. intros v. now rewrite E0.
  - destruct (IH I0 H0 E0) as [I2 (g' & S & E)]. split; [eapply step_inv; eauto|].
    destruct St; cbn [G hist]; try (exists g'; split; assumption).
    destruct (seq_commits_ext (vals (G c)) g' (origin a) r _ (fun v => eq_sym (E v))
                (commit_is_serial c i a r I2 H H1 H2)) as (g'' & SC & E'').
    exists g''. split; [econstructor; eauto|].
    intros v. rewrite apply_vals. symmetry. apply E''.
Qed.

End STM.
Print Assumptions serializable.
