"""Per-property configuration and the generic check procedure (DESIGN.md section 6)."""
import os, sys, json, time, hashlib, subprocess, shutil
import hc

V = hc.V
CRATES = ["harness", "harness-sched", "harness-render"]


class Family:
    """A correspondence family: a harness binary generating + executing cases on the real
    implementation, the model entry replaying them, and step oracles applied to the
    implementation's observations."""

    def __init__(self, name, bin, args, model_entry, oracles=(), tiers=("quick", "thorough"),
                 exhaustive=False, crate="harness", timeout=1500, pair=False):
        self.pair = pair
        self.name, self.bin, self.args, self.model_entry = name, bin, args, model_entry
        self.oracles, self.tiers, self.exhaustive, self.crate = list(oracles), tiers, exhaustive, crate
        self.timeout = timeout

    def run(self, pid, tier, seed, extra_cases=None):
        out = os.path.join(hc.BUILD, "run", pid, self.name)
        shutil.rmtree(out, ignore_errors=True)
        os.makedirs(out)
        res = dict(name=self.name, evaluations=0, cases=0, nontrivial=0, diffs=[], oracle_fail=[],
                   oracle_ok=0, oracle_skipped=0, oracle_unreadable=0, samples=[], hist={}, error=None,
                   exhaustive=self.exhaustive)
        args = [hc.hbin(self.bin, self.crate), "--out", out, "--seed", str(seed)] + self.args(tier, seed)
        if extra_cases is not None:
            args = [hc.hbin(self.bin, self.crate), "--out", out, "--mode", "replay", "--in", extra_cases]
        try:
            rc, log = hc.sh(args, timeout=self.timeout)
        except subprocess.TimeoutExpired:
            res["error"] = "harness %s timed out" % self.bin
            return res
        if rc != 0:
            res["error"] = "harness %s failed: %s" % (self.bin, log[-800:])
            return res
        cases = hc.read_cases(os.path.join(out, "cases.txt"))
        impl = hc.read_obs(os.path.join(out, "impl.txt"))
        ops = hc.read_obs(os.path.join(out, "ops.txt")) if os.path.exists(os.path.join(out, "ops.txt")) else {}
        res["cases"] = len(cases)
        res["evaluations"] = len(impl)
        # ---- model replay + diff
        if self.model_entry is not None:
            model = hc.run_driver(self.model_entry, ["%s %s" % kv for kv in cases.items()])
            bad = {}
            for key in set(impl) | set(model):
                if impl.get(key) != model.get(key):
                    cid, k = key
                    if cid not in bad or k < bad[cid]:
                        bad[cid] = k
            for cid, k in sorted(bad.items())[:50]:
                res["diffs"].append(dict(case=cid, step=k, case_line=cases.get(cid, ""),
                                         impl=impl.get((cid, k)), model=model.get((cid, k))))
            res["n_diffs"] = len(bad)
        # ---- non-trivial cases: some op succeeded and changed the dump
        nontriv = set()
        hist = {}
        for (cid, k), line in impl.items():
            t = line.split(" ", 3)
            cls = t[0]
            hist[cls] = hist.get(cls, 0) + 1
            if k >= 1 and cls == "0" and ops.get((cid, k), "").split(" ", 1)[0] not in ("7", "8", "11", "12"):
                prev = impl.get((cid, k - 1))
                if prev is not None and prev.split(" ", 3)[3:] != t[3:]:
                    nontriv.add(hashlib.sha1(cases.get(cid, cid).encode()).hexdigest())
        res["nontrivial"] = len(nontriv)
        res["hist"] = {"result_class": hist}
        if pid == "C18":
            for (cid, k), line in impl.items():
                if line.startswith("5 "):
                    res["oracle_fail"].append(dict(oracle="addressable", cls="an identifier below the dart count cannot be read in a registered storage",
                                                   case=cid, step=k, case_line=cases.get(cid, ""), op=ops.get((cid, k)), post=line[:300]))
        # ---- oracles on implementation observations
        for (entry, oname, cls_names) in self.oracles:
            lines = []
            for (cid, k), post in impl.items():
                if k == 0 or (cid, k) not in ops:
                    continue
                j = k - 1
                while j > 0 and ops.get((cid, j), "").split(" ", 1)[0] in ("8", "11", "12"):
                    j -= 1          # a query does not change the state: skip back over it
                pre = impl.get((cid, j))
                if pre is None:
                    continue
                pt, ot = pre.split(), ops[(cid, k)].split()
                lines.append("%s:%d %d %s %d %s %s" % (cid, k, len(pt), pre, len(ot), ops[(cid, k)], post))
            verdicts = hc.run_driver(entry, lines)
            for (key, _), v in verdicts.items():
                t = v.split()
                if t[0] == "1":
                    res["oracle_ok"] += 1
                elif t[0] == "2":
                    res["oracle_skipped"] += 1
                elif t[0] == "0":
                    cid, k = key.rsplit(":", 1)
                    code = t[1] if len(t) > 1 else "0"
                    res["oracle_fail"].append(dict(oracle=oname, cls=cls_names.get(code, code), case=cid, step=int(k),
                                                   case_line=cases.get(cid, ""), op=ops.get((cid, int(k))),
                                                   pre=impl.get((cid, int(k) - 1)), post=impl.get((cid, int(k)))))
                else:
                    res["oracle_unreadable"] += 1
        # ---- C08 pair oracle: case <x>b runs the calls one by one, case <x>a as one block
        if self.pair:
            last = {}
            for (cid, k) in impl:
                last[cid] = max(last.get(cid, 0), k)
            for cid in cases:
                if not cid.endswith("b") or cid[:-1] + "a" not in cases:
                    continue
                a = cid[:-1] + "a"
                steps = [impl[(cid, k)] for k in range(2, last[cid] + 1)]
                if not steps or any(not x.startswith("0 ") for x in steps):
                    res["oracle_skipped"] += 1
                    continue
                fa = impl.get((a, 2), "")
                if fa.split(" ", 3)[0] == "0" and fa.split(" ", 3)[3:] == steps[-1].split(" ", 3)[3:]:
                    res["oracle_ok"] += 1
                else:
                    res["oracle_fail"].append(dict(oracle="block=sequence", cls="block differs from sequence", case=a, step=2,
                                                   case_line=cases[a], sequence_case=cases[cid],
                                                   block_obs=fa, sequence_final=steps[-1]))
        for cid in list(cases)[:2]:
            res["samples"].append("%s %s" % (cid, cases[cid][:300]))
        return res


def r_kern(only, nq, nt, ops=5):
    def f(tier, seed):
        return ["--mode", "kern", "--only", only, "--cases", str({"quick": nq, "thorough": nt}[tier]), "--ops", str(ops)]
    return f


def r_core2(tier, seed):
    n = {"quick": 2000, "thorough": 50000}[tier]
    return ["--mode", "random", "--cases", str(n), "--ops", "40" if tier == "quick" else "120",
            "--darts", "12" if tier == "quick" else "48", "--fault", "10"]


def x_core2(n):
    return lambda tier, seed: ["--mode", "exhaustive", "--darts", str(n)]


PROPS = {}
NOT_YET = {}
HOOK_COMMITS = ["9877bf3e3ed6b809e1750388ee1b4a8e8957b690"]

PROPS["C01"] = dict(
    translators=True,
    level="proof",
    level_text="Coq theorem C01_history: the structural invariant is inductive over every history of editing calls, for all "
               "maps, arguments, attribute laws and injected law failures; the model it is about is tied to the code by "
               "differential runs (exhaustive <=3/4 darts, seeded random histories) and the extracted boolean twin of the "
               "spec is applied to every implementation observation",
    technique="Coq proof (inductive invariant over all histories) + model/implementation correspondence",
    families=[
        Family("core2-random", "core2", r_core2, 1, [(2, "wf2_step", {"1": "post-state ill-formed"})]),
        Family("core2-exh3", "core2", x_core2(3), 1, [(2, "wf2_step", {"1": "post-state ill-formed"})], exhaustive=True),
        Family("core2-exh4", "core2", x_core2(4), 1, [(2, "wf2_step", {"1": "post-state ill-formed"})],
               tiers=("thorough",), exhaustive=True, timeout=3000),
    ],
    trusted=["Coq 8.16.1 kernel (coqc; vm_compute in finite lemmas), no native_compute",
             "extraction (ExtrOcamlBasic, ExtrOCamlFloats, ExtrOCamlInt63) + OCaml driver",
             "Rust harness /verif/harness (generators, dumps, catch_unwind), Python comparer",
             "hand-written Gallina model of betas.rs, dim2/links, dim2/sews, dim2/basic_ops, attribute merge/split"],
    assumptions=["u32 dart ids do not wrap (model uses unbounded N)",
                 "HashMap iteration order of attribute storages is immaterial (model uses registration order)"],
)


def r_query2(tier, seed):
    n = {"quick": 600, "thorough": 8000}[tier]
    return ["--mode", "random", "--cases", str(n), "--ops", "30" if tier == "quick" else "80",
            "--darts", "10" if tier == "quick" else "40", "--query", "12", "--wild", "3"]


def x_query2(n):
    return lambda tier, seed: ["--mode", "exhq", "--darts", str(n)]


C03_CLASSES = {"1": "orbit is not head+closure", "2": "transactional orbit differs from plain orbit",
               "3": "identifier is not the minimum of the cell", "4": "cell iterator wrong"}
PROPS["C03"] = dict(
    level="proof",
    level_text="Coq theorems: the BFS worklist of orbit()/orbit_transac() computes exactly the reachability closure "
               "(head first, no repetition, never the null dart) for every well-formed 2-map, dart and policy; Vertex/Edge/Face "
               "closures are inverse-closed; vertex/edge/face ids are orbit minima, equal exactly within a cell; iterators "
               "list the self-identified in-use darts in increasing order; transactional = plain. Tied to the code by "
               "exhaustive (all well-formed maps <=4 darts) and random query runs. 3-maps: proved on every in-range store -- orbit = "
               "closure (C03_orbit3), vertex / edge / volume identifiers = orbit minima and never out of fuel (C03_*_id3); the face "
               "identifier walk, inverse-closure on mirrored maps, iterators and transactional orbits are decided per observation",
    technique="Coq proof (verified worklist = reachability closure, ids = minima) + correspondence + extracted spec oracle",
    families=[
        Family("query2-random", "core2", r_query2, 1, [(3, "orbit_spec", C03_CLASSES)]),
        Family("query2-exh3", "core2", x_query2(3), 1, [(3, "orbit_spec", C03_CLASSES)], exhaustive=True),
        Family("query2-exh4", "core2", x_query2(4), 1, [(3, "orbit_spec", C03_CLASSES)], tiers=("thorough",), exhaustive=True),
    ],
    trusted=PROPS["C01"]["trusted"][:3] + ["hand-written Gallina model of dim2/orbits.rs, dim2/basic_ops.rs (ids, iterators)"],
    assumptions=PROPS["C01"]["assumptions"],
)


def r_fault2(tier, seed):
    n = {"quick": 600, "thorough": 10000}[tier]
    return ["--mode", "fault", "--cases", str(n), "--ops", "25", "--darts", "10"]


def r_compose2(tier, seed):
    n = {"quick": 1500, "thorough": 30000}[tier]
    return ["--mode", "compose", "--cases", str(n), "--ops", "20", "--darts", "10"]


ERR_CLASSES = {"1": "state changed although the call returned an error"}
PROPS["C06"] = dict(
    level="proof",
    level_text="Coq theorems: for every program of the transactional language (core call, kernel, user block) and every "
               "position of an injected law failure, an Err/hang/panic result publishes nothing (C06_atomically, C06_step2), and "
               "the language has no handler (C06_no_catch). Tie: fault enumeration -- for each generated (state, call) one run per "
               "index k of the failing user merge/split, implementation vs model, plus the oracle 'Err => dump unchanged' on "
               "every implementation observation. 3D calls and kernels: see the families listed in the evidence",
    technique="Coq proof (atomically publishes only on Ok) + exhaustive fault-index enumeration against the implementation",
    families=[
        Family("fault2", "core2", r_fault2, 1, [(4, "err_noop", ERR_CLASSES)]),
        Family("kfault2", "core2", lambda tier, seed: ["--mode", "kfault", "--cases", str({"quick": 500, "thorough": 8000}[tier]), "--ops", "3"],
               1, [(4, "err_noop", ERR_CLASSES)]),
        Family("kern-all", "core2", r_kern("all", 800, 10000, 4), 1, [(4, "err_noop", ERR_CLASSES)]),
        Family("core2-random", "core2", r_core2, 1, [(4, "err_noop", ERR_CLASSES)]),
        Family("core2-exh3", "core2", x_core2(3), 1, [(4, "err_noop", ERR_CLASSES)], exhaustive=True),
    ],
    trusted=PROPS["C01"]["trusted"],
    assumptions=PROPS["C01"]["assumptions"] + ["fast-stm's atomically_with_err drops the write log on abort (C07 validates the STM model)"],
)

PROPS["C08"] = dict(
    level="proof",
    level_text="Coq theorems: any list of programs free of non-transactional reads, run in one atomic block, yields exactly the "
               "result and store of running them one after the other (C08_compose), and every public 2-map call is such a "
               "program (C08_calls2_no_atomic, C08_block2). Tie: each generated call list is executed on the implementation both "
               "as one block and call by call (states compared directly) and against the model",
    technique="Coq proof (block = sequence for programs without read_atomic) + block-vs-sequence differential runs",
    families=[
        Family("compose2", "core2", r_compose2, 1, [], pair=True),
        Family("kcompose2", "core2", lambda tier, seed: ["--mode", "kcompose", "--cases", str({"quick": 1200, "thorough": 20000}[tier]), "--ops", "3"],
               1, [], pair=True),
    ],
    trusted=PROPS["C01"]["trusted"],
    assumptions=PROPS["C01"]["assumptions"],
)

def r_grid2(tier, seed):
    n = {"quick": 400, "thorough": 8000}[tier]
    return ["--mode", "grid", "--cases", str(n), "--ops", "14" if tier == "quick" else "40"]


SEW_CLASSES = {"1": "sew/unsew topology differs from the corresponding link/unlink",
               "2": "C04:unchanged-cell-value-changed", "3": "merged cell does not carry the merge of the old values",
               "4": "split cells do not carry the split of the old value", "5": "value left under an identifier that stopped designating a cell",
               "6": "call succeeded although the attribute law rejects the merge/split"}
PROPS["C04"] = dict(
    translators=True,
    level="proof",
    level_text="Coq theorems C04_{one,two}_{sew,unsew}_topology: for EVERY store, dart pair, law and fault position a sew / unsew "
               "that terminates normally has exactly the effect of the corresponding link / unlink on all images and removal flags "
               "(and that link / unlink succeeds); errors change nothing "
               "(C06), and the executable specification of the data clauses (merged cells carry the merge under the new id, "
               "unchanged cells keep their value, nothing stale, split mirror) built on the verified orbit closure is applied "
               "to every implementation observation; proved as well: the data clause for coordinates through the 1-sew and the "
               "1-unsew (C04_one_sew_vertex_data / C04_one_unsew_vertex_data: the vertex identified by the orbit minimum of the "
               "linked map carries the lawful merge, the former ids are emptied, every other slot is untouched; mirror image "
               "with the split law), and through the 2-sew and the 2-unsew in their three shapes (one end, the other end, both ends "
               "= two lawful merges / splits in sequence: C04_two_sew_vertex_data_{left,right,both}, "
               "C04_two_unsew_vertex_data_{left,right,both}); and for every other registered attribute kind, with its own "
               "merge / split law and injected law failures (C04_one_sew_attr_data, C04_one_unsew_attr_data, "
               "C04_two_sew_attr_data_{none,left,right,both}, C04_two_unsew_attr_data_{none,left,right,both}: vertex-bound "
               "kinds at the ends that meet, edge-bound kinds under the edge identifiers, other kinds untouched; "
               "Map2/SewAttr.v). The Coq specification of the data clauses is moreover applied to every implementation "
               "observation (Sew2Oracle)",
    technique="Coq proof (topology clause) + extracted Coq specification of the data clauses as oracle + correspondence",
    families=[
        Family("grid2", "core2", r_grid2, 1, [(6, "sew2_spec", SEW_CLASSES)]),
        Family("core2-random", "core2", r_core2, 1, [(6, "sew2_spec", SEW_CLASSES)]),
    ],
    trusted=PROPS["C01"]["trusted"] + ["translator tools/tr_sews.py (dim2/sews/one.rs, two.rs -> Map2/GenSews.v, proved equal to the "
                                       "model's one_sew / one_unsew / two_sew / two_unsew by reflexivity: C04_sews_are_the_source)"],
    assumptions=PROPS["C01"]["assumptions"],
)

INS_CLASSES = {"1": "C14:null-dart-corrupted-or-map-ill-formed", "2": "edge not replaced by the k+1 consecutive segments",
               "3": "the two sides of the edge are not glued segment by segment",
               "4": "C14:new-vertex-not-at-requested-position", "5": "unrelated topology changed",
               "6": "another vertex or an attribute changed", "7": "invalid request accepted"}
KERNEL_TRUST = PROPS["C01"]["trusted"][:3] + [
    "hand-written Gallina transcription of the kernel (Map2/Kern2.v) on top of the core model; geometry on PrimFloat f64"]
PROPS["C14"] = dict(
    translators=True,
    level="translation_validation",
    level_text="the kernel is transcribed in Gallina (Kern2.v) and compared with the implementation on every observation; the "
               "property itself (k+1 consecutive segments, positions under the cell id, both sides glued, everything else "
               "and the null dart untouched, error clauses) is an executable Coq predicate applied to every implementation "
               "observation; proved for all inputs: atomicity of failures, and the well-formedness clause (C14_insertion_keeps_wf2, "
               "Map2/KernWf.v: on every well-formed map, every in-use edge dart and every list of distinct in-use spare darts, an "
               "insertion that terminates normally leaves a well-formed map; C14_single_insertion_keeps_wf2: the same for the "
               "single-vertex entry point insert_vertex_on_edge, its own code path, with the kernel's freeness test as the only "
               "source of distinctness; C14_single_insertion_{boundary,inner}_images: the exact images after a successful "
               "single insertion -- two consecutive segments, both sides glued segment by segment, every other image untouched; "
               "C14_single_insertion_position: the new vertex carries the point at the requested relative position (midpoint by "
               "default) under the orbit-minimum identifier of the resulting map, every other coordinate slot untouched; and for ANY "
               "number of vertices: the kernel refines a pure function on images (C14_insertion_refines_pure) which, on an interior "
               "two-dart edge, yields k+1 consecutive segments on both sides glued segment by segment, everything else untouched "
               "(C14_insertion_inner_segments, by induction over the spare darts; Map2/InsertManyTopo.v) and, on a boundary edge, "
               "k+1 consecutive segments with nothing else changed (C14_insertion_boundary_segments))",
    technique="Coq model of the kernel + correspondence + extracted Coq specification as per-run validator",
    families=[
        Family("kern-insert", "core2", r_kern("insert", 1500, 30000), 1, [(7, "insert_spec", INS_CLASSES)]),
    ],
    trusted=KERNEL_TRUST + ["translator tools/tr_kern.py (cell_insertion/vertices.rs::insert_vertex_on_edge -> Map2/GenKern.v, proved "
                            "equal to the model by reflexivity: C14_single_insertion_is_the_source); insert_vertices_on_edge stays "
                            "hand-transcribed"],
    assumptions=PROPS["C01"]["assumptions"],
)

TRI_CLASSES = {"1": "map ill-formed after triangulation", "2": "face not replaced by n-2 triangles",
               "3": "a vertex moved or a triangle uses a foreign corner", "4": "C13:triangle-orientation-or-area-wrong",
               "5": "neighbour adjacency or another face changed", "7": "fan refused a strictly convex polygon",
               "8": "ear clipping refused a simple polygon in general position"}
PROPS["C13"] = dict(
    translators=True,
    level="translation_validation",
    level_text="fan / ear-clipping kernels transcribed in Gallina (star search, ear test and index bookkeeping verbatim) and "
               "compared with the implementation; the property (n-2 triangles on the original vertices, orientation, exact "
               "area sum, untouched neighbourhood, completeness on strictly convex resp. simple polygons) is an executable Coq "
               "predicate with exact dyadic arithmetic applied to every implementation observation; proved: atomicity of "
               "failures; for every polygon, the fan triangles tile the shoelace area (C13_fan_tiles_area); and, for every closed "
               "polygon of any number of sides with pairwise distinct darts, a fan that terminates normally leaves exactly n-2 "
               "triangles, each glued to the next along the new edge, every other image untouched (C13_fan_leaves_triangles, by "
               "induction over the spare-dart pairs, after showing that the transactional program refines a pure function on "
               "images: C13_fan_refines_pure; Map2/FanTopo.v). Ear clipping: the loop refines a pure function on images whichever "
               "ears are chosen (C13_earclip_refines_pure), one clipped ear is specified exactly (C13_one_ear: the triangle closed, "
               "the new dart in its place, the gluing, everything else untouched); the global n-2 count and the completeness "
               "(two-ears theorem) are decided per observation, not proved",
    technique="Coq model of the kernels + correspondence + extracted Coq specification (exact arithmetic) as per-run validator",
    families=[
        Family("kern-tri", "core2", r_kern("tri", 2500, 40000, 2), 1, [(8, "tri_spec", TRI_CLASSES)]),
    ],
    trusted=KERNEL_TRUST + ["translator tools/tr_kern.py (triangulation/fan.rs::process_convex_cell with its loop -> Map2/GenKern.v, "
                            "proved equal to fan_convex_cell / fan_loop by reflexivity: C13_fan_convex_is_the_source); the star "
                            "search of process_cell and ear clipping stay hand-transcribed"],
    assumptions=PROPS["C01"]["assumptions"],
)

REM_CLASSES = {"1": "map ill-formed after the operation", "2": "a face is not a triangle / a vertex is undefined",
               "3": "numbers of vertices/edges/faces did not change by the operation's amounts", "4": "C15:vertex-set-wrong",
               "5": "signed area of the mesh not conserved", "6": "triangles around the collapsed vertex have mixed orientation",
               "7": "swap did not produce the two triangles around the other diagonal", "8": "a surviving cell lost or changed its anchor",
               "9": "removed darts not flagged", "10": "C15:collapse-vertex-off-midpoint"}
PROPS["C15"] = dict(
    translators=True,
    level="translation_validation",
    level_text="swap / cut / collapse (and the orientation routine, anchor algebra) transcribed in Gallina and compared with the "
               "implementation; the property (triangles stay triangles, well-formedness, V/E/F deltas, vertex set, exact area "
               "conservation, orientation after collapse, swap = other diagonal, anchors) is an executable Coq predicate "
               "applied to every implementation observation; proved: atomicity of failures, the area identities of swap and cut (C15_swap_conserves_area, C15_cut_conserves_area), "
               "and for ALL maps the well-formedness clause of swap and of both cuts (C15_swap_keeps_wf2, "
               "C15_cut_outer_keeps_wf2, C15_cut_inner_keeps_wf2, Map2/KernWf.v) -- about programs REGENERATED from swap.rs / cut.rs on "
               "every run (tools/tr_kern.py, C15_kernels_are_the_source); and the exact images after a swap and after both cuts "
               "(C15_swap_is_other_diagonal, C15_cut_outer_topology, C15_cut_inner_topology, Map2/SwapTopo.v: the two triangles "
               "l->d->a and r->b->c after a swap, the two resp. four triangles after a cut with their gluing, every other image "
               "untouched -- so triangles stay triangles and the neighbourhood keeps its adjacency); the interior collapse to the "
               "midpoint removes the six darts of the two triangles and glues their outer neighbours pairwise, nothing else "
               "changes (C15_collapse_midpoint_topology, images and removal flags) and leaves a well-formed map "
               "(C15_collapse_midpoint_keeps_wf2); the boundary half-cell of a collapse towards an end point disappears entirely with no removed dart keeping a neighbour (C15_collapse_to_base_boundary_removes_cell, the branch repaired by fix 667f50e) and leaves a well-formed map (C15_collapse_to_base_boundary_keeps_wf2) or, when its next edge is interior, hands its remaining dart to the neighbouring face (C15_collapse_to_base_inner_merges_cell, C15_collapse_to_base_inner_keeps_wf2); the whole driver collapse_edge_to_base on a boundary edge whose triangle has a second boundary side -- the unit-square configuration of the repaired defect -- has exactly the half-cell's topological effect and keeps wf2 (C15_collapse_to_base_boundary_edge_topology, _keeps_wf2; with an interior second side: C15_collapse_to_base_boundary_edge_merges, _merge_keeps_wf2); midpoint collapse of a boundary edge: C15_collapse_midpoint_boundary_edge_topology, _keeps_wf2; both half-cell routines of the collapse are regenerated from collapse.rs on every run (C15_collapse_halfcells_are_the_source), as are the two drivers that call them, collapse_edge_to_midpoint and collapse_edge_to_base (C15_collapse_drivers_are_the_source); other collapse variants: per observation",
    technique="Coq model of the kernels + correspondence + extracted Coq specification (exact arithmetic) as per-run validator",
    families=[
        Family("kern-remesh", "core2", r_kern("remesh", 1200, 20000, 8), 1, [(9, "remesh_spec", REM_CLASSES)]),
    ],
    trusted=KERNEL_TRUST + ["translator tools/tr_kern.py (remeshing/swap.rs, cut.rs -> Map2/GenKern.v, proved equal to the model's "
                            "swap_edge / cut_outer_edge / cut_inner_edge by reflexivity); collapse.rs stays hand-transcribed"],
    assumptions=PROPS["C01"]["assumptions"],
)

GEOM_LAWS = {"1": "C19:compound-assignment-differs-from-binary-operator", "2": "v - v is not exactly zero",
             "3": "(v + u) - v differs from u by more than rounding", "4": "dot product not symmetric",
             "5": "cross product not antisymmetric", "6": "cross product not orthogonal to its arguments",
             "7": "orientation product has the wrong sign outside the rounding band",
             "8": "unit_dir contract broken", "9": "normal_dir contract broken", "10": "average not symmetric / not between",
             "11": "skewness contract broken"}


def geom_family(pid, tier, seed):
    """C19: operators (model vs implementation, f64) + laws (implementation only, f64 and f32)."""
    import re, struct
    out = os.path.join(hc.BUILD, "run", pid, "geom")
    shutil.rmtree(out, ignore_errors=True)
    os.makedirs(out)
    res = dict(name="geom", evaluations=0, cases=0, nontrivial=0, diffs=[], oracle_fail=[], oracle_ok=0, oracle_skipped=0,
               oracle_unreadable=0, samples=[], hist={}, error=None, exhaustive=False)
    gen = open(os.path.join(hc.COQ, "theories", "Geom", "GenGeom.v")).read()
    m = re.search(r"Definition geom_ops : list string := \[(.*?)\]%string", gen, re.S)
    names = re.findall(r'"([^"]+)"', m.group(1))
    opsfile = os.path.join(out, "geom_ops.txt")
    open(opsfile, "w").write("\n".join(names) + "\n")
    n = {"quick": 20000, "thorough": 400000}[tier]
    rc, log = hc.sh([hc.hbin("geom"), "--out", out, "--seed", str(seed), "--cases", str(n), "--opsfile", opsfile], timeout=1500)
    if rc != 0:
        res["error"] = "geom harness failed: " + log[-500:]
        return [res]
    unc = [l for l in open(os.path.join(out, "uncovered.txt")).read().split() if l]
    if unc:
        res["error"] = "operators translated from the source but unknown to the harness: %s" % unc
    cases = hc.read_cases(os.path.join(out, "cases.txt"))
    impl = hc.read_obs(os.path.join(out, "impl.txt"))
    model = hc.run_driver(20, ["%s %s" % kv for kv in cases.items()])
    res["cases"] = len(cases)
    fl = lambda t: struct.unpack(">d", bytes.fromhex(t[1:]))[0]
    hist = {}
    for (cid, k), line in impl.items():
        opi = int(cases[cid].split()[0])
        nm = names[opi]
        hist[nm] = hist.get(nm, 0) + 1
        mo = model.get((cid, 0))
        if mo == line:
            continue
        ok = False
        if nm.endswith("_norm") and mo is not None:
            # hypot / sqrt come from libm: tolerance of 4 ulp instead of bit equality
            a, b = [fl(t) for t in line.split()], [fl(t) for t in mo.split()]
            ok = len(a) == len(b) and all(abs(x - y) <= 4 * 2.0 ** -52 * max(abs(x), abs(y), 1e-300) for x, y in zip(a, b))
        if not ok and len(res["diffs"]) < 50:
            res["diffs"].append(dict(case=cid, step=0, op=nm, case_line=cases[cid], impl=line, model=mo))
    res["hist"] = {"operator": hist}
    res["nontrivial"] = len(set(cases.values()))
    laws = [l.rstrip("\n") for l in open(os.path.join(out, "laws.txt"))]
    verd = hc.run_driver(21, laws)
    lhist = {}
    bylaw = {l.split(" ", 1)[0]: l for l in laws}
    for (lid, _), v in verd.items():
        t = v.split()
        lhist[t[1] if len(t) > 1 else "?"] = lhist.get(t[1] if len(t) > 1 else "?", 0) + 1
        if t[0] == "1":
            res["oracle_ok"] += 1
        elif t[0] == "0":
            line = bylaw[lid]
            res["oracle_fail"].append(dict(oracle="geom_law", cls=GEOM_LAWS.get(t[1], t[1]), case=lid, step=0, case_line=line,
                                           decoded=[fl(x) if x.startswith("f") else x for x in line.split()[1:]][:24]))
        else:
            res["oracle_unreadable"] += 1
    res["hist"]["laws_checked"] = lhist
    res["evaluations"] = len(impl) + len(laws)
    res["samples"] = ["%s %s" % kv for kv in list(cases.items())[:2]] + laws[:2]
    return [res]


PROPS["C19"] = dict(
    level="proof",
    level_text="the vector/vertex operator impls, dot, cross, average, orientation product are TRANSLATED from the Rust source on "
               "every run (tools/tr_geom.py) into Gallina over an abstract scalar; proved: every compound assignment = its "
               "binary operator (any scalar), v - v = +0 in IEEE arithmetic of any format (Flocq), and over the rationals the "
               "exact identities behind the 'up to rounding' clauses (add/sub, dot symmetry, cross antisymmetry and "
               "orthogonality, orientation = determinant, average symmetric and between). Rounding bounds, unit/normal "
               "direction and skewness clauses: extracted Coq law checker (exact dyadic arithmetic) on every implementation "
               "observation, f64 and f32 (partial, see DESIGN.md)",
    technique="translator (Rust -> Gallina) + Coq proofs over Q and Flocq + extracted law checker on implementation observations",
    translators=True,
    families=[],
    extra=[geom_family],
    trusted=["Coq 8.16.1 kernel; Flocq 4.1.0", "translator tools/tr_geom.py", "extraction + OCaml driver",
             "Rust harness geom.rs (operand pools, one closure per operator name)",
             "hypot/sqrt/acos of libm are outside the repository (norm compared with 4 ulp tolerance)"],
    assumptions=["no overflow / underflow in the sampled operands (moderate magnitudes)"],
)

GRID_CLASSES = {"1": "wrong result class or dart count", "2": "grid map ill-formed", "3": "topology differs from the regular mesh",
                "4": "a vertex is not at its lattice point", "5": "wrong number of vertices", "6": "a face is not counter-clockwise",
                "7": "face area differs from lx*ly", "8": "invalid descriptor accepted", "9": "C12:zero-count-panics"}


def grid_family(pid, tier, seed):
    out = os.path.join(hc.BUILD, "run", pid, "grid")
    shutil.rmtree(out, ignore_errors=True)
    os.makedirs(out)
    res = dict(name="grid2-box", evaluations=0, cases=0, nontrivial=0, diffs=[], oracle_fail=[], oracle_ok=0, oracle_skipped=0,
               oracle_unreadable=0, samples=[], hist={}, error=None, exhaustive=True)
    box = {"quick": 5, "thorough": 9}[tier]
    rc, log = hc.sh([hc.hbin("grid"), "--out", out, "--box", str(box)], timeout=1500)
    if rc != 0:
        res["error"] = "grid harness failed: " + log[-500:]
        return [res]
    cases = hc.read_cases(os.path.join(out, "cases.txt"))
    impl = hc.read_obs(os.path.join(out, "impl.txt"))
    model = hc.run_driver(30, ["%s %s" % kv for kv in cases.items()])
    res["cases"] = len(cases)
    res["evaluations"] = len(impl)
    hist = {}
    for (cid, k), line in impl.items():
        hist[line.split()[0]] = hist.get(line.split()[0], 0) + 1
        if model.get((cid, 0)) != line and len(res["diffs"]) < 50:
            res["diffs"].append(dict(case=cid, step=0, case_line=cases[cid], impl=line[:300], model=(model.get((cid, 0)) or "")[:300]))
    res["hist"] = {"result_class": hist}
    res["nontrivial"] = sum(1 for l in impl.values() if l.startswith("0 ") and len(l.split()) > 12)
    orc = [l.rstrip("\n") for l in open(os.path.join(out, "orc.txt"))]
    verd = hc.run_driver(31, orc)
    byid = {l.split(" ", 1)[0]: l for l in orc}
    for (cid, _), v in verd.items():
        t = v.split()
        if t[0] == "1":
            res["oracle_ok"] += 1
        elif t[0] == "2":
            res["oracle_skipped"] += 1
        elif t[0] == "0":
            res["oracle_fail"].append(dict(oracle="grid2_spec", cls=GRID_CLASSES.get(t[1], t[1]), case=cid, step=0,
                                           case_line=cases[cid], obs=impl.get((cid, 0), "")[:400]))
        else:
            res["oracle_unreadable"] += 1
    # the three descriptor forms give the same mesh
    for l in open(os.path.join(out, "groups.txt")):
        ids = l.split()[1:]
        d0 = impl.get((ids[0], 0))
        if any(impl.get((i, 0)) != d0 for i in ids[1:]):
            res["oracle_fail"].append(dict(oracle="descriptor-forms", cls="the three descriptor forms give different meshes", case=ids[0],
                                           step=0, case_line=" | ".join(cases[i] for i in ids)))
        else:
            res["oracle_ok"] += 1
    res["samples"] = ["%s %s" % kv for kv in list(cases.items())[:3]]
    return [res]


PROPS["C12"] = dict(
    level="proof",
    level_text="the beta tables of the 2D builders are TRANSLATED from grid.rs on every run (tools/tr_grid.py); Coq theorems, for "
               "ALL positive sizes: the generated tables equal the specification tables (index bijection + finite table "
               "facts), the resulting map is well-formed, faces are the per-cell cycles, neighbours are glued exactly along "
               "shared sides with a free rim. Vertex positions/counts, orientation/area, descriptor equivalence, error "
               "clauses: exhaustive box of sizes, model vs implementation and extracted oracle. 3D builder: the hex table is "
               "translated too and proved, for ALL positive sizes, to be the closed-form hexahedral mesh and a well-formed 3-map "
               "with mirrored glued faces (C12_hex_grid_wf, C12_hex_table_is_spec, Build/Grid3.v); the translated table is replayed "
               "against the implementation for every size of a box and the extracted validator grid3_spec checks hexahedra, "
               "lattice vertices and face gluing on every grid (vertex positions in 3D: per observation + the corner table lemma)",
    technique="translator (Rust tables -> Gallina) + Coq proof for all sizes + exhaustive-box correspondence and oracle",
    translators=True,
    families=[],
    extra=[grid_family],
    trusted=["Coq 8.16.1 kernel", "translator tools/tr_grid.py", "extraction + OCaml driver", "Rust harness grid.rs",
             "hand-written model of parse_2d and of the vertex placement loops (GridRun.v)"],
    assumptions=["usize arithmetic does not overflow for the sizes at hand (model uses Z)"],
)

RT_CLASSES = {"1": "rebuilt map has another dart count", "2": "rebuilt images differ", "3": "rebuilt removed-dart set differs",
              "4": "rebuilt coordinates differ", "5": "second serialization differs from the first", "6": "serialized text refused by the builder"}
IO_TRUST = PROPS["C01"]["trusted"][:3] + [
    "hand-written Gallina model of serialize / CMapFile::try_from / build_2d_from_cmap_file at the level of lexed items (IO/CMapText.v)",
    "the lexical layer (trim, comments, brackets, split_whitespace, decimal and float Display/FromStr) is re-implemented by the harness lexer and exercised, not modelled"]
PROPS["C09"] = dict(
    level="proof",
    level_text="Coq theorem C09_roundtrip_items: for EVERY well-formed 2-map below 2^32 slots (any removed darts, vertices defined "
               "or not) the Gallina transcription of build_2d_from_cmap_file applied to the items the transcription of serialize "
               "writes succeeds and returns the same images, removal flags and vertex coordinates -- under two stated hypotheses "
               "about the lexical layer (a printed coordinate reads back as itself, a vertex is rebuilt from its coordinates). Tie: "
               "serialize and the builder are compared with the implementation at the level of lexed items (lexed text, rebuilt "
               "map, second serialization) on histories with open / closed cells, isolated and removed darts, undefined "
               "vertices; the round-trip predicate is also applied to every implementation observation, byte equality of the "
               "two texts being decided on the implementation itself. The text layout (columns, comments) is below the model",
    technique="Coq model at item level + correspondence + extracted round-trip oracle",
    families=[
        Family("io2-random", "core2", lambda tier, seed: ["--mode", "random", "--cases", str({"quick": 1500, "thorough": 30000}[tier]),
                                                          "--ops", "30", "--darts", "14" if tier == "quick" else "120", "--io", "15", "--wild", "0"],
               1, [(42, "roundtrip", RT_CLASSES)]),
        Family("io2-big", "core2", lambda tier, seed: ["--mode", "random", "--cases", "12", "--ops", "60", "--darts", "1100", "--io", "10", "--wild", "0", "--tag", "B"],
               1, [(42, "roundtrip", RT_CLASSES)]),
    ],
    trusted=IO_TRUST,
    assumptions=["f32 maps: widening to f64 and narrowing back is the identity (not modelled)"],
)


def parse_family(pid, tier, seed):
    out = os.path.join(hc.BUILD, "run", pid, "parse")
    shutil.rmtree(out, ignore_errors=True)
    os.makedirs(out)
    res = dict(name="parse2", evaluations=0, cases=0, nontrivial=0, diffs=[], oracle_fail=[], oracle_ok=0, oracle_skipped=0,
               oracle_unreadable=0, samples=[], hist={}, error=None, exhaustive=False)
    n = {"quick": 4000, "thorough": 80000}[tier]
    rc, log = hc.sh([hc.hbin("core2"), "--out", out, "--seed", str(seed), "--mode", "parse", "--cases", str(n), "--ops", "25", "--darts", "10"], timeout=1500)
    if rc != 0:
        res["error"] = "parse harness failed: " + log[-500:]
        return [res]
    cases = hc.read_cases(os.path.join(out, "cases.txt"))
    impl = hc.read_obs(os.path.join(out, "impl.txt"))
    model = hc.run_driver(40, ["%s %s" % kv for kv in cases.items()])
    res["cases"] = len(cases)
    res["evaluations"] = len(impl)
    hist = {}
    for (cid, k), line in impl.items():
        hist[line.split()[0]] = hist.get(line.split()[0], 0) + 1
        if model.get((cid, 0)) != line and len(res["diffs"]) < 50:
            res["diffs"].append(dict(case=cid, step=0, case_line=cases[cid][:600], impl=line[:300], model=(model.get((cid, 0)) or "")[:300]))
    res["hist"] = {"result_class (0 ok, 1 error, 2 panic, 4 layout refused)": hist}
    res["nontrivial"] = len(set(cases.values()))
    verd = hc.run_driver(41, ["%s %s -7 %s" % (cid, cases[cid], impl[(cid, 0)]) for cid in cases])
    names = {"1": "C10:ill-formed-map-accepted", "2": "C10:builder-panics"}
    for (cid, _), v in verd.items():
        t = v.split()
        if t[0] == "1":
            res["oracle_ok"] += 1
        elif t[0] == "2":
            res["oracle_skipped"] += 1
        elif t[0] == "0":
            res["oracle_fail"].append(dict(oracle="cmap_build", cls=names.get(t[1], t[1]), case=cid, step=0,
                                           case_line=cases[cid][:800], obs=impl[(cid, 0)][:400]))
        else:
            res["oracle_unreadable"] += 1
    res["samples"] = ["%s %s" % kv for kv in list(cases.items())[:2]]
    return [res]


PROPS["C10"] = dict(
    level="proof",
    level_text="Coq theorem C10_total: for EVERY list of lexed items the Gallina transcription of the file loader and of "
               "build_2d_from_cmap_file (every Vec index and assert an explicit panic) returns an error or a well-formed map, "
               "never a panic. The model is compared with the implementation on mutated and random texts, and the extracted "
               "wf2b is applied to every map the implementation returns. The lexical layer is exercised, not modelled",
    technique="Coq proof (totality + well-formedness of the loader model) + correspondence on mutated texts + extracted oracle",
    families=[],
    extra=[parse_family],
    trusted=IO_TRUST,
    assumptions=["a META dart count large enough to exhaust memory is a resource failure outside the model"],
)

def r_core3(mode, nq, nt, ops=25, extra=()):
    def f(tier, seed):
        return ["--mode", mode, "--cases", str({"quick": nq, "thorough": nt}[tier]), "--ops", str(ops)] + list(extra)
    return f


WF3_CLASSES = {"1": "3-map ill-formed after an in-contract call", "2": "C02:non-mirrorable-faces-3-linked"}
MAP3_TRUST = PROPS["C01"]["trusted"][:3] + [
    "hand-written Gallina model of dim3/{links,sews,basic_ops,orbits}.rs (Map3/Ops3.v); hex grids from the translated tables"]
PROPS["C02"] = dict(
    translators=True,
    level="proof",
    level_text="Coq theorem C02_history: the 3-map invariant (wf3 with the mirror clause + slots beyond n_darts blank) is kept by EVERY "
               "history of public calls -- allocation, slot reuse, removal, link / unlink / sew / unsew in dimensions 1, 2, 3, data "
               "writes, own-transaction or block form, any attribute laws, any injected law failure, any outcome -- made with "
               "non-null in-use darts (distinct for 2- and 3-links). The 3-link is proved through its lock-step walks "
               "(C02_three_link: every core of the walk found its darts 3-free, so the glued darts are pairwise distinct -- a dart "
               "glued to itself makes the next step fail -- and the tests that end the walks close the glued family under the "
               "successors of both faces with the mirror orientation); 1-links use the 2-map lemmas plus the mirror clause; sews "
               "are a link between data-only programs. The oracle wf3b decides exactly wf3 (C02_oracle_wf3); the link cores are "
               "the programs regenerated from betas.rs. Tie: the Gallina transcription of every 3-map call is compared with the "
               "implementation (random histories, edits of hexahedral grids, all pairs of closed / open faces of 1-5 sides), wf3b "
               "and the refusal of non-mirrorable faces are applied to every implementation observation. The refusal clause is proved "
               "too (C02_refuses_non_mirrorable: on faces that cannot be mirrored a 3-link / 3-sew never succeeds and changes "
               "nothing; that the outcome is an error value is shown by the correspondence on every explored input)",
    technique="Coq model of the 3-map calls + correspondence + extracted wf3 / mirrorable oracle",
    families=[
        Family("core3-random", "core3", r_core3("random", 1200, 25000, 25, ["--darts", "10"]), 50, [(51, "wf3_step", WF3_CLASSES)]),
        Family("core3-hex", "core3", r_core3("hex", 250, 4000, 15), 50, [(51, "wf3_step", WF3_CLASSES)]),
        Family("core3-faces", "core3", r_core3("faces", 1, 1), 50, [(51, "wf3_step", WF3_CLASSES)], exhaustive=True),
    ],
    trusted=MAP3_TRUST,
    assumptions=PROPS["C01"]["assumptions"],
)

SEW3_CLASSES = {"1": "topology differs from the corresponding link", "2": "untouched cell changed value",
                "3": "merged cell does not carry the merge of the former values", "4": "split cells do not carry the split",
                "5": "value left under an identifier that designates no cell", "6": "accepted although the update law rejects",
                "7": "C05:unsew-refused-on-embedded-mesh"}
PROPS["C05"] = dict(
    translators=True,
    level="translation_validation",
    level_text="proved for all inputs: a refused sew publishes nothing, and the topology clause -- on every store a 3D sew / unsew of "
               "dimension 1, 2, 3 that terminates normally changes images and removal flags exactly as the link / unlink does "
               "(C05_*_topology, Map3/SewTopo3.v: data-only prefix ; topology-determined link, walks included ; data-only suffix). "
               "Proved as well: the data clause for coordinates through the 2-sew and the 2-unsew (regenerated from "
               "dim3/sews/two.rs) in their three shapes -- C05_two_sew_vertex_data_{left,right,both}, "
               "C05_two_unsew_vertex_data_{left,right,both} (Map3/SewData3.v: orbit-minimum identifiers, lawful merge / split, "
               "former identifiers emptied, other slots untouched, on every in-range store), and for every other registered attribute "
               "kind, edge- and vertex-bound (C05_two_sew_attr_data_{none,left,right,both}, C05_two_unsew_attr_data_*). "
               "Other data clauses per observation: the 3D sews/unsews are transcribed in Gallina (Map3/Ops3.v) and compared "
               "with the implementation; the property is the executable Coq specification Sew3Oracle.oracle_sew3 (topology = the "
               "link's; per cell kind, merged cells carry the merge under the new id, untouched cells keep their value, no value "
               "under a dead id; unsew succeeds on fully embedded meshes) applied to every implementation observation, cells being "
               "computed with the verified closure",
    technique="Coq model of the 3D sews + correspondence + extracted sew specification oracle",
    families=[
        Family("core3-cells", "core3", r_core3("cells", 600, 10000, 12), 50, [(53, "sew3_spec", SEW3_CLASSES)]),
        Family("core3-cellsx", "core3", lambda tier, seed: ["--mode", "cellsx", "--darts", {"quick": "40", "thorough": "80"}[tier]], 50,
               [(53, "sew3_spec", SEW3_CLASSES)], exhaustive=True),
        Family("core3-hex", "core3", r_core3("hex", 400, 6000, 15), 50, [(53, "sew3_spec", SEW3_CLASSES)]),
        Family("core3-random", "core3", r_core3("random", 600, 10000, 25, ["--darts", "10"]), 50, [(53, "sew3_spec", SEW3_CLASSES)]),
    ],
    trusted=MAP3_TRUST + ["translator tools/tr_sews.py (dim3/sews/two.rs -> Map3/GenSews3.v = the model's two_sew3 / two_unsew3 by "
                          "reflexivity: C05_two_sews_are_the_source); the 3D 1-sew and 3-sew stay hand-transcribed"],
    assumptions=PROPS["C01"]["assumptions"],
)

ALLOC_CLASSES = {"1": "allocation id or counts wrong", "2": "appended slot not blank", "3": "C18:stale-slot-on-reuse",
                 "4": "removal wrongly accepted or refused", "5": "unrelated state changed by allocation/removal",
                 "6": "reused slot not free or still flagged"}
PROPS["C18"] = dict(
    level="proof",
    level_text="Coq theorems C18_append / C18_insert / C18_remove / C18_addressable over the allocation invariant (preserved "
               "by every history, C01): ids fresh and non-null, counters, first-flagged-slot reuse, refusal of linked or removed "
               "darts, addressability; iterator/orbit clause = C03_iter/C03_in_use. Tie: random histories + exhaustive <=3 darts, "
               "model vs implementation, and the extracted step oracle on every allocation/removal observation",
    technique="Coq proof (allocation invariant over all histories) + correspondence + extracted step oracle",
    families=[
        Family("core2-random", "core2", r_core2, 1, [(5, "alloc_step", ALLOC_CLASSES)]),
        Family("core2-exh3", "core2", x_core2(3), 1, [(5, "alloc_step", ALLOC_CLASSES)], exhaustive=True),
    ],
    trusted=PROPS["C01"]["trusted"],
    assumptions=PROPS["C01"]["assumptions"] + ["attribute writes at identifiers >= n_darts are outside the API contract (spare_untouched)"],
)

SERIAL_CLASSES = {"1": "a thread panicked inside a transaction", "2": "a thread did not terminate (retry loop / deadlock)",
                  "3": "no one-at-a-time order of the committed transactions gives the final map"}
PROPS["C07"] = dict(
    translators=True,
    level="proof",
    level_text="Coq theorem C07_serializable: in the fast-stm protocol machine (per-variable versions, first reads logged, validation of "
               "all logged reads at commit, atomic publication, abort/panic publish nothing) EVERY schedule of ANY workload of programs "
               "without non-transactional reads leaves the store equal to the one-at-a-time execution of the committed transactions in "
               "commit order with the same return values; only a validated commit publishes (C07_only_commit_publishes, "
               "C07_commit_only_if_valid); every public 2-map/3-map call and kernel satisfies the premise (C07_premise_*). Tie: the same "
               "machine, extracted, replays the grant sequence of a deterministic scheduler driving the real code (fast-stm rebuilt from "
               "the registry source with yield points): labels, per-transaction results, commit order and final map must agree; the "
               "serializability oracle is also applied to the implementation's observation alone. Partial w.r.t. the runtime: locks, "
               "Arc reclamation and memory ordering inside commit are not modelled (commit is one step)",
    technique="Coq proof (protocol-level serializability for all schedules) + schedule-controlled correspondence + extracted oracle",
    families=[
        Family("sched-exh", "sched", lambda tier, seed: ["--mode", "exh", "--cases", {"quick": "60", "thorough": "600"}[tier],
                                                         "--maxsched", {"quick": "120", "thorough": "1500"}[tier]], 60,
               [(61, "serial", SERIAL_CLASSES)], crate="harness-sched"),
        Family("sched-pb", "sched", lambda tier, seed: ["--mode", "pb", "--cases", {"quick": "60", "thorough": "500"}[tier],
                                                        "--maxsched", {"quick": "40", "thorough": "120"}[tier]], 60,
               [(61, "serial", SERIAL_CLASSES)], crate="harness-sched"),
        Family("sched-random", "sched", lambda tier, seed: ["--mode", "random", "--cases", {"quick": "150", "thorough": "3000"}[tier],
                                                            "--scheds", {"quick": "6", "thorough": "12"}[tier]], 60,
               [(61, "serial", SERIAL_CLASSES)], crate="harness-sched"),
    ],
    trusted=PROPS["C01"]["trusted"] + ["sched/make_vendor.py: exact-text insertion of yield points into the registry copy of fast-stm "
                                       "(fails if the source differs); harness-sched scheduler"],
    assumptions=["commit (lock acquisition in address order, validation, publication, wake-ups) is one atomic step of the model",
                 "parking_lot, Arc reclamation, memory ordering and OS scheduling are below the model",
                 "retry() yields instead of blocking when run under the scheduler"],
)

VTK_CLASSES = {"1": "export or import failed on a mesh within the premise", "2": "vertex coordinates differ", "3": "faces differ",
               "4": "interior adjacency differs", "5": "boundary differs", "6": "imported map ill-formed", "7": "C11:slit-resewn"}
PROPS["C11"] = dict(
    level="translation_validation",
    level_text="per-run validator written in Coq: Extract/VtkOracle.v describes a mesh up to dart renaming (multiset of vertex "
               "coordinates, faces as cyclic coordinate sequences with orientation, interior sides with the two faces they separate, "
               "boundary sides) and decides, on the implementation's own observations, (a) exported-then-imported map = original mesh "
               "for grids, split grids, remeshed triangle meshes, polygons up to 12 sides, ASCII and binary, and (b) imported map = "
               "the mesh of a conforming cell list (triangles, quads, polygons over lattice points; non-conforming lists skipped). "
               "Proved: the validator's multiset comparison is sound (C11_validator_multiset_sound). No model of the exporter / "
               "importer is claimed; f32 coordinates are not exercised",
    technique="Coq-defined mesh-isomorphism validator applied to every export/import and import run (+ soundness lemma of its multiset comparison)",
    families=[
        Family("vtk-roundtrip", "vtk", lambda tier, seed: ["--mode", "roundtrip", "--cases", {"quick": "400", "thorough": "6000"}[tier]], None,
               [(70, "vtk_roundtrip", VTK_CLASSES)]),
        Family("vtk-import", "vtk", lambda tier, seed: ["--mode", "import", "--cases", {"quick": "400", "thorough": "6000"}[tier]], None,
               [(71, "vtk_import", VTK_CLASSES)]),
    ],
    trusted=PROPS["C01"]["trusted"][:3] + ["vtkio (writer and parser) is exercised, not modelled"],
    assumptions=["meshes with faces of fewer than three sides, undefined vertices or an ill-formed map are outside the premise (skipped)",
                 "coordinates are f64; points of import lists lie on a small integer lattice"],
)

GRIS_CLASSES = {"1": "refused or crashed on a closed, consistently oriented, simple boundary", "2": "result ill-formed, not fully embedded or with an open face",
                "3": "negatively oriented face", "4": "faces do not tile the grid rectangle", "5": "a retained point of interest is not a vertex",
                "6": "a crossing of the boundary with a grid line is not a vertex", "7": "kept area differs from the area of the kept side",
                "8": "mis-oriented boundary accepted", "9": "an input segment is not covered by free boundary edges of the kept mesh",
                "10": "C16:loop-inside-one-cell-dropped",
                "11": "capture or classification refused a valid boundary", "12": "a vertex, edge or face has no anchor",
                "13": "a point of interest is not a vertex anchored to a node", "14": "edge or face anchored to the wrong kind of entity",
                "15": "vertex anchored to the wrong kind of entity", "16": "faces connected without crossing a curve have different surfaces",
                "17": "boundary edges not separated by a node have different curves",
                "18": "C16:dropped-corner-chords-cross",
                "19": "two different boundary curves carry the same curve identifier",
                "20": "C16:dropped-corner-chord-on-grid-line"}
VALIDATOR_TRUST = PROPS["C01"]["trusted"][:3] + ["vtkio (reader of the geometry file) is exercised, not modelled",
                                                 "the kernel itself is not modelled: only its outputs are validated"]
PROPS["C16"] = dict(
    level="translation_validation",
    level_text="per-run validator written in Coq (Extract/GrisOracle.check16, exact dyadic arithmetic, tolerance 2^-30 for computed "
               "intersection points): for seeded simple polygons (star-shaped and 2-opt random, optionally a second loop), cell sizes "
               "0.5/1/2 (also anisotropic), three clip modes, clockwise and mis-oriented variants, arbitrary subsets of corners as "
               "points of interest, it checks on the map returned by grisubal: well-formed, fully embedded, closed faces, no negative "
               "face, (no clip) faces tile the grid rectangle exactly and every boundary/grid-line crossing and retained PoI is a "
               "vertex, (clip, all corners PoI) kept area = area of the kept side and every input segment covered by free boundary "
               "edges; mis-oriented boundaries must be rejected. Proved: the rejection premise is the property's wording "
               "(C16_misoriented_spec). The kernel is not modelled (partial, see DESIGN.md C16)",
    technique="Coq-defined validator with exact arithmetic applied to every grisubal run",
    families=[Family("grisubal", "gris", lambda tier, seed: ["--mode", "grisubal", "--cases", {"quick": "300", "thorough": "5000"}[tier]], None,
                     [(80, "grisubal_spec", GRIS_CLASSES)])],
    trusted=VALIDATOR_TRUST,
    assumptions=["general position w.r.t. the grid is obtained by construction (per-vertex fractional offsets) and by the kernel's own origin shift",
                 "tolerance 2^-30 (relative to segment length) for points computed by the kernel; areas compared within 2^-24"],
)
PROPS["C17"] = dict(
    level="translation_validation",
    level_text="per-run validator written in Coq (Extract/GrisOracle.check17) on the anchors of the map returned by capture_geometry + "
               "classify_capture, for the same seeded boundaries with the clip mode that keeps the bounded region: every vertex / edge / "
               "face of in-use darts anchored; each PoI a vertex anchored to a node; boundary edges on curves, interior edges and faces "
               "on surfaces; boundary vertices on nodes or curves, interior vertices on surfaces; adjacent faces share their surface; "
               "consecutive boundary edges not separated by a node share their curve, and edges carrying one curve identifier lie on one stretch. Proved: meaning of the anchor-kind test "
               "(C17_has_dim_spec). The kernels are not modelled (partial, see DESIGN.md C17)",
    technique="Coq-defined validator applied to every capture + classification run",
    families=[Family("capture", "gris", lambda tier, seed: ["--mode", "capture", "--cases", {"quick": "300", "thorough": "5000"}[tier]], None,
                     [(81, "capture_spec", GRIS_CLASSES)])],
    trusted=VALIDATOR_TRUST,
    assumptions=["clip modes that keep the unbounded side are outside the property (skipped)"],
)

SCENE_CLASSES = {"1": "the extraction system crashed on a map within the premise", "2": "coordinate table differs from the map's coordinates",
                 "3": "vertex entities", "4": "edge entities", "5": "face entities", "6": "dart entities",
                 "7": "a face-corner normal is missing, superfluous, not finite or not a unit vector",
                 "8": "a volume normal is missing, superfluous, not finite or not a unit vector"}
PROPS["C20"] = dict(
    level="translation_validation",
    level_text="per-run validator written in Coq (Extract/SceneOracle2/3): a headless bevy App runs the start-up systems "
               "extract_data_from_map / extract_data_from_3d_map on generated maps (grids, split grids, remeshed triangle meshes, convex "
               "and non-convex polygons with boundary darts; hex grids and tet/prism/hex complexes partly 3-sewn); the validator checks "
               "one vertex / edge / face entity per cell with the map's identifiers, one dart entity per in-use dart of a face with its "
               "own four identifiers, every stored index pointing at the right row, the table equal to the map's coordinates (f32), and "
               "every stored normal a finite unit vector. Proved: the validator's row lookup (C20_index_of_spec). The ECS plumbing and "
               "the systems themselves are not modelled",
    technique="Coq-defined validator applied to the scene extracted by a headless bevy App",
    families=[
        Family("scene2", "scene", lambda tier, seed: ["--mode", "scene2", "--cases", {"quick": "300", "thorough": "5000"}[tier]], None,
               [(90, "scene2_spec", SCENE_CLASSES)], crate="harness-render"),
        Family("scene3", "scene", lambda tier, seed: ["--mode", "scene3", "--cases", {"quick": "150", "thorough": "2500"}[tier]], None,
               [(91, "scene3_spec", SCENE_CLASSES)], crate="harness-render"),
    ],
    trusted=PROPS["C01"]["trusted"][:3] + ["bevy App / World (entity spawning, queries) is exercised, not modelled",
                                          "hook Dart::verif_ends (cfg honeycomb_verif) exposes the crate-private start/end indices"],
    assumptions=["non-degenerate = faces of at least three sides, consecutive corners distinct, no 180-degree reversal (2D) / no collinear corner (3D)",
                 "coordinates compared after f32 conversion with relative tolerance 2^-20; |n|^2 within 2^-10 of 1"],
)

# ---- 3-map families of the cross-dimensional properties
C03_CLASSES3 = {"1": "orbit differs from the closure of the policy's generators and inverses", "2": "transactional orbit differs from the plain one",
                "3": "cell identifier is not the smallest dart of the cell", "4": "cell iterator wrong",
                "5": "identifier query wrong when asked right after another identifier query"}
PROPS["C03"]["families"] += [
    Family("query3-random", "core3", r_core3("random", 500, 8000, 20, ["--darts", "9", "--query", "12"]), 50, [(54, "orbit_spec3", C03_CLASSES3)]),
    Family("query3-cells", "core3", r_core3("cells", 150, 2500, 10, ["--query", "15"]), 50, [(54, "orbit_spec3", C03_CLASSES3)]),
    Family("query3-hex", "core3", lambda tier, seed: ["--mode", "hexq", "--darts", {"quick": "2", "thorough": "3"}[tier]], 50,
           [(54, "orbit_spec3", C03_CLASSES3)], exhaustive=True),
]
PROPS["C03"]["trusted"] = PROPS["C03"]["trusted"] + MAP3_TRUST[3:]
PROPS["C06"]["families"] += [
    Family("fault3", "core3", r_core3("random", 500, 8000, 25, ["--darts", "10", "--fault", "35"]), 50, [(52, "err_noop3", ERR_CLASSES)]),
    Family("fault3-cells", "core3", r_core3("cells", 300, 5000, 12, ["--fault", "35"]), 50, [(52, "err_noop3", ERR_CLASSES)]),
    Family("core3-faces", "core3", r_core3("faces", 1, 1), 50, [(52, "err_noop3", ERR_CLASSES)], exhaustive=True),
]
PROPS["C06"]["trusted"] = PROPS["C06"]["trusted"] + MAP3_TRUST[3:]
PROPS["C06"]["families"] += [
    Family("fault3-enum", "core3", r_core3("fault", 400, 6000, 10, ["--darts", "10"]), 50, [(52, "err_noop3", ERR_CLASSES)]),
]
PROPS["C08"]["families"] += [
    Family("compose3", "core3", r_core3("compose", 1200, 25000, 10, ["--darts", "10"]), 50, [], pair=True),
]
PROPS["C08"]["trusted"] = PROPS["C08"]["trusted"] + MAP3_TRUST[3:]
GRID3_CLASSES = {"1": "hex grid ill-formed", "2": "dart or volume count differs from nx*ny*nz hexahedra",
                 "3": "a volume is not a hexahedron", "4": "vertex count wrong, or a vertex off the lattice or duplicated",
                 "5": "volumes not glued exactly on their shared faces"}
PROPS["C12"]["families"] += [
    Family("grid3-hex", "core3", lambda tier, seed: ["--mode", "hexq", "--darts", {"quick": "3", "thorough": "4"}[tier]], 50,
           [(32, "grid3_spec", GRID3_CLASSES)], exhaustive=True),
]
PROPS["C18"]["families"] += [
    Family("core3-random", "core3", r_core3("random", 1200, 25000, 25, ["--darts", "10"]), 50, [(55, "alloc_step3", ALLOC_CLASSES)]),
]
PROPS["C18"]["trusted"] = PROPS["C18"]["trusted"] + MAP3_TRUST[3:]


def trusted_base(cfg, pr):
    tb = list(cfg.get("trusted", []))
    tb.append("axioms reported by Print Assumptions: %s" % (", ".join(pr["axioms"]) if pr["axioms"] else "none (closed under the global context)"))
    return tb


def check(pid, tier, seed):
    t0 = time.time()
    if pid not in PROPS:
        print("unknown property", pid)
        return 2
    cfg = PROPS[pid]
    ev_path = os.path.join(V, "evidence", pid + ".json")
    os.makedirs(os.path.dirname(ev_path), exist_ok=True)
    # 1. translators + proofs
    tr_msgs = hc.regenerate() if cfg.get("translators") else []
    pr = hc.prove(pid)
    # 2. builds
    ok, log = hc.coq_make("theories/Extract/Entry.vo")
    if not ok:
        # the model (possibly its generated parts) no longer compiles: the tie to the code is broken
        print("model does not compile:\n" + log[-1500:])
        path = hc.write_replay(pid, dict(property=pid, kind="broken-tie", what="the Coq model (with the parts regenerated from /repo) does not compile", log=log[-3000:]))
        print("VIOLATION property=%s replay=%s no-failing-input-found" % (pid, path))
        return 1
    ok, log = hc.build_ml()
    if not ok:
        print("INFRA: model extraction/build failed\n" + log[-2000:])
        return 2
    for crate in sorted(set([f.crate for f in cfg["families"]] + cfg.get("crates", ["harness"]))):
        ok, log = hc.build_harness(crate)
        if not ok:
            # the harness is built against /repo's public API: a compile failure is a broken tie
            print("harness build failed:\n" + log[-3000:])
            path = hc.write_replay(pid, dict(property=pid, kind="broken-tie", what="harness does not build against /repo", log=log[-3000:]))
            print("VIOLATION property=%s replay=%s no-failing-input-found" % (pid, path))
            return 1
    # 3. families (two runs of the same property share .build/run/<id>: one at a time; the lock goes with the process)
    run_lock = hc.Lock("run-" + pid)
    run_lock.__enter__()
    results = []
    corpus = os.path.join(V, "corpus", pid)
    for f in cfg["families"]:
        if tier not in f.tiers:
            continue
        cf = os.path.join(corpus, f.name + ".txt")
        if os.path.exists(cf) and os.path.getsize(cf) > 0:
            r = f.run(pid, tier, seed, extra_cases=cf)
            r["name"] += "-corpus"
            results.append(r)
        results.append(f.run(pid, tier, seed))
    # extra, property-specific checks (return a list of result dicts of the same shape)
    for fn in cfg.get("extra", []):
        results.extend(fn(pid, tier, seed))
    return verdict(pid, tier, seed, cfg, pr, tr_msgs, results, t0)


def verdict(pid, tier, seed, cfg, pr, tr_msgs, results, t0):
    known = [e for e in hc.known_findings() if e["property"] == pid]
    errors = [r["error"] for r in results if r.get("error")]
    diffs = [d for r in results for d in r["diffs"]]
    ofails = [o for r in results for o in r["oracle_fail"]]
    unread = sum(r.get("oracle_unreadable", 0) for r in results)
    violations, known_hit = [], {}
    for o in ofails:
        k = next((e for e in known if e["class"] == o["cls"]), None)
        if k:
            known_hit.setdefault(k["class"], (k, o))
        else:
            violations.append(o)
    rc = 0
    for cls, (k, o) in known_hit.items():
        print("KNOWN-FINDING: property=%s %s" % (pid, k["what"]))
    if violations:
        o = min(violations, key=lambda o: len(o.get("case_line", "")))
        path = hc.write_replay(pid, dict(property=pid, kind="oracle-failure", seed=seed, tier=tier, **o))
        print("VIOLATION property=%s replay=%s" % (pid, path))
        rc = 1
    elif not pr["ok"] or diffs or tr_msgs or unread or errors:
        what = []
        if not pr["ok"]:
            what.append("proof obligation no longer checks: %s" % pr["failed"])
        if tr_msgs:
            what.append("translator failed: %s" % tr_msgs)
        if diffs:
            what.append("model/implementation correspondence broken (%d cases), first: %s" % (len(diffs), json.dumps(diffs[0])[:1500]))
        if unread:
            what.append("%d implementation observations unreadable by the oracle" % unread)
        if errors:
            what.append("; ".join(errors))
        payload = dict(property=pid, kind="broken-proof-or-correspondence", seed=seed, tier=tier, what=what,
                       theorem=pr.get("failed"), first_diff=diffs[0] if diffs else None)
        path = hc.write_replay(pid, payload)
        for w in what:
            print("  " + w[:600])
        print("VIOLATION property=%s replay=%s no-failing-input-found" % (pid, path))
        rc = 1
    evals = sum(r["evaluations"] for r in results)
    ev = dict(
        property_id=pid, tier=tier, seed=seed, level=cfg["level"],
        coverage=dict(
            obligations=len(pr["theorems"]), discharged=len(pr["theorems"]) if pr["ok"] else 0,
            checker_cmd="make -C /verif/coq theories/Props/%s.vo  (coqc 8.16.1, full .vo build; Print Assumptions per theorem)" % pid,
            trusted_base=trusted_base(cfg, pr),
            theorems=pr["theorems"], axioms=pr["axioms"],
            evaluations=evals, distinct_nontrivial=sum(r["nontrivial"] for r in results),
            rule="cases generated by the Rust harness from VERIF_SEED (and exhaustive small scopes), executed on the "
                 "implementation and replayed in the extracted Coq model; a case is non-trivial when at least one "
                 "operation succeeded and changed the observable state; distinct = distinct case lines",
            traces_validated_against_impl=sum(r["cases"] for r in results if not r["diffs"] and not r.get("error")),
            programs=sum(r["cases"] for r in results), disagreements_checked=len(diffs) + len(ofails),
            oracle_checked=sum(r["oracle_ok"] for r in results),
            oracle_out_of_contract=sum(r["oracle_skipped"] for r in results),
            disagreements=len(diffs), families=[dict(name=r["name"], cases=r["cases"], observations=r["evaluations"],
                                                     nontrivial=r["nontrivial"], exhaustive=r.get("exhaustive", False),
                                                     histogram=r["hist"]) for r in results],
            samples=[s for r in results for s in r["samples"]][:6] or ["(none)"],
            exhaustive=False,
        ),
        assumptions=cfg.get("assumptions", []),
        wall_s=round(time.time() - t0, 1), violations=len(violations) + (1 if rc and not violations else 0),
    )
    json.dump(ev, open(os.path.join(V, "evidence", pid + ".json"), "w"), indent=1)
    if ofails:
        import collections
        print("  oracle failure classes: %s" % dict(collections.Counter(o["cls"] for o in ofails)))
        if os.environ.get("HC_DEBUG"):
            for o in ofails[:int(os.environ["HC_DEBUG"])]:
                print("   ", o["cls"], "|", o.get("case"), o.get("step"), "|", o.get("op"), "|", o.get("case_line", "")[-200:])
    print("%s %s: proofs %s (%d theorems), %d observations, %d diffs, %d oracle failures, %.0fs" % (
        pid, tier, "ok" if pr["ok"] else "BROKEN", len(pr["theorems"]), evals, len(diffs), len(ofails), time.time() - t0))
    return rc


def replay(path):
    p = json.load(open(path))
    print(json.dumps(p, indent=1)[:4000])
    return 0
