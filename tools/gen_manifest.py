#!/usr/bin/env python3
"""Regenerate /verif/MANIFEST.json from lib/props.py (single source of truth)."""
import json, os, sys
V = os.path.dirname(os.path.dirname(os.path.abspath(__file__)))
sys.path.insert(0, V); sys.path.insert(0, os.path.join(V, "lib"))
import hc, props
props_txt = [json.loads(l) for l in open(os.path.join(V, "properties.jsonl"))]
checks, na = [], []
for p in props_txt:
    pid = p["id"]
    cfg = props.PROPS.get(pid)
    if cfg is None:
        na.append(dict(property_id=pid, reason=props.NOT_YET.get(pid, "not yet covered by the development (work in progress, see DESIGN.md section 10)")))
        continue
    checks.append(dict(
        property_id=pid,
        quick_cmd="./hc.py check %s --tier quick" % pid,
        thorough_cmd="./hc.py check %s --tier thorough" % pid,
        evidence_file="/verif/evidence/%s.json" % pid,
        replay_cmd_template="./hc.py replay {path}",
        engine="coq-model+correspondence",
        level_claimed=dict(category=cfg["level"], text=cfg.get("level_text", ""), design_ref=cfg.get("design_ref", "DESIGN.md section 4/" + pid)),
        level_note=cfg.get("level_note", "; ".join(cfg.get("trusted", []))),
        technique=cfg["technique"]))
m = dict(
    version=1,
    setup_cmd="./hc.py setup",
    hooks=dict(guard="honeycomb_verif", enable='RUSTFLAGS="--cfg honeycomb_verif" (set by hc.py for every harness build)',
               baseline_off_cmd="cd /repo && cargo test --workspace --no-fail-fast --offline",
               source_commits=props.HOOK_COMMITS, add_only=True),
    engines=[dict(name="coq-model+correspondence", path="/verif/hc.py", serves_properties=[c["property_id"] for c in checks],
                  kind_free_text="Coq 8.16 development /verif/coq (model + theorems), extracted OCaml model runner, Rust correspondence harness")],
    checks=checks,
    notes="See DESIGN.md. Every check recompiles its Props/Cxx.v, rebuilds the harness from /repo's working tree and compares implementation and model.",
    not_applicable=na)
json.dump(m, open(os.path.join(V, "MANIFEST.json"), "w"), indent=1)
print("checks:", [c["property_id"] for c in checks], "n/a:", [x["property_id"] for x in na])
