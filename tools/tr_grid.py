#!/usr/bin/env python3
"""Translator: honeycomb-core/src/cmap/builder/grid.rs -> coq/theories/Build/GenGrid.v

Translates the three beta tables (generate_square_beta_values, generate_tris_beta_values,
generate_hex_beta_values) and the corner table of generate_hex_offset into Gallina over Z:
  gen_square_rows nx ny ix iy       : list (list Z)   -- one row [b0; b1; b2] per dart of the cell
  gen_tris_rows   nx ny ix iy       : list (list Z)
  gen_hex_rows    nx ny nz ix iy iz : list (list Z)   -- rows [b0; b1; b2; b3]
  gen_hex_corner  p                 : option (Z * Z * Z)   -- offsets added to (x, y, z)
Anything outside the tiny expression subset makes the translator fail loudly.
"""
import re, sys, os

SRC = "/repo/honeycomb-core/src/cmap/builder/grid.rs"
OUT = "/verif/coq/theories/Build/GenGrid.v"


class Fail(Exception):
    pass


def strip_comments(s):
    return re.sub(r"//[^\n]*", "", s)


def match_brace(s, i, o="{", c="}"):
    d = 0
    for j in range(i, len(s)):
        if s[j] == o:
            d += 1
        elif s[j] == c:
            d -= 1
            if d == 0:
                return j
    raise Fail("unbalanced")


def fn_body(src, name):
    m = re.search(r"fn %s\b" % name, src)
    if not m:
        raise Fail("function %s not found" % name)
    i = src.index("{", src.index(")", m.end()))
    # skip return type braces: find the body brace after '->' type
    i = src.index("{", m.end())
    # the signature may contain `[usize; 3]` but no braces before the body
    return src[i + 1:match_brace(src, i)]


def tr_expr(e):
    """arithmetic over identifiers, integer literals, + - *, `as DartIdType`, parentheses"""
    e = re.sub(r"\bas\s+DartIdType\b", "", e)
    e = re.sub(r"\bas\s+usize\b", "", e)
    e = e.strip()
    if not re.fullmatch(r"[\w\s+\-*()]+", e):
        raise Fail("expression outside the subset: %r" % e)
    e = re.sub(r"\bn_x\b", "nx", e)
    e = re.sub(r"\bn_y\b", "ny", e)
    e = re.sub(r"\bn_z\b", "nz", e)
    return "(" + e + ")"


def tr_cell(c):
    c = c.strip()
    m = re.fullmatch(r"if\s+(.*?)\s*\{\s*0\s*\}\s*else\s*\{\s*(.*?)\s*\}", c, re.S)
    if m:
        cond = m.group(1)
        cm = re.fullmatch(r"(\w+)\s*==\s*(.*)", cond.strip())
        if not cm:
            raise Fail("condition outside the subset: %r" % cond)
        return "(if %s =? %s then 0 else %s)" % (tr_expr(cm.group(1)), tr_expr(cm.group(2)), tr_expr(m.group(2)))
    return tr_expr(c)


def split_top(s, sep=","):
    out, d, cur = [], 0, ""
    for ch in s:
        if ch in "([{":
            d += 1
        if ch in ")]}":
            d -= 1
        if ch == sep and d == 0:
            out.append(cur); cur = ""
        else:
            cur += ch
    if cur.strip():
        out.append(cur)
    return out


def table(src, fname, dims):
    body = fn_body(src, fname)
    lets = []
    # let d1 = (...) as DartIdType;
    m = re.search(r"let d1 = (.*?);", body, re.S)
    if not m:
        raise Fail("%s: no `let d1`" % fname)
    lets.append(("d1", tr_expr(m.group(1))))
    # let (d2, d3, ...) = (d1 + 1, ...);
    m = re.search(r"let \(([\s\w,]*?)\)\s*=\s*\((.*?)\);", body, re.S)
    if not m:
        raise Fail("%s: no tuple of darts" % fname)
    names = [x.strip() for x in m.group(1).split(",") if x.strip()]
    vals = [x.strip() for x in split_top(m.group(2)) if x.strip()]
    if len(names) != len(vals):
        raise Fail("%s: tuple arity mismatch" % fname)
    for n, v in zip(names, vals):
        lets.append((n, tr_expr(v)))
    for m in re.finditer(r"let (noffset_\w) = (.*?);", body):
        lets.append((m.group(1), tr_expr(m.group(2))))
    # the array of rows: first '[' after the lets that starts a row list
    i = body.rindex("[\n", 0, body.index(".into_iter()")) if False else None
    j = body.index(".into_iter()")
    # find the matching '[' of the array that ends right before .into_iter()
    k = body.rindex("]", 0, j)
    # walk back to its opening bracket
    d = 0
    for p in range(k, -1, -1):
        if body[p] == "]":
            d += 1
        elif body[p] == "[":
            d -= 1
            if d == 0:
                break
    arr = body[p + 1:k]
    rows = []
    for r in split_top(arr):
        r = r.strip()
        if not r:
            continue
        if not (r.startswith("[") and r.endswith("]")):
            raise Fail("%s: row is not an array literal: %r" % (fname, r[:60]))
        rows.append([tr_cell(c) for c in split_top(r[1:-1])])
    args = " ".join(dims)
    out = ["Definition %s (%s : Z) : list (list Z) :=" % (fname.replace("generate_", "gen_").replace("_beta_values", "_rows"), args)]
    for n, v in lets:
        out.append("  let %s := %s in" % (n, v))
    out.append("  [" + ";\n   ".join("[" + "; ".join(r) + "]" for r in rows) + "].")
    return "\n".join(out), len(rows)


def hex_corner(src):
    body = fn_body(src, "generate_hex_offset")
    m = re.search(r"match p \{(.*)\}", body, re.S)
    if not m:
        raise Fail("generate_hex_offset: no `match p`")
    arms = []
    for am in re.finditer(r"([\d\s|]+)=>\s*Vector3\((.*?)\),\s*(?=\d|_)", m.group(1), re.S):
        ps = [int(x) for x in am.group(1).split("|")]
        comps = split_top(am.group(2))
        if len(comps) != 3:
            raise Fail("generate_hex_offset: arm is not a 3-vector")
        offs = []
        for c, (var, ln) in zip(comps, (("x", "lx"), ("y", "ly"), ("z", "lz"))):
            cm = re.fullmatch(r"\s*T::from\((\w+)(?:\s*\+\s*(\d+))?\)\.unwrap\(\)\s*\*\s*(\w+)\s*", c, re.S)
            if not cm:
                raise Fail("generate_hex_offset: component outside the subset: %r" % c)
            # the corner table records (which index, offset, which length): the generated term keeps them all
            offs.append("(%s, %s, %s)" % ({"x": 0, "y": 1, "z": 2}[cm.group(1)], cm.group(2) or "0", {"lx": 0, "ly": 1, "lz": 2}[cm.group(3)]))
        for p_ in ps:
            arms.append("  | %d => Some (%s, %s, %s)" % (p_, offs[0], offs[1], offs[2]))
    if len(arms) != 24:
        raise Fail("generate_hex_offset: expected 24 table entries, found %d" % len(arms))
    return ("(* per component: (index variable 0=x 1=y 2=z, integer offset, length 0=lx 1=ly 2=lz) *)\n"
            "Definition gen_hex_corner (p : Z) : option ((Z * Z * Z) * (Z * Z * Z) * (Z * Z * Z)) :=\n  match p with\n"
            + "\n".join(arms) + "\n  | _ => None\n  end.")


def main():
    src = strip_comments(open(SRC).read())
    parts = ["(** * GENERATED by tools/tr_grid.py from honeycomb-core/src/cmap/builder/grid.rs -- do not edit. *)",
             "From Coq Require Import ZArith List.\nImport ListNotations.\nOpen Scope Z_scope.\n"]
    t, n = table(src, "generate_square_beta_values", ["nx", "ny", "ix", "iy"])
    if n != 4:
        raise Fail("square table: %d rows" % n)
    parts.append(t)
    t, n = table(src, "generate_tris_beta_values", ["nx", "ny", "ix", "iy"])
    if n != 6:
        raise Fail("tris table: %d rows" % n)
    parts.append(t)
    t, n = table(src, "generate_hex_beta_values", ["nx", "ny", "nz", "ix", "iy", "iz"])
    if n != 24:
        raise Fail("hex table: %d rows" % n)
    parts.append(t)
    parts.append(hex_corner(src))
    res = "\n\n".join(parts) + "\n"
    os.makedirs(os.path.dirname(OUT), exist_ok=True)
    if not os.path.exists(OUT) or open(OUT).read() != res:
        open(OUT, "w").write(res)


if __name__ == "__main__":
    try:
        main()
    except Fail as e:
        print("tr_grid: %s" % e)
        sys.exit(1)
