#!/bin/bash
# Extract the Coq model to OCaml and build the driver. Usage: build_ml.sh  (cwd anywhere)
set -e
V=/verif
OUT=$V/.build/ml
mkdir -p $OUT
cd $OUT
# re-extract only when a model .vo is newer than the driver
if [ -x driver ] && [ -z "$(find $V/coq/theories -name '*.vo' -newer driver | head -1)" ] && [ ! $V/driver/driver.ml -nt driver ]; then exit 0; fi
rm -f *.ml *.mli *.cm* *.o
coqc -Q $V/coq/theories HC $V/coq/extract/Extract.v > extract.log 2>&1 || { cat extract.log; exit 1; }
rm -f $V/coq/extract/*.vo $V/coq/extract/*.glob $V/coq/extract/.*.aux $V/coq/extract/*.vok $V/coq/extract/*.vos
cp $V/driver/driver.ml .
ocamlfind ocamldep -sort *.ml *.mli > order.txt 2>/dev/null
FILES=$(ocamlfind ocamldep -sort $(ls *.mli *.ml | grep -v '^driver.ml$'))
ocamlfind ocamlopt -O2 -w -a -rectypes -thread -package coq-core.kernel -linkpkg $FILES driver.ml -o driver.new > build.log 2>&1 || \
ocamlfind ocamlopt -w -a -rectypes -thread -package coq-core.kernel -linkpkg $FILES driver.ml -o driver.new > build.log 2>&1 || { cat build.log; exit 1; }
# atomic replacement: a check that is running the previous driver keeps its inode
mv -f driver.new driver
