#!/usr/bin/env python3
"""Translator: honeycomb-core/src/cmap/dim2/sews/{one,two}.rs -> coq/theories/Map2/GenSews.v

The four 2D sew / unsew internals are structured code over a small vocabulary; every statement of the subset
below is translated to the transactional-program monad of Stm/Prog.v with the combinators of Map2/Ops2.v:

  let X = self.betas[(I, D)].read(trans)?;                      ->  X <- rdB I D ;;
  let X = self.vertex_id_transac(trans, D)?;                    ->  X <- vertex_id_tx n D ;;
  let X = self.edge_id_transac(trans, D)?;                      ->  X <- edge_id_tx D ;;
  let (X, Y) = (E1?, E2?);                                      ->  X <- E1 ;; Y <- E2 ;;
  let X = D as EdgeIdType;   /  `D as EdgeIdType` in arguments  ->  X is D (a cast between integer aliases)
  try_or_coerce!(self.betas.K_core(trans, A..), SewError);      ->  K_core A.. ;;;
  try_or_coerce!(self.vertices.merge(trans, O, L, R), SewError) ->  vertices_merge O L R ;;;      (split alike)
  try_or_coerce!(self.attributes.merge_attributes(trans, OrbitPolicy::P, O, L, R), SewError)
                                                                ->  merge_attributes ks KP O L R ;;;   (split alike)
  if X == NULL_DART_ID { B1 } else { B2 }                       ->  if X =? 0 then B1 else B2
  match (X == NULL_DART_ID, Y == NULL_DART_ID) { (true, true) => { .. } .. }
                                                                ->  match X =? 0, Y =? 0 with | true, true => .. end
  the orientation test of two_sew (four coordinate reads, two differences, a dot product compared with zero,
  abort(SewError::BadGeometry(2, ..)))                          ->  four rdV + `if bad_orient a b c d then Fail (EBadGeometry 2)`
  Ok(())                                                        ->  end of the program

Anything else (a non-transactional read, a reordered statement the grammar does not know, a new branch) makes the
translator fail loudly: the check then reports a broken tie. GenSewsLaws.v (hand-written, not generated) proves by
reflexivity that the generated programs are the ones the model and all theorems use (Ops2.one_sew ...).
"""
import re, sys

SRCS = {"one_sew": "/repo/honeycomb-core/src/cmap/dim2/sews/one.rs", "one_unsew": "/repo/honeycomb-core/src/cmap/dim2/sews/one.rs",
        "two_sew": "/repo/honeycomb-core/src/cmap/dim2/sews/two.rs", "two_unsew": "/repo/honeycomb-core/src/cmap/dim2/sews/two.rs"}
OUT = "/verif/coq/theories/Map2/GenSews.v"


class Fail(Exception):
    pass


def strip_comments(s):
    return re.sub(r"//[^\n]*", "", s)


def match_close(s, i, op="{", cl="}"):
    d = 0
    for j in range(i, len(s)):
        if s[j] == op:
            d += 1
        elif s[j] == cl:
            d -= 1
            if d == 0:
                return j
    raise Fail("unbalanced %s%s" % (op, cl))


def fn_parts(src, name):
    m = re.search(r"fn %s\s*\(" % name, src)
    if not m:
        raise Fail("function %s not found" % name)
    j = match_close(src, m.end() - 1, "(", ")")
    params = [p.strip() for p in src[m.end():j].split(",") if p.strip()]
    names = [p.split(":")[0].strip() for p in params]
    if names[:2] != ["&self", "trans"]:
        raise Fail("%s: unexpected parameters %r" % (name, names))
    i = src.index("{", j)
    return names[2:], src[i + 1:match_close(src, i)]


def norm(s):
    return re.sub(r"\s+", " ", s).strip()


POL = {"Vertex": "KVertex", "Edge": "KEdge", "Face": "KFace"}


class Tr:
    def __init__(self, name, args, vid="vertex_id_tx n", eid="edge_id_tx"):
        self.name, self.env, self.n = name, {}, 0
        self.vid, self.eid = vid, eid
        self.args = list(args)
        for a, v in zip(args, ["l", "r"]):
            self.env[a] = v

    def fresh(self, hint):
        self.n += 1
        v = re.sub(r"[^a-z0-9_]", "", hint.lower()) or "x"
        v = "%s%d" % (v, self.n)
        return v

    def val(self, x):
        x = norm(x)
        x = re.sub(r"\s+as\s+\w+$", "", x)          # integer alias casts
        if x == "NULL_DART_ID":
            return "0"
        if x in self.env:
            return self.env[x]
        raise Fail("%s: unknown value %r" % (self.name, x))

    def expr(self, e):
        """an effectful expression ending with `?` -> Gallina program"""
        e = norm(e)
        m = re.fullmatch(r"self\.betas\[\((\d), (\w+)\)\]\.read\(trans\)\?", e)
        if m:
            return "rdB %s %s" % (m.group(1), self.val(m.group(2)))
        m = re.fullmatch(r"self\.vertex_id_transac\(trans, (\w+)\)\?", e)
        if m:
            return "%s %s" % (self.vid, self.val(m.group(1)))
        m = re.fullmatch(r"self\.edge_id_transac\(trans, (\w+)\)\?", e)
        if m:
            return "%s %s" % (self.eid, self.val(m.group(1)))
        raise Fail("%s: expression outside the subset: %r" % (self.name, e[:100]))

    def call(self, c):
        """the call inside try_or_coerce!(.., SewError)"""
        c = norm(c)
        m = re.fullmatch(r"self\.betas\.(one_link_core|two_link_core)\(trans, ([^,]+), ([^,]+),?\s*\)", c)
        if m:
            return "%s %s %s" % (m.group(1), self.val(m.group(2)), self.val(m.group(3)))
        m = re.fullmatch(r"self\.betas\.(one_unlink_core|two_unlink_core)\(trans, ([^,]+),?\s*\)", c)
        if m:
            return "%s %s" % (m.group(1), self.val(m.group(2)))
        m = re.fullmatch(r"self\.vertices\s*\.(merge|split)\(trans, ([^,]+), ([^,]+), ([^,]+),?\s*\)", c)
        if m:
            return "vertices_%s %s %s %s" % (m.group(1), self.val(m.group(2)), self.val(m.group(3)), self.val(m.group(4)))
        m = re.fullmatch(r"self\.attributes\.(merge|split)_attributes\(\s*trans, OrbitPolicy::(\w+), ([^,]+), ([^,]+), ([^,]+),?\s*\)", c)
        if m:
            if m.group(2) not in POL:
                raise Fail("%s: unknown policy %s" % (self.name, m.group(2)))
            return "%s_attributes ks %s %s %s %s" % (m.group(1), POL[m.group(2)], self.val(m.group(3)), self.val(m.group(4)), self.val(m.group(5)))
        raise Fail("%s: call outside the subset: %r" % (self.name, c[:120]))

    # ---- statements: returns a list of (kind, text) with kind in {"bind","unit"}
    def block(self, s):
        s = s.strip()
        items = []
        while s:
            m = re.match(r"let\s+(\w+)\s*=\s*(\w+)\s+as\s+\w+\s*;", s)
            if m:                                   # alias
                self.env[m.group(1)] = self.val(m.group(2))
                s = s[m.end():].strip()
                continue
            m = re.match(r"let\s+\(\s*(\w+)\s*,\s*(\w+)\s*\)\s*=\s*\(", s)
            if m:
                j = match_close(s, m.end() - 1, "(", ")")
                inner = s[m.end():j]
                parts = [p for p in (x.strip() for x in split_top(inner)) if p]
                if len(parts) != 2:
                    raise Fail("%s: tuple let with %d components" % (self.name, len(parts)))
                for nm, e in zip((m.group(1), m.group(2)), parts):
                    v = self.fresh(nm)
                    items.append(("bind", v, self.expr(e)))
                    self.env[nm] = v
                if not s[j + 1:].lstrip().startswith(";"):
                    raise Fail("%s: tuple let not closed" % self.name)
                s = s[j + 1:].lstrip()[1:].strip()
                continue
            m = re.match(r"let\s+(\w+)\s*=\s*([^;]+);", s)
            if m:
                v = self.fresh(m.group(1))
                items.append(("bind", v, self.expr(m.group(2))))
                self.env[m.group(1)] = v
                s = s[m.end():].strip()
                continue
            m = re.match(r"try_or_coerce!\s*\(", s)
            if m:
                j = match_close(s, m.end() - 1, "(", ")")
                inner = norm(s[m.end():j])
                if not inner.endswith(", SewError"):
                    raise Fail("%s: try_or_coerce with another error type" % self.name)
                items.append(("unit", None, self.call(inner[:-len(", SewError")].rstrip(" ,"))))
                if not s[j + 1:].lstrip().startswith(";"):
                    raise Fail("%s: try_or_coerce not closed" % self.name)
                s = s[j + 1:].lstrip()[1:].strip()
                continue
            m = re.match(r"if\s+let\s*\(", s)
            if m:
                its, s = self.orientation(s)
                items.extend(its)
                continue
            m = re.match(r"if\s+(\w+)\s*==\s*NULL_DART_ID\s*\{", s)
            if m:
                j = match_close(s, m.end() - 1)
                b1 = s[m.end():j]
                rest = s[j + 1:].lstrip()
                m2 = re.match(r"else\s*\{", rest)
                if not m2:
                    raise Fail("%s: if without else" % self.name)
                k = match_close(rest, m2.end() - 1)
                b2 = rest[m2.end():k]
                saved = dict(self.env)
                t1 = self.seq(self.block(b1))
                self.env = dict(saved)
                t2 = self.seq(self.block(b2))
                self.env = saved
                items.append(("unit", None, "(if %s =? 0 then %s\n  else\n  %s)" % (self.val(m.group(1)), t1, t2)))
                s = rest[k + 1:].strip()
                continue
            m = re.match(r"match\s*\(\s*(\w+)\s*==\s*NULL_DART_ID\s*,\s*(\w+)\s*==\s*NULL_DART_ID\s*\)\s*\{", s)
            if m:
                j = match_close(s, m.end() - 1)
                body = s[m.end():j]
                arms = {}
                b = body.strip()
                while b:
                    ma = re.match(r"\(\s*(true|false)\s*,\s*(true|false)\s*\)\s*=>\s*\{", b)
                    if not ma:
                        raise Fail("%s: match arm outside the subset: %r" % (self.name, b[:60]))
                    k = match_close(b, ma.end() - 1)
                    saved = dict(self.env)
                    arms[(ma.group(1), ma.group(2))] = self.seq(self.block(b[ma.end():k]))
                    self.env = saved
                    b = b[k + 1:].strip().lstrip(",").strip()
                order = [("true", "true"), ("true", "false"), ("false", "true"), ("false", "false")]
                if set(arms) != set(order):
                    raise Fail("%s: match arms %r" % (self.name, sorted(arms)))
                txt = "(match %s =? 0, %s =? 0 with\n" % (self.val(m.group(1)), self.val(m.group(2)))
                for o in order:
                    txt += "  | %s, %s =>\n    %s\n" % (o[0], o[1], arms[o])
                txt += "  end)"
                items.append(("unit", None, txt))
                s = s[j + 1:].strip()
                continue
            if re.match(r"Ok\(\(\)\)$", s):
                items.append(("ok", None, None))
                s = ""
                continue
            raise Fail("%s: statement outside the subset: %r" % (self.name, s[:120]))
        return items

    def orientation(self, s):
        """the `if let (Ok(Some(a)), ..) = (self.vertices.read(trans, x), ..) { vectors; if dot >= 0 { abort } }` block"""
        m = re.match(r"if\s+let\s*\(", s)
        j = match_close(s, m.end() - 1, "(", ")")
        pats = [norm(p) for p in split_top(s[m.end():j]) if p.strip()]
        names = []
        for p in pats:
            mp = re.fullmatch(r"Ok\(Some\((\w+)\)\)", p)
            if not mp:
                raise Fail("%s: orientation pattern %r" % (self.name, p))
            names.append(mp.group(1))
        rest = s[j + 1:].lstrip()
        if not rest.startswith("="):
            raise Fail("%s: orientation test without =" % self.name)
        rest = rest[1:].lstrip()
        if not rest.startswith("("):
            raise Fail("%s: orientation reads" % self.name)
        k = match_close(rest, 0, "(", ")")
        reads = [norm(p) for p in split_top(rest[1:k]) if p.strip()]
        ids = []
        for r_ in reads:
            mr = re.fullmatch(r"self\.vertices\.read\(trans, (\w+)\)", r_)
            if not mr:
                raise Fail("%s: orientation read %r" % (self.name, r_))
            ids.append(self.val(mr.group(1)))
        if len(names) != 4 or len(ids) != 4:
            raise Fail("%s: orientation test arity" % self.name)
        rest = rest[k + 1:].lstrip()
        if not rest.startswith("{"):
            raise Fail("%s: orientation body" % self.name)
        e = match_close(rest, 0)
        body = norm(rest[1:e])
        a, b, c, d = names
        expect = ("let lhs_vector = %s - %s; let rhs_vector = %s - %s; "
                  "if lhs_vector.dot(&rhs_vector) >= T::zero() { abort(SewError::BadGeometry(2, %s, %s))?; }") % (c, a, b, d, self.args[0], self.args[1])
        if body != expect:
            raise Fail("%s: orientation test body differs: %r" % (self.name, body))
        vs = [self.fresh("c") for _ in range(4)]
        its = [("bind", v, "rdV %s" % i) for v, i in zip(vs, ids)]
        its.append(("unit", None, "(match %s, %s, %s, %s with\n   | Some a, Some b, Some c, Some d => if bad_orient a b c d then Fail (EBadGeometry 2) else Ret tt\n   | _, _, _, _ => Ret tt\n   end)" % tuple(vs)))
        return its, rest[e + 1:].strip()

    def seq(self, items):
        if items and items[-1][0] == "ok":
            items = items[:-1]
            if not items:
                return "Ret tt"
        if not items:
            return "Ret tt"
        out = ""
        for i, (kind, v, t) in enumerate(items):
            last = i == len(items) - 1
            if kind == "bind":
                if last:
                    raise Fail("%s: block ends with a binding" % self.name)
                out += "%s <- %s ;;\n  " % (v, t)
            elif kind == "unit":
                out += t if last else "%s ;;;\n  " % t
            else:
                raise Fail("%s: Ok(()) in the middle of a block" % self.name)
        return out


def split_top(s):
    parts, d, cur = [], 0, ""
    for ch in s:
        if ch in "([{":
            d += 1
        elif ch in ")]}":
            d -= 1
        if ch == "," and d == 0:
            parts.append(cur)
            cur = ""
        else:
            cur += ch
    parts.append(cur)
    return parts


TARGETS = [
    # (output, header imports, [(function, source file, generated name)], vertex-id combinator, edge-id combinator)
    ("/verif/coq/theories/Map2/GenSews.v", "From HC Require Import Stm.Prog Map2.Ops2.",
     [("one_sew", "/repo/honeycomb-core/src/cmap/dim2/sews/one.rs", "gen_one_sew"),
      ("one_unsew", "/repo/honeycomb-core/src/cmap/dim2/sews/one.rs", "gen_one_unsew"),
      ("two_sew", "/repo/honeycomb-core/src/cmap/dim2/sews/two.rs", "gen_two_sew"),
      ("two_unsew", "/repo/honeycomb-core/src/cmap/dim2/sews/two.rs", "gen_two_unsew")],
     "vertex_id_tx n", "edge_id_tx"),
    ("/verif/coq/theories/Map3/GenSews3.v", "From HC Require Import Stm.Prog Map2.Ops2 Map3.Ops3.",
     [("two_sew", "/repo/honeycomb-core/src/cmap/dim3/sews/two.rs", "gen_two_sew3"),
      ("two_unsew", "/repo/honeycomb-core/src/cmap/dim3/sews/two.rs", "gen_two_unsew3")],
     "vertex_id3 n", "edge_id3 n"),
]


def main():
    for out, imports, funs, vid, eid in TARGETS:
        defs = []
        for f, path, gname in funs:
            src = strip_comments(open(path).read())
            args, body = fn_parts(src, f)
            t = Tr(f, args, vid, eid)
            text = t.seq(t.block(body))
            params = "l r" if len(args) == 2 else "l"
            defs.append("Definition %s (n : N) (ks : kinds) (%s : N) : prog unit :=\n  %s." % (gname, params, text))
        text = ("(** GENERATED by tools/tr_sews.py from %s -- do not edit. *)\n"
                "From Coq Require Import List NArith Bool.\n%s\nOpen Scope N_scope.\n\n"
                "Section GenSews.\nContext `{Sig}.\n\n%s\n\nEnd GenSews.\n") % (
                    ", ".join(sorted(set(p for _, p, _ in funs))), imports, "\n\n".join(defs))
        try:
            old = open(out).read()
        except OSError:
            old = None
        if old != text:
            open(out, "w").write(text)


if __name__ == "__main__":
    try:
        main()
    except Fail as e:
        print("tr_sews: %s" % e)
        sys.exit(1)
