#!/bin/bash
# usage: confirm_batch.sh <Cxx> ...  -- moves each scratch worktree to /repo's HEAD and re-confirms both mutants there
H=$(git -C /repo rev-parse HEAD)
for ID in "$@"; do
  git -C /tmp/wt_$ID checkout -q -- . ; git -C /tmp/wt_$ID clean -fdq -e target; git -C /tmp/wt_$ID checkout -q --detach $H
  for K in 1 2; do
    [ -f /tmp/mut_$ID/$K/patch.diff ] || continue
    if git -C /tmp/wt_$ID apply --check /tmp/mut_$ID/$K/patch.diff 2>/dev/null; then
      echo "$ID/$K $(/verif/tools/confirm_mutant.sh $ID $K 2>/dev/null | tail -1)"
    else
      echo "$ID/$K patch-does-not-apply-at-HEAD"
    fi
  done
done
