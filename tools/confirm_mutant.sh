#!/bin/bash
# usage: confirm_mutant.sh <Cxx> <k>  -- re-confirms an agent-made mutant in the scratch worktree /tmp/wt_<Cxx>
ID=$1; K=$2; W=/tmp/wt_$ID; M=/tmp/mut_$ID/$K
export CARGO_NET_OFFLINE=true CARGO_TARGET_DIR=$W/target
cd $W || exit 2
git checkout -q -- . ; git clean -fdq -e target
LOC=$(python3 -c "import json;print(json.load(open('$M/meta.json'))['demo_location'])")
# demo_location may be a dir or a file path (relative to the worktree or absolute)
LOC=${LOC#$W/}; LOC=${LOC#/tmp/wt_$ID/}
case "$LOC" in *.rs) DEST=$LOC;; *) DEST=${LOC%/}/$(echo ${ID}_mut${K}_demo | tr 'A-Z' 'a-z').rs;; esac
DEST=$(echo "$DEST" | awk '{print $1}')
mkdir -p $(dirname $DEST); cp $M/demo.rs $DEST
CRATE=$(echo $DEST | cut -d/ -f1); STEM=$(basename $DEST .rs)
run_demo() { timeout 900 cargo test -p $CRATE --offline --test $STEM 2>&1 | tail -30; }
OUT=$M/confirm.log; : > $OUT
echo "## demo without patch" >> $OUT; run_demo >> $OUT; grep -q "test result: ok" <(tail -5 $OUT) && D0=pass || D0=fail
git apply $M/patch.diff || { echo "patch does not apply" >> $OUT; }
echo "## demo with patch" >> $OUT; run_demo > $OUT.tmp; cat $OUT.tmp >> $OUT; grep -q "test result: FAILED\|panicked\|error\[" $OUT.tmp && D1=fail || D1=pass
mv $DEST /tmp/_demo_$ID_$K.rs
echo "## suite with patch" >> $OUT
timeout 1500 cargo test -p honeycomb-core -p honeycomb-kernels --offline 2>&1 | grep "test result\|FAILED\|failed" > $OUT.tmp; cat $OUT.tmp >> $OUT
grep -q "test result: FAILED\|error: test failed" $OUT.tmp && S=fail || S=pass
[ -s $OUT.tmp ] || S=nobuild
git checkout -q -- . ; git clean -fdq -e target; rm -f $OUT.tmp /tmp/_demo_$ID_$K.rs
echo "{\"demo_without_patch\": \"$D0\", \"demo_with_patch\": \"$D1\", \"suite_with_patch\": \"$S\", \"demo_dest\": \"$DEST\"}" > $M/confirm.json
cat $M/confirm.json
