#!/usr/bin/env python3
"""Decode the pre / post 2-map dumps of a replay file around given darts (debugging aid, not part of any check)."""
import json, struct, sys
def fl(t):
    return struct.unpack('>d', bytes.fromhex(t[1:].rjust(16,'0')))[0] if t.startswith('f') else t
def parse(s):
    t = s.split(); cls, code, ret, mask, n = map(int, t[:5]); i = 5; ds = []
    nk = bin(mask).count('1')
    for d in range(n):
        b0, b1, b2, un = map(int, t[i:i+4]); i += 4
        v = None
        if t[i] == '1': v = (fl(t[i+1]), fl(t[i+2])); i += 3
        else: i += 1
        at = []
        for k in range(nk):
            if t[i] == '1': at.append(t[i+1]); i += 2
            else: at.append(None); i += 1
        ds.append((b0, b1, b2, un, v, at))
    return (cls, code, ret), ds
def vid(ds, d):
    seen = []; todo = [d]
    while todo:
        x = todo.pop()
        if x == 0 or x in seen: continue
        seen.append(x)
        todo.append(ds[ds[x][2]][1]); todo.append(ds[ds[x][0]][2])
    return min(seen), sorted(seen)
def show(ds, around, depth=2):
    S = set(around)
    for _ in range(depth):
        for d in list(S):
            if d: S |= {ds[d][0], ds[d][1], ds[d][2]}
    S.discard(0)
    for d in sorted(S):
        b0, b1, b2, un, v, at = ds[d]
        v0, orb = vid(ds, d)
        print(f"  d{d}: b0={b0} b1={b1} b2={b2} {'UNUSED ' if un else ''}vid={v0} at={ds[v0][4]} own={v} attrs={at}")
if __name__ == '__main__':
    r = json.load(open(sys.argv[1])); around = [int(x) for x in sys.argv[2:]]
    print('op', r.get('op'), 'cls', r.get('cls'))
    for k in ('pre', 'post'):
        res, ds = parse(r[k]); print(k, 'result', res, 'n', len(ds)); show(ds, around)
