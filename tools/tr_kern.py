#!/usr/bin/env python3
"""Translator: honeycomb-kernels/src/remeshing/{cut,swap,collapse (half-cells)}.rs, cell_insertion/vertices.rs, triangulation/fan.rs -> coq/theories/Map2/GenKern.v

The straight-line transactional kernels are translated statement by statement into the program monad of Stm/Prog.v
with the vocabulary of Map2/Ops2.v and Map2/Kern2.v (continuation-passing: each statement wraps the rest).

  try_or_coerce!(map.link::<I>(t, a, b), E);            I-link core a b ;;; REST
  try_or_coerce!(map.sew::<I>(t, a, b), E);  map.sew::<I>(t, a, b)?;     I-sew n ks a b ;;; REST   (unsew alike)
  let x = map.beta_transac::<I>(t, d)?;                 x <- rdB I d ;; REST
  let x = map.{vertex,edge,face}_id_transac(t, d)?;     x <- {vertex_id_tx n, edge_id_tx, face_id_tx n} d ;; REST
  let x = map.read_vertex(t, v)?;                       x <- rdV v ;; REST
  let x = map.read_attribute::<K>(t, i)?;               x <- rdA K i ;; REST
  let (x, y) = (E1, E2);                                component-wise, left to right
  let x = d as DartIdType;                              alias
  let x = if map.contains_attribute::<K>() { B } else { None };     x <- opt_anchor ks K (B) ;; REST
  let x = if map.contains_attribute::<K>() { Some((E1, .., Ek)) } else { None };
                                                        x <- (if has_kind ks K then x1 <- E1 ;; .. ;; Ret (Some (x1, .., xk)) else Ret None) ;; REST
  let x = match (E1?, E2?) { (Some(a), Some(b)) => P, _ => retry()?, };
                                                        o1 <- E1 ;; o2 <- E2 ;; match o1 with Some a => match o2 with Some b => REST[x := P] | None => Retry end | None => Retry end
  if C { abort(Err)?; }                                 if C then Fail Err else REST       (C: x == NULL_*, or `E1? != a || E2? != b`)
  if let Some(p) = x { B }                              (match x with Some p => B | None => Ret tt end) ;;; REST
  if map.contains_attribute::<K>() { B }                (if has_kind ks K then B else Ret tt) ;;; REST
  for (p, q) in [(a1, b1), ..] { B }                    B[p, q := a1, b1] ;;; .. ;;; REST   (literal array: unrolled)
  map.write_vertex(t, i, v)?;  map.write_attribute(t, i, a)?;  map.remove_attribute::<K>(t, i)?;
                                                        write_vertex i v / write_attr K i a / remove_attr K i  ;;; REST
  Ok(())                                                Ret tt   (omitted after a unit statement)
  map.remove_free_dart_transac(t, d)?;                  remove_dart_tx d ;;; REST
  if x != NULL_DART_ID { B1 } else { B2 }               if negb (x =? 0) then B1 else B2   (parenthesised and followed by REST when not last)
  if map.beta_transac::<I>(t, d)? != NULL_DART_ID { B } x <- rdB I d ;; (if negb (x =? 0) then B else Ret tt) ;;; REST
  (d1, .., dk): (DartIdType, .., DartIdType)            tuple parameter: k dart parameters
  collapse_halfcell_to_X(t, map, (a, b, c))?;           collapse_halfcell_to_X n ks a b c ;;; REST   (the callee is itself translated)
  if x != NULL_*_ID { B }                               (if negb (x =? 0) then B else Ret tt) ;;; REST
  let v = if x != NULL { E1? } else if y != NULL { E2? } else { NULL_VERTEX_ID };
                                                        v <- (if negb (x =? 0) then E1 else if negb (y =? 0) then E2 else Ret 0) ;; REST
  Ok(if x != NULL { E1? } else if ..)  /  Ok(v)         the same chain / Ret v   (kernels returning a vertex identifier: prog N)

The attribute kind of `write_attribute` is the Rust type of its value; the translator tracks the anchor type of every
variable (read/remove_attribute::<K>, `K::from(a)`). `K::from(a)` between anchor kinds is the identity on the model's
attribute values (the harness encodes an anchor as dimension and identifier, which the conversions keep).
Anything outside this subset makes the translator fail: the check reports a broken tie.
"""
import re, sys

KIND = {"VertexAnchor": "KVA", "EdgeAnchor": "KEA", "FaceAnchor": "KFA"}
ERR = {"EdgeSwapError::NullEdge": "ESwapNullEdge", "EdgeSwapError::IncompleteEdge": "ESwapIncomplete",
       "EdgeSwapError::BadTopology": "ESwapBadTopology", "VertexInsertionError::VertexBound": "EVertexBound",
       "VertexInsertionError::UndefinedEdge": "EUndefinedEdge"}
UNLINK = {"1": "one_unlink_core", "2": "two_unlink_core"}
LINK = {"1": "one_link_core", "2": "two_link_core"}
SEW = {("sew", "1"): "one_sew n ks", ("sew", "2"): "two_sew n ks", ("unsew", "1"): "one_unsew n ks", ("unsew", "2"): "two_unsew n ks"}


class Fail(Exception):
    pass


def strip_comments(s):
    return re.sub(r"//[^\n]*", "", s)


def norm(s):
    return re.sub(r"\s+", " ", s).strip()


def match_close(s, i):
    pairs = {"(": ")", "[": "]", "{": "}"}
    op = s[i]
    cl = pairs[op]
    d = 0
    for j in range(i, len(s)):
        if s[j] == op:
            d += 1
        elif s[j] == cl:
            d -= 1
            if d == 0:
                return j
    raise Fail("unbalanced %s" % op)


def split_top(s, sep=","):
    parts, d, cur = [], 0, ""
    for ch in s:
        if ch in "([{":
            d += 1
        elif ch in ")]}":
            d -= 1
        if ch == sep and d == 0:
            parts.append(cur)
            cur = ""
        else:
            cur += ch
    if cur.strip():
        parts.append(cur)
    return [p.strip() for p in parts]


def split_stmts(body):
    """statements of a block: `...;` at depth 0, or a brace statement (if / for) closed by its last `}`; a trailing
    expression (no `;`) is returned as the last item with the flag tail=True"""
    out, i, n = [], 0, len(body)
    while True:
        while i < n and body[i].isspace():
            i += 1
        if i >= n:
            break
        start, d = i, 0
        brace_stmt = re.match(r"(if|for)\b", body[i:]) is not None
        while i < n:
            ch = body[i]
            if ch in "([{":
                d += 1
            elif ch in ")]}":
                d -= 1
                if d == 0 and ch == "}" and brace_stmt:
                    rest = body[i + 1:].lstrip()
                    if rest.startswith("else"):
                        i += 1
                        continue
                    i += 1
                    out.append((norm(body[start:i]), False))
                    break
            elif ch == ";" and d == 0:
                out.append((norm(body[start:i]), False))
                i += 1
                break
            i += 1
        else:
            out.append((norm(body[start:n]), True))
    return out


def fn_parts(src, name):
    """-> ([(rust name, kind)], body) ; kind: 'dart' | ('pair',) | 'optsc'.  The receiver and the transaction may come
    in either order and under either pair of names (t, map) / (cmap, trans); the body is normalised to (map, t)."""
    m = re.search(r"(?:pub )?fn %s\s*<[^>]*>\s*\(" % name, src)
    if not m:
        raise Fail("function %s not found" % name)
    j = match_close(src, m.end() - 1)
    params = [norm(re.sub(r"//[^\n]*", "", p)) for p in split_top(src[m.end():j])]
    lead = params[:2]
    tn = [p.split(":")[0].strip() for p in lead if p.split(":", 1)[1].strip() == "&mut Transaction"]
    mn = [p.split(":")[0].strip() for p in lead if p.split(":", 1)[1].strip() == "&CMap2<T>"]
    if len(tn) != 1 or len(mn) != 1:
        raise Fail("%s: unexpected leading parameters %r" % (name, lead))
    tname, mname = tn[0], mn[0]
    specs = []
    for p in params[2:]:
        ma = re.fullmatch(r"\[([\w, ]+)\]: \[DartIdType; (\d+)\]", p)
        mb = re.fullmatch(r"(\w+): (EdgeIdType|DartIdType|FaceIdType)", p)
        me_ = re.fullmatch(r"(\w+): &\[DartIdType\]", p)
        mc = re.fullmatch(r"(\w+): \(DartIdType, DartIdType\)", p)
        md = re.fullmatch(r"(\w+): Option<T>", p)
        mt_ = re.fullmatch(r"\(([\w, ]+)\): \((DartIdType(?:, DartIdType)*)\)", p)
        if mt_:
            ns = [x.strip() for x in mt_.group(1).split(",")]
            if len(ns) != len(mt_.group(2).split(",")):
                raise Fail("%s: tuple pattern arity" % name)
            specs += [(x, "dart") for x in ns]
        elif ma:
            ns = [x.strip() for x in ma.group(1).split(",")]
            if len(ns) != int(ma.group(2)):
                raise Fail("%s: array pattern arity" % name)
            specs += [(x, "dart") for x in ns]
        elif mb:
            specs.append((mb.group(1), "dart"))
        elif mc:
            specs.append((mc.group(1), "pair"))
        elif md:
            specs.append((md.group(1), "optsc"))
        elif me_:
            specs.append((me_.group(1), "dlist"))
        else:
            raise Fail("%s: parameter outside the subset: %r" % (name, p))
    i = src.index("{", j)
    body = src[i + 1:match_close(src, i)]
    if mname != "map":
        body = re.sub(r"\b%s\b" % mname, "map", body)
    if tname != "t":
        body = re.sub(r"\b%s\b" % tname, "t", body)
    return specs, body


class Tr:
    def __init__(self, name, specs):
        self.name, self.n = name, 0
        self.env = {}                                # rust name -> (coq term, anchor type / tuple of types / tag)
        for a, kind in specs:
            if kind == "dart":
                self.env[a] = (a, None)
            elif kind == "pair":
                self.env[a] = (None, ("pair", a + "_0", a + "_1"))
            elif kind == "dlist":
                self.env[a] = (a, "dlist")
            else:
                self.env[a] = (a, "optsc")
        self.aux = []                                # auxiliary Fixpoints (loops), emitted before the definition

    def fresh(self, hint):
        self.n += 1
        return "%s_%d" % (re.sub(r"[^A-Za-z0-9_]", "", hint) or "x", self.n)

    def bad(self, what, s):
        raise Fail("%s: %s outside the subset: %r" % (self.name, what, s[:140]))

    # ---- pure values
    def val(self, x, env):
        x = norm(x)
        x = re.sub(r"\s+as\s+(DartIdType|EdgeIdType|VertexIdType|FaceIdType)$", "", x)
        x = re.sub(r"^\*(\w+)$", r"\1", x)                   # deref of a dart reference
        if x in ("NULL_DART_ID", "NULL_EDGE_ID", "NULL_VERTEX_ID"):
            return "0", None
        m = re.fullmatch(r"(\w+)::from\((\w+)\)", x)
        if m and m.group(1) in KIND and m.group(2) in env:
            return env[m.group(2)][0], m.group(1)
        m = re.fullmatch(r"Vertex2::average\(&(\w+), &(\w+)\)", x)
        if m:
            return "(v_avg %s %s)" % (self.val(m.group(1), env)[0], self.val(m.group(2), env)[0]), None
        if x in env:
            return env[x]
        m = re.fullmatch(r"(\w+)\.(\d)", x)
        if m and m.group(1) in env and isinstance(env[m.group(1)][1], tuple) and env[m.group(1)][1][0] == "pair":
            return env[m.group(1)][1][1 + int(m.group(2))], None
        self.bad("value", x)

    # ---- effectful expressions `...?`  -> (program text, anchor type of the result)
    def eff(self, e, env):
        e = norm(e)
        m = re.fullmatch(r"map\.beta_transac::<(\d)>\(t, (.+)\)\?", e)
        if m:
            return "rdB %s %s" % (m.group(1), self.val(m.group(2), env)[0]), None
        m = re.fullmatch(r"map\.(vertex|edge|face)_id_transac\(t, (.+)\)\?", e)
        if m:
            f = {"vertex": "vertex_id_tx n", "edge": "edge_id_tx", "face": "face_id_tx n"}[m.group(1)]
            return "%s %s" % (f, self.val(m.group(2), env)[0]), None
        m = re.fullmatch(r"map\.read_vertex\(t, (\w+)\)\?", e)
        if m:
            return "rdV %s" % self.val(m.group(1), env)[0], None
        m = re.fullmatch(r"map\.(read|remove)_attribute::<(\w+)>\(t, (\w+)\)\?", e)
        if m and m.group(2) in KIND:
            f = {"read": "rdA", "remove": "remove_attr"}[m.group(1)]
            return "%s %s %s" % (f, KIND[m.group(2)], self.val(m.group(3), env)[0]), m.group(2)
        self.bad("expression", e)

    def is_eff(self, e):
        return norm(e).endswith("?")

    # ---- unit calls (without the trailing `?`)
    def call(self, c, env):
        c = norm(c)
        m = re.fullmatch(r"map\.link::<(\d)>\(t, (\w+), (\w+)\)", c)
        if m and m.group(1) in LINK:
            return "%s %s %s" % (LINK[m.group(1)], self.val(m.group(2), env)[0], self.val(m.group(3), env)[0]), True
        m = re.fullmatch(r"map\.unlink::<(\d)>\(t, (\w+)\)", c)
        if m and m.group(1) in UNLINK:
            return "%s %s" % (UNLINK[m.group(1)], self.val(m.group(2), env)[0]), True
        m = re.fullmatch(r"map\.(sew|unsew)::<(\d)>\(t, (\*?\w+)(?:, (\*?\w+))?\)", c)
        if m and (m.group(1), m.group(2)) in SEW:
            if (m.group(1) == "sew") != (m.group(4) is not None):
                self.bad("sew arity", c)
            a = self.val(m.group(3), env)[0] + ((" " + self.val(m.group(4), env)[0]) if m.group(4) else "")
            return "%s %s" % (SEW[(m.group(1), m.group(2))], a), True
        m = re.fullmatch(r"(collapse_halfcell_to_(?:midpoint|base))\(t, map, \((\w+), (\w+), (\w+)\)\)", c)
        if m:
            return "%s n ks %s" % (m.group(1), " ".join(self.val(m.group(i), env)[0] for i in (2, 3, 4))), True
        m = re.fullmatch(r"map\.remove_free_dart_transac\(t, (\w+)\)", c)
        if m:
            return "remove_dart_tx %s" % self.val(m.group(1), env)[0], True
        m = re.fullmatch(r"map\.write_vertex\(t, (\w+), (\w+)\)", c)
        if m:
            return "write_vertex %s %s" % (self.val(m.group(1), env)[0], self.val(m.group(2), env)[0]), True
        # midpoint_vertex.map_or(average(v1, v2), |t| v1 + seg * t)  with  seg = v2 - v1   ->   new_vertex v1 v2 t
        m = re.fullmatch(r"map\.write_vertex\( ?t, (\w+), (\w+)\.map_or\(Vertex2::average\(&(\w+), &(\w+)\), \|t\| (\w+) \+ (\w+) \* t\),? ?\)", c)
        if m:
            vid, opt, a, b, a2, seg = m.groups()
            if a2 != a or env.get(seg, (None, None))[1] != ("seg", a, b) or env.get(opt, (None, None))[1] != "optsc":
                self.bad("interpolation", c)
            return "write_vertex %s (new_vertex %s %s %s)" % (self.val(vid, env)[0], self.val(a, env)[0], self.val(b, env)[0], env[opt][0]), True
        m = re.fullmatch(r"map\.write_attribute\(t, (\w+), (.+)\)", c)
        if m:
            v, ty = self.val(m.group(2), env)
            if ty not in KIND:
                self.bad("write_attribute of a value of unknown anchor type", c)
            return "write_attr %s %s %s" % (KIND[ty], self.val(m.group(1), env)[0], v), True
        m = re.fullmatch(r"map\.remove_attribute::<(\w+)>\(t, (\w+)\)", c)
        if m and m.group(1) in KIND:
            return "remove_attr %s %s" % (KIND[m.group(1)], self.val(m.group(2), env)[0]), False
        self.bad("call", c)

    # ---- conditions of `if C { abort(..)?; }`  -> (prefix binder text, boolean term)
    def cond(self, c, env):
        c = norm(c)
        m = re.fullmatch(r"(\w+) == (NULL_\w+_ID)", c)
        if m:
            return "", "%s =? 0" % self.val(m.group(1), env)[0]
        m = re.fullmatch(r"(.+\?) != (\w+) \|\| (.+\?) != (\w+)", c)
        if m:
            x, y, bvar = self.fresh("x"), self.fresh("y"), self.fresh("bad")
            e1, e2 = self.eff(m.group(1), env)[0], self.eff(m.group(3), env)[0]
            pre = ("%s <- %s ;;\n  %s <- (if negb (%s =? %s) then Ret true else %s <- %s ;; Ret (negb (%s =? %s))) ;;\n  "
                   % (x, e1, bvar, x, self.val(m.group(2), env)[0], y, e2, y, self.val(m.group(4), env)[0]))
            return pre, bvar
        self.bad("condition", c)

    # ---- a block in expression position: lets then a final effectful expression
    def block_expr(self, body, env):
        env = dict(env)
        st = split_stmts(body)
        if not st or not st[-1][1]:
            self.bad("block expression", body)
        txt = ""
        for s, _ in st[:-1]:
            m = re.fullmatch(r"let (\w+) = (.+\?)", s)
            if not m:
                self.bad("statement in a block expression", s)
            v = self.fresh(m.group(1))
            p, ty = self.eff(m.group(2), env)
            txt += "%s <- %s ;; " % (v, p)
            env[m.group(1)] = (v, ty)
        p, ty = self.eff(st[-1][0], env)
        return txt + p, ty

    # ---- statements, continuation-passing.  returns program text of type prog unit
    def stmts(self, st, env):
        if not st:
            return "Ret tt"
        s, tail = st[0]
        rest = st[1:]
        if s == "TransactionClosureResult::Ok(())":
            s = "Ok(())"
        last = (not rest) or (len(rest) == 1 and rest[0][0] in ("Ok(())", "TransactionClosureResult::Ok(())"))

        def then(unit_txt, is_unit=True):
            if last and is_unit:
                return unit_txt
            return "%s ;;;\n  %s" % (unit_txt, self.stmts(rest, env))

        if s == "Ok(())" and tail:
            if rest:
                self.bad("Ok(()) before the end", s)
            return "Ret tt"
        m = re.fullmatch(r"try_or_coerce!\( ?(.+?),? (\w+) ?\)", s)
        if m:
            c, u = self.call(m.group(1), env)
            return then(c, u)
        m = re.fullmatch(r"let (\w+) = (\w+) as (DartIdType|EdgeIdType)", s)
        if m:
            env = dict(env)
            env[m.group(1)] = self.val(m.group(2), env)
            return self.stmts(rest, env)
        m = re.fullmatch(r"let \(([\w, ]+)\) = \((.+)\)", s)
        if m:
            names = [x.strip() for x in m.group(1).split(",")]
            parts = split_top(m.group(2))
            if len(names) != len(parts):
                self.bad("tuple let", s)
            env = dict(env)
            txt = ""
            new = {}
            for nm, e in zip(names, parts):
                if self.is_eff(e):
                    v = self.fresh(nm)
                    p, ty = self.eff(e, env)
                    txt += "%s <- %s ;;\n  " % (v, p)
                    new[nm] = (v, ty)
                else:
                    new[nm] = self.val(e, env)
            env.update(new)
            return txt + self.stmts(rest, env)
        m = re.fullmatch(r"let (\w+) = if map\.contains_attribute::<(\w+)>\(\) \{(.+)\} else \{ None \}", s)
        if m and m.group(2) in KIND:
            inner = m.group(3).strip()
            v = self.fresh(m.group(1))
            env2 = dict(env)
            mt = re.fullmatch(r"Some\(\((.+)\)\)", inner)
            if mt:
                parts = split_top(mt.group(1).rstrip(", "))
                vs, tys, txt = [], [], ""
                for e in parts:
                    x = self.fresh("a")
                    p, ty = self.eff(e, env)
                    txt += "%s <- %s ;; " % (x, p)
                    vs.append(x)
                    tys.append(ty)
                prog = "(if has_kind ks %s then %sRet (Some (%s)) else Ret None)" % (KIND[m.group(2)], txt, ", ".join(vs))
                env2[m.group(1)] = (v, tuple(tys))
            else:
                p, ty = self.block_expr(inner, env)
                prog = "opt_anchor ks %s (%s)" % (KIND[m.group(2)], p)
                env2[m.group(1)] = (v, ty)
            return "%s <- %s ;;\n  %s" % (v, prog, self.stmts(rest, env2))
        m = re.fullmatch(r"let (\w+) = match \((.+\?), (.+\?)\) \{ \(Some\((\w+)\), Some\((\w+)\)\) => (.+), _ => retry\(\)\?,? \}", s)
        if m:
            o1, o2 = self.fresh("o"), self.fresh("o")
            a, b = self.fresh(m.group(4)), self.fresh(m.group(5))
            e1, e2 = self.eff(m.group(2), env)[0], self.eff(m.group(3), env)[0]
            env2 = dict(env)
            env2[m.group(4)], env2[m.group(5)] = (a, None), (b, None)
            env2[m.group(1)] = self.val(m.group(6), env2)
            return ("%s <- %s ;;\n  %s <- %s ;;\n  match %s with\n  | Some %s =>\n  match %s with\n  | Some %s =>\n  %s\n  | None => Retry\n  end\n  | None => Retry\n  end"
                    % (o1, e1, o2, e2, o1, a, o2, b, self.stmts(rest, env2)))
        # --- triangulation kernels
        # collect the darts of a face:  let mut V: SmallVec<..> = SmallVec::new();  for d in map.orbit_transac(t, P, X) { V.push(d?); }
        m = re.fullmatch(r"let mut (\w+): SmallVec<DartIdType, \d+> = SmallVec::new\(\)", s)
        if m and rest:
            m2 = re.fullmatch(r"for d in map\.orbit_transac\(t, OrbitPolicy::(\w+), (.+)\) \{ %s\.push\(d\?\); \}" % m.group(1), rest[0][0])
            if m2 and m2.group(1) in ("FaceLinear", "Face", "Vertex", "Edge"):
                v = self.fresh(m.group(1))
                env2 = dict(env)
                env2[m.group(1)] = (v, "dlist")
                return "%s <- orbit2_tx n P%s %s ;;\n  %s" % (v, m2.group(1), self.val(m2.group(2), env)[0], self.stmts(rest[1:], env2))
        m = re.fullmatch(r"let (\w+) = (\w+)\.len\(\)", s)
        if m and env.get(m.group(2), (None, None))[1] == "dlist":
            env = dict(env)
            env[m.group(1)] = ("(length %s)" % env[m.group(2)][0], "nat")
            return self.stmts(rest, env)
        m = re.fullmatch(r"if let Err\(e\) = check_requirements\((\w+), (\w+)\.len\(\)\) \{ abort\(e\)\?; \}", s)
        if m and env.get(m.group(1), (None, None))[1] == "nat" and env.get(m.group(2), (None, None))[1] == "dlist":
            return ("match check_requirements %s (length %s) with\n  | Some e => Fail e\n  | None =>\n  %s\n  end"
                    % (env[m.group(1)][0], env[m.group(2)][0], self.stmts(rest, env)))
        m = re.fullmatch(r"let (\w+) = map\.read_vertex\(t, (\w+)\)\?\.unwrap\(\)", s)
        if m:
            o, v = self.fresh("ov"), self.fresh(m.group(1))
            env2 = dict(env)
            env2[m.group(1)] = (v, None)
            return ("%s <- rdV %s ;;\n  match %s with\n  | None => Panic UnwrapNone\n  | Some %s =>\n  %s\n  end"
                    % (o, self.val(m.group(2), env)[0], o, v, self.stmts(rest, env2)))
        # the fan loop:  let mut d0 = X;  for sl in L.chunks_exact(2) { let [a, b] = sl else { unreachable!() }; BODY; d0 = *b; }
        m = re.fullmatch(r"let mut (\w+) = (\w+)", s)
        if m and rest:
            m2 = re.match(r"for sl in (\w+)\.chunks_exact\(2\) \{", rest[0][0])
            if m2 and env.get(m2.group(1), (None, None))[1] == "dlist":
                body = rest[0][0][m2.end():-1].strip()
                bs = split_stmts(body)
                m3 = re.fullmatch(r"let \[(\w+), (\w+)\] = sl else \{ unreachable!\(\) \}", bs[0][0])
                m4 = re.fullmatch(r"%s = \*(\w+)" % m.group(1), bs[-1][0])
                if not (m3 and m4 and m4.group(1) == m3.group(2)):
                    self.bad("loop over pairs", rest[0][0])
                acc, a_, b_ = m.group(1), m3.group(1), m3.group(2)
                lname = "gen_%s_loop" % self.name
                envb = dict(env)
                envb[acc], envb[a_], envb[b_] = (acc, None), (a_, None), (b_, None)
                # the loop body ends with the recursive call on the rest of the list
                inner = self.stmts(bs[1:-1] + [("__REC__", False)], envb)
                inner = inner.replace("__REC__", "%s n ks %s r" % (lname, b_))
                self.aux.append("Fixpoint %s (n : N) (ks : kinds) (%s : N) (pairs : list (N * N)) : prog N :=\n  match pairs with\n  | [] => Ret %s\n  | (%s, %s) :: r =>\n  %s\n  end."
                                % (lname, acc, acc, a_, b_, inner))
                v = self.fresh(acc)
                env2 = dict(env)
                env2[acc] = (v, None)
                return "%s <- %s n ks %s (chunks2 %s) ;;\n  %s" % (v, lname, self.val(m.group(2), env)[0], env[m2.group(1)][0], self.stmts(rest[1:], env2))
        if s == "__REC__":
            return "__REC__"
        # is_some_and on the optional position
        m = re.fullmatch(r"if (\w+)\.is_some_and\(\|t\| \(t >= T::one\(\)\) \| \(t <= T::zero\(\)\)\) \{ abort\(([\w:]+)\)\?; \}", s)
        if m and env.get(m.group(1), (None, None))[1] == "optsc" and m.group(2) in ERR:
            o = env[m.group(1)][0]
            return ("if match %s with Some t0 => negb (sc_in_unit t0) | None => false end then Fail %s else\n  %s"
                    % (o, ERR[m.group(2)], self.stmts(rest, env)))
        # spare dart checks: `A == NULL || !is_free(A)?`  and  `B != NULL && (A == NULL || !is_free(A)?)`
        m = re.fullmatch(r"if ([\w.]+) == NULL_DART_ID \|\| !is_free_transac\(map, t, ([\w.]+)\)\? \{ abort\(VertexInsertionError::InvalidDarts\( ?\"[^\"]*\",? ?\)\)\?; \}", s)
        if m and m.group(1) == m.group(2):
            a_ = self.val(m.group(1), env)[0]
            f = self.fresh("f")
            return ("%s <- (if %s =? 0 then Ret false else is_free_atomic %s) ;;\n  if negb %s then Fail EInvalidDarts else\n  %s"
                    % (f, a_, a_, f, self.stmts(rest, env)))
        m = re.fullmatch(r"if (\w+) != NULL_DART_ID && \(([\w.]+) == NULL_DART_ID \|\| !is_free_transac\(map, t, ([\w.]+)\)\?\) \{ abort\(VertexInsertionError::InvalidDarts\( ?\"[^\"]*\",? ?\)\)\?; \}", s)
        if m and m.group(2) == m.group(3):
            b_ = self.val(m.group(1), env)[0]
            a_ = self.val(m.group(2), env)[0]
            f = self.fresh("f")
            return ("%s <- (if %s =? 0 then Ret true else if %s =? 0 then Ret false else is_free_atomic %s) ;;\n  if negb %s then Fail EInvalidDarts else\n  %s"
                    % (f, b_, a_, a_, f, self.stmts(rest, env)))
        # let-else on two coordinate reads
        m = re.fullmatch(r"let \(Some\((\w+)\), Some\((\w+)\)\) = \( ?(.+\?), (.+\?),? ?\) else \{ abort\(([\w:]+)\)\? \}", s)
        if m and m.group(5) in ERR:
            o1, o2 = self.fresh("ov"), self.fresh("ov")
            a_, b_ = self.fresh(m.group(1)), self.fresh(m.group(2))
            e1, e2 = self.eff(m.group(3), env)[0], self.eff(m.group(4), env)[0]
            env2 = dict(env)
            env2[m.group(1)], env2[m.group(2)] = (a_, None), (b_, None)
            er = ERR[m.group(5)]
            return ("%s <- %s ;;\n  %s <- %s ;;\n  match %s with\n  | Some %s =>\n  match %s with\n  | Some %s =>\n  %s\n  | None => Fail %s\n  end\n  | None => Fail %s\n  end"
                    % (o1, e1, o2, e2, o1, a_, o2, b_, self.stmts(rest, env2), er, er))
        # value-returning kernels: the chain `if X != NULL { E1? } else if Y != NULL { E2? } else { NULL_VERTEX_ID }`
        CH = r"if (\w+) != NULL_DART_ID \{ (.+?\?) \} else if (\w+) != NULL_DART_ID \{ (.+?\?) \} else \{ NULL_VERTEX_ID \}"
        def chain(mm, k):
            return ("if negb (%s =? 0) then %s\n  else if negb (%s =? 0) then %s\n  else Ret 0"
                    % (self.val(mm.group(k), env)[0], self.eff(mm.group(k + 1), env)[0], self.val(mm.group(k + 2), env)[0], self.eff(mm.group(k + 3), env)[0]))
        m = re.fullmatch(r"Ok\(%s\)" % CH, s)
        if m and tail and not rest:
            return chain(m, 1)
        m = re.fullmatch(r"let (\w+) = %s" % CH, s)
        if m:
            v = self.fresh(m.group(1))
            env2 = dict(env)
            env2[m.group(1)] = (v, None)
            return "%s <- (%s) ;;\n  %s" % (v, chain(m, 2), self.stmts(rest, env2))
        m = re.fullmatch(r"Ok\((\w+)\)", s)
        if m and tail and not rest and m.group(1) in env:
            return "Ret %s" % self.val(m.group(1), env)[0]
        # two-branch / one-branch statement: if X != NULL { B1 } [else { B2 }]
        m = re.match(r"if (\w+) != NULL_(?:DART|VERTEX)_ID \{", s)
        if m and not re.match(r"if \w+ != NULL_DART_ID \{ try_or_coerce!\([^;]*\); \}$", s):
            c1 = match_close(s, m.end() - 1)
            if c1 == len(s) - 1:
                b1 = self.stmts(split_stmts(s[m.end():c1]), env)
                return then("(if negb (%s =? 0) then %s else Ret tt)" % (self.val(m.group(1), env)[0], b1))
            me = re.fullmatch(r"else \{(.*)\}", s[c1 + 1:].strip())
            if me:
                b1 = self.stmts(split_stmts(s[m.end():c1]), env)
                b2 = self.stmts(split_stmts(me.group(1)), env)
                txt = "if negb (%s =? 0) then\n  %s\n  else\n  %s" % (self.val(m.group(1), env)[0], b1, b2)
                return txt if last else then("(%s)" % txt)
        # one-branch statement on a fresh read: if E? != NULL { B }
        m = re.match(r"if (map\.beta_transac::<\d>\(t, \w+\)\?) != NULL_DART_ID \{", s)
        if m and match_close(s, m.end() - 1) == len(s) - 1:
            x = self.fresh("x")
            b1 = self.stmts(split_stmts(s[m.end():-1]), env)
            return "%s <- %s ;;\n  %s" % (x, self.eff(m.group(1), env)[0], then("(if negb (%s =? 0) then %s else Ret tt)" % (x, b1)))
        # conditional core: if X != NULL { try_or_coerce!(CALL, E); }
        m = re.fullmatch(r"if (\w+) != NULL_DART_ID \{ try_or_coerce!\( ?(.+?),? (\w+) ?\); \}", s)
        if m:
            c_, u = self.call(m.group(2), env)
            return then("(if negb (%s =? 0) then %s else Ret tt)" % (self.val(m.group(1), env)[0], c_))
        # two-branch tail: if X == NULL { B1 } else { B2 }
        m = re.match(r"if (\w+) == NULL_DART_ID \{", s)
        if m and not rest:
            c1 = match_close(s, m.end() - 1)
            after = s[c1 + 1:].strip()
            me = re.fullmatch(r"else \{(.*)\}", after)
            if me:
                b1 = self.stmts(split_stmts(s[m.end():c1]), env)
                b2 = self.stmts(split_stmts(me.group(1)), env)
                return "if %s =? 0 then\n  %s\n  else\n  %s" % (self.val(m.group(1), env)[0], b1, b2)
        # pure lets of this kernel
        m = re.fullmatch(r"let (\w+) = (\w+) - (\w+)", s)
        if m:
            env = dict(env)
            env[m.group(1)] = (None, ("seg", m.group(3), m.group(2)))
            return self.stmts(rest, env)
        m = re.fullmatch(r"let \((\w+), (\w+)\) = (\w+)", s)
        if m and m.group(3) in env and isinstance(env[m.group(3)][1], tuple) and env[m.group(3)][1][0] == "pair":
            env = dict(env)
            env[m.group(1)] = (env[m.group(3)][1][1], None)
            env[m.group(2)] = (env[m.group(3)][1][2], None)
            return self.stmts(rest, env)
        m = re.fullmatch(r"let (\w+) = ([\w.]+)", s)
        if m:
            env = dict(env)
            env[m.group(1)] = self.val(m.group(2), env)
            return self.stmts(rest, env)
        m = re.fullmatch(r"let (\w+) = (.+\?)", s)
        if m:
            v = self.fresh(m.group(1))
            p, ty = self.eff(m.group(2), env)
            env2 = dict(env)
            env2[m.group(1)] = (v, ty)
            return "%s <- %s ;;\n  %s" % (v, p, self.stmts(rest, env2))
        m = re.fullmatch(r"if (.+) \{ abort\(([\w:]+)\)\?; \}", s)
        if m:
            if m.group(2) not in ERR:
                self.bad("error value", m.group(2))
            pre, c = self.cond(m.group(1), env)
            return "%sif %s then Fail %s else\n  %s" % (pre, c, ERR[m.group(2)], self.stmts(rest, env))
        m = re.match(r"if let Some\((.+?)\) = (\w+) \{", s)
        if m:
            c1 = match_close(s, m.end() - 1)
            b1 = s[m.end():c1]
            after = s[c1 + 1:].strip()
            b2 = None
            if after:
                me = re.fullmatch(r"else \{(.*)\}", after)
                if not me:
                    self.bad("if-let continuation", after)
                b2 = me.group(1)
            pat = m.group(1).strip()
            v, ty = self.val(m.group(2), env)
            env2 = dict(env)
            mt = re.fullmatch(r"\(([\w, ]+)\)", pat)
            if mt:
                names = [x.strip() for x in mt.group(1).split(",")]
                if not isinstance(ty, tuple) or len(ty) != len(names):
                    self.bad("tuple pattern", s)
                xs = [self.fresh(nm) for nm in names]
                for nm, x, t_ in zip(names, xs, ty):
                    env2[nm] = (x, t_)
                cpat = "(%s)" % ", ".join(xs)
            else:
                x = self.fresh(pat)
                env2[pat] = (x, ty)
                cpat = x
            body = self.stmts(split_stmts(b1), env2)
            other = self.stmts(split_stmts(b2), env) if b2 is not None else "Ret tt"
            return then("(match %s with\n  | Some %s =>\n  %s\n  | None => %s\n  end)" % (v, cpat, body, other))
        m = re.fullmatch(r"if map\.contains_attribute::<(\w+)>\(\) \{(.*)\}", s)
        if m and m.group(1) in KIND:
            body = self.stmts(split_stmts(m.group(2)), env)
            return then("(if has_kind ks %s then %s else Ret tt)" % (KIND[m.group(1)], body))
        m = re.fullmatch(r"for \(([\w, ]+)\) in \[(.+)\] \{(.*)\}", s)
        if m:
            names = [x.strip() for x in m.group(1).split(",")]
            body = split_stmts(m.group(3))
            txts = []
            for item in split_top(m.group(2)):
                mi = re.fullmatch(r"\((.+)\)", item)
                comps = split_top(mi.group(1)) if mi else []
                if len(comps) != len(names):
                    self.bad("for item", item)
                env2 = dict(env)
                for nm, c in zip(names, comps):
                    env2[nm] = self.val(c, env)
                txts.append("(" + self.stmts(body, env2) + ")")
            return then(" ;;;\n  ".join(txts))
        m = re.fullmatch(r"((?:map\.|collapse_halfcell_to_).+)\?", s)
        if m and not tail:
            c, u = self.call(m.group(1), env)
            if last and not u:
                return "%s ;;; Ret tt" % c
            return then(c, u)
        self.bad("statement", s)


TARGETS = [
    ("cut_outer_edge", "/repo/honeycomb-kernels/src/remeshing/cut.rs", "gen_cut_outer_edge"),
    ("cut_inner_edge", "/repo/honeycomb-kernels/src/remeshing/cut.rs", "gen_cut_inner_edge"),
    ("swap_edge", "/repo/honeycomb-kernels/src/remeshing/swap.rs", "gen_swap_edge"),
    ("insert_vertex_on_edge", "/repo/honeycomb-kernels/src/cell_insertion/vertices.rs", "gen_insert_vertex_on_edge"),
    ("process_convex_cell", "/repo/honeycomb-kernels/src/triangulation/fan.rs", "gen_fan_convex_cell"),
    ("collapse_halfcell_to_midpoint", "/repo/honeycomb-kernels/src/remeshing/collapse.rs", "gen_collapse_halfcell_to_midpoint"),
    ("collapse_halfcell_to_base", "/repo/honeycomb-kernels/src/remeshing/collapse.rs", "gen_collapse_halfcell_to_base"),
    ("collapse_edge_to_midpoint", "/repo/honeycomb-kernels/src/remeshing/collapse.rs", "gen_collapse_edge_to_midpoint"),
    ("collapse_edge_to_base", "/repo/honeycomb-kernels/src/remeshing/collapse.rs", "gen_collapse_edge_to_base"),
]
RET = {"collapse_edge_to_midpoint": "N", "collapse_edge_to_base": "N"}
OUT = "/verif/coq/theories/Map2/GenKern.v"


def main():
    defs = []
    for f, path, gname in TARGETS:
        src = strip_comments(open(path).read())
        specs, body = fn_parts(src, f)
        t = Tr(f, specs)
        text = t.stmts(split_stmts(body), t.env)
        darts = []
        for a_, kind in specs:
            darts += [a_] if kind == "dart" else ([a_ + "_0", a_ + "_1"] if kind == "pair" else [])
        opts = "".join(" (%s : option Sc)" % a_ for a_, kind in specs if kind == "optsc")
        opts += "".join(" (%s : list N)" % a_ for a_, kind in specs if kind == "dlist")
        defs.extend(t.aux)
        defs.append("Definition %s (n : N) (ks : kinds) (%s : N)%s : prog %s :=\n  %s." % (gname, " ".join(darts), opts, RET.get(f, "unit"), text))
    text = ("(** GENERATED by tools/tr_kern.py from %s -- do not edit. *)\n"
            "From Coq Require Import List NArith Bool.\nFrom HC Require Import Stm.Prog Map2.Ops2 Map2.Orbit2 Map2.Kern2.\nImport ListNotations.\nOpen Scope N_scope.\n\n"
            "Section GenKern.\nContext `{Sig}.\n\n%s\n\nEnd GenKern.\n") % (", ".join(sorted(set(p for _, p, _ in TARGETS))), "\n\n".join(defs))
    try:
        old = open(OUT).read()
    except OSError:
        old = None
    if old != text:
        open(OUT, "w").write(text)


if __name__ == "__main__":
    try:
        main()
    except Fail as e:
        sys.stderr.write("tr_kern: %s\n" % e)
        sys.exit(1)
