#!/usr/bin/env python3
"""Translator: honeycomb-core/src/geometry/dim{2,3}/{vector,vertex}.rs  ->  coq/theories/Geom/GenGeom.v

Handles the straight-line arithmetic subset of the four files:
  * `impl<T: CoordsFloat> std::ops::{Add,Sub,Mul,Div,Neg}[<R>] for X<T>`   (value: one constructor call)
  * `impl<T: CoordsFloat> std::ops::{Add,Sub,Mul,Div}Assign<R> for X<T>`    (`self.i op= e;` statements)
  * the inherent methods dot, cross, norm, average, cross_product_from_vertices
Everything is generated over an abstract scalar (Section variables), so the same definitions are
instantiated with Q (algebraic laws), Flocq binary floats (exact float laws) and PrimFloat
(correspondence runs).  Anything outside the subset makes the translator fail loudly.
`unit_dir` / `normal_dir` (Result-valued, use `?`-less control flow) are tied by text: their
normalised source is emitted as a string constant and compared with the expected template.
"""
import re, sys, os, hashlib

REPO = "/repo/honeycomb-core/src/geometry"
OUT = "/verif/coq/theories/Geom/GenGeom.v"
FILES = [("dim2/vector.rs", "Vector2", 2), ("dim2/vertex.rs", "Vertex2", 2),
         ("dim3/vector.rs", "Vector3", 3), ("dim3/vertex.rs", "Vertex3", 3)]
DIM = {"Vector2": 2, "Vertex2": 2, "Vector3": 3, "Vertex3": 3}


class Fail(Exception):
    pass


def strip_comments(s):
    s = re.sub(r"//[^\n]*", "", s)
    return re.sub(r"/\*.*?\*/", "", s, flags=re.S)


def match_brace(s, i):
    assert s[i] == "{"
    d = 0
    for j in range(i, len(s)):
        if s[j] == "{":
            d += 1
        elif s[j] == "}":
            d -= 1
            if d == 0:
                return j
    raise Fail("unbalanced braces")


# ------------------------------------------------------------------ expressions
TOK = re.compile(r"\s*(?:(\d+\.\d+|\d+)|([A-Za-z_][A-Za-z_0-9]*(?:::[A-Za-z_][A-Za-z_0-9]*)*)|(.))")


def tokenize(s):
    out, i = [], 0
    while i < len(s):
        m = TOK.match(s, i)
        if not m:
            break
        i = m.end()
        if m.group(1):
            out.append(("num", m.group(1)))
        elif m.group(2):
            out.append(("id", m.group(2)))
        elif m.group(3).strip():
            out.append(("op", m.group(3)))
    return out


class P:
    def __init__(self, toks, env):
        self.t, self.i, self.env = toks, 0, env

    def peek(self):
        return self.t[self.i] if self.i < len(self.t) else (None, None)

    def eat(self, v=None):
        k, x = self.peek()
        if v is not None and x != v:
            raise Fail("expected %r, got %r" % (v, x))
        self.i += 1
        return x

    def expr(self):
        a = self.term()
        while self.peek()[1] in ("+", "-"):
            op = self.eat()
            b = self.term()
            a = "(%s %s %s)" % ("fadd" if op == "+" else "fsub", a, b)
        return a

    def term(self):
        a = self.unary()
        while self.peek()[1] in ("*", "/"):
            op = self.eat()
            b = self.unary()
            a = "(%s %s %s)" % ("fmul" if op == "*" else "fdiv", a, b)
        return a

    def unary(self):
        if self.peek()[1] == "-":
            self.eat()
            return "(fneg %s)" % self.unary()
        if self.peek()[1] in ("*", "&"):          # deref / borrow are transparent
            self.eat()
            return self.unary()
        return self.postfix()

    def postfix(self):
        a = self.atom()
        while self.peek()[1] == ".":
            self.eat(".")
            k, x = self.peek()
            if k == "num":                         # tuple field
                self.eat()
                a = "(p%s %s)" % (x, a)
            elif k == "id":
                self.eat()
                self.eat("(")
                if x in ("x", "y", "z"):
                    self.eat(")")
                    a = "(p%d %s)" % ("xyz".index(x), a)
                elif x == "hypot":
                    b = self.expr()
                    self.eat(")")
                    a = "(fhypot %s %s)" % (a, b)
                elif x == "sqrt":
                    self.eat(")")
                    a = "(fsqrt %s)" % a
                else:
                    raise Fail("method .%s() outside the translated subset" % x)
            else:
                raise Fail("bad postfix")
        return a

    def atom(self):
        k, x = self.peek()
        if x == "(":
            self.eat("(")
            a = self.expr()
            self.eat(")")
            return a
        if k == "id":
            self.eat()
            if x == "T::zero":
                self.eat("("); self.eat(")")
                return "fzero"
            if x == "T::one":
                self.eat("("); self.eat(")")
                return "fone"
            if x in self.env:
                return self.env[x]
            raise Fail("unknown identifier %s" % x)
        raise Fail("unexpected token %r" % (x,))


def parse_expr(src, env):
    p = P(tokenize(src), env)
    e = p.expr()
    if p.i != len(p.t):
        raise Fail("trailing tokens in expression %r" % src)
    return e


def split_args(s):
    out, d, cur = [], 0, ""
    for c in s:
        if c in "(<[":
            d += 1
        if c in ")>]":
            d -= 1
        if c == "," and d == 0:
            out.append(cur); cur = ""
        else:
            cur += c
    if cur.strip():
        out.append(cur)
    return [x.strip() for x in out]


def tuple_of(es):
    return "(%s)" % ", ".join(es)


def rhs_tag(r):
    if r is None:
        return ""
    r = r.strip()
    ref = r.startswith("&")
    r = r.lstrip("&").strip()
    if r == "T":
        return "_t"
    m = re.match(r"(\w+)<T>", r)
    if not m:
        raise Fail("unsupported right-hand side type %s" % r)
    return "_" + ("ref" if ref else "") + m.group(1).lower()


def ctor_call(body, env):
    """`Self(e0, e1[, e2])` / `Vector2(e0, e1)` -> list of component expressions"""
    body = body.strip()
    body = re.sub(r"^assert!\([^;]*\);", "", body).strip()      # Div: assert!(!rhs.is_zero())
    m = re.match(r"^(Self|Vector2|Vector3|Vertex2|Vertex3)\s*\((.*)\)$", body, re.S)
    if not m:
        raise Fail("body is not a single constructor call: %r" % body[:80])
    return [parse_expr(a, env) for a in split_args(m.group(2))]


def main():
    defs, lemmas, binops, assigns, texts = [], [], {}, {}, {}
    sigs = []   # (name, [param kinds], result kind); kind = 2 | 3 | "F"
    for rel, ty, dim in FILES:
        src = strip_comments(open(os.path.join(REPO, rel)).read())
        tyl = ty.lower()
        # ---- operator impls
        for m in re.finditer(r"impl<T: CoordsFloat> std::ops::(\w+)(?:<(.*?)>)? for (\w+)<T>\s*\{", src):
            trait, rhs, target = m.group(1), m.group(2), m.group(3)
            if target != ty:
                raise Fail("%s: impl for %s in the file of %s" % (rel, target, ty))
            end = match_brace(src, m.end() - 1)
            block = src[m.end():end]
            fm = re.search(r"fn (\w+)\s*\((.*?)\)\s*(?:->\s*[\w:<>]+\s*)?\{", block, re.S)
            if not fm:
                raise Fail("%s: no fn in impl %s" % (rel, trait))
            fend = match_brace(block, fm.end() - 1)
            body = block[fm.end():fend]
            tag = rhs_tag(rhs)
            env = {"self": "self", "rhs": "rhs"}
            if trait.endswith("Assign"):
                op = trait[:-6].lower()
                comps = ["(p%d self)" % i for i in range(dim)]
                stmts = [x.strip() for x in body.split(";") if x.strip()]
                for st in stmts:
                    if st.startswith("assert!"):
                        continue
                    sm = re.match(r"^self\.(\d)\s*([-+*/])=\s*(.*)$", st, re.S)
                    if not sm:
                        raise Fail("%s: statement outside the subset in %s: %r" % (rel, trait, st))
                    i, o, e = int(sm.group(1)), sm.group(2), sm.group(3)
                    fn = {"+": "fadd", "-": "fsub", "*": "fmul", "/": "fdiv"}[o]
                    # `self.i` on the right refers to the current value of the component
                    cur_env = dict(env)
                    val = parse_expr(e, cur_env)
                    for j in range(dim):
                        val = val.replace("(p%d self)" % j, "@S%d@" % j)
                    for j in range(dim):
                        val = val.replace("@S%d@" % j, comps[j])
                    comps[i] = "(%s %s %s)" % (fn, comps[i], val)
                name = "%s_%s_assign%s" % (tyl, op, tag)
                defs.append("Definition %s (self : vec%d) (rhs : %s) : vec%d := %s." % (
                    name, dim, "F" if tag == "_t" else "vec%d" % dim, dim, tuple_of(comps)))
                assigns[(ty, op, tag)] = name
                sigs.append((name, [dim, "F" if tag == "_t" else dim], dim))
            elif trait == "Neg":
                es = ctor_call(body, env)
                name = "%s_neg" % tyl
                sigs.append((name, [dim], dim))
                defs.append("Definition %s (self : vec%d) : vec%d := %s." % (name, dim, dim, tuple_of(es)))
            elif trait in ("Add", "Sub", "Mul", "Div"):
                es = ctor_call(body, env)
                op = trait.lower()
                name = "%s_%s%s" % (tyl, op, tag)
                defs.append("Definition %s (self : vec%d) (rhs : %s) : vec%d := %s." % (
                    name, dim, "F" if tag == "_t" else "vec%d" % dim, len(es), tuple_of(es)))
                binops[(ty, op, tag)] = name
                sigs.append((name, [dim, "F" if tag == "_t" else dim], len(es)))
            else:
                raise Fail("%s: std::ops::%s is outside the translated subset" % (rel, trait))
        # ---- inherent methods
        for mname in ("dot", "cross", "norm", "average", "cross_product_from_vertices"):
            fm = re.search(r"pub fn %s\s*\((.*?)\)\s*->\s*([\w<>]+)\s*\{" % mname, src, re.S)
            if not fm:
                continue
            fend = match_brace(src, fm.end() - 1)
            body = src[fm.end():fend].strip()
            params = [a.split(":")[0].strip().lstrip("&") for a in split_args(fm.group(1))]
            env = {"two": "ftwo"}
            args = []
            for pn in params:
                pn = pn.replace("&", "").strip()
                env[pn] = pn if pn != "self" else "self"
                args.append("(%s : vec%d)" % (pn, dim))
            body = re.sub(r"let two = T::from\(2\.0\)\.unwrap\(\);", "", body).strip()
            ret = fm.group(2)
            name = "%s_%s" % (tyl, mname)
            sigs.append((name, [dim] * len(params), "F" if ret == "T" else dim))
            if ret == "T":
                e = parse_expr(body, env)
                defs.append("Definition %s %s : F := %s." % (name, " ".join(args), e))
            else:
                es = ctor_call(body, env)
                defs.append("Definition %s %s : vec%d := %s." % (name, " ".join(args), len(es), tuple_of(es)))
        # ---- text ties
        for mname in ("unit_dir", "normal_dir"):
            fm = re.search(r"pub fn %s\s*\(.*?\)\s*->\s*[^{]*\{" % mname, src, re.S)
            if fm:
                fend = match_brace(src, fm.end() - 1)
                texts["%s_%s" % (tyl, mname)] = re.sub(r"\s+", " ", src[fm.end():fend]).strip()
    # ---- assign = binary lemmas
    for (ty, op, tag), aname in sorted(assigns.items()):
        bname = binops.get((ty, op, tag))
        if bname is None:
            raise Fail("no binary counterpart for %s" % aname)
        dim = DIM[ty]
        pat = "[[? ?] ?]" if dim == 3 else "[? ?]"
        rpat = "?" if tag == "_t" else pat
        lemmas.append("Lemma %s_eq : forall self rhs, %s self rhs = %s self rhs.\nProof. intros %s %s. reflexivity. Qed." % (
            aname, aname, bname, pat, rpat))
    expected = {
        "vector2_unit_dir": "let norm = self.norm(); if norm.is_zero() { Err(CoordsError::InvalidUnitDir) } else { Ok(*self / norm) }",
        "vector3_unit_dir": "let norm = self.norm(); if norm.is_zero() { Err(CoordsError::InvalidUnitDir) } else { Ok(*self / norm) }",
        "vector2_normal_dir": "Self(-self.1, self.0) .unit_dir() .map_err(|_| CoordsError::InvalidNormDir)",
    }
    def with_ops(txt):
        txt = re.sub(r"\b(fadd|fsub|fmul|fdiv|fneg|fsqrt|fhypot)\b", r"\1 o", txt)
        return re.sub(r"\b(fzero|fone|ftwo)\b", r"(\1 o)", txt)

    def with_sig(d):
        # Definition name (args) : T := body.   ->   Definition name {F} (o : fops F) (args) ...
        d = re.sub(r"^Definition (\w+) ", r"Definition \1 {F : Type} (o : fops F) ", d)
        d = d.replace(": vec2", ": vec2 F").replace(": vec3", ": vec3 F")
        head, _, body = d.partition(":=")
        return head + ":=" + with_ops(body)

    out = []
    out.append("(** * GENERATED by tools/tr_geom.py from honeycomb-core/src/geometry -- do not edit. *)")
    out.append("From Coq Require Import String List.\nImport ListNotations.")
    out.append("Record fops (F : Type) := { fadd : F -> F -> F; fsub : F -> F -> F; fmul : F -> F -> F; fdiv : F -> F -> F;\n"
               "  fneg : F -> F; fsqrt : F -> F; fhypot : F -> F -> F; fzero : F; fone : F; ftwo : F }.")
    out.append("Arguments fadd {F}. Arguments fsub {F}. Arguments fmul {F}. Arguments fdiv {F}. Arguments fneg {F}.\n"
               "Arguments fsqrt {F}. Arguments fhypot {F}. Arguments fzero {F}. Arguments fone {F}. Arguments ftwo {F}.")
    out.append("Definition vec2 (F : Type) : Type := (F * F)%type.\nDefinition vec3 (F : Type) : Type := (F * F * F)%type.")
    out.append("Definition p0 {X Y} (v : X * Y) : X := fst v.\nDefinition p1 {X Y} (v : X * Y) : Y := snd v.")
    out.append("\n".join(with_sig(d) for d in defs))
    cases = []
    for i, (name, params, ret) in enumerate(sigs):
        vars_, args, k = [], [], 0
        for pk in params:
            if pk == "F":
                args.append("a%d" % k); vars_.append("a%d" % k); k += 1
            else:
                comp = ["a%d" % (k + j) for j in range(pk)]
                args.append("(%s)" % ", ".join(comp)); vars_ += comp; k += pk
        call = "%s o %s" % (name, " ".join(args))
        if ret == "F":
            res = "[%s]" % call
        elif ret == 2:
            res = "let r := %s in [fst r; snd r]" % call
        else:
            res = "let r := %s in [fst (fst r); snd (fst r); snd r]" % call
        cases.append("  | %d%%nat, [%s] => %s" % (i, "; ".join(vars_), res))
    out.append("Definition geom_run {F : Type} (o : fops F) (op : nat) (a : list F) : list F :=\n  match op, a with\n%s\n  | _, _ => []\n  end." % "\n".join(cases))
    out.append("Definition geom_ops : list string := [%s]%%string." % "; ".join('"%s"' % n for n, _, _ in sigs))
    for k, v in sorted(texts.items()):
        out.append('Definition src_%s : string := "%s"%%string.' % (k, v.replace('"', '""')))
    res = fix_projections("\n".join(out) + "\n")
    os.makedirs(os.path.dirname(OUT), exist_ok=True)
    if not os.path.exists(OUT) or open(OUT).read() != res:
        open(OUT, "w").write(res)
    laws = ["(** * GENERATED by tools/tr_geom.py -- laws that hold by construction of the source:",
            "    every compound-assignment operator equals its binary counterpart, for every scalar type. *)",
            "From Coq Require Import String.", "From HC Require Import Geom.GenGeom."]
    for l in lemmas:
        l = l.replace("forall self rhs,", "forall (F : Type) (o : fops F) self rhs,")
        l = re.sub(r"(\w+) self rhs", r"\1 o self rhs", l)
        l = l.replace("Proof. intros ", "Proof. intros F o ")
        laws.append(l)
    for k, v in sorted(texts.items()):
        if k in expected:
            laws.append('Lemma src_%s_expected : src_%s = "%s"%%string. Proof. reflexivity. Qed.' % (k, k, expected[k].replace('"', '""')))
    lres = "\n".join(laws) + "\n"
    LOUT = OUT.replace("GenGeom.v", "GenGeomLaws.v")
    if not os.path.exists(LOUT) or open(LOUT).read() != lres:
        open(LOUT, "w").write(lres)


def fix_projections(res):
    """p0/p1/p2 on v3 values are q0/q1/q2 (nested pairs); decide per definition from its types."""
    out = []
    for line in res.split("\n"):
        if line.startswith("Definition") and ("vec3" in line.split(":=")[0]) and not line.startswith("Definition vec2 (") and not line.startswith("Definition vec3 ("):
            head, _, body = line.partition(":=")
            body = re.sub(r"\(p([012]) (\w+)\)", lambda m: "(q%s %s)" % (m.group(1), m.group(2)), body)
            line = head + ":=" + body
        out.append(line)
    res = "\n".join(out)
    res = res.replace("Definition p1 {X Y} (v : X * Y) : Y := snd v.",
                      "Definition p1 {X Y} (v : X * Y) : Y := snd v.\n"
                      "Definition q0 {X Y Z} (v : X * Y * Z) : X := fst (fst v).\n"
                      "Definition q1 {X Y Z} (v : X * Y * Z) : Y := snd (fst v).\n"
                      "Definition q2 {X Y Z} (v : X * Y * Z) : Z := snd v.")
    return res


if __name__ == "__main__":
    try:
        main()
    except Fail as e:
        print("tr_geom: %s" % e)
        sys.exit(1)
