#!/bin/bash
# usage: try_mutant.sh <patch.diff> <Cxx> [Cyy ...]   -- applies the patch to /repo, runs the quick checks, reverts
# (the evidence files written under the mutant are discarded: evidence/ is restored afterwards)
P=$1; shift
git -C /repo apply "$P" || { echo "patch does not apply"; exit 3; }
SAVE=$(mktemp -d /tmp/evsave.XXXX); cp -a /verif/evidence/. $SAVE/
for id in "$@"; do
  timeout 1800 /verif/hc.py check $id --tier ${TIER:-quick} 2>&1 | grep -v "conda\|Conda\|PermissionError\|^$" | tail -6
  echo "== $id rc=${PIPESTATUS[0]}"
done
git -C /repo checkout -- . 
git -C /repo status --short | head -3
cp -a $SAVE/. /verif/evidence/; rm -rf $SAVE
