#!/usr/bin/env python3
"""keep_mutant.py Cxx k detected_by_json  -- copy a confirmed agent-made mutant into /verif/seeded/Cxx-k/"""
import sys, json, os, shutil
pid, k, det = sys.argv[1], sys.argv[2], json.loads(sys.argv[3])
src = "/tmp/mut_%s/%s" % (pid, k)
dst = "/verif/seeded/%s-%s" % (pid, k)
os.makedirs(dst, exist_ok=True)
shutil.copy(src + "/patch.diff", dst + "/patch.diff")
shutil.copy(src + "/demo.rs", dst + "/demo.rs")
meta = json.load(open(src + "/meta.json"))
conf = json.load(open(src + "/confirm.json")) if os.path.exists(src + "/confirm.json") else {}
out = dict(property=pid, summary=meta.get("summary"), clause_broken=meta.get("clause_broken"),
           needs_to_manifest=meta.get("needs_to_manifest"), demo_location=conf.get("demo_dest", meta.get("demo_location")),
           demo_command=meta.get("demo_command"),
           confirmed_in_scratch_worktree=conf,
           what_i_ran=["tools/confirm_mutant.sh %s %s  (demo without patch, demo with patch, full suite with patch, in /tmp/wt_%s)" % (pid, k, pid),
                       "tools/try_mutant.sh /tmp/mut_%s/%s/patch.diff <checks>  (git apply to /repo, quick checks, git checkout)" % (pid, k)],
           detection=det)
json.dump(out, open(dst + "/meta.json", "w"), indent=1)
print("kept", dst)
