#!/bin/bash
# usage: regress_mutants.sh [Cxx-k ...]  -- applies every kept seeded change to /repo in turn, runs the quick check(s)
# named in its meta.json detection map, expects rc=1, reverts. Prints one line per seeded change.
cd /verif
LIST="$@"; [ -z "$LIST" ] && LIST=$(ls seeded | grep -v obsolete)
SAVE=$(mktemp -d /tmp/evsave.XXXX); cp -a /verif/evidence/. $SAVE/
for m in $LIST; do
  P=/verif/seeded/$m/patch.diff
  CHECKS=$(python3 -c "
import json,re
ks=json.load(open('seeded/$m/meta.json'))['detection'].keys()
ids=[]
for k in ks:
    for t in k.split():
        if re.fullmatch(r'C[0-9][0-9]', t) and t not in ids: ids.append(t)
print(' '.join(ids))")
  if ! git -C /repo apply --check $P 2>/dev/null; then echo "$m PATCH-DOES-NOT-APPLY"; continue; fi
  git -C /repo apply $P
  RES=""
  for id in $CHECKS; do
    OUT=$(timeout 1800 ./hc.py check $id --tier quick 2>&1 | grep -v "conda\|Conda\|PermissionError\|^$")
    rc=$?
    if echo "$OUT" | grep -q "^VIOLATION"; then
      if echo "$OUT" | grep "^VIOLATION" | grep -q "no-failing-input-found"; then RES="$RES $id:detected(no-input)"; else RES="$RES $id:detected"; fi
    else RES="$RES $id:MISSED"; fi
  done
  git -C /repo checkout -- .
  echo "$m$RES"
done
cp -a $SAVE/. /verif/evidence/; rm -rf $SAVE
