#!/usr/bin/env python3
"""Orchestrator of the honeycomb verification checks.

  hc.py setup                          build everything (Coq, extracted model, Rust harness)
  hc.py check Cxx [--tier quick|thorough]
  hc.py replay <replay.json>

Decision protocol: DESIGN.md section 6.  Exit 0 = held on everything explored,
exit 1 = `VIOLATION property=<id> replay=<path>` printed, exit 2 = infrastructure failure.
"""
import sys, os, json, time, subprocess, hashlib, re, shutil, fcntl, glob

V = os.path.dirname(os.path.abspath(__file__))
sys.path.insert(0, os.path.join(V, "lib"))
BUILD = os.path.join(V, ".build")
COQ = os.path.join(V, "coq")
TARGET = os.path.join(BUILD, "target")
GUARD = "honeycomb_verif"

ENV = dict(os.environ)
ENV.update(CARGO_NET_OFFLINE="true", CARGO_TARGET_DIR=TARGET,
           RUSTFLAGS="--cfg " + GUARD, RUST_BACKTRACE="0")

ALLOWED_AXIOMS = {
    # declared by the Coq standard library (Reals / classical logic / extensionality)
    "Classical_Prop.classic", "ClassicalDedekindReals.sig_forall_dec",
    "ClassicalDedekindReals.sig_not_dec", "FunctionalExtensionality.functional_extensionality_dep",
}
# primitive float/int axioms of Coq.Floats (only reachable through the PrimFloat instance)
ALLOWED_PREFIX = ("FloatAxioms.", "PrimFloat.", "Uint63.", "PrimInt63.", "Uint63Axioms.", "FloatOps.", "SpecFloat.")


def sh(cmd, cwd=None, timeout=None, env=None, inp=None):
    p = subprocess.run(cmd, cwd=cwd, shell=isinstance(cmd, str), env=env or ENV, input=inp,
                       stdout=subprocess.PIPE, stderr=subprocess.STDOUT, timeout=timeout, text=True)
    return p.returncode, p.stdout


class Lock:
    def __init__(self, name):
        os.makedirs(BUILD, exist_ok=True)
        self.path = os.path.join(BUILD, name + ".lock")

    def __enter__(self):
        self.f = open(self.path, "w")
        fcntl.flock(self.f, fcntl.LOCK_EX)

    def __exit__(self, *a):
        fcntl.flock(self.f, fcntl.LOCK_UN)
        self.f.close()


# ----------------------------------------------------------------------------- builds

def regenerate():
    """Run the translators: Gen*.v from /repo's current sources (replace only if changed)."""
    msgs = []
    for tr in sorted(glob.glob(os.path.join(V, "tools", "tr_*.py"))):
        rc, out = sh([sys.executable, tr], timeout=120)
        if rc != 0:
            msgs.append((os.path.basename(tr), out[-2000:]))
    return msgs


def coq_makefile():
    mk = os.path.join(COQ, "Makefile")
    cp = os.path.join(COQ, "_CoqProject")
    if not os.path.exists(mk) or os.path.getmtime(mk) < os.path.getmtime(cp):
        sh("coq_makefile -f _CoqProject -o Makefile", cwd=COQ)


def coq_make(target=None, force=None, timeout=3000):
    """make a target of the Coq development; returns (ok, log)."""
    with Lock("coq"):
        coq_makefile()
        if force:
            for f in force:
                for ext in (".vo", ".vok", ".vos", ".glob"):
                    try:
                        os.remove(os.path.join(COQ, f[:-2] + ext))
                    except OSError:
                        pass
        cmd = ["timeout", str(timeout), "make", "-j16"] + ([target] if target else [])
        rc, out = sh(cmd, cwd=COQ, timeout=timeout + 60)
        return rc == 0, out


def build_ml():
    with Lock("ml"):
        rc, out = sh([os.path.join(V, "tools", "build_ml.sh")], timeout=1200)
        return rc == 0, out


def build_harness(crate="harness"):
    with Lock("cargo"):
        d = os.path.join(V, crate)
        lock = os.path.join(d, "Cargo.lock")
        if not os.path.exists(lock):
            shutil.copy("/repo/Cargo.lock", lock)
        env = dict(ENV)
        if crate == "harness-sched":
            # fast-stm with scheduler yield points, regenerated from the registry source on every build
            rc, out = sh([sys.executable, os.path.join(V, "sched", "make_vendor.py")], timeout=120)
            if rc != 0:
                return False, out
            env["CARGO_TARGET_DIR"] = TARGET + "-sched"
        if crate == "harness-render":
            env["CARGO_TARGET_DIR"] = TARGET + "-render"
        rc, out = sh(["cargo", "build", "--offline", "--release"], cwd=d, timeout=3000, env=env)
        return rc == 0, out


def hbin(name, crate="harness"):
    suffix = {"harness-sched": "-sched", "harness-render": "-render"}.get(crate, "")
    return os.path.join(TARGET + suffix, "release", name)


# ----------------------------------------------------------------------------- hygiene

FORBIDDEN = re.compile(r"\b(Admitted|admit|Axiom|Axioms|Parameter|Parameters|Conjecture|Conjectures|"
                       r"Admit Obligations|Unset Guard Checking|Unset Positivity Checking|"
                       r"Unset Universe Checking|bypass_check|native_compute)\b|type-in-type|impredicative-set")


def strip_comments(s):
    out, depth, i = [], 0, 0
    while i < len(s):
        if s.startswith("(*", i):
            depth += 1; i += 2
        elif s.startswith("*)", i) and depth:
            depth -= 1; i += 2
        else:
            if not depth:
                out.append(s[i])
            i += 1
    return "".join(out)


def hygiene():
    bad = []
    for p in glob.glob(os.path.join(COQ, "**", "*.v"), recursive=True) + [os.path.join(COQ, "_CoqProject")]:
        txt = strip_comments(open(p).read())
        for m in FORBIDDEN.finditer(txt):
            bad.append("%s: %s" % (os.path.relpath(p, V), m.group(0)))
    return bad


def parse_assumptions(log):
    """Return {theorem-ish index: [axioms]} from a coqc log containing Print Assumptions output."""
    axioms, closed = set(), 0
    lines = log.splitlines()
    i = 0
    while i < len(lines):
        l = lines[i]
        if l.startswith("Closed under the global context"):
            closed += 1
        elif l.startswith("Axioms:"):
            i += 1
            while i < len(lines) and (lines[i].startswith(" ") or re.match(r"^[A-Za-z_][\w.']* :", lines[i]) or re.match(r"^[A-Za-z_][\w.']*$", lines[i])):
                m = re.match(r"^([A-Za-z_][\w.']*)\s*(:|$)", lines[i])
                if m and not lines[i].startswith(" "):
                    axioms.add(m.group(1))
                i += 1
            continue
        i += 1
    return axioms, closed


# primitive types/operations of Coq's native floats and integers (not axioms of ours; printed
# by Print Assumptions because they have no body)
PRIMITIVES = {"float", "int", "of_uint63", "normfr_mantissa", "frshiftexp", "ldshiftexp", "next_up", "next_down",
              "array", "abs", "sqrt", "opp", "eqb", "ltb", "leb", "compare", "classify", "add", "sub", "mul", "div"}


def axiom_ok(a):
    last = a.split(".")[-1]
    return (a in ALLOWED_AXIOMS or a.startswith(ALLOWED_PREFIX) or a in PRIMITIVES
            or last in {x.split(".")[-1] for x in ALLOWED_AXIOMS})


def prove(pid, extra_targets=()):
    """(Re)compile Props/<pid>.v; returns dict(ok, theorems, axioms, log, failed)."""
    rel = "theories/Props/%s.v" % pid
    src = os.path.join(COQ, rel)
    res = dict(ok=False, theorems=[], axioms=[], log="", failed=None, hygiene=[])
    txt = strip_comments(open(src).read())
    res["theorems"] = re.findall(r"^\s*(?:Theorem|Corollary)\s+([\w']+)", txt, re.M)
    nprint = len(re.findall(r"Print Assumptions", txt))
    ok, log = coq_make(rel + "o", force=[rel], timeout=900)
    res["log"] = log
    if not ok:
        m = re.search(r'File "([^"]+)", line (\d+), characters [^\n]*\n(Error[^\n]*(?:\n[^\n]+){0,6})', log)
        res["failed"] = (m.group(1) + ":" + m.group(2) + " " + m.group(3)) if m else log[-1500:]
        return res
    ax, closed = parse_assumptions(log)
    res["axioms"] = sorted(ax)
    badax = [a for a in ax if not axiom_ok(a)]
    res["hygiene"] = hygiene()
    if badax:
        res["failed"] = "axioms outside the allow-list: %s" % badax
    elif res["hygiene"]:
        res["failed"] = "forbidden vernacular: %s" % res["hygiene"][:5]
    elif nprint < len(res["theorems"]):
        res["failed"] = "a theorem lacks its Print Assumptions"
    else:
        res["ok"] = True
    return res


# ----------------------------------------------------------------------------- model runs

def _deep_stack():
    import resource
    try:
        resource.setrlimit(resource.RLIMIT_STACK, (resource.RLIM_INFINITY, resource.RLIM_INFINITY))
    except (ValueError, OSError):
        soft, hard = resource.getrlimit(resource.RLIMIT_STACK)
        try:
            resource.setrlimit(resource.RLIMIT_STACK, (hard, hard))
        except (ValueError, OSError):
            pass


def run_driver(entry, lines, shards=16):
    """Feed lines to the extracted model (entry number), sharded; returns {(id,k): toks-string}."""
    drv = os.path.join(BUILD, "ml", "driver")
    if not lines:
        return {}
    shards = max(1, min(shards, len(lines) // 50 + 1))
    chunks = [lines[i::shards] for i in range(shards)]
    procs = []
    for c in chunks:
        # extracted list functions are not tail recursive: observations of a few 10^5 tokens need a deep stack
        p = subprocess.Popen([drv, str(entry)], stdin=subprocess.PIPE, stdout=subprocess.PIPE, text=True, preexec_fn=_deep_stack)
        procs.append((p, c))
    import threading
    outs = [None] * len(procs)

    def feed(i, p, c):
        outs[i] = p.communicate("\n".join(c) + "\n")[0]
    ths = [threading.Thread(target=feed, args=(i, p, c)) for i, (p, c) in enumerate(procs)]
    [t.start() for t in ths]
    [t.join() for t in ths]
    res = {}
    for (p, c), o in zip(procs, outs):
        if p.returncode != 0:
            raise RuntimeError("model driver failed (entry %s, rc %s)" % (entry, p.returncode))
        for l in o.splitlines():
            a = l.split(" ", 2)
            res[(a[0], int(a[1]))] = a[2] if len(a) > 2 else ""
    return res


def read_obs(path):
    res = {}
    with open(path) as f:
        for l in f:
            a = l.rstrip("\n").split(" ", 2)
            if len(a) >= 2:
                res[(a[0], int(a[1]))] = a[2] if len(a) > 2 else ""
    return res


def read_cases(path):
    res = {}
    with open(path) as f:
        for l in f:
            a = l.rstrip("\n").split(" ", 1)
            if a and a[0]:
                res[a[0]] = a[1] if len(a) > 1 else ""
    return res


# ----------------------------------------------------------------------------- verdicts

def known_findings():
    p = os.path.join(V, "known_findings.json")
    if not os.path.exists(p):
        return []
    return [e for e in json.load(open(p)).get("findings", []) if e.get("status") == "known"]


def write_replay(pid, payload):
    os.makedirs(os.path.join(V, "replays"), exist_ok=True)
    h = hashlib.sha1(json.dumps(payload, sort_keys=True).encode()).hexdigest()[:12]
    path = os.path.join(V, "replays", "%s-%s.json" % (pid, h))
    json.dump(payload, open(path, "w"), indent=1)
    return path


def main():
    if len(sys.argv) < 2:
        print(__doc__); sys.exit(2)
    cmd = sys.argv[1]
    import props
    if cmd == "setup":
        t0 = time.time()
        msgs = regenerate()
        for m in msgs:
            print("translator failed:", m)
        ok, log = coq_make()
        print(log[-3000:])
        if not ok:
            print("setup: Coq build failed (checks will report it per property)")
        ok2, log2 = build_ml()
        if not ok2:
            print(log2[-3000:]); sys.exit(2)
        for crate in props.CRATES:
            ok3, log3 = build_harness(crate)
            if not ok3:
                print(log3[-3000:]); sys.exit(2)
        print("setup done in %.0fs" % (time.time() - t0))
        sys.exit(0)
    if cmd == "check":
        pid = sys.argv[2]
        tier = os.environ.get("VERIF_TIER", "quick")
        if "--tier" in sys.argv:
            tier = sys.argv[sys.argv.index("--tier") + 1]
        seed = int(os.environ.get("VERIF_SEED", "1") or "1")
        sys.exit(props.check(pid, tier, seed))
    if cmd == "replay":
        sys.exit(props.replay(sys.argv[2]))
    print(__doc__); sys.exit(2)


if __name__ == "__main__":
    main()
