//! Common parts of the correspondence harness: PRNG, harness-defined attributes with
//! fault injection, canonical dumps of maps, error classification.
//!
//! Output protocol (shared with the extracted Coq model, see coq/theories/Extract/Run2.v):
//! every line is a sequence of tokens, a token being a decimal integer or `f<16 hex>`.

use std::cell::Cell;
use std::fmt::Write as _;

use honeycomb_core::attributes::{
    AttrSparseVec, AttributeBind, AttributeError, AttributeUpdate,
};
use honeycomb_core::cmap::{
    CMap2, CMapBuilder, DartIdType, LinkError, OrbitPolicy, SewError, VertexIdType,
};

// ---------------------------------------------------------------- PRNG

/// SplitMix64: every random choice of a run derives from one state.
#[derive(Clone)]
pub struct Rng(pub u64);

impl Rng {
    pub fn new(seed: u64) -> Self {
        Rng(seed.wrapping_mul(0x9E37_79B9_7F4A_7C15) ^ 0xD1B5_4A32_D192_ED03)
    }
    pub fn next(&mut self) -> u64 {
        self.0 = self.0.wrapping_add(0x9E37_79B9_7F4A_7C15);
        let mut z = self.0;
        z = (z ^ (z >> 30)).wrapping_mul(0xBF58_476D_1CE4_E5B9);
        z = (z ^ (z >> 27)).wrapping_mul(0x94D0_49BB_1331_11EB);
        z ^ (z >> 31)
    }
    /// uniform in 0..n (n > 0)
    pub fn below(&mut self, n: u64) -> u64 {
        self.next() % n
    }
    pub fn chance(&mut self, num: u64, den: u64) -> bool {
        self.below(den) < num
    }
    pub fn pick<'a, T>(&mut self, xs: &'a [T]) -> &'a T {
        &xs[self.below(xs.len() as u64) as usize]
    }
}

// ---------------------------------------------------------------- fault injection

thread_local! {
    static LAW_COUNT: Cell<u64> = const { Cell::new(0) };
    static FAIL_AT: Cell<Option<u64>> = const { Cell::new(None) };
    static LAST_COUNT: Cell<u64> = const { Cell::new(0) };
}

/// Reset the law-call counter and arm (or disarm) the fault: the `k`-th (0-based) user law
/// call made from now on fails.
pub fn arm_fault(k: Option<u64>) {
    let c = LAW_COUNT.with(|c| c.get());
    if c > 0 {
        LAST_COUNT.with(|l| l.set(c));
    }
    LAW_COUNT.with(|c| c.set(0));
    FAIL_AT.with(|f| f.set(k));
}
pub fn reset_last() {
    LAST_COUNT.with(|l| l.set(0));
}
/// law calls counted by the most recent armed section that made any
pub fn last_law_calls() -> u64 {
    LAST_COUNT.with(|c| c.get())
}
pub fn law_calls() -> u64 {
    LAW_COUNT.with(|c| c.get())
}
fn tick() -> bool {
    let c = LAW_COUNT.with(|c| {
        let v = c.get();
        c.set(v + 1);
        v
    });
    FAIL_AT.with(|f| f.get()) == Some(c)
}

// ---------------------------------------------------------------- attributes
// The laws below are mirrored by am/ami/amn/asp/aspn in Extract/Run2.v.

macro_rules! attr_kind {
    ($name:ident, $policy:expr, $merge:expr, $minc:expr, $mnone:expr, $split:expr, $snone:expr) => {
        #[derive(Debug, Clone, Copy, PartialEq, Eq)]
        pub struct $name(pub u32);
        impl AttributeUpdate for $name {
            fn merge(a: Self, b: Self) -> Result<Self, AttributeError> {
                if tick() {
                    return Err(AttributeError::FailedMerge(stringify!($name), "injected"));
                }
                let f: fn(u32, u32) -> Option<u32> = $merge;
                f(a.0, b.0)
                    .map($name)
                    .ok_or(AttributeError::FailedMerge(stringify!($name), "law"))
            }
            fn split(a: Self) -> Result<(Self, Self), AttributeError> {
                if tick() {
                    return Err(AttributeError::FailedSplit(stringify!($name), "injected"));
                }
                let f: fn(u32) -> Option<(u32, u32)> = $split;
                f(a.0)
                    .map(|(x, y)| ($name(x), $name(y)))
                    .ok_or(AttributeError::FailedSplit(stringify!($name), "law"))
            }
            fn merge_incomplete(a: Self) -> Result<Self, AttributeError> {
                if tick() {
                    return Err(AttributeError::FailedMerge(stringify!($name), "injected"));
                }
                let f: fn(u32) -> Option<u32> = $minc;
                f(a.0)
                    .map($name)
                    .ok_or(AttributeError::InsufficientData("merge", stringify!($name)))
            }
            fn merge_from_none() -> Result<Self, AttributeError> {
                if tick() {
                    return Err(AttributeError::FailedMerge(stringify!($name), "injected"));
                }
                let v: Option<u32> = $mnone;
                v.map($name)
                    .ok_or(AttributeError::InsufficientData("merge", stringify!($name)))
            }
            fn split_from_none() -> Result<(Self, Self), AttributeError> {
                if tick() {
                    return Err(AttributeError::FailedSplit(stringify!($name), "injected"));
                }
                let v: Option<(u32, u32)> = $snone;
                v.map(|(x, y)| ($name(x), $name(y)))
                    .ok_or(AttributeError::InsufficientData("split", stringify!($name)))
            }
        }
        impl AttributeBind for $name {
            type StorageType = AttrSparseVec<Self>;
            type IdentifierType = DartIdType;
            const BIND_POLICY: OrbitPolicy = $policy;
        }
    };
}

// kind 0: additive weight on vertices (non idempotent)
attr_kind!(
    Wt,
    OrbitPolicy::Vertex,
    |a, b| Some(a.wrapping_add(b)),
    |a| Some(a),
    None,
    |a| Some((a / 2, a - a / 2)),
    None
);
// kind 1: non-commutative edge attribute, total laws
attr_kind!(
    Ea,
    OrbitPolicy::Edge,
    |a, b| Some(a.wrapping_mul(3).wrapping_add(b).wrapping_add(1)),
    |a| Some(a.wrapping_add(100)),
    Some(7),
    |a| Some((a.wrapping_add(1), a.wrapping_mul(2).wrapping_add(3))),
    Some((8, 9))
);
// kind 2: max on faces
attr_kind!(
    Fa,
    OrbitPolicy::Face,
    |a, b| Some(a.max(b)),
    |_| None,
    None,
    |a| Some((a, a)),
    None
);
// kind 3: partial laws on vertices
attr_kind!(
    Vb,
    OrbitPolicy::Vertex,
    |a, b| if (a as u64 + b as u64) % 5 == 0 {
        None
    } else {
        Some(a.wrapping_mul(2).wrapping_add(b))
    },
    |a| Some(a.wrapping_add(1)),
    Some(0),
    |a| if a % 7 == 0 {
        None
    } else {
        Some((a.wrapping_add(2), a / 3))
    },
    Some((1, 2))
);

pub const N_KINDS: u32 = 4;
/// kinds 4, 5, 6 are the kernels' own anchor attributes (no fault injection in their laws)
pub const N_ALL_KINDS: u32 = 7;
pub use honeycomb_kernels::utils::{EdgeAnchor, FaceAnchor, VertexAnchor};

/// anchors cross the boundary as dimension * 2^32 + identifier
pub fn enc_va(a: VertexAnchor) -> u64 {
    match a {
        VertexAnchor::Node(i) => u64::from(i),
        VertexAnchor::Curve(i) => (1 << 32) + u64::from(i),
        VertexAnchor::Surface(i) => (2 << 32) + u64::from(i),
        VertexAnchor::Body(i) => (3 << 32) + u64::from(i),
    }
}
pub fn dec_va(x: u64) -> VertexAnchor {
    let i = (x & 0xffff_ffff) as u32;
    match x >> 32 {
        0 => VertexAnchor::Node(i),
        1 => VertexAnchor::Curve(i),
        2 => VertexAnchor::Surface(i),
        _ => VertexAnchor::Body(i),
    }
}
pub fn enc_ea(a: EdgeAnchor) -> u64 {
    match a {
        EdgeAnchor::Curve(i) => (1 << 32) + u64::from(i),
        EdgeAnchor::Surface(i) => (2 << 32) + u64::from(i),
        EdgeAnchor::Body(i) => (3 << 32) + u64::from(i),
    }
}
pub fn dec_ea(x: u64) -> EdgeAnchor {
    let i = (x & 0xffff_ffff) as u32;
    match x >> 32 {
        0 | 1 => EdgeAnchor::Curve(i),
        2 => EdgeAnchor::Surface(i),
        _ => EdgeAnchor::Body(i),
    }
}
pub fn enc_fa(a: FaceAnchor) -> u64 {
    match a {
        FaceAnchor::Surface(i) => (2 << 32) + u64::from(i),
        FaceAnchor::Body(i) => (3 << 32) + u64::from(i),
    }
}
pub fn dec_fa(x: u64) -> FaceAnchor {
    let i = (x & 0xffff_ffff) as u32;
    match x >> 32 {
        0..=2 => FaceAnchor::Surface(i),
        _ => FaceAnchor::Body(i),
    }
}

/// `CMapBuilder::from_n_darts(n)` with the attribute kinds of `mask` registered.
pub fn build2(n: usize, mask: u32) -> CMap2<f64> {
    let mut b = CMapBuilder::<2, f64>::from_n_darts(n);
    if mask & 1 != 0 {
        b = b.add_attribute::<Wt>();
    }
    if mask & 2 != 0 {
        b = b.add_attribute::<Ea>();
    }
    if mask & 4 != 0 {
        b = b.add_attribute::<Fa>();
    }
    if mask & 8 != 0 {
        b = b.add_attribute::<Vb>();
    }
    if mask & 16 != 0 {
        b = b.add_attribute::<VertexAnchor>();
    }
    if mask & 32 != 0 {
        b = b.add_attribute::<EdgeAnchor>();
    }
    if mask & 64 != 0 {
        b = b.add_attribute::<FaceAnchor>();
    }
    b.build().expect("from_n_darts cannot fail")
}

pub fn add_attrs2(mut b: CMapBuilder<2, f64>, mask: u32) -> CMapBuilder<2, f64> {
    if mask & 1 != 0 {
        b = b.add_attribute::<Wt>();
    }
    if mask & 2 != 0 {
        b = b.add_attribute::<Ea>();
    }
    if mask & 4 != 0 {
        b = b.add_attribute::<Fa>();
    }
    if mask & 8 != 0 {
        b = b.add_attribute::<Vb>();
    }
    b
}

pub fn read_attr2(m: &CMap2<f64>, k: u32, d: DartIdType) -> Option<u64> {
    match k {
        0 => m.force_read_attribute::<Wt>(d).map(|v| u64::from(v.0)),
        1 => m.force_read_attribute::<Ea>(d).map(|v| u64::from(v.0)),
        2 => m.force_read_attribute::<Fa>(d).map(|v| u64::from(v.0)),
        3 => m.force_read_attribute::<Vb>(d).map(|v| u64::from(v.0)),
        4 => m.force_read_attribute::<VertexAnchor>(d).map(enc_va),
        5 => m.force_read_attribute::<EdgeAnchor>(d).map(enc_ea),
        _ => m.force_read_attribute::<FaceAnchor>(d).map(enc_fa),
    }
}

// ---------------------------------------------------------------- tokens & dumps

pub fn ftok(x: f64) -> String {
    let bits = if x.is_nan() {
        0x7ff8_0000_0000_0000u64
    } else {
        x.to_bits()
    };
    format!("f{bits:016x}")
}

thread_local! {
    /// number of reads of a slot below the dart count that panicked while dumping (C18: addressability)
    pub static DUMP_PANICS: std::cell::Cell<u32> = const { std::cell::Cell::new(0) };
}
/// a read made by a dump: a panic is counted and rendered as an absent value
pub fn safe_read<T>(f: impl FnOnce() -> Option<T>) -> Option<T> {
    match std::panic::catch_unwind(std::panic::AssertUnwindSafe(f)) {
        Ok(v) => v,
        Err(_) => {
            DUMP_PANICS.with(|c| c.set(c.get() + 1));
            None
        }
    }
}
/// marks an observation line whose dump hit an unreadable slot: result class 5
pub fn mark_dump_panics(id: &str, k: usize, line: &mut String) {
    if DUMP_PANICS.with(|c| c.replace(0)) > 0 {
        let prefix = format!("{id} {k} ");
        let rest: Vec<&str> = line[prefix.len()..].splitn(4, ' ').collect();
        *line = format!("{prefix}5 {} {} {}", rest[1], rest[2], rest.get(3).copied().unwrap_or(""));
    }
}

/// Canonical dump of a 2-map: `mask n` then per dart `b0 b1 b2 unused vflag [x y] (aflag [val])*`.
/// Raw slots are dumped at *every* id, not only at cell ids, so stale data is visible.
pub fn dump2(m: &CMap2<f64>, mask: u32, out: &mut String) {
    let n = m.n_darts();
    write!(out, " {mask} {n}").unwrap();
    for d in 0..n as DartIdType {
        write!(
            out,
            " {} {} {} {}",
            m.beta::<0>(d),
            m.beta::<1>(d),
            m.beta::<2>(d),
            u8::from(m.is_unused(d))
        )
        .unwrap();
        match safe_read(|| m.force_read_vertex(d as VertexIdType)) {
            Some(v) => write!(out, " 1 {} {}", ftok(v.x()), ftok(v.y())).unwrap(),
            None => out.push_str(" 0"),
        }
        for k in 0..N_ALL_KINDS {
            if mask & (1 << k) != 0 {
                match safe_read(|| read_attr2(m, k, d)) {
                    Some(a) => write!(out, " 1 {a}").unwrap(),
                    None => out.push_str(" 0"),
                }
            }
        }
    }
}

pub fn link_err_code(e: &LinkError) -> u32 {
    match e {
        LinkError::NonFreeBase(i, _, _) => 10 + u32::from(*i),
        LinkError::NonFreeImage(i, _, _) => 20 + u32::from(*i),
        LinkError::AlreadyFree(i, _) => 30 + u32::from(*i),
        LinkError::AsymmetricalFaces(_, _) => 40,
    }
}
pub fn sew_err_code(e: &SewError) -> u32 {
    match e {
        SewError::BadGeometry(i, _, _) => 50 + u32::from(*i),
        SewError::FailedLink(le) => link_err_code(le),
        SewError::FailedAttributeOp(_) => 60,
    }
}

/// Result class of one step: `0 0 ret` ok, `1 code 0` error, `2 0 0` panic, `3 0 0` hang.
#[derive(Debug, Clone, Copy, PartialEq, Eq)]
pub enum Res {
    Ok(u64),
    Err(u32),
    Panic,
    Hang,
}
impl Res {
    pub fn toks(&self) -> String {
        match self {
            Res::Ok(r) => format!("0 0 {r}"),
            Res::Err(c) => format!("1 {c} 0"),
            Res::Panic => "2 0 0".to_string(),
            Res::Hang => "3 0 0".to_string(),
        }
    }
}

/// Silence the default panic message (panics are expected outcomes of malformed cases).
pub fn quiet_panics() {
    // HC_LOUD=1 keeps the default hook (panic messages on stderr), for investigating a replay by hand
    if std::env::var("HC_LOUD").is_ok() {
        return;
    }
    std::panic::set_hook(Box::new(|_| {}));
}


/// error class from the Debug rendering (several kernel error types are not nameable from
/// outside their crate); core errors keep the codes of `sew_err_code`
pub fn err_code_dbg(dbg: &str) -> u32 {
    let first_num = |tag: &str| -> u32 {
        dbg.find(tag)
            .map(|i| {
                dbg[i + tag.len()..]
                    .chars()
                    .take_while(char::is_ascii_digit)
                    .collect::<String>()
                    .parse()
                    .unwrap_or(0)
            })
            .unwrap_or(0)
    };
    if dbg.contains("NonFreeBase(") {
        return 10 + first_num("NonFreeBase(");
    }
    if dbg.contains("NonFreeImage(") {
        return 20 + first_num("NonFreeImage(");
    }
    if dbg.contains("AlreadyFree(") {
        return 30 + first_num("AlreadyFree(");
    }
    if dbg.contains("AsymmetricalFaces") {
        return 40;
    }
    if dbg.contains("BadGeometry(") {
        return 50 + first_num("BadGeometry(");
    }
    if dbg.contains("FailedAttributeOp") || dbg.contains("FailedMerge") || dbg.contains("FailedSplit") || dbg.contains("InsufficientData") {
        return 60;
    }
    for (name, code) in [
        ("VertexBound", 101),
        ("UndefinedEdge", 102),
        ("InvalidDarts", 103),
        ("WrongAmountDarts", 104),
        ("AlreadyTriangulated", 111),
        ("NoEar", 112),
        ("NonFannable", 113),
        ("NotEnoughDarts", 114),
        ("TooManyDarts", 115),
        ("UndefinedFace", 116),
        ("IncompleteEdge", 122),
        ("NonCollapsibleEdge", 131),
        ("InvertedOrientation", 132),
    ] {
        if dbg.starts_with(name) {
            return code;
        }
    }
    999
}
