//! `vtk`: legacy VTK export / import of 2-maps (C11).
//!
//! mode `roundtrip`: meshes (grids, split grids, triangle meshes after random swaps / cuts / collapses /
//!   vertex insertions, single polygons, meshes with a slit) are exported (ASCII or binary) and imported.
//!   impl.txt: `ID 0 0 0 0 dump(original)`, `ID 1 class 0 0 dump(imported)`; ops.txt: `ID 1 30 fmt`
//! mode `import`: random cell lists over random point sets written as legacy ASCII files and imported.
//!   impl.txt: `ID 0 0 0 0 dump(empty map)`, `ID 1 class 0 0 dump(imported)`;
//!   ops.txt: `ID 1 31 npts (x y)* ncells (type k v*)*`
//! There is no model replay for this property: the Coq predicates of Extract/VtkOracle.v decide the
//! property on each pair of observations.

#[allow(dead_code, unused_imports, unused_variables)]
#[path = "core2.rs"]
mod core2;

use core2::*;
use hc_harness::*;
use honeycomb_core::cmap::{CMap2, CMapBuilder, GridDescriptor};
use std::fmt::Write as _;
use std::io::Write as _;
use std::panic::{AssertUnwindSafe, catch_unwind};

struct Out {
    obs: std::io::BufWriter<std::fs::File>,
    ops: std::io::BufWriter<std::fs::File>,
    cases: std::io::BufWriter<std::fs::File>,
}

fn import_file(path: &str) -> String {
    let r = catch_unwind(AssertUnwindSafe(|| CMapBuilder::<2, f64>::from_vtk_file(path).build()));
    match r {
        Ok(Ok(m)) => {
            let m: CMap2<f64> = m;
            let mut s = "0 0 0".to_string();
            dump2(&m, 0, &mut s);
            s
        }
        Ok(Err(_)) => "1 0 0".to_string(),
        Err(_) => "2 0 0".to_string(),
    }
}

fn roundtrip(id: &str, m: &CMap2<f64>, binary: bool, outdir: &str, out: &mut Out) {
    let mut pre = String::new();
    dump2(m, 0, &mut pre);
    writeln!(out.obs, "{id} 0 0 0 0{pre}").unwrap();
    let path = format!("{outdir}/tmp_{id}.vtk");
    if std::env::var("HC_LOUD").is_ok() {
        eprintln!("## case {id}");
    }
    let exported = catch_unwind(AssertUnwindSafe(|| {
        if binary {
            let mut buf: Vec<u8> = Vec::new();
            m.to_vtk_binary(&mut buf);
            std::fs::write(&path, buf).unwrap();
        } else {
            let mut s = String::new();
            m.to_vtk_ascii(&mut s);
            std::fs::write(&path, s).unwrap();
        }
    }));
    let post = if exported.is_ok() { import_file(&path) } else { "2 1 0".to_string() };
    let _ = std::fs::remove_file(&path);
    writeln!(out.obs, "{id} 1 {post}").unwrap();
    writeln!(out.ops, "{id} 1 30 {}", u8::from(binary)).unwrap();
    writeln!(out.cases, "{id} 0 0 {} {}", u8::from(binary), fnv(&pre)).unwrap();
}

/// a short fingerprint of an input (so that identical inputs are counted once in the evidence)
fn fnv(s: &str) -> u64 {
    s.bytes().fold(0xcbf2_9ce4_8422_2325u64, |h, b| (h ^ u64::from(b)).wrapping_mul(0x0100_0000_01b3))
}

fn main() {
    let args: Vec<String> = std::env::args().collect();
    let get = |name: &str, dflt: &str| -> String {
        args.iter().position(|a| a == name).and_then(|i| args.get(i + 1).cloned()).unwrap_or_else(|| dflt.to_string())
    };
    let seed: u64 = get("--seed", "1").parse().unwrap();
    let mode = get("--mode", "roundtrip");
    let outdir = get("--out", ".");
    let ncases: usize = get("--cases", "100").parse().unwrap();
    quiet_panics();
    let mk = |f: &str| std::io::BufWriter::new(std::fs::File::create(format!("{outdir}/{f}")).unwrap());
    let mut out = Out { obs: mk("impl.txt"), ops: mk("ops.txt"), cases: mk("cases.txt") };
    let mut rng = Rng::new(seed);
    match mode.as_str() {
        "roundtrip" => {
            for i in 0..ncases {
                let mut r = Rng::new(rng.next());
                let id = format!("v{i}");
                let binary = r.chance(1, 2);
                let m: CMap2<f64> = match r.below(10) {
                    0 | 1 => {
                        // grids and split grids with non-square cells and an origin
                        let n = [1 + r.below(4) as usize, 1 + r.below(4) as usize];
                        let g = GridDescriptor::<2, f64>::default()
                            .n_cells(n)
                            .len_per_cell([0.5 + r.below(3) as f64, 1.0 + 0.25 * r.below(3) as f64])
                            .origin([r.below(5) as f64 - 2.0, r.below(3) as f64])
                            .split_cells(r.chance(1, 2));
                        CMapBuilder::<2, f64>::from_grid_descriptor(g).build().unwrap()
                    }
                    2 => {
                        // one polygon of up to a dozen sides (random simple polygon or star-shaped)
                        let shape = if r.chance(1, 2) { 4 } else { r.below(4) as u32 };
                        let k = if shape == 4 { 4 + r.below(9) as u32 } else { 3 + r.below(10) as u32 };
                        let (p, used) = prefix_polygon(&mut r, k, shape, true);
                        let mut m = build2(used as usize, 0);
                        for o in &p {
                            exec(&mut m, o);
                        }
                        m
                    }
                    _ => {
                        // a triangle mesh, then random remeshing kernels / insertions that succeed or not
                        let (nx, ny) = (1 + r.below(4) as u32, 1 + r.below(4) as u32);
                        let (p, used) = prefix_trimesh(&mut r, nx, ny, false);
                        let mut m = build2(used as usize, 0);
                        for o in &p {
                            exec(&mut m, o);
                        }
                        let nk = r.below(6);
                        for _ in 0..nk {
                            let fresh = m.n_darts() as u32;
                            exec(&mut m, &Op::AddDarts(8));
                            let only = if r.chance(1, 2) { "remesh" } else { "insert" };
                            let k = gen_kcall(&mut r, &m, fresh, None, only);
                            exec(&mut m, &Op::Kern(None, k));
                            // spare darts the kernel did not use are removed again (they are not part of the mesh)
                            for d in fresh..fresh + 8 {
                                if m.is_free(d) && !m.is_unused(d) {
                                    m.remove_free_dart(d);
                                }
                            }
                        }
                        if r.chance(1, 6) {
                            // a slit: unsew an interior edge whose end vertices stay shared
                            let inner: Vec<u32> = (1..m.n_darts() as u32).filter(|&d| !m.is_unused(d) && m.beta::<2>(d) != 0).collect();
                            if !inner.is_empty() {
                                let d = *r.pick(&inner);
                                let _ = m.force_unsew::<2>(d);
                            }
                        }
                        m
                    }
                };
                roundtrip(&id, &m, binary, &outdir, &mut out);
            }
        }
        "import" => {
            for i in 0..ncases {
                let mut r = Rng::new(rng.next());
                let id = format!("i{i}");
                // points on a small integer lattice (distinct), cells = triangles / quads / polygons over them
                let (w, h) = (2 + r.below(3) as usize, 2 + r.below(3) as usize);
                let pts: Vec<(f64, f64)> = (0..=h).flat_map(|y| (0..=w).map(move |x| (x as f64, y as f64))).collect();
                let p = |x: usize, y: usize| y * (w + 1) + x;
                let mut cells: Vec<(u32, Vec<usize>)> = Vec::new();
                let nonconf = r.chance(1, 5);
                for y in 0..h {
                    for x in 0..w {
                        if r.chance(1, 6) {
                            continue; // a hole
                        }
                        let q = [p(x, y), p(x + 1, y), p(x + 1, y + 1), p(x, y + 1)];
                        match r.below(4) {
                            0 => cells.push((9, q.to_vec())),
                            1 => cells.push((7, q.to_vec())),
                            2 => {
                                cells.push((5, vec![q[0], q[1], q[2]]));
                                cells.push((5, vec![q[0], q[2], q[3]]));
                            }
                            _ => {
                                cells.push((5, vec![q[0], q[1], q[3]]));
                                cells.push((5, vec![q[1], q[2], q[3]]));
                            }
                        }
                    }
                }
                // some lines / vertices (ignored by the importer), rotations of the corner lists
                for c in cells.iter_mut() {
                    let k = r.below(c.1.len() as u64) as usize;
                    c.1.rotate_left(k);
                }
                if r.chance(1, 3) && pts.len() > 2 {
                    cells.push((3, vec![0, 1]));
                    cells.push((1, vec![2]));
                }
                if nonconf && !cells.is_empty() {
                    // non-conforming input: a clockwise cell among counter-clockwise ones, or a duplicate
                    let j = r.below(cells.len() as u64) as usize;
                    if r.chance(1, 2) {
                        cells[j].1.reverse();
                    } else {
                        let c = cells[j].clone();
                        cells.push(c);
                    }
                }
                if r.chance(1, 2) {
                    for j in (1..cells.len()).rev() {
                        let k = r.below(j as u64 + 1) as usize;
                        cells.swap(j, k);
                    }
                }
                let mut text = String::from("# vtk DataFile Version 2.0\ncmap\nASCII\n\nDATASET UNSTRUCTURED_GRID\n");
                writeln!(text, "POINTS {} double", pts.len()).unwrap();
                for (x, y) in &pts {
                    writeln!(text, "{x} {y} 0").unwrap();
                }
                let total: usize = cells.iter().map(|c| c.1.len() + 1).sum();
                writeln!(text, "\nCELLS {} {}", cells.len(), total).unwrap();
                for c in &cells {
                    write!(text, "{}", c.1.len()).unwrap();
                    for v in &c.1 {
                        write!(text, " {v}").unwrap();
                    }
                    text.push('\n');
                }
                writeln!(text, "\nCELL_TYPES {}", cells.len()).unwrap();
                for c in &cells {
                    writeln!(text, "{}", c.0).unwrap();
                }
                let path = format!("{outdir}/tmp_{id}.vtk");
                std::fs::write(&path, &text).unwrap();
                let post = import_file(&path);
                let _ = std::fs::remove_file(&path);
                let empty = build2(0, 0);
                let mut pre = String::new();
                dump2(&empty, 0, &mut pre);
                writeln!(out.obs, "{id} 0 0 0 0{pre}").unwrap();
                writeln!(out.obs, "{id} 1 {post}").unwrap();
                let mut op = format!("{id} 1 31 {}", pts.len());
                for (x, y) in &pts {
                    write!(op, " {} {}", ftok(*x), ftok(*y)).unwrap();
                }
                write!(op, " {}", cells.len()).unwrap();
                for c in &cells {
                    write!(op, " {} {}", c.0, c.1.len()).unwrap();
                    for v in &c.1 {
                        write!(op, " {v}").unwrap();
                    }
                }
                writeln!(out.ops, "{op}").unwrap();
                writeln!(out.cases, "{id} 0 0 2 {}", fnv(&op)).unwrap();
            }
        }
        _ => panic!("unknown mode"),
    }
    out.obs.flush().unwrap();
    out.ops.flush().unwrap();
    out.cases.flush().unwrap();
}
