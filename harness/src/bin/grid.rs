//! `grid`: the 2D grid builders (C12) over an exhaustive box of sizes, the three descriptor
//! forms, split or not, several origins / lengths.
//!   cases.txt : `ID split nx ny hlp lpx lpy hl lx ly ox oy`   (replayed by the Coq model)
//!   impl.txt  : `ID 0 class 0 0 [dump]`
//!   orc.txt   : `ID <case tokens> exact <observation>`          (for the extracted oracle)
//!   groups.txt: `G id id id`  descriptor forms that must give the same mesh

use std::fmt::Write as _;
use std::io::Write as _;
use std::panic::{AssertUnwindSafe, catch_unwind};

use hc_harness::*;
use honeycomb_core::cmap::{CMap2, CMapBuilder, GridDescriptor};

#[derive(Clone, Copy)]
struct Cfg {
    split: bool,
    n: Option<[usize; 2]>,
    lp: Option<[f64; 2]>,
    l: Option<[f64; 2]>,
    o: [f64; 2],
    exact: bool,
}

fn toks(c: &Cfg) -> String {
    let mut s = String::new();
    let (nx, ny) = c.n.map_or((-1i64, -1i64), |n| (n[0] as i64, n[1] as i64));
    write!(s, "{} {nx} {ny}", u8::from(c.split)).unwrap();
    let lp = c.lp.unwrap_or([0.0, 0.0]);
    write!(s, " {} {} {}", u8::from(c.lp.is_some()), ftok(lp[0]), ftok(lp[1])).unwrap();
    let l = c.l.unwrap_or([0.0, 0.0]);
    write!(s, " {} {} {}", u8::from(c.l.is_some()), ftok(l[0]), ftok(l[1])).unwrap();
    write!(s, " {} {}", ftok(c.o[0]), ftok(c.o[1])).unwrap();
    s
}

fn run(c: &Cfg) -> String {
    let r = catch_unwind(AssertUnwindSafe(|| {
        let mut g = GridDescriptor::<2, f64>::default().origin(c.o).split_cells(c.split);
        if let Some(n) = c.n {
            g = g.n_cells(n);
        }
        if let Some(lp) = c.lp {
            g = g.len_per_cell(lp);
        }
        if let Some(l) = c.l {
            g = g.lens(l);
        }
        CMapBuilder::<2, f64>::from_grid_descriptor(g).build()
    }));
    match r {
        Ok(Ok(m)) => {
            let m: CMap2<f64> = m;
            let mut s = "0 0 0".to_string();
            dump2(&m, 0, &mut s);
            s
        }
        Ok(Err(_)) => "1 0 0".to_string(),
        Err(_) => "2 0 0".to_string(),
    }
}

fn main() {
    let args: Vec<String> = std::env::args().collect();
    let get = |name: &str, dflt: &str| -> String {
        args.iter().position(|a| a == name).and_then(|i| args.get(i + 1).cloned()).unwrap_or_else(|| dflt.to_string())
    };
    let outdir = get("--out", ".");
    let maxn: usize = get("--box", "5").parse().unwrap();
    quiet_panics();
    let mk = |f: &str| std::io::BufWriter::new(std::fs::File::create(format!("{outdir}/{f}")).unwrap());
    let (mut cases, mut obs, mut orc, mut groups) = (mk("cases.txt"), mk("impl.txt"), mk("orc.txt"), mk("groups.txt"));
    let mut id = 0usize;
    let mut emit = |c: &Cfg| -> String {
        let name = format!("b{id}");
        id += 1;
        let t = toks(c);
        let o = run(c);
        writeln!(cases, "{name} {t}").unwrap();
        writeln!(obs, "{name} 0 {o}").unwrap();
        writeln!(orc, "{name} {t} {} {o}", u8::from(c.exact)).unwrap();
        name
    };
    // (cell lengths, exact in binary?) -- non-square, non-dyadic included
    let lens: [([f64; 2], bool); 4] = [([1.0, 1.0], true), ([0.5, 2.0], true), ([0.1, 0.3], false), ([1.5, 0.75], true)];
    let origins: [[f64; 2]; 3] = [[0.0, 0.0], [-2.0, 3.5], [0.1, -7.0]];
    for split in [false, true] {
        for nx in 0..=maxn {
            for ny in 0..=maxn {
                for (k, (lp, ex)) in lens.iter().enumerate() {
                    let o = origins[(nx + ny + k) % 3];
                    let exact = *ex && o[0] != 0.1;
                    let a = emit(&Cfg { split, n: Some([nx, ny]), lp: Some(*lp), l: None, o, exact });
                    if nx > 0 && ny > 0 && *ex {
                        // total lengths that are exact multiples: the three forms agree
                        let l = [lp[0] * nx as f64, lp[1] * ny as f64];
                        let b = emit(&Cfg { split, n: Some([nx, ny]), lp: None, l: Some(l), o, exact });
                        let c = emit(&Cfg { split, n: None, lp: Some(*lp), l: Some(l), o, exact });
                        writeln!(groups, "G {a} {b} {c}").unwrap();
                    }
                }
            }
        }
        // error clauses
        for bad in [[0.0, 1.0], [-1.0, 1.0], [1.0, -0.0], [1.0, -3.0]] {
            emit(&Cfg { split, n: Some([2, 2]), lp: Some(bad), l: None, o: [0.0, 0.0], exact: true });
            emit(&Cfg { split, n: Some([2, 2]), lp: None, l: Some(bad), o: [0.0, 0.0], exact: true });
            emit(&Cfg { split, n: None, lp: Some(bad), l: Some([2.0, 2.0]), o: [0.0, 0.0], exact: true });
            emit(&Cfg { split, n: None, lp: Some([1.0, 1.0]), l: Some(bad), o: [0.0, 0.0], exact: true });
        }
        emit(&Cfg { split, n: Some([2, 2]), lp: None, l: None, o: [0.0, 0.0], exact: true });
        emit(&Cfg { split, n: None, lp: Some([1.0, 1.0]), l: None, o: [0.0, 0.0], exact: true });
        emit(&Cfg { split, n: None, lp: None, l: Some([1.0, 1.0]), o: [0.0, 0.0], exact: true });
        emit(&Cfg { split, n: None, lp: None, l: None, o: [0.0, 0.0], exact: true });
    }
}
