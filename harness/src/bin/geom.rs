//! `geom`: geometric primitives and skewness (C19).
//!
//!   <out>/cases.txt : `ID opindex arg*`       replayed by the generated Coq model (f64 only)
//!   <out>/impl.txt  : `ID 0 result*`
//!   <out>/laws.txt  : `ID p code tok*`        implementation-only observations judged by the
//!                                             extracted Coq law checker (p = 53 | 24)
//! The operator numbering comes from the translator (`--opsfile`, one name per line).

use std::fmt::Write as _;
use std::io::Write as _;

use hc_harness::*;
use honeycomb_core::cmap::{CMap2, CMapBuilder};
use honeycomb_core::geometry::{CoordsFloat, Vector2, Vector3, Vertex2, Vertex3};
use honeycomb_kernels::skewness::compute_face_skewness_2d;

fn v2<T: CoordsFloat>(a: &[T]) -> Vector2<T> {
    Vector2(a[0], a[1])
}
fn p2<T: CoordsFloat>(a: &[T]) -> Vertex2<T> {
    Vertex2(a[0], a[1])
}
fn v3<T: CoordsFloat>(a: &[T]) -> Vector3<T> {
    Vector3(a[0], a[1], a[2])
}
fn p3<T: CoordsFloat>(a: &[T]) -> Vertex3<T> {
    Vertex3(a[0], a[1], a[2])
}

/// every translated operator, by the translator's name; `None` = unknown name
#[allow(clippy::too_many_lines)]
fn run_op<T: CoordsFloat>(name: &str, a: &[T]) -> Option<Vec<T>> {
    macro_rules! asg {
        ($init:expr, $op:tt, $rhs:expr) => {{
            let mut s = $init;
            s $op $rhs;
            s
        }};
    }
    let r2 = |v: Vector2<T>| vec![v.0, v.1];
    let q2 = |v: Vertex2<T>| vec![v.0, v.1];
    let r3 = |v: Vector3<T>| vec![v.0, v.1, v.2];
    let q3 = |v: Vertex3<T>| vec![v.0, v.1, v.2];
    Some(match name {
        "vector2_add_vector2" => r2(v2(a) + v2(&a[2..])),
        "vector2_add_assign_vector2" => r2(asg!(v2(a), +=, v2(&a[2..]))),
        "vector2_sub_vector2" => r2(v2(a) - v2(&a[2..])),
        "vector2_sub_assign_vector2" => r2(asg!(v2(a), -=, v2(&a[2..]))),
        "vector2_mul_t" => r2(v2(a) * a[2]),
        "vector2_mul_assign_t" => r2(asg!(v2(a), *=, a[2])),
        "vector2_div_t" => r2(v2(a) / a[2]),
        "vector2_div_assign_t" => r2(asg!(v2(a), /=, a[2])),
        "vector2_neg" => r2(-v2(a)),
        "vector2_dot" => vec![v2(a).dot(&v2(&a[2..]))],
        "vector2_norm" => vec![v2(a).norm()],
        "vertex2_add_vector2" => q2(p2(a) + v2(&a[2..])),
        "vertex2_add_assign_vector2" => q2(asg!(p2(a), +=, v2(&a[2..]))),
        "vertex2_add_refvector2" => q2(p2(a) + &v2(&a[2..])),
        "vertex2_add_assign_refvector2" => q2(asg!(p2(a), +=, &v2(&a[2..]))),
        "vertex2_sub_vector2" => q2(p2(a) - v2(&a[2..])),
        "vertex2_sub_assign_vector2" => q2(asg!(p2(a), -=, v2(&a[2..]))),
        "vertex2_sub_refvector2" => q2(p2(a) - &v2(&a[2..])),
        "vertex2_sub_assign_refvector2" => q2(asg!(p2(a), -=, &v2(&a[2..]))),
        "vertex2_sub_vertex2" => r2(p2(a) - p2(&a[2..])),
        "vertex2_average" => q2(Vertex2::average(&p2(a), &p2(&a[2..]))),
        "vertex2_cross_product_from_vertices" => {
            vec![Vertex2::cross_product_from_vertices(&p2(a), &p2(&a[2..]), &p2(&a[4..]))]
        }
        "vector3_add_vector3" => r3(v3(a) + v3(&a[3..])),
        "vector3_add_assign_vector3" => r3(asg!(v3(a), +=, v3(&a[3..]))),
        "vector3_sub_vector3" => r3(v3(a) - v3(&a[3..])),
        "vector3_sub_assign_vector3" => r3(asg!(v3(a), -=, v3(&a[3..]))),
        "vector3_mul_t" => r3(v3(a) * a[3]),
        "vector3_mul_assign_t" => r3(asg!(v3(a), *=, a[3])),
        "vector3_div_t" => r3(v3(a) / a[3]),
        "vector3_div_assign_t" => r3(asg!(v3(a), /=, a[3])),
        "vector3_neg" => r3(-v3(a)),
        "vector3_dot" => vec![v3(a).dot(&v3(&a[3..]))],
        "vector3_cross" => r3(v3(a).cross(&v3(&a[3..]))),
        "vector3_norm" => vec![v3(a).norm()],
        "vertex3_add_vector3" => q3(p3(a) + v3(&a[3..])),
        "vertex3_add_assign_vector3" => q3(asg!(p3(a), +=, v3(&a[3..]))),
        "vertex3_add_refvector3" => q3(p3(a) + &v3(&a[3..])),
        "vertex3_add_assign_refvector3" => q3(asg!(p3(a), +=, &v3(&a[3..]))),
        "vertex3_sub_vector3" => q3(p3(a) - v3(&a[3..])),
        "vertex3_sub_assign_vector3" => q3(asg!(p3(a), -=, v3(&a[3..]))),
        "vertex3_sub_refvector3" => q3(p3(a) - &v3(&a[3..])),
        "vertex3_sub_assign_refvector3" => q3(asg!(p3(a), -=, &v3(&a[3..]))),
        "vertex3_sub_vertex3" => r3(p3(a) - p3(&a[3..])),
        "vertex3_average" => q3(Vertex3::average(&p3(a), &p3(&a[3..]))),
        _ => return None,
    })
}

fn arity(name: &str) -> usize {
    let d = if name.contains('3') { 3 } else { 2 };
    if name.ends_with("_neg") || name.ends_with("_norm") {
        d
    } else if name.ends_with("_t") {
        d + 1
    } else if name.ends_with("cross_product_from_vertices") {
        6
    } else {
        2 * d
    }
}

/// moderate magnitudes, zeros of both signs, powers of two, near-cancelling pairs, tiny values
fn pool(r: &mut Rng, prev: Option<f64>) -> f64 {
    match r.below(16) {
        0 => 0.0,
        1 => -0.0,
        2 => 1.0,
        3 => -1.0,
        4 => [0.5, 2.0, 4.0, 0.25, 1024.0, 1.0 / 1024.0][r.below(6) as usize],
        5 | 6 => prev.map_or(3.0, |p| p * (1.0 + (r.below(7) as f64 - 3.0) * 2f64.powi(-40))),
        7 => prev.map_or(-2.0, |p| -p),
        8 => [1e-18, 3e-18, -4e-18, 2.5e-17][r.below(4) as usize],
        9 => [1e6, -3.5e5, 7.25e4][r.below(3) as usize],
        _ => {
            let m = (r.below(1 << 20) as f64) / f64::from(1 << 10) - 512.0;
            m * [1.0, 0.001, 1e-6, 37.0][r.below(4) as usize]
        }
    }
}

fn ftoks<T: CoordsFloat>(v: &[T], s: &mut String) {
    for x in v {
        write!(s, " {}", ftok(x.to_f64().unwrap())).unwrap();
    }
}

struct Out {
    cases: std::io::BufWriter<std::fs::File>,
    obs: std::io::BufWriter<std::fs::File>,
    laws: std::io::BufWriter<std::fs::File>,
    n: usize,
}

fn law<T: CoordsFloat>(out: &mut Out, p: u32, code: u32, vals: &[&[T]]) {
    let mut s = format!("L{} {p} {code}", out.n);
    out.n += 1;
    for v in vals {
        ftoks(v, &mut s);
    }
    writeln!(out.laws, "{s}").unwrap();
}

fn flag<T: CoordsFloat>(b: bool) -> T {
    if b { T::one() } else { T::zero() }
}

#[allow(clippy::too_many_lines)]
fn laws_for<T: CoordsFloat>(out: &mut Out, r: &mut Rng, p: u32, names: &[String]) {
    let cast = |x: f64| T::from(x).unwrap();
    let mkv = |n: usize, r: &mut Rng| -> Vec<T> {
        let mut prev = None;
        (0..n)
            .map(|_| {
                let x = pool(r, prev);
                prev = Some(x);
                cast(x)
            })
            .collect()
    };
    // 1: compound assignment == binary operator
    for name in names.iter().filter(|n| n.contains("_assign")) {
        let bin = name.replace("_assign", "");
        let a = mkv(arity(name), r);
        if name.contains("div") && a[a.len() - 1].is_zero() {
            continue;
        }
        if let (Some(x), Some(y)) = (run_op::<T>(name, &a), run_op::<T>(&bin, &a)) {
            law(out, p, 1, &[&[cast(x.len() as f64)], &x, &y]);
        }
    }
    // 2 / 3: v - v = 0 ; (v + u) - v ~ u
    for d in [2usize, 3] {
        let v = mkv(d, r);
        let u = mkv(d, r);
        let (zz, back) = if d == 2 {
            let z = p2(&v) - p2(&v);
            let b = (p2(&v) + v2(&u)) - p2(&v);
            (vec![z.0, z.1], vec![b.0, b.1])
        } else {
            let z = p3(&v) - p3(&v);
            let b = (p3(&v) + v3(&u)) - p3(&v);
            (vec![z.0, z.1, z.2], vec![b.0, b.1, b.2])
        };
        law(out, p, 2, &[&[cast(d as f64)], &zz]);
        law(out, p, 3, &[&[cast(d as f64)], &v, &u, &back]);
        let z2 = if d == 2 {
            let z = v2(&u) - v2(&u);
            vec![z.0, z.1]
        } else {
            let z = v3(&u) - v3(&u);
            vec![z.0, z.1, z.2]
        };
        law(out, p, 2, &[&[cast(d as f64)], &z2]);
    }
    // 4: dot symmetric
    let (a, b) = (mkv(2, r), mkv(2, r));
    law(out, p, 4, &[&[v2(&a).dot(&v2(&b)), v2(&b).dot(&v2(&a))]]);
    let (a, b) = (mkv(3, r), mkv(3, r));
    law(out, p, 4, &[&[v3(&a).dot(&v3(&b)), v3(&b).dot(&v3(&a))]]);
    // 5 / 6: cross antisymmetric, orthogonal
    let c1 = v3(&a).cross(&v3(&b));
    let c2 = v3(&b).cross(&v3(&a));
    law(out, p, 5, &[&[c1.0, c1.1, c1.2], &[c2.0, c2.1, c2.2]]);
    law(out, p, 6, &[&a, &b, &[c1.0, c1.1, c1.2]]);
    // 7: orientation
    let t = mkv(6, r);
    law(out, p, 7, &[&t, &[Vertex2::cross_product_from_vertices(&p2(&t), &p2(&t[2..]), &p2(&t[4..]))]]);
    // 8 / 9: unit and normal directions
    for d in [2usize, 3] {
        let mut v = mkv(d, r);
        if r.chance(1, 6) {
            v = vec![if r.chance(1, 2) { T::zero() } else { -T::zero() }; d];
        }
        if d == 2 {
            match v2(&v).unit_dir() {
                Ok(u) => law(out, p, 8, &[&[cast(2.0)], &v, &[flag(true), u.0, u.1]]),
                Err(_) => law(out, p, 8, &[&[cast(2.0)], &v, &[flag::<T>(false), T::zero(), T::zero()]]),
            }
            match v2(&v).normal_dir() {
                Ok(u) => law(out, p, 9, &[&v, &[flag(true), u.0, u.1]]),
                Err(_) => law(out, p, 9, &[&v, &[flag::<T>(false), T::zero(), T::zero()]]),
            }
        } else {
            match v3(&v).unit_dir() {
                Ok(u) => law(out, p, 8, &[&[cast(3.0)], &v, &[flag(true), u.0, u.1, u.2]]),
                Err(_) => law(out, p, 8, &[&[cast(3.0)], &v, &[flag::<T>(false), T::zero(), T::zero(), T::zero()]]),
            }
        }
    }
    // 10: average
    for d in [2usize, 3] {
        let (a, b) = (mkv(d, r), mkv(d, r));
        let (m1, m2) = if d == 2 {
            let (x, y) = (Vertex2::average(&p2(&a), &p2(&b)), Vertex2::average(&p2(&b), &p2(&a)));
            (vec![x.0, x.1], vec![y.0, y.1])
        } else {
            let (x, y) = (Vertex3::average(&p3(&a), &p3(&b)), Vertex3::average(&p3(&b), &p3(&a)));
            (vec![x.0, x.1, x.2], vec![y.0, y.1, y.2])
        };
        law(out, p, 10, &[&[cast(d as f64)], &a, &b, &m1, &m2]);
    }
}

/// skewness of one convex polygon and of its images under rotation of the starting dart,
/// translation, rotation and uniform scaling (law 11)
fn skew_case(out: &mut Out, r: &mut Rng) {
    let k = 3 + r.below(10) as usize;
    let regular = r.chance(1, 3);
    let mut pts: Vec<(f64, f64)> = Vec::new();
    let mut ang = 0.0;
    // points on a circle in increasing angle, the k arcs (the closing one included) sharing the full turn in
    // proportions 0.6..1.4: a convex polygon whose shortest side is bounded below (no arc under 0.6/1.4 of 2pi/k)
    let w: Vec<f64> = (0..k).map(|_| if regular { 1.0 } else { 0.6 + 0.8 * (r.below(1000) as f64 / 1000.0) }).collect();
    let total: f64 = w.iter().sum();
    for wi in &w {
        pts.push((2.0 * f64::cos(ang), 2.0 * f64::sin(ang)));
        ang += std::f64::consts::TAU * wi / total;
    }
    let build = |pts: &[(f64, f64)], start: usize| -> f64 {
        let m: CMap2<f64> = CMapBuilder::<2, f64>::from_n_darts(k).build().unwrap();
        for i in 0..k {
            m.force_link::<1>(1 + i as u32, 1 + ((i + 1) % k) as u32).unwrap();
            let q = pts[(i + start) % k];
            m.force_write_vertex(1 + i as u32, q);
        }
        compute_face_skewness_2d(&m, 1)
    };
    let s0 = build(&pts, 0);
    let mut vals = vec![flag::<f64>(regular), s0, build(&pts, 1 + r.below(k as u64 - 1) as usize)];
    let (tx, ty) = (pool(r, None), pool(r, None));
    vals.push(build(&pts.iter().map(|q| (q.0 + tx, q.1 + ty)).collect::<Vec<_>>(), 0));
    let th = r.below(628) as f64 / 100.0;
    vals.push(build(&pts.iter().map(|q| (q.0 * th.cos() - q.1 * th.sin(), q.0 * th.sin() + q.1 * th.cos())).collect::<Vec<_>>(), 0));
    let sc = [0.5, 3.0, 1e-3, 250.0][r.below(4) as usize];
    vals.push(build(&pts.iter().map(|q| (q.0 * sc, q.1 * sc)).collect::<Vec<_>>(), 0));
    // magnitude of the translation: the law's tolerance for the translated image is relative to it
    vals.push(tx.abs().max(ty.abs()));
    law(out, 53, 11, &[&vals]);
}

fn main() {
    let args: Vec<String> = std::env::args().collect();
    let get = |name: &str, dflt: &str| -> String {
        args.iter().position(|a| a == name).and_then(|i| args.get(i + 1).cloned()).unwrap_or_else(|| dflt.to_string())
    };
    let seed: u64 = get("--seed", "1").parse().unwrap();
    let outdir = get("--out", ".");
    let ncases: usize = get("--cases", "2000").parse().unwrap();
    let names: Vec<String> = std::fs::read_to_string(get("--opsfile", "geom_ops.txt"))
        .unwrap()
        .lines()
        .map(str::to_string)
        .filter(|l| !l.is_empty())
        .collect();
    quiet_panics();
    let mk = |f: &str| std::io::BufWriter::new(std::fs::File::create(format!("{outdir}/{f}")).unwrap());
    let mut out = Out { cases: mk("cases.txt"), obs: mk("impl.txt"), laws: mk("laws.txt"), n: 0 };
    let mut unknown = mk("uncovered.txt");
    let mut rng = Rng::new(seed);
    // correspondence: every translated operator on random f64 operands
    let mut id = 0usize;
    for (idx, name) in names.iter().enumerate() {
        if run_op::<f64>(name, &vec![1.0; 8]).is_none() {
            writeln!(unknown, "{name}").unwrap();
            continue;
        }
        for _ in 0..ncases / names.len().max(1) + 1 {
            let mut prev = None;
            let a: Vec<f64> = (0..arity(name))
                .map(|_| {
                    let x = pool(&mut rng, prev);
                    prev = Some(x);
                    x
                })
                .collect();
            if name.contains("div") && a[a.len() - 1] == 0.0 {
                continue; // documented assert
            }
            let res = run_op::<f64>(name, &a).unwrap();
            let mut c = format!("g{id} {idx}");
            ftoks(&a, &mut c);
            writeln!(out.cases, "{c}").unwrap();
            let mut o = format!("g{id} 0");
            ftoks(&res, &mut o);
            writeln!(out.obs, "{o}").unwrap();
            id += 1;
        }
    }
    for _ in 0..ncases / 8 + 1 {
        laws_for::<f64>(&mut out, &mut rng, 53, &names);
        laws_for::<f32>(&mut out, &mut rng, 24, &names);
        skew_case(&mut out, &mut rng);
    }
    out.cases.flush().unwrap();
    out.obs.flush().unwrap();
    out.laws.flush().unwrap();
    unknown.flush().unwrap();
}
