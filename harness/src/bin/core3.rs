//! `core3`: histories of public CMap3 editing calls (C02, C05, C03/C06/C08/C12/C18 in 3D).
//!
//!   <out>/cases.txt : `ID mask kind a b c op*`   (kind 0: from_n_darts(a); 1: hex grid a x b x c)
//!   <out>/impl.txt  : `ID k class code ret dump`
//!   <out>/ops.txt   : `ID k optoks`
//! Case language: see coq/theories/Extract/Run3.v.

use std::fmt::Write as _;
use std::io::Write as _;
use std::panic::{AssertUnwindSafe, catch_unwind};

use hc_harness::*;
use honeycomb_core::cmap::{CMap3, CMapBuilder, DartIdType, OrbitPolicy, SewError};
use honeycomb_core::stm::{Transaction, TransactionClosureResult, atomically_with_err, try_or_coerce};

#[derive(Debug, Clone)]
enum Call {
    L(u8, u32, u32),
    U(u8, u32),
    S(u8, u32, u32),
    X(u8, u32),
    WriteVertex(u32, [f64; 3]),
    RemoveVertex(u32),
    WriteAttr(u32, u32, u32),
    RemoveAttr(u32, u32),
    RemoveDartTx(u32),
}

#[derive(Debug, Clone)]
enum Op {
    AddDart,
    AddDarts(u32),
    InsertDart,
    RemoveDart(u32),
    Force(Option<u64>, Call),
    Block(Option<u64>, Vec<Call>),
    Obs(bool),
    Query,
}

fn call_toks(c: &Call, s: &mut String) {
    match c {
        Call::L(i, l, r) => write!(s, " {i} {l} {r}"),
        Call::U(i, l) => write!(s, " {} {l}", 3 + i),
        Call::S(i, l, r) => write!(s, " {} {l} {r}", 6 + i),
        Call::X(i, l) => write!(s, " {} {l}", 9 + i),
        Call::WriteVertex(d, v) => write!(s, " 13 {d} {} {} {}", ftok(v[0]), ftok(v[1]), ftok(v[2])),
        Call::RemoveVertex(d) => write!(s, " 14 {d}"),
        Call::WriteAttr(k, d, a) => write!(s, " 15 {k} {d} {a}"),
        Call::RemoveAttr(k, d) => write!(s, " 16 {k} {d}"),
        Call::RemoveDartTx(d) => write!(s, " 17 {d}"),
    }
    .unwrap();
}

fn fa_tok(fa: &Option<u64>) -> i64 {
    fa.map_or(-1, |k| k as i64)
}

fn op_toks(o: &Op, s: &mut String) {
    match o {
        Op::AddDart => s.push_str(" 1"),
        Op::AddDarts(k) => write!(s, " 2 {k}").unwrap(),
        Op::InsertDart => s.push_str(" 3"),
        Op::RemoveDart(d) => write!(s, " 4 {d}").unwrap(),
        Op::Force(fa, c) => {
            write!(s, " 5 {}", fa_tok(fa)).unwrap();
            call_toks(c, s);
        }
        Op::Block(fa, cs) => {
            write!(s, " 6 {} {}", fa_tok(fa), cs.len()).unwrap();
            for c in cs {
                call_toks(c, s);
            }
        }
        Op::Obs(b) => write!(s, " 7 {}", u8::from(*b)).unwrap(),
        Op::Query => s.push_str(" 8"),
    }
}

fn call_tx(m: &CMap3<f64>, t: &mut Transaction, c: &Call) -> TransactionClosureResult<(), SewError> {
    match *c {
        Call::L(1, l, r) => {
            try_or_coerce!(m.link::<1>(t, l, r), SewError);
        }
        Call::L(2, l, r) => {
            try_or_coerce!(m.link::<2>(t, l, r), SewError);
        }
        Call::L(_, l, r) => {
            try_or_coerce!(m.link::<3>(t, l, r), SewError);
        }
        Call::U(1, l) => {
            try_or_coerce!(m.unlink::<1>(t, l), SewError);
        }
        Call::U(2, l) => {
            try_or_coerce!(m.unlink::<2>(t, l), SewError);
        }
        Call::U(_, l) => {
            try_or_coerce!(m.unlink::<3>(t, l), SewError);
        }
        Call::S(1, l, r) => m.sew::<1>(t, l, r)?,
        Call::S(2, l, r) => m.sew::<2>(t, l, r)?,
        Call::S(_, l, r) => m.sew::<3>(t, l, r)?,
        Call::X(1, l) => m.unsew::<1>(t, l)?,
        Call::X(2, l) => m.unsew::<2>(t, l)?,
        Call::X(_, l) => m.unsew::<3>(t, l)?,
        Call::WriteVertex(d, v) => {
            m.write_vertex(t, d, (v[0], v[1], v[2]))?;
        }
        Call::RemoveVertex(d) => {
            m.remove_vertex(t, d)?;
        }
        Call::WriteAttr(k, d, a) => match k {
            0 => {
                m.write_attribute(t, d, Wt(a))?;
            }
            1 => {
                m.write_attribute(t, d, Ea(a))?;
            }
            2 => {
                m.write_attribute(t, d, Fa(a))?;
            }
            _ => {
                m.write_attribute(t, d, Vb(a))?;
            }
        },
        Call::RemoveAttr(k, d) => match k {
            0 => {
                m.remove_attribute::<Wt>(t, d)?;
            }
            1 => {
                m.remove_attribute::<Ea>(t, d)?;
            }
            2 => {
                m.remove_attribute::<Fa>(t, d)?;
            }
            _ => {
                m.remove_attribute::<Vb>(t, d)?;
            }
        },
        Call::RemoveDartTx(d) => {
            m.remove_free_dart_transac(t, d)?;
        }
    }
    Ok(())
}

fn call_force(m: &CMap3<f64>, c: &Call) -> Result<(), SewError> {
    match *c {
        Call::L(1, l, r) => m.force_link::<1>(l, r).map_err(SewError::from),
        Call::L(2, l, r) => m.force_link::<2>(l, r).map_err(SewError::from),
        Call::L(_, l, r) => m.force_link::<3>(l, r).map_err(SewError::from),
        Call::U(1, l) => m.force_unlink::<1>(l).map_err(SewError::from),
        Call::U(2, l) => m.force_unlink::<2>(l).map_err(SewError::from),
        Call::U(_, l) => m.force_unlink::<3>(l).map_err(SewError::from),
        Call::S(1, l, r) => m.force_sew::<1>(l, r),
        Call::S(2, l, r) => m.force_sew::<2>(l, r),
        Call::S(_, l, r) => m.force_sew::<3>(l, r),
        Call::X(1, l) => m.force_unsew::<1>(l),
        Call::X(2, l) => m.force_unsew::<2>(l),
        Call::X(_, l) => m.force_unsew::<3>(l),
        _ => atomically_with_err(|t| call_tx(m, t, c)),
    }
}

fn exec(m: &mut CMap3<f64>, o: &Op) -> Res {
    let r = catch_unwind(AssertUnwindSafe(|| match o {
        Op::AddDart => Res::Ok(u64::from(m.add_free_dart())),
        Op::AddDarts(k) => Res::Ok(u64::from(m.add_free_darts(*k as usize))),
        Op::InsertDart => Res::Ok(u64::from(m.insert_free_dart())),
        Op::RemoveDart(d) => {
            m.remove_free_dart(*d);
            Res::Ok(0)
        }
        Op::Force(fa, c) => {
            arm_fault(*fa);
            let r = call_force(m, c);
            arm_fault(None);
            match r {
                Ok(()) => Res::Ok(0),
                Err(e) => Res::Err(sew_err_code(&e)),
            }
        }
        Op::Block(fa, cs) => {
            arm_fault(*fa);
            let r = atomically_with_err(|t| {
                arm_fault(*fa);
                for c in cs {
                    call_tx(m, t, c)?;
                }
                Ok(())
            });
            arm_fault(None);
            match r {
                Ok(()) => Res::Ok(0),
                Err(e) => Res::Err(sew_err_code(&e)),
            }
        }
        Op::Obs(_) | Op::Query => Res::Ok(0),
    }));
    arm_fault(None);
    r.unwrap_or(Res::Panic)
}

fn build3(kind: u32, a: u32, b: u32, c: u32, mask: u32) -> CMap3<f64> {
    let mut bd = if kind == 0 {
        CMapBuilder::<3, f64>::from_n_darts(a as usize)
    } else {
        CMapBuilder::<3, f64>::from_grid_descriptor(
            honeycomb_core::cmap::GridDescriptor::<3, f64>::default()
                .n_cells([a as usize, b as usize, c as usize])
                .len_per_cell([1.0, 1.0, 1.0]),
        )
    };
    if mask & 1 != 0 {
        bd = bd.add_attribute::<Wt>();
    }
    if mask & 2 != 0 {
        bd = bd.add_attribute::<Ea>();
    }
    if mask & 4 != 0 {
        bd = bd.add_attribute::<Fa>();
    }
    if mask & 8 != 0 {
        bd = bd.add_attribute::<Vb>();
    }
    bd.build().expect("builder")
}

fn read_attr3(m: &CMap3<f64>, k: u32, d: DartIdType) -> Option<u32> {
    match k {
        0 => m.force_read_attribute::<Wt>(d).map(|v| v.0),
        1 => m.force_read_attribute::<Ea>(d).map(|v| v.0),
        2 => m.force_read_attribute::<Fa>(d).map(|v| v.0),
        _ => m.force_read_attribute::<Vb>(d).map(|v| v.0),
    }
}

fn dump3(m: &CMap3<f64>, mask: u32, out: &mut String) {
    let n = m.n_darts();
    write!(out, " {mask} {n}").unwrap();
    for d in 0..n as DartIdType {
        write!(
            out,
            " {} {} {} {} {}",
            m.beta::<0>(d),
            m.beta::<1>(d),
            m.beta::<2>(d),
            m.beta::<3>(d),
            u8::from(peek_unused(m, d))
        )
        .unwrap();
        match m.force_read_vertex(d) {
            Some(v) => write!(out, " 1 {} {} {}", ftok(v.x()), ftok(v.y()), ftok(v.z())).unwrap(),
            None => out.push_str(" 0"),
        }
        for k in 0..N_KINDS {
            if mask & (1 << k) != 0 {
                match read_attr3(m, k, d) {
                    Some(a) => write!(out, " 1 {a}").unwrap(),
                    None => out.push_str(" 0"),
                }
            }
        }
    }
}

fn list_toks(r: std::thread::Result<Vec<u32>>, s: &mut String) {
    match r {
        Ok(l) => {
            write!(s, " {}", l.len()).unwrap();
            for x in l {
                write!(s, " {x}").unwrap();
            }
        }
        Err(_) => s.push_str(" -1"),
    }
}
fn id_toks(r: std::thread::Result<u32>, s: &mut String) {
    match r {
        Ok(x) => write!(s, " {x}").unwrap(),
        Err(_) => s.push_str(" -1"),
    }
}

fn query3(m: &CMap3<f64>, s: &mut String) {
    static C1: [u8; 2] = [1, 0];
    let n = m.n_darts() as u32;
    write!(s, " {n}").unwrap();
    let pol = |i: usize| -> OrbitPolicy {
        match i {
            0 => OrbitPolicy::Vertex,
            1 => OrbitPolicy::VertexLinear,
            2 => OrbitPolicy::Edge,
            3 => OrbitPolicy::Face,
            4 => OrbitPolicy::FaceLinear,
            5 => OrbitPolicy::Volume,
            6 => OrbitPolicy::VolumeLinear,
            _ => OrbitPolicy::Custom(&C1),
        }
    };
    for d in 1..n {
        for i in 0..8 {
            list_toks(catch_unwind(AssertUnwindSafe(|| m.orbit(pol(i), d).collect::<Vec<u32>>())), s);
        }
        id_toks(catch_unwind(AssertUnwindSafe(|| m.vertex_id(d))), s);
        id_toks(catch_unwind(AssertUnwindSafe(|| m.edge_id(d))), s);
        id_toks(catch_unwind(AssertUnwindSafe(|| m.face_id(d))), s);
        id_toks(catch_unwind(AssertUnwindSafe(|| m.volume_id(d))), s);
    }
    list_toks(catch_unwind(AssertUnwindSafe(|| m.iter_vertices().collect::<Vec<u32>>())), s);
    list_toks(catch_unwind(AssertUnwindSafe(|| m.iter_edges().collect::<Vec<u32>>())), s);
    list_toks(catch_unwind(AssertUnwindSafe(|| m.iter_faces().collect::<Vec<u32>>())), s);
    list_toks(catch_unwind(AssertUnwindSafe(|| m.iter_volumes().collect::<Vec<u32>>())), s);
}

// ------------------------------------------------------------------ generation
struct View {
    n: u32,
    b: Vec<[u32; 4]>,
    unused: Vec<bool>,
}
const COORDS: [f64; 7] = [0.0, 1.0, 2.0, -1.0, 0.5, 3.0, 1.5];

fn gen_dart(rng: &mut Rng, v: &View, pred: impl Fn(u32) -> bool, wild: bool) -> u32 {
    if wild {
        return rng.below(u64::from(v.n) + 2) as u32;
    }
    let c: Vec<u32> = (1..v.n).filter(|&d| !v.unused[d as usize] && pred(d)).collect();
    if c.is_empty() {
        let u: Vec<u32> = (1..v.n).filter(|&d| !v.unused[d as usize]).collect();
        if u.is_empty() { 1 } else { *rng.pick(&u) }
    } else {
        *rng.pick(&c)
    }
}

fn gen_call(rng: &mut Rng, v: &View, mask: u32, wild_pct: u64, sewish: bool) -> Call {
    let wild = rng.chance(wild_pct, 100);
    let loose = rng.chance(12, 100);
    let t = |_: u32| true;
    let i = 1 + rng.below(3) as u8;
    let fr = |d: u32, k: usize| v.b[d as usize][k] == 0;
    let hi = if sewish { 72 } else { 56 };
    match rng.below(100) {
        x if x < 30 => {
            let (l, r) = match i {
                1 => (gen_dart(rng, v, |d| loose || fr(d, 1), wild), gen_dart(rng, v, |d| loose || fr(d, 0), wild)),
                2 => {
                    let l = gen_dart(rng, v, |d| loose || fr(d, 2), wild);
                    (l, gen_dart(rng, v, |d| (loose || fr(d, 2)) && d != l, wild))
                }
                _ => {
                    let l = gen_dart(rng, v, |d| loose || fr(d, 3), wild);
                    (l, gen_dart(rng, v, |d| (loose || fr(d, 3)) && d != l, wild))
                }
            };
            if rng.chance(1, 2) { Call::L(i, l, r) } else { Call::S(i, l, r) }
        }
        x if x < hi => {
            let l = gen_dart(rng, v, |d| loose || !fr(d, i as usize), wild);
            if rng.chance(1, 2) { Call::U(i, l) } else { Call::X(i, l) }
        }
        x if x < hi + 14 => Call::WriteVertex(gen_dart(rng, v, t, wild), [*rng.pick(&COORDS), *rng.pick(&COORDS), *rng.pick(&COORDS)]),
        x if x < hi + 17 => Call::RemoveVertex(gen_dart(rng, v, t, wild)),
        x if x < hi + 25 && mask != 0 => {
            let ks: Vec<u32> = (0..N_KINDS).filter(|k| mask & (1 << k) != 0).collect();
            Call::WriteAttr(*rng.pick(&ks), gen_dart(rng, v, t, wild).min(v.n - 1), rng.below(40) as u32)
        }
        x if x < hi + 27 && mask != 0 => {
            let ks: Vec<u32> = (0..N_KINDS).filter(|k| mask & (1 << k) != 0).collect();
            Call::RemoveAttr(*rng.pick(&ks), gen_dart(rng, v, t, wild).min(v.n - 1))
        }
        _ => Call::RemoveDartTx(gen_dart(rng, v, |d| loose || v.b[d as usize] == [0, 0, 0, 0], wild)),
    }
}

fn gen_op(rng: &mut Rng, m: &CMap3<f64>, mask: u32, wild_pct: u64, fault_pct: u64, sewish: bool) -> Op {
    let v = view_peek(m);
    let fa = if mask != 0 && rng.chance(fault_pct, 100) { Some(rng.below(4)) } else { None };
    match rng.below(100) {
        0..=2 => Op::AddDart,
        3..=4 => Op::AddDarts(rng.below(4) as u32),
        5..=7 => Op::InsertDart,
        8..=12 => {
            let w = rng.chance(wild_pct, 100);
            let loose = rng.chance(15, 100);
            Op::RemoveDart(gen_dart(rng, &v, |d| loose || v.b[d as usize] == [0, 0, 0, 0], w))
        }
        13..=82 => Op::Force(fa, gen_call(rng, &v, mask, wild_pct, sewish)),
        _ => {
            let k = 1 + rng.below(3);
            Op::Block(fa, (0..k).map(|_| gen_call(rng, &v, mask, wild_pct, sewish)).collect())
        }
    }
}

fn view_peek(m: &CMap3<f64>) -> View {
    let n = m.n_darts() as u32;
    let unused = (0..n).map(|d| peek_unused(m, d)).collect();
    View { n, b: (0..n).map(|d| [m.beta::<0>(d), m.beta::<1>(d), m.beta::<2>(d), m.beta::<3>(d)]).collect(), unused }
}
/// the removal flag of a dart (CMap3 has no `is_unused`): `remove_free_dart_transac` returns the
/// previous flag; the transaction is aborted, so nothing is changed
fn peek_unused(m: &CMap3<f64>, d: u32) -> bool {
    let r: Result<(), bool> = atomically_with_err(|t| {
        let was = m.remove_free_dart_transac(t, d)?;
        honeycomb_core::stm::abort(was)
    });
    r.err().unwrap_or(false)
}

struct Out {
    cases: std::io::BufWriter<std::fs::File>,
    obs: std::io::BufWriter<std::fs::File>,
    ops: std::io::BufWriter<std::fs::File>,
}

fn run_case(id: &str, mask: u32, hdr: (u32, u32, u32, u32), ops: &mut dyn FnMut(&CMap3<f64>, usize) -> Option<Op>, out: &mut Out) {
    let mut m = build3(hdr.0, hdr.1, hdr.2, hdr.3, mask);
    let mut case = format!("{id} {mask} {} {} {} {}", hdr.0, hdr.1, hdr.2, hdr.3);
    let mut line = String::new();
    let mut k = 0usize;
    let mut observing = true;
    write!(line, "{id} {k} 0 0 0").unwrap();
    dump3(&m, mask, &mut line);
    writeln!(out.obs, "{line}").unwrap();
    let mut step = 0usize;
    while let Some(o) = ops(&m, step) {
        step += 1;
        op_toks(&o, &mut case);
        if let Op::Obs(b) = o {
            observing = b;
            if !b {
                continue;
            }
        }
        let r = exec(&mut m, &o);
        if observing {
            k += 1;
            line.clear();
            write!(line, "{id} {k} {}", r.toks()).unwrap();
            if matches!(o, Op::Query) {
                query3(&m, &mut line);
            } else {
                dump3(&m, mask, &mut line);
            }
            writeln!(out.obs, "{line}").unwrap();
            line.clear();
            write!(line, "{id} {k}").unwrap();
            op_toks(&o, &mut line);
            writeln!(out.ops, "{line}").unwrap();
        }
    }
    writeln!(out.cases, "{case}").unwrap();
}

/// two faces on free darts: left = darts 1..=kl, right = darts kl+1..=kl+kr, closed or open
fn face_ops(kl: u32, kr: u32, lclosed: bool, rclosed: bool, rev_right: bool) -> Vec<Op> {
    let mut v = Vec::new();
    for i in 0..kl - 1 {
        v.push(Op::Force(None, Call::L(1, 1 + i, 2 + i)));
    }
    if lclosed {
        v.push(Op::Force(None, Call::L(1, kl, 1)));
    }
    // the right face is traversed backwards by the 3-link walk: build it either way round
    let r = |i: u32| kl + 1 + i;
    for i in 0..kr - 1 {
        if rev_right {
            v.push(Op::Force(None, Call::L(1, r(i + 1), r(i))));
        } else {
            v.push(Op::Force(None, Call::L(1, r(i), r(i + 1))));
        }
    }
    if rclosed {
        if rev_right {
            v.push(Op::Force(None, Call::L(1, r(0), r(kr - 1))));
        } else {
            v.push(Op::Force(None, Call::L(1, r(kr - 1), r(0))));
        }
    }
    v
}

fn main() {
    let args: Vec<String> = std::env::args().collect();
    let get = |name: &str, dflt: &str| -> String {
        args.iter().position(|a| a == name).and_then(|i| args.get(i + 1).cloned()).unwrap_or_else(|| dflt.to_string())
    };
    let seed: u64 = get("--seed", "1").parse().unwrap();
    let mode = get("--mode", "random");
    let outdir = get("--out", ".");
    let ncases: usize = get("--cases", "200").parse().unwrap();
    let maxops: usize = get("--ops", "30").parse().unwrap();
    let maxn: u64 = get("--darts", "10").parse().unwrap();
    let wild: u64 = get("--wild", "5").parse().unwrap();
    let fault: u64 = get("--fault", "0").parse().unwrap();
    let query_pct: u64 = get("--query", "0").parse().unwrap();
    let tag = get("--tag", "t");
    if std::env::var("HC_LOUD").is_err() {
        quiet_panics();
    }
    let mk = |f: &str| std::io::BufWriter::new(std::fs::File::create(format!("{outdir}/{f}")).unwrap());
    let mut out = Out { cases: mk("cases.txt"), obs: mk("impl.txt"), ops: mk("ops.txt") };
    let mut rng = Rng::new(seed);
    match mode.as_str() {
        "random" | "hex" => {
            for i in 0..ncases {
                let mask = if rng.chance(1, 3) { 0 } else { rng.below(16) as u32 };
                let hdr = if mode == "hex" {
                    (1, 1 + rng.below(2) as u32, 1 + rng.below(2) as u32, 1 + rng.below(2) as u32)
                } else {
                    (0, 1 + rng.below(maxn) as u32, 0, 0)
                };
                let nops = 1 + rng.below(maxops as u64) as usize;
                let w = if i % 8 == 0 || mode == "hex" { 0 } else { wild };
                let mut r2 = Rng::new(rng.next());
                let mut asked = false;
                let sewish = mode == "hex";
                run_case(
                    &format!("{tag}{i}"),
                    mask,
                    hdr,
                    &mut |m, step| {
                        if step >= nops {
                            if query_pct > 0 && !asked {
                                asked = true;
                                return Some(Op::Query);
                            }
                            None
                        } else if query_pct > 0 && r2.chance(query_pct, 100) {
                            Some(Op::Query)
                        } else {
                            Some(gen_op(&mut r2, m, mask, w, fault, sewish))
                        }
                    },
                    &mut out,
                );
            }
        }
        "faces" => {
            // all pairs of faces (closed / open, 1..=5 sides, both orientations of the right one):
            // a 3-link / 3-sew must succeed exactly on mirrorable pairs
            let mut id = 0usize;
            for kl in 1..=5u32 {
                for kr in 1..=5u32 {
                    for lclosed in [false, true] {
                        for rclosed in [false, true] {
                            for rev in [false, true] {
                                for start_l in 1..=kl {
                                    for start_r in [kl + 1, kl + kr, kl + 1 + (kr / 2)] {
                                        for sew in [false, true] {
                                            let mut ops = vec![Op::Obs(false)];
                                            ops.extend(face_ops(kl, kr, lclosed, rclosed, rev));
                                            ops.push(Op::Obs(true));
                                            ops.push(Op::Force(None, if sew { Call::S(3, start_l, start_r) } else { Call::L(3, start_l, start_r) }));
                                            let mut it = ops.into_iter();
                                            run_case(&format!("f{id}"), 0, (0, kl + kr, 0, 0), &mut |_, _| it.next(), &mut out);
                                            id += 1;
                                        }
                                    }
                                }
                            }
                        }
                    }
                }
            }
        }
        "hexq" => {
            // plain hex grids with a final query (C03 / C12 in 3D)
            let mut id = 0usize;
            for a in 1..=maxn as u32 {
                for b in 1..=maxn as u32 {
                    for c in 1..=maxn as u32 {
                        let mut it = vec![Op::Query].into_iter();
                        run_case(&format!("h{id}"), 0, (1, a, b, c), &mut |_, _| it.next(), &mut out);
                        id += 1;
                    }
                }
            }
        }
        _ => panic!("unknown mode"),
    }
    out.cases.flush().unwrap();
    out.obs.flush().unwrap();
    out.ops.flush().unwrap();
}
