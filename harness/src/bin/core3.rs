//! `core3`: histories of public CMap3 editing calls (C02, C05, C03/C06/C08/C12/C18 in 3D).
//!
//!   <out>/cases.txt : `ID mask kind a b c op*`   (kind 0: from_n_darts(a); 1: hex grid a x b x c)
//!   <out>/impl.txt  : `ID k class code ret dump`
//!   <out>/ops.txt   : `ID k optoks`
//! Case language: see coq/theories/Extract/Run3.v.

use std::fmt::Write as _;
use std::io::Write as _;
use std::panic::{AssertUnwindSafe, catch_unwind};

use hc_harness::*;
use honeycomb_core::cmap::{CMap3, CMapBuilder, DartIdType, OrbitPolicy, SewError};
use honeycomb_core::stm::{Transaction, TransactionClosureResult, atomically_with_err, try_or_coerce};

#[derive(Debug, Clone)]
pub enum Call {
    L(u8, u32, u32),
    U(u8, u32),
    S(u8, u32, u32),
    X(u8, u32),
    WriteVertex(u32, [f64; 3]),
    RemoveVertex(u32),
    WriteAttr(u32, u32, u32),
    RemoveAttr(u32, u32),
    RemoveDartTx(u32),
}

#[derive(Debug, Clone)]
pub enum Op {
    AddDart,
    AddDarts(u32),
    InsertDart,
    RemoveDart(u32),
    Force(Option<u64>, Call),
    Block(Option<u64>, Vec<Call>),
    Obs(bool),
    Query,
}

pub fn call_toks(c: &Call, s: &mut String) {
    match c {
        Call::L(i, l, r) => write!(s, " {i} {l} {r}"),
        Call::U(i, l) => write!(s, " {} {l}", 3 + i),
        Call::S(i, l, r) => write!(s, " {} {l} {r}", 6 + i),
        Call::X(i, l) => write!(s, " {} {l}", 9 + i),
        Call::WriteVertex(d, v) => write!(s, " 13 {d} {} {} {}", ftok(v[0]), ftok(v[1]), ftok(v[2])),
        Call::RemoveVertex(d) => write!(s, " 14 {d}"),
        Call::WriteAttr(k, d, a) => write!(s, " 15 {k} {d} {a}"),
        Call::RemoveAttr(k, d) => write!(s, " 16 {k} {d}"),
        Call::RemoveDartTx(d) => write!(s, " 17 {d}"),
    }
    .unwrap();
}

pub fn fa_tok(fa: &Option<u64>) -> i64 {
    fa.map_or(-1, |k| k as i64)
}

pub fn op_toks(o: &Op, s: &mut String) {
    match o {
        Op::AddDart => s.push_str(" 1"),
        Op::AddDarts(k) => write!(s, " 2 {k}").unwrap(),
        Op::InsertDart => s.push_str(" 3"),
        Op::RemoveDart(d) => write!(s, " 4 {d}").unwrap(),
        Op::Force(fa, c) => {
            write!(s, " 5 {}", fa_tok(fa)).unwrap();
            call_toks(c, s);
        }
        Op::Block(fa, cs) => {
            write!(s, " 6 {} {}", fa_tok(fa), cs.len()).unwrap();
            for c in cs {
                call_toks(c, s);
            }
        }
        Op::Obs(b) => write!(s, " 7 {}", u8::from(*b)).unwrap(),
        Op::Query => s.push_str(" 8"),
    }
}

pub fn call_tx(m: &CMap3<f64>, t: &mut Transaction, c: &Call) -> TransactionClosureResult<(), SewError> {
    match *c {
        Call::L(1, l, r) => {
            try_or_coerce!(m.link::<1>(t, l, r), SewError);
        }
        Call::L(2, l, r) => {
            try_or_coerce!(m.link::<2>(t, l, r), SewError);
        }
        Call::L(_, l, r) => {
            try_or_coerce!(m.link::<3>(t, l, r), SewError);
        }
        Call::U(1, l) => {
            try_or_coerce!(m.unlink::<1>(t, l), SewError);
        }
        Call::U(2, l) => {
            try_or_coerce!(m.unlink::<2>(t, l), SewError);
        }
        Call::U(_, l) => {
            try_or_coerce!(m.unlink::<3>(t, l), SewError);
        }
        Call::S(1, l, r) => m.sew::<1>(t, l, r)?,
        Call::S(2, l, r) => m.sew::<2>(t, l, r)?,
        Call::S(_, l, r) => m.sew::<3>(t, l, r)?,
        Call::X(1, l) => m.unsew::<1>(t, l)?,
        Call::X(2, l) => m.unsew::<2>(t, l)?,
        Call::X(_, l) => m.unsew::<3>(t, l)?,
        Call::WriteVertex(d, v) => {
            m.write_vertex(t, d, (v[0], v[1], v[2]))?;
        }
        Call::RemoveVertex(d) => {
            m.remove_vertex(t, d)?;
        }
        Call::WriteAttr(k, d, a) => match k {
            0 => {
                m.write_attribute(t, d, Wt(a))?;
            }
            1 => {
                m.write_attribute(t, d, Ea(a))?;
            }
            2 => {
                m.write_attribute(t, d, Fa(a))?;
            }
            _ => {
                m.write_attribute(t, d, Vb(a))?;
            }
        },
        Call::RemoveAttr(k, d) => match k {
            0 => {
                m.remove_attribute::<Wt>(t, d)?;
            }
            1 => {
                m.remove_attribute::<Ea>(t, d)?;
            }
            2 => {
                m.remove_attribute::<Fa>(t, d)?;
            }
            _ => {
                m.remove_attribute::<Vb>(t, d)?;
            }
        },
        Call::RemoveDartTx(d) => {
            m.remove_free_dart_transac(t, d)?;
        }
    }
    Ok(())
}

pub fn call_force(m: &CMap3<f64>, c: &Call) -> Result<(), SewError> {
    match *c {
        Call::L(1, l, r) => m.force_link::<1>(l, r).map_err(SewError::from),
        Call::L(2, l, r) => m.force_link::<2>(l, r).map_err(SewError::from),
        Call::L(_, l, r) => m.force_link::<3>(l, r).map_err(SewError::from),
        Call::U(1, l) => m.force_unlink::<1>(l).map_err(SewError::from),
        Call::U(2, l) => m.force_unlink::<2>(l).map_err(SewError::from),
        Call::U(_, l) => m.force_unlink::<3>(l).map_err(SewError::from),
        Call::S(1, l, r) => m.force_sew::<1>(l, r),
        Call::S(2, l, r) => m.force_sew::<2>(l, r),
        Call::S(_, l, r) => m.force_sew::<3>(l, r),
        Call::X(1, l) => m.force_unsew::<1>(l),
        Call::X(2, l) => m.force_unsew::<2>(l),
        Call::X(_, l) => m.force_unsew::<3>(l),
        _ => atomically_with_err(|t| call_tx(m, t, c)),
    }
}

pub fn exec(m: &mut CMap3<f64>, o: &Op) -> Res {
    let r = catch_unwind(AssertUnwindSafe(|| match o {
        Op::AddDart => Res::Ok(u64::from(m.add_free_dart())),
        Op::AddDarts(k) => Res::Ok(u64::from(m.add_free_darts(*k as usize))),
        Op::InsertDart => Res::Ok(u64::from(m.insert_free_dart())),
        Op::RemoveDart(d) => {
            m.remove_free_dart(*d);
            Res::Ok(0)
        }
        Op::Force(fa, c) => {
            arm_fault(*fa);
            let r = call_force(m, c);
            arm_fault(None);
            match r {
                Ok(()) => Res::Ok(0),
                Err(e) => Res::Err(sew_err_code(&e)),
            }
        }
        Op::Block(fa, cs) => {
            arm_fault(*fa);
            let r = atomically_with_err(|t| {
                arm_fault(*fa);
                for c in cs {
                    call_tx(m, t, c)?;
                }
                Ok(())
            });
            arm_fault(None);
            match r {
                Ok(()) => Res::Ok(0),
                Err(e) => Res::Err(sew_err_code(&e)),
            }
        }
        Op::Obs(_) | Op::Query => Res::Ok(0),
    }));
    arm_fault(None);
    r.unwrap_or(Res::Panic)
}

thread_local! {
    /// cell lengths used by `build3` for grids; `dump3` divides the coordinates by them (exact: powers of two),
    /// so that the observations of a scaled grid read like those of the unit grid when every vertex is at its
    /// lattice point (C12: the three axes must not be confused)
    pub static SCALE: std::cell::Cell<[f64; 3]> = const { std::cell::Cell::new([1.0, 1.0, 1.0]) };
}

pub fn build3(kind: u32, a: u32, b: u32, c: u32, mask: u32) -> CMap3<f64> {
    let mut bd = if kind == 0 {
        CMapBuilder::<3, f64>::from_n_darts(a as usize)
    } else {
        CMapBuilder::<3, f64>::from_grid_descriptor(
            honeycomb_core::cmap::GridDescriptor::<3, f64>::default()
                .n_cells([a as usize, b as usize, c as usize])
                .len_per_cell(SCALE.with(std::cell::Cell::get)),
        )
    };
    if mask & 1 != 0 {
        bd = bd.add_attribute::<Wt>();
    }
    if mask & 2 != 0 {
        bd = bd.add_attribute::<Ea>();
    }
    if mask & 4 != 0 {
        bd = bd.add_attribute::<Fa>();
    }
    if mask & 8 != 0 {
        bd = bd.add_attribute::<Vb>();
    }
    bd.build().expect("builder")
}

pub fn read_attr3(m: &CMap3<f64>, k: u32, d: DartIdType) -> Option<u32> {
    match k {
        0 => m.force_read_attribute::<Wt>(d).map(|v| v.0),
        1 => m.force_read_attribute::<Ea>(d).map(|v| v.0),
        2 => m.force_read_attribute::<Fa>(d).map(|v| v.0),
        _ => m.force_read_attribute::<Vb>(d).map(|v| v.0),
    }
}

pub fn dump3(m: &CMap3<f64>, mask: u32, out: &mut String) {
    let n = m.n_darts();
    write!(out, " {mask} {n}").unwrap();
    for d in 0..n as DartIdType {
        write!(
            out,
            " {} {} {} {} {}",
            m.beta::<0>(d),
            m.beta::<1>(d),
            m.beta::<2>(d),
            m.beta::<3>(d),
            u8::from(peek_unused(m, d))
        )
        .unwrap();
        match safe_read(|| m.force_read_vertex(d)) {
            Some(v) => {
                let sc = SCALE.with(std::cell::Cell::get);
                write!(out, " 1 {} {} {}", ftok(v.x() / sc[0]), ftok(v.y() / sc[1]), ftok(v.z() / sc[2])).unwrap();
            }
            None => out.push_str(" 0"),
        }
        for k in 0..N_KINDS {
            if mask & (1 << k) != 0 {
                match safe_read(|| read_attr3(m, k, d)) {
                    Some(a) => write!(out, " 1 {a}").unwrap(),
                    None => out.push_str(" 0"),
                }
            }
        }
    }
}

pub fn list_toks(r: std::thread::Result<Vec<u32>>, s: &mut String) {
    match r {
        Ok(l) => {
            write!(s, " {}", l.len()).unwrap();
            for x in l {
                write!(s, " {x}").unwrap();
            }
        }
        Err(_) => s.push_str(" -1"),
    }
}
pub fn id_toks(r: std::thread::Result<u32>, s: &mut String) {
    match r {
        Ok(x) => write!(s, " {x}").unwrap(),
        Err(_) => s.push_str(" -1"),
    }
}

pub fn query3(m: &CMap3<f64>, s: &mut String) {
    static C1: [u8; 2] = [1, 0];
    let n = m.n_darts() as u32;
    write!(s, " {n}").unwrap();
    let pol = |i: usize| -> OrbitPolicy {
        match i {
            0 => OrbitPolicy::Vertex,
            1 => OrbitPolicy::VertexLinear,
            2 => OrbitPolicy::Edge,
            3 => OrbitPolicy::Face,
            4 => OrbitPolicy::FaceLinear,
            5 => OrbitPolicy::Volume,
            6 => OrbitPolicy::VolumeLinear,
            _ => OrbitPolicy::Custom(&C1),
        }
    };
    for d in 1..n {
        for i in 0..8 {
            list_toks(catch_unwind(AssertUnwindSafe(|| m.orbit(pol(i), d).collect::<Vec<u32>>())), s);
            list_toks(
                catch_unwind(AssertUnwindSafe(|| {
                    honeycomb_core::stm::atomically(|t| {
                        let mut v = Vec::new();
                        for x in m.orbit_transac(t, pol(i), d) {
                            v.push(x?);
                        }
                        Ok(v)
                    })
                })),
                s,
            );
        }
        id_toks(catch_unwind(AssertUnwindSafe(|| m.vertex_id(d))), s);
        id_toks(catch_unwind(AssertUnwindSafe(|| m.edge_id(d))), s);
        id_toks(catch_unwind(AssertUnwindSafe(|| m.face_id(d))), s);
        id_toks(catch_unwind(AssertUnwindSafe(|| m.volume_id(d))), s);
    }
    list_toks(catch_unwind(AssertUnwindSafe(|| m.iter_vertices().collect::<Vec<u32>>())), s);
    list_toks(catch_unwind(AssertUnwindSafe(|| m.iter_edges().collect::<Vec<u32>>())), s);
    list_toks(catch_unwind(AssertUnwindSafe(|| m.iter_faces().collect::<Vec<u32>>())), s);
    list_toks(catch_unwind(AssertUnwindSafe(|| m.iter_volumes().collect::<Vec<u32>>())), s);
    // an identifier query right after another one (the id functions share thread-local scratch
    // buffers): for each dart d and each ordered pair (f, g) of id functions, g(next(d)) after f(d)
    let idf = |k: usize, d: u32| -> u32 {
        match k {
            0 => m.vertex_id(d),
            1 => m.edge_id(d),
            2 => m.face_id(d),
            _ => m.volume_id(d),
        }
    };
    if n > 1 {
        for d in 1..n {
            let d2 = d % (n - 1) + 1;
            for f in 0..4 {
                for g in 0..4 {
                    id_toks(
                        catch_unwind(AssertUnwindSafe(|| {
                            let _ = idf(f, d);
                            idf(g, d2)
                        })),
                        s,
                    );
                }
            }
        }
    }
}

// ------------------------------------------------------------------ generation
pub struct View {
    n: u32,
    b: Vec<[u32; 4]>,
    unused: Vec<bool>,
}
const COORDS: [f64; 7] = [0.0, 1.0, 2.0, -1.0, 0.5, 3.0, 1.5];

pub fn gen_dart(rng: &mut Rng, v: &View, pred: impl Fn(u32) -> bool, wild: bool) -> u32 {
    if wild {
        return rng.below(u64::from(v.n) + 2) as u32;
    }
    let c: Vec<u32> = (1..v.n).filter(|&d| !v.unused[d as usize] && pred(d)).collect();
    if c.is_empty() {
        let u: Vec<u32> = (1..v.n).filter(|&d| !v.unused[d as usize]).collect();
        if u.is_empty() { 1 } else { *rng.pick(&u) }
    } else {
        *rng.pick(&c)
    }
}

pub fn gen_call(rng: &mut Rng, v: &View, mask: u32, wild_pct: u64, sewish: bool) -> Call {
    let wild = rng.chance(wild_pct, 100);
    let loose = rng.chance(12, 100);
    let t = |_: u32| true;
    let i = 1 + rng.below(3) as u8;
    let fr = |d: u32, k: usize| v.b[d as usize][k] == 0;
    let hi = if sewish { 72 } else { 56 };
    match rng.below(100) {
        x if x < 30 => {
            let (l, r) = match i {
                1 => (gen_dart(rng, v, |d| loose || fr(d, 1), wild), gen_dart(rng, v, |d| loose || fr(d, 0), wild)),
                2 => {
                    let l = gen_dart(rng, v, |d| loose || fr(d, 2), wild);
                    (l, gen_dart(rng, v, |d| (loose || fr(d, 2)) && d != l, wild))
                }
                _ => {
                    let l = gen_dart(rng, v, |d| loose || fr(d, 3), wild);
                    (l, gen_dart(rng, v, |d| (loose || fr(d, 3)) && d != l, wild))
                }
            };
            if rng.chance(1, 2) { Call::L(i, l, r) } else { Call::S(i, l, r) }
        }
        x if x < hi => {
            let l = gen_dart(rng, v, |d| loose || !fr(d, i as usize), wild);
            if rng.chance(1, 2) { Call::U(i, l) } else { Call::X(i, l) }
        }
        x if x < hi + 14 => Call::WriteVertex(gen_dart(rng, v, t, wild), [*rng.pick(&COORDS), *rng.pick(&COORDS), *rng.pick(&COORDS)]),
        x if x < hi + 17 => Call::RemoveVertex(gen_dart(rng, v, t, wild)),
        x if x < hi + 25 && mask != 0 => {
            let ks: Vec<u32> = (0..N_KINDS).filter(|k| mask & (1 << k) != 0).collect();
            Call::WriteAttr(*rng.pick(&ks), gen_dart(rng, v, t, wild).min(v.n - 1), rng.below(40) as u32)
        }
        x if x < hi + 27 && mask != 0 => {
            let ks: Vec<u32> = (0..N_KINDS).filter(|k| mask & (1 << k) != 0).collect();
            Call::RemoveAttr(*rng.pick(&ks), gen_dart(rng, v, t, wild).min(v.n - 1))
        }
        _ => Call::RemoveDartTx(gen_dart(rng, v, |d| loose || v.b[d as usize] == [0, 0, 0, 0], wild)),
    }
}

pub fn gen_op(rng: &mut Rng, m: &CMap3<f64>, mask: u32, wild_pct: u64, fault_pct: u64, sewish: bool) -> Op {
    let v = view_peek(m);
    let fa = if mask != 0 && rng.chance(fault_pct, 100) { Some(rng.below(4)) } else { None };
    match rng.below(100) {
        0..=2 => Op::AddDart,
        3..=4 => Op::AddDarts(rng.below(4) as u32),
        5..=7 => Op::InsertDart,
        8..=12 => {
            let w = rng.chance(wild_pct, 100);
            let loose = rng.chance(15, 100);
            Op::RemoveDart(gen_dart(rng, &v, |d| loose || v.b[d as usize] == [0, 0, 0, 0], w))
        }
        13..=82 => Op::Force(fa, gen_call(rng, &v, mask, wild_pct, sewish)),
        _ => {
            let k = 1 + rng.below(3);
            Op::Block(fa, (0..k).map(|_| gen_call(rng, &v, mask, wild_pct, sewish)).collect())
        }
    }
}

pub fn view_peek(m: &CMap3<f64>) -> View {
    let n = m.n_darts() as u32;
    let unused = (0..n).map(|d| peek_unused(m, d)).collect();
    View { n, b: (0..n).map(|d| [m.beta::<0>(d), m.beta::<1>(d), m.beta::<2>(d), m.beta::<3>(d)]).collect(), unused }
}
/// the removal flag of a dart (CMap3 has no `is_unused`): `remove_free_dart_transac` returns the
/// previous flag; the transaction is aborted, so nothing is changed
pub fn peek_unused(m: &CMap3<f64>, d: u32) -> bool {
    let r: Result<(), bool> = atomically_with_err(|t| {
        let was = m.remove_free_dart_transac(t, d)?;
        honeycomb_core::stm::abort(was)
    });
    r.err().unwrap_or(false)
}


// ------------------------------------------------------------------ polyhedral complexes (C05)
/// a complex of polyhedral cells over shared points; every cell is built on its own darts and
/// closed with 1- and 2-links, so that coinciding faces of two cells are 3-sewable
pub struct Complex {
    pub pts: Vec<[f64; 3]>,
    /// per dart (index = dart id): (cell, origin point, destination point)
    pub darts: Vec<(usize, usize, usize)>,
    /// construction ops (links, vertex writes)
    pub build: Vec<Op>,
}

pub fn sub3(a: [f64; 3], b: [f64; 3]) -> [f64; 3] {
    [a[0] - b[0], a[1] - b[1], a[2] - b[2]]
}
pub fn cross3(a: [f64; 3], b: [f64; 3]) -> [f64; 3] {
    [a[1] * b[2] - a[2] * b[1], a[2] * b[0] - a[0] * b[2], a[0] * b[1] - a[1] * b[0]]
}
pub fn dot3(a: [f64; 3], b: [f64; 3]) -> f64 {
    a[0] * b[0] + a[1] * b[1] + a[2] * b[2]
}

impl Complex {
    fn new(pts: Vec<[f64; 3]>) -> Self {
        Complex { pts, darts: vec![(usize::MAX, 0, 0)], build: Vec::new() }
    }
    /// add one cell given by its faces (point indices); faces are re-oriented outwards
    fn cell(&mut self, faces: &[Vec<usize>]) {
        let cid = self.darts.iter().map(|d| d.0.wrapping_add(1)).max().unwrap_or(0);
        let mut all: Vec<usize> = faces.iter().flatten().copied().collect();
        all.sort_unstable();
        all.dedup();
        let mut c = [0.0; 3];
        for &v in &all {
            for k in 0..3 {
                c[k] += self.pts[v][k] / all.len() as f64;
            }
        }
        let first = self.darts.len() as u32;
        for f in faces {
            let mut f = f.clone();
            let n = cross3(sub3(self.pts[f[1]], self.pts[f[0]]), sub3(self.pts[f[2]], self.pts[f[0]]));
            if dot3(n, sub3(self.pts[f[0]], c)) < 0.0 {
                f.reverse();
            }
            let base = self.darts.len() as u32;
            let k = f.len() as u32;
            for i in 0..k {
                self.darts.push((cid, f[i as usize], f[((i + 1) % k) as usize]));
            }
            for i in 0..k {
                self.build.push(Op::Force(None, Call::L(1, base + i, base + (i + 1) % k)));
            }
        }
        let last = self.darts.len() as u32;
        for d in first..last {
            for e in d + 1..last {
                let (a, b) = (self.darts[d as usize], self.darts[e as usize]);
                if a.1 == b.2 && a.2 == b.1 {
                    self.build.push(Op::Force(None, Call::L(2, d, e)));
                }
            }
        }
        // coordinates at the vertex identifier (smallest dart of the cell leaving the point)
        for &v in &all {
            let d = (first..last).find(|&d| self.darts[d as usize].1 == v).unwrap();
            self.build.push(Op::Force(None, Call::WriteVertex(d, self.pts[v])));
        }
    }
    fn tet(&mut self, v: [usize; 4]) {
        self.cell(&[vec![v[0], v[1], v[2]], vec![v[0], v[1], v[3]], vec![v[1], v[2], v[3]], vec![v[0], v[2], v[3]]]);
    }
    fn prism(&mut self, b: [usize; 3], t: [usize; 3]) {
        self.cell(&[
            vec![b[0], b[1], b[2]],
            vec![t[0], t[1], t[2]],
            vec![b[0], b[1], t[1], t[0]],
            vec![b[1], b[2], t[2], t[1]],
            vec![b[2], b[0], t[0], t[2]],
        ]);
    }
    fn hex(&mut self, b: [usize; 4], t: [usize; 4]) {
        self.cell(&[
            vec![b[0], b[1], b[2], b[3]],
            vec![t[0], t[1], t[2], t[3]],
            vec![b[0], b[1], t[1], t[0]],
            vec![b[1], b[2], t[2], t[1]],
            vec![b[2], b[3], t[3], t[2]],
            vec![b[3], b[0], t[0], t[3]],
        ]);
    }
    pub fn n_darts(&self) -> u32 {
        self.darts.len() as u32 - 1
    }
    /// dart pairs of coinciding faces of two different cells (a good 3-sew argument)
    pub fn sewable(&self) -> Vec<(u32, u32)> {
        let n = self.darts.len() as u32;
        let mut v = Vec::new();
        for l in 1..n {
            for r in 1..n {
                let (a, b) = (self.darts[l as usize], self.darts[r as usize]);
                if a.0 != b.0 && a.1 == b.2 && a.2 == b.1 {
                    v.push((l, r));
                }
            }
        }
        v
    }
}

/// the family of small complexes: `which` selects the shape, `m` the number of cells
pub fn complex(which: u32, m: u32) -> Complex {
    // points: 0 = A (0,0,0), 1 = B (0,0,1), 2 = C (0,0,2); ring points at z = 0, 1, 2
    let ring4: [[f64; 2]; 4] = [[1.0, 0.0], [0.0, 1.0], [-1.0, 0.0], [0.0, -1.0]];
    let ring3: [[f64; 2]; 3] = [[1.0, 0.0], [-0.5, 0.75], [-0.5, -0.75]];
    let k = if which % 2 == 0 { 3usize } else { 4usize };
    let ring: Vec<[f64; 2]> = if k == 3 { ring3.to_vec() } else { ring4.to_vec() };
    let mut pts = vec![[0.0, 0.0, 0.0], [0.0, 0.0, 1.0], [0.0, 0.0, 2.0]];
    for z in 0..3 {
        for p in &ring {
            pts.push([p[0], p[1], f64::from(z)]);
        }
    }
    let p = |z: usize, i: usize| 3 + z * k + (i % k);
    let mut c = Complex::new(pts);
    let m = (m as usize).min(k).max(1);
    match which / 2 {
        // tets around the axis A-B: consecutive ones share the face (A, B, P_{i+1})
        0 => {
            for i in 0..m {
                c.tet([0, 1, p(0, i), p(0, i + 1)]);
            }
        }
        // prisms around the axis: consecutive ones share a quadrilateral
        1 => {
            for i in 0..m {
                c.prism([0, p(0, i), p(0, i + 1)], [1, p(1, i), p(1, i + 1)]);
            }
        }
        // a prism, a second one stacked on it (shared triangle), a tet on top of that
        2 => {
            c.prism([0, p(0, 0), p(0, 1)], [1, p(1, 0), p(1, 1)]);
            if m >= 2 {
                c.prism([1, p(1, 0), p(1, 1)], [2, p(2, 0), p(2, 1)]);
            }
            if m >= 3 {
                c.tet([1, p(1, 0), p(1, 1), p(0, 2)]);
            }
        }
        // hexahedra in a row / an L (shared quadrilaterals), built cell by cell
        _ => {
            // lattice points appended after the ring points
            let base = c.pts.len();
            for z in 0..2 {
                for y in 0..3 {
                    for x in 0..3 {
                        c.pts.push([f64::from(x), f64::from(y), f64::from(z)]);
                    }
                }
            }
            let q = |x: usize, y: usize, z: usize| base + z * 9 + y * 3 + x;
            let cells: [(usize, usize); 3] = [(0, 0), (1, 0), (0, 1)];
            for &(x, y) in cells.iter().take(m) {
                c.hex(
                    [q(x, y, 0), q(x + 1, y, 0), q(x + 1, y + 1, 0), q(x, y + 1, 0)],
                    [q(x, y, 1), q(x + 1, y, 1), q(x + 1, y + 1, 1), q(x, y + 1, 1)],
                );
            }
        }
    }
    c
}

/// value patterns on a built complex: undefine / perturb some vertices, write attributes at cells
pub fn pattern_ops(rng: &mut Rng, m: &CMap3<f64>, mask: u32, n: u32) -> Vec<Op> {
    let mut v = Vec::new();
    let k = rng.below(5);
    for _ in 0..k {
        let d = 1 + rng.below(u64::from(n)) as u32;
        let vid = m.vertex_id(d);
        match rng.below(3) {
            0 => v.push(Op::Force(None, Call::RemoveVertex(vid))),
            _ => {
                if let Some(p) = m.force_read_vertex(vid) {
                    let e = [0.0, 0.125, -0.125, 0.0625];
                    v.push(Op::Force(None, Call::WriteVertex(vid, [p.x() + *rng.pick(&e), p.y() + *rng.pick(&e), p.z() + *rng.pick(&e)])));
                }
            }
        }
    }
    if mask != 0 {
        let ks: Vec<u32> = (0..N_KINDS).filter(|k| mask & (1 << k) != 0).collect();
        let k = rng.below(12);
        for _ in 0..k {
            let kind = *rng.pick(&ks);
            let d = 1 + rng.below(u64::from(n)) as u32;
            let id = match kind {
                0 | 3 => m.vertex_id(d),
                1 => m.edge_id(d),
                _ => m.face_id(d),
            };
            v.push(Op::Force(None, Call::WriteAttr(kind, id, rng.below(40) as u32)));
        }
    }
    v
}

/// a sew / unsew mostly aimed at sewable pairs and sewn darts
pub fn gen_cell_call(rng: &mut Rng, m: &CMap3<f64>, cx: &Complex) -> Call {
    let n = cx.n_darts();
    let any = |rng: &mut Rng| 1 + rng.below(u64::from(n)) as u32;
    match rng.below(100) {
        0..=39 => {
            let good: Vec<(u32, u32)> = cx.sewable().into_iter().filter(|&(l, r)| m.beta::<3>(l) == 0 && m.beta::<3>(r) == 0).collect();
            if good.is_empty() || rng.chance(1, 10) {
                Call::S(3, any(rng), any(rng))
            } else {
                let (l, r) = *rng.pick(&good);
                Call::S(3, l, r)
            }
        }
        40..=64 => {
            let sewn: Vec<u32> = (1..=n).filter(|&d| m.beta::<3>(d) != 0).collect();
            if sewn.is_empty() || rng.chance(1, 10) { Call::X(3, any(rng)) } else { Call::X(3, *rng.pick(&sewn)) }
        }
        65..=74 => Call::X(2, any(rng)),
        75..=86 => {
            // re-sew a 2-free dart with the dart of the same cell running the other way
            let free: Vec<u32> = (1..=n).filter(|&d| m.beta::<2>(d) == 0).collect();
            if free.is_empty() {
                Call::S(2, any(rng), any(rng))
            } else {
                let l = *rng.pick(&free);
                let a = cx.darts[l as usize];
                let r = (1..=n).find(|&r| r != l && m.beta::<2>(r) == 0 && cx.darts[r as usize].0 == a.0 && cx.darts[r as usize].1 == a.2 && cx.darts[r as usize].2 == a.1);
                Call::S(2, l, r.unwrap_or_else(|| any(rng)))
            }
        }
        87..=92 => Call::X(1, any(rng)),
        _ => {
            let free: Vec<u32> = (1..=n).filter(|&d| m.beta::<1>(d) == 0).collect();
            if free.is_empty() {
                Call::S(1, any(rng), any(rng))
            } else {
                let l = *rng.pick(&free);
                let a = cx.darts[l as usize];
                // the dart of the same face that starts where l ends (its former 1-image)
                let r = (1..=n).find(|&r| m.beta::<0>(r) == 0 && cx.darts[r as usize].0 == a.0 && cx.darts[r as usize].1 == a.2 && r / 1 != l && (r as i64 - l as i64).abs() < 6);
                Call::S(1, l, r.unwrap_or_else(|| any(rng)))
            }
        }
    }
}

pub struct Out {
    cases: std::io::BufWriter<std::fs::File>,
    obs: std::io::BufWriter<std::fs::File>,
    ops: std::io::BufWriter<std::fs::File>,
}

pub fn run_case(id: &str, mask: u32, hdr: (u32, u32, u32, u32), ops: &mut dyn FnMut(&CMap3<f64>, usize) -> Option<Op>, out: &mut Out) {
    let mut m = build3(hdr.0, hdr.1, hdr.2, hdr.3, mask);
    let mut case = format!("{id} {mask} {} {} {} {}", hdr.0, hdr.1, hdr.2, hdr.3);
    let mut line = String::new();
    let mut k = 0usize;
    let mut observing = true;
    write!(line, "{id} {k} 0 0 0").unwrap();
    dump3(&m, mask, &mut line);
    writeln!(out.obs, "{line}").unwrap();
    let mut step = 0usize;
    while let Some(o) = ops(&m, step) {
        step += 1;
        op_toks(&o, &mut case);
        if let Op::Obs(b) = o {
            observing = b;
            if !b {
                continue;
            }
        }
        let r = exec(&mut m, &o);
        if observing {
            k += 1;
            line.clear();
            write!(line, "{id} {k} {}", r.toks()).unwrap();
            if matches!(o, Op::Query) {
                query3(&m, &mut line);
            } else {
                dump3(&m, mask, &mut line);
                mark_dump_panics(id, k, &mut line);
            }
            writeln!(out.obs, "{line}").unwrap();
            line.clear();
            write!(line, "{id} {k}").unwrap();
            op_toks(&o, &mut line);
            writeln!(out.ops, "{line}").unwrap();
        }
    }
    writeln!(out.cases, "{case}").unwrap();
}

/// two faces on free darts: left = darts 1..=kl, right = darts kl+1..=kl+kr, closed or open
pub fn face_ops(kl: u32, kr: u32, lclosed: bool, rclosed: bool, rev_right: bool) -> Vec<Op> {
    let mut v = Vec::new();
    for i in 0..kl - 1 {
        v.push(Op::Force(None, Call::L(1, 1 + i, 2 + i)));
    }
    if lclosed {
        v.push(Op::Force(None, Call::L(1, kl, 1)));
    }
    // the right face is traversed backwards by the 3-link walk: build it either way round
    let r = |i: u32| kl + 1 + i;
    for i in 0..kr - 1 {
        if rev_right {
            v.push(Op::Force(None, Call::L(1, r(i + 1), r(i))));
        } else {
            v.push(Op::Force(None, Call::L(1, r(i), r(i + 1))));
        }
    }
    if rclosed {
        if rev_right {
            v.push(Op::Force(None, Call::L(1, r(0), r(kr - 1))));
        } else {
            v.push(Op::Force(None, Call::L(1, r(kr - 1), r(0))));
        }
    }
    v
}

pub fn main() {
    let args: Vec<String> = std::env::args().collect();
    let get = |name: &str, dflt: &str| -> String {
        args.iter().position(|a| a == name).and_then(|i| args.get(i + 1).cloned()).unwrap_or_else(|| dflt.to_string())
    };
    let seed: u64 = get("--seed", "1").parse().unwrap();
    let mode = get("--mode", "random");
    let outdir = get("--out", ".");
    let ncases: usize = get("--cases", "200").parse().unwrap();
    let maxops: usize = get("--ops", "30").parse().unwrap();
    let maxn: u64 = get("--darts", "10").parse().unwrap();
    let wild: u64 = get("--wild", "5").parse().unwrap();
    let fault: u64 = get("--fault", "0").parse().unwrap();
    let query_pct: u64 = get("--query", "0").parse().unwrap();
    let tag = get("--tag", "t");
    if std::env::var("HC_LOUD").is_err() {
        quiet_panics();
    }
    let mk = |f: &str| std::io::BufWriter::new(std::fs::File::create(format!("{outdir}/{f}")).unwrap());
    let mut out = Out { cases: mk("cases.txt"), obs: mk("impl.txt"), ops: mk("ops.txt") };
    let mut rng = Rng::new(seed);
    match mode.as_str() {
        "random" | "hex" => {
            for i in 0..ncases {
                let mask = if rng.chance(1, 3) { 0 } else { rng.below(16) as u32 };
                let hdr = if mode == "hex" {
                    (1, 1 + rng.below(2) as u32, 1 + rng.below(2) as u32, 1 + rng.below(2) as u32)
                } else {
                    (0, 1 + rng.below(maxn) as u32, 0, 0)
                };
                let nops = 1 + rng.below(maxops as u64) as usize;
                let w = if i % 8 == 0 || mode == "hex" { 0 } else { wild };
                let mut r2 = Rng::new(rng.next());
                let mut asked = false;
                let sewish = mode == "hex";
                run_case(
                    &format!("{tag}{i}"),
                    mask,
                    hdr,
                    &mut |m, step| {
                        if step >= nops {
                            if query_pct > 0 && !asked {
                                asked = true;
                                return Some(Op::Query);
                            }
                            None
                        } else if query_pct > 0 && r2.chance(query_pct, 100) {
                            Some(Op::Query)
                        } else {
                            Some(gen_op(&mut r2, m, mask, w, fault, sewish))
                        }
                    },
                    &mut out,
                );
            }
        }
        "faces" => {
            // all pairs of faces (closed / open, 1..=5 sides, both orientations of the right one):
            // a 3-link / 3-sew must succeed exactly on mirrorable pairs
            let mut id = 0usize;
            for kl in 1..=5u32 {
                for kr in 1..=5u32 {
                    for lclosed in [false, true] {
                        for rclosed in [false, true] {
                            for rev in [false, true] {
                                for start_l in 1..=kl {
                                    for start_r in [kl + 1, kl + kr, kl + 1 + (kr / 2)] {
                                        for sew in [false, true] {
                                            let mut ops = vec![Op::Obs(false)];
                                            ops.extend(face_ops(kl, kr, lclosed, rclosed, rev));
                                            ops.push(Op::Obs(true));
                                            ops.push(Op::Force(None, if sew { Call::S(3, start_l, start_r) } else { Call::L(3, start_l, start_r) }));
                                            let mut it = ops.into_iter();
                                            run_case(&format!("f{id}"), 0, (0, kl + kr, 0, 0), &mut |_, _| it.next(), &mut out);
                                            id += 1;
                                        }
                                    }
                                }
                            }
                        }
                    }
                }
            }
        }

        "fault" | "compose" => {
            for i in 0..ncases {
                let mask = if mode == "fault" { [15u32, 15, 11, 7, 9, 3][rng.below(6) as usize] } else { rng.below(16) as u32 };
                let mut r2 = Rng::new(rng.next());
                // 1. a start state: random edits of free darts, or a polyhedral complex with a value pattern
                let cx = if r2.chance(1, 2) { Some(complex(r2.below(8) as u32, 1 + r2.below(3) as u32)) } else { None };
                let n0 = cx.as_ref().map_or(2 + r2.below(maxn) as u32, Complex::n_darts);
                let mut m = build3(0, n0, 0, 0, mask);
                let mut prefix: Vec<Op> = vec![Op::Obs(false)];
                if let Some(cx) = &cx {
                    for o in &cx.build {
                        exec(&mut m, o);
                        prefix.push(o.clone());
                    }
                    for o in pattern_ops(&mut r2, &m, mask, n0) {
                        exec(&mut m, &o);
                        prefix.push(o);
                    }
                    for _ in 0..r2.below(4) {
                        let o = Op::Force(None, gen_cell_call(&mut r2, &m, cx));
                        exec(&mut m, &o);
                        prefix.push(o);
                    }
                } else {
                    for _ in 0..1 + r2.below(maxops as u64) {
                        let o = gen_op(&mut r2, &m, mask, 0, 0, false);
                        exec(&mut m, &o);
                        prefix.push(o);
                    }
                }
                prefix.push(Op::Obs(true));
                let gen1 = |r: &mut Rng, m: &CMap3<f64>| -> Call {
                    match &cx {
                        Some(cx) if r.chance(3, 4) => gen_cell_call(r, m, cx),
                        _ => gen_call(r, &view_peek(m), mask, 0, true),
                    }
                };
                if mode == "fault" {
                    // 2. one final call or block, run once per position of the failing law call
                    let rs = r2.next();
                    let fin = |fa: Option<u64>, m: &CMap3<f64>| -> Op {
                        let mut r = Rng::new(rs);
                        if r.chance(3, 4) { Op::Force(fa, gen1(&mut r, m)) } else { Op::Block(fa, (0..2).map(|_| gen1(&mut r, m)).collect()) }
                    };
                    let o = fin(None, &m);
                    let ks: Vec<Option<u64>> = {
                        let mut probe = build3(0, n0, 0, 0, mask);
                        for p in &prefix {
                            exec(&mut probe, p);
                        }
                        reset_last();
                        exec(&mut probe, &o); // counting run
                        std::iter::once(None).chain((0..last_law_calls().min(16)).map(Some)).collect()
                    };
                    for k in ks {
                        let mut ops = prefix.clone();
                        ops.push(fin(k, &m));
                        let mut it = ops.into_iter();
                        let kk = k.map_or("n".to_string(), |x| x.to_string());
                        run_case(&format!("{tag}{i}k{kk}"), mask, (0, n0, 0, 0), &mut |_, _| it.next(), &mut out);
                    }
                } else {
                    // 2. calls generated against the evolving map, executed one by one (case b) and as one block (case a)
                    let ncalls = 2 + r2.below(4) as usize;
                    let mut calls = Vec::new();
                    let mut bops = prefix.clone();
                    // sometimes: two faces built by 1-links and glued by a 3-sew / 3-link, all in the same block
                    let mut scripted: Vec<Call> = Vec::new();
                    if cx.is_none() && r2.chance(1, 2) {
                        let free: Vec<u32> = (1..m.n_darts() as u32)
                            .filter(|&d| !peek_unused(&m, d) && m.beta::<0>(d) == 0 && m.beta::<1>(d) == 0 && m.beta::<3>(d) == 0)
                            .collect();
                        let k = 1 + r2.below(3) as usize;
                        if free.len() >= 2 * k {
                            let (l, r) = (&free[..k], &free[k..2 * k]);
                            let closed = r2.chance(1, 2);
                            // coordinates written in the block too, so that the merges of the 3-sew have something to carry
                            if r2.chance(2, 3) {
                                for &d in free.iter().take(2 * k + 2) {
                                    if r2.chance(2, 3) {
                                        let c = [r2.below(4) as f64, r2.below(4) as f64, r2.below(4) as f64];
                                        scripted.push(Call::WriteVertex(d, c));
                                    }
                                }
                            }
                            for j in 0..k - 1 {
                                scripted.push(Call::L(1, l[j], l[j + 1]));
                                scripted.push(Call::L(1, r[j + 1], r[j]));
                            }
                            if closed && k > 1 {
                                scripted.push(Call::L(1, l[k - 1], l[0]));
                                scripted.push(Call::L(1, r[0], r[k - 1]));
                            }
                            // open ends with a 2-neighbour given in the same block: the vertex at the open end of the
                            // right face is then designated through an image the transaction itself wrote
                            if !closed && free.len() >= 2 * k + 2 && r2.chance(2, 3) {
                                let (x, y) = (free[2 * k], free[2 * k + 1]);
                                let two = |r: &mut Rng, a: u32, b: u32| if r.chance(1, 2) { Call::S(2, a, b) } else { Call::L(2, a, b) };
                                if m.beta::<2>(l[0]) == 0 && m.beta::<2>(x) == 0 && r2.chance(2, 3) {
                                    let c = two(&mut r2, l[0], x);
                                    scripted.push(c);
                                }
                                if m.beta::<2>(r[0]) == 0 && m.beta::<2>(y) == 0 {
                                    let c = two(&mut r2, r[0], y);
                                    scripted.push(c);
                                }
                            }
                            scripted.push(if r2.chance(2, 3) { Call::S(3, l[0], r[0]) } else { Call::L(3, l[0], r[0]) });
                            scripted.reverse();
                        }
                    }
                    let ncalls = if scripted.is_empty() { ncalls } else { scripted.len() };
                    for _ in 0..ncalls {
                        let c = scripted.pop().unwrap_or_else(|| gen1(&mut r2, &m));
                        let o = Op::Force(None, c.clone());
                        exec(&mut m, &o);
                        calls.push(c);
                        bops.push(o);
                    }
                    let mut aops = prefix.clone();
                    aops.push(Op::Block(None, calls));
                    let mut it = bops.into_iter();
                    run_case(&format!("{tag}{i}b"), mask, (0, n0, 0, 0), &mut |_, _| it.next(), &mut out);
                    let mut it = aops.into_iter();
                    run_case(&format!("{tag}{i}a"), mask, (0, n0, 0, 0), &mut |_, _| it.next(), &mut out);
                }
            }
        }
        "cells" => {
            // random complexes of tetrahedra / prisms / hexahedra, value patterns, then sews and unsews
            for i in 0..ncases {
                let mask = if rng.chance(1, 3) { 0 } else { rng.below(16) as u32 };
                let which = rng.below(8) as u32;
                let cx = complex(which, 1 + rng.below(4) as u32);
                let n = cx.n_darts();
                let nops = 1 + rng.below(maxops as u64) as usize;
                let mut r2 = Rng::new(rng.next());
                let mut pre: Vec<Op> = vec![Op::Obs(false)];
                pre.extend(cx.build.iter().cloned());
                let npre = pre.len();
                let mut queue: std::collections::VecDeque<Op> = pre.into();
                let mut patterned = false;
                let mut done = 0usize;
                run_case(
                    &format!("{tag}{i}"),
                    mask,
                    (0, n, 0, 0),
                    &mut |m, step| {
                        if let Some(o) = queue.pop_front() {
                            return Some(o);
                        }
                        if step >= npre && !patterned {
                            patterned = true;
                            queue.extend(pattern_ops(&mut r2, m, mask, n));
                            queue.push_back(Op::Obs(true));
                            return queue.pop_front();
                        }
                        if done >= nops {
                            if query_pct > 0 && done == nops {
                                done += 1;
                                return Some(Op::Query);
                            }
                            return None;
                        }
                        if query_pct > 0 && r2.chance(query_pct, 100) {
                            return Some(Op::Query);
                        }
                        done += 1;
                        let fa = if mask != 0 && r2.chance(fault, 100) { Some(r2.below(4)) } else { None };
                        if r2.chance(1, 12) {
                            // re-pattern in the middle of the history
                            queue.extend(pattern_ops(&mut r2, m, mask, n));
                        }
                        Some(Op::Force(fa, gen_cell_call(&mut r2, m, &cx)))
                    },
                    &mut out,
                );
            }
        }
        "cellsx" => {
            // exhaustive: every ordered dart pair as a 3-sew argument on two-cell complexes and on rings
            // with all but the closing face sewn; then every dart as an unsew argument on the sewn complex
            let mut id = 0usize;
            for which in 0..8u32 {
                for m_cells in 2..=4u32 {
                    if m_cells > 2 && (which / 2 == 3 || (which / 2 == 2 && m_cells > 3)) || (m_cells == 4 && which % 2 == 0) {
                        continue;
                    }
                    let cx = complex(which, m_cells);
                    let n = cx.n_darts();
                    if n > maxn as u32 {
                        continue;
                    }
                    // one sewable pair per pair of cells (two cells share at most one face here)
                    let mut reps: Vec<(u32, u32)> = Vec::new();
                    for (l, r) in cx.sewable() {
                        let key = (cx.darts[l as usize].0, cx.darts[r as usize].0);
                        if key.0 < key.1 && !reps.iter().any(|&(a, b)| (cx.darts[a as usize].0, cx.darts[b as usize].0) == key) {
                            reps.push((l, r));
                        }
                    }
                    let mut probe = |mask: u32, presewn: &[(u32, u32)], call: Call, id: &mut usize| {
                        let mut queue: std::collections::VecDeque<Op> = std::collections::VecDeque::new();
                        queue.push_back(Op::Obs(false));
                        queue.extend(cx.build.iter().cloned());
                        for &(a, b) in presewn {
                            queue.push_back(Op::Force(None, Call::S(3, a, b)));
                        }
                        let npre = queue.len();
                        let mut patterned = false;
                        let mut call = Some(call);
                        run_case(
                            &format!("x{id}"),
                            mask,
                            (0, n, 0, 0),
                            &mut |m, step| {
                                if let Some(o) = queue.pop_front() {
                                    return Some(o);
                                }
                                if step >= npre && !patterned {
                                    patterned = true;
                                    if mask != 0 {
                                        for d in (1..=n).step_by(3) {
                                            let kind = d % 4;
                                            let cid = match kind {
                                                0 | 3 => m.vertex_id(d),
                                                1 => m.edge_id(d),
                                                _ => m.face_id(d),
                                            };
                                            queue.push_back(Op::Force(None, Call::WriteAttr(kind, cid, d)));
                                        }
                                    }
                                    queue.push_back(Op::Obs(true));
                                    return queue.pop_front();
                                }
                                call.take().map(|c| Op::Force(None, c))
                            },
                            &mut out,
                        );
                        *id += 1;
                    };
                    for mask in [0u32, 15] {
                        let presewn = &reps[..reps.len().saturating_sub(1)];
                        let stride = if n > 40 { 4 } else { 1 };
                        for l in (1..=n).step_by(stride) {
                            for r in 1..=n {
                                probe(mask, presewn, Call::S(3, l, r), &mut id);
                            }
                        }
                        for d in 1..=n {
                            for dim in 1..=3u8 {
                                probe(mask, &reps, Call::X(dim, d), &mut id);
                            }
                        }
                    }
                }
            }
        }
        "hexq" => {
            // plain hex grids with a final query (C03 / C12 in 3D)
            let mut id = 0usize;
            for a in 1..=maxn as u32 {
                for b in 1..=maxn as u32 {
                    for c in 1..=maxn as u32 {
                        let mut it = vec![Op::Query].into_iter();
                        run_case(&format!("h{id}"), 0, (1, a, b, c), &mut |_, _| it.next(), &mut out);
                        // the same box with three different cell lengths (dumped in units of the cell lengths)
                        SCALE.with(|s| s.set([2.0, 0.5, 4.0]));
                        let mut it = vec![Op::Query].into_iter();
                        run_case(&format!("hs{id}"), 0, (1, a, b, c), &mut |_, _| it.next(), &mut out);
                        SCALE.with(|s| s.set([1.0, 1.0, 1.0]));
                        id += 1;
                    }
                }
            }
        }
        _ => panic!("unknown mode"),
    }
    out.cases.flush().unwrap();
    out.obs.flush().unwrap();
    out.ops.flush().unwrap();
}
