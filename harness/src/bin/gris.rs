//! `gris`: grisubal (C16) and capture + classification (C17) on seeded boundaries.
//!
//! ops.txt : `ID 1 40 kind clip cx cy npts (x y)* nseg (a b)* npoi i*`   kind 0 grisubal, 1 capture+classify
//!           clip: 0 none, 1 left, 2 right
//! impl.txt: `ID 0 0 0 0 dump(empty)`, `ID 1 class code 0 dump(result)`  (mask 0 for grisubal, 112 for capture)
//!           code: 1 error from the kernel, 2 error from classify_capture
//! There is no model replay: Extract/GrisOracle.v validates each (input, output) pair.

use hc_harness::*;
use honeycomb_core::cmap::CMap2;
use honeycomb_kernels::grisubal::{Clip, grisubal};
use honeycomb_kernels::remeshing::{capture_geometry, classify_capture};
use std::fmt::Write as _;
use std::io::Write as _;
use std::panic::{AssertUnwindSafe, catch_unwind};

type P = (f64, f64);

fn write_vtk(path: &str, pts: &[P], segs: &[(usize, usize)], poi: &[usize]) {
    let mut s = String::from("# vtk DataFile Version 2.0\ngeometry\nASCII\nDATASET UNSTRUCTURED_GRID\n");
    writeln!(s, "POINTS {} double", pts.len()).unwrap();
    for (x, y) in pts {
        writeln!(s, "{x} {y} 0").unwrap();
    }
    let n = poi.len() + segs.len();
    writeln!(s, "CELLS {} {}", n, 2 * poi.len() + 3 * segs.len()).unwrap();
    for p in poi {
        writeln!(s, "1 {p}").unwrap();
    }
    for (a, b) in segs {
        writeln!(s, "2 {a} {b}").unwrap();
    }
    writeln!(s, "CELL_TYPES {n}").unwrap();
    for _ in poi {
        s.push_str("1\n");
    }
    for _ in segs {
        s.push_str("3\n");
    }
    std::fs::write(path, s).unwrap();
}

fn cross(o: P, a: P, b: P) -> f64 {
    (a.0 - o.0) * (b.1 - o.1) - (a.1 - o.1) * (b.0 - o.0)
}

/// a simple polygon in general position: coordinates k/8 + a per-vertex offset in (1/64, 1/4)
fn simple_polygon(r: &mut Rng, n: usize, cx: f64, cy: f64, w: f64, h: f64, pool: &mut Vec<u64>) -> Vec<P> {
    loop {
        let mut pts: Vec<P> = Vec::new();
        let offs: Vec<u64> = pool[..2 * n].to_vec();
        match r.below(3) {
            0 => {
                // star-shaped around the centre
                for i in 0..n {
                    let ang = std::f64::consts::TAU * (i as f64 + 0.3 * (r.below(3) as f64 - 1.0)) / n as f64;
                    let rad = 0.35 + 0.6 * r.below(4) as f64 / 4.0;
                    pts.push((cx + 0.5 * w * rad * ang.cos(), cy + 0.5 * h * rad * ang.sin()));
                }
            }
            _ => {
                while pts.len() < n {
                    pts.push((cx + w * (r.below(1000) as f64 / 1000.0 - 0.5), cy + h * (r.below(1000) as f64 / 1000.0 - 0.5)));
                }
                // 2-opt untangling
                for _ in 0..400 {
                    let mut found = None;
                    'f: for i in 0..n {
                        for j in i + 2..n {
                            if i == 0 && j == n - 1 {
                                continue;
                            }
                            let (a, b, c, d) = (pts[i], pts[(i + 1) % n], pts[j], pts[(j + 1) % n]);
                            if cross(a, b, c) * cross(a, b, d) < 0.0 && cross(c, d, a) * cross(c, d, b) < 0.0 {
                                found = Some((i, j));
                                break 'f;
                            }
                        }
                    }
                    match found {
                        Some((i, j)) => pts[i + 1..=j].reverse(),
                        None => break,
                    }
                }
            }
        }
        // snap to 1/8 and add the per-vertex offsets (distinct fractional signatures)
        for (i, p) in pts.iter_mut().enumerate() {
            p.0 = (p.0 * 8.0).round() / 8.0 + offs[2 * i] as f64 / 512.0;
            p.1 = (p.1 * 8.0).round() / 8.0 + offs[2 * i + 1] as f64 / 512.0;
        }
        // simple, no three consecutive collinear, no two vertices too close
        let mut ok = true;
        for i in 0..n {
            for j in i + 1..n {
                let (a, b, c, d) = (pts[i], pts[(i + 1) % n], pts[j], pts[(j + 1) % n]);
                if (a.0 - c.0).abs() + (a.1 - c.1).abs() < 0.2 {
                    ok = false;
                }
                if j != i + 1 && !(i == 0 && j == n - 1) {
                    let (s1, s2, s3, s4) = (cross(a, b, c), cross(a, b, d), cross(c, d, a), cross(c, d, b));
                    if s1 * s2 <= 0.0 && s3 * s4 <= 0.0 {
                        ok = false;
                    }
                }
            }
            if cross(pts[i], pts[(i + 1) % n], pts[(i + 2) % n]).abs() < 0.02 {
                ok = false;
            }
        }
        if ok {
            let a: f64 = (0..n).map(|i| pts[i].0 * pts[(i + 1) % n].1 - pts[(i + 1) % n].0 * pts[i].1).sum();
            if a < 0.0 {
                pts.reverse();
            }
            pool.drain(..2 * n);
            return pts;
        }
    }
}


#[allow(clippy::too_many_arguments)]
fn run_input(
    id: &str, kind: u32, clipc: u32, cx: f64, cy: f64, pts: &[P], segs: &[(usize, usize)], poi: &[usize], outdir: &str,
    obs: &mut impl std::io::Write, ops: &mut impl std::io::Write, cases: &mut impl std::io::Write,
) {
    let clip = match clipc {
        0 => Clip::None,
        1 => Clip::Left,
        _ => Clip::Right,
    };
        let path = format!("{outdir}/tmp_{id}.vtk");
        write_vtk(&path, pts, segs, poi);
        let mask: u32 = if kind == 1 { 0x70 } else { 0 };
        let res = catch_unwind(AssertUnwindSafe(|| -> Result<CMap2<f64>, u32> {
            if kind == 0 {
                grisubal::<f64>(&path, [cx, cy], clip).map_err(|e| {
                    if std::env::var("HC_LOUD").is_ok() {
                        eprintln!("{id}: {e:?}");
                    }
                    1
                })
            } else {
                let m = capture_geometry::<f64>(&path, [cx, cy], clip).map_err(|e| {
                    if std::env::var("HC_LOUD").is_ok() {
                        eprintln!("{id}: capture {e:?}");
                    }
                    1u32
                })?;
                classify_capture(&m).map_err(|e| {
                    if std::env::var("HC_LOUD").is_ok() {
                        eprintln!("{id}: classify {e:?}");
                    }
                    2u32
                })?;
                Ok(m)
            }
        }));
        let _ = std::fs::remove_file(&path);
        let post = match res {
            Ok(Ok(m)) => {
                let mut s = "0 0 0".to_string();
                dump2(&m, mask, &mut s);
                s
            }
            Ok(Err(c)) => format!("1 {c} 0"),
            Err(_) => "2 0 0".to_string(),
        };
        let empty = build2(0, 0);
        let mut pre = String::new();
        dump2(&empty, 0, &mut pre);
        writeln!(obs, "{id} 0 0 0 0{pre}").unwrap();
        writeln!(obs, "{id} 1 {post}").unwrap();
        let mut op = format!("{id} 1 40 {kind} {clipc} {} {} {}", ftok(cx), ftok(cy), pts.len());
        for (x, y) in pts {
            write!(op, " {} {}", ftok(*x), ftok(*y)).unwrap();
        }
        write!(op, " {}", segs.len()).unwrap();
        for (a, b) in segs {
            write!(op, " {a} {b}").unwrap();
        }
        write!(op, " {}", poi.len()).unwrap();
        for p in poi {
            write!(op, " {p}").unwrap();
        }
        writeln!(ops, "{op}").unwrap();
        let fp = op.bytes().fold(0xcbf2_9ce4_8422_2325u64, |hh, b| (hh ^ u64::from(b)).wrapping_mul(0x0100_0000_01b3));
        writeln!(cases, "{id} 0 0 {kind} {fp}").unwrap();
}

fn main() {
    let args: Vec<String> = std::env::args().collect();
    let get = |name: &str, dflt: &str| -> String {
        args.iter().position(|a| a == name).and_then(|i| args.get(i + 1).cloned()).unwrap_or_else(|| dflt.to_string())
    };
    let seed: u64 = get("--seed", "1").parse().unwrap();
    let mode = get("--mode", "grisubal");
    let outdir = get("--out", ".");
    let ncases: usize = get("--cases", "100").parse().unwrap();
    if std::env::var("HC_LOUD").is_err() {
        quiet_panics();
    }
    let mk = |f: &str| std::io::BufWriter::new(std::fs::File::create(format!("{outdir}/{f}")).unwrap());
    let (mut obs, mut ops, mut cases) = (mk("impl.txt"), mk("ops.txt"), mk("cases.txt"));
    let mut rng = Rng::new(seed);
    let kind: u32 = u32::from(mode == "capture");
    if mode == "file" || mode == "replay" {
        let text = std::fs::read_to_string(get("--in", "inputs.txt")).unwrap();
        for line in text.lines() {
            let t: Vec<&str> = line.split_whitespace().collect();
            if t.is_empty() {
                continue;
            }
            let (kind, clipc, cx, cy): (u32, u32, f64, f64) = (t[1].parse().unwrap(), t[2].parse().unwrap(), t[3].parse().unwrap(), t[4].parse().unwrap());
            let n: usize = t[5].parse().unwrap();
            let mut i = 6;
            let pts: Vec<P> = (0..n).map(|k| (t[i + 2 * k].parse().unwrap(), t[i + 2 * k + 1].parse().unwrap())).collect();
            i += 2 * n;
            let ns: usize = t[i].parse().unwrap();
            i += 1;
            let segs: Vec<(usize, usize)> = (0..ns).map(|k| (t[i + 2 * k].parse().unwrap(), t[i + 2 * k + 1].parse().unwrap())).collect();
            i += 2 * ns;
            let nq: usize = t[i].parse().unwrap();
            i += 1;
            let poi: Vec<usize> = (0..nq).map(|k| t[i + k].parse().unwrap()).collect();
            run_input(t[0], kind, clipc, cx, cy, &pts, &segs, &poi, &outdir, &mut obs, &mut ops, &mut cases);
        }
        obs.flush().unwrap();
        ops.flush().unwrap();
        cases.flush().unwrap();
        return;
    }
    for i in 0..ncases {
        let mut r = Rng::new(rng.next());
        let id = format!("g{i}");
        let cell = [1.0f64, 0.5, 2.0][r.below(3) as usize];
        let (cx, cy) = (cell, if r.chance(1, 4) { [1.0f64, 0.5, 2.0][r.below(3) as usize] } else { cell });
        let n = 3 + r.below(7) as usize;
        let (w, h) = (2.0 + r.below(5) as f64, 2.0 + r.below(4) as f64);
        // fractional signatures k/512, each used once over all loops: no two coordinates differ by a multiple of
        // the cell sizes, so that no vertex lands on a line of the grid (whose origin has the signature of the minimum)
        let mut pool: Vec<u64> = (3..120).collect();
        for i in (1..pool.len()).rev() {
            let j = r.below(i as u64 + 1) as usize;
            pool.swap(i, j);
        }
        let mut pts = simple_polygon(&mut r, n, 0.0, 0.0, w, h, &mut pool);
        let mut segs: Vec<(usize, usize)> = (0..n).map(|k| (k, (k + 1) % n)).collect();
        // sometimes a second loop: a small hole (clockwise) well inside, or a separate polygon next to the first
        let second = r.below(4);
        if second == 0 {
            let m = 3 + r.below(3) as usize;
            let q = simple_polygon(&mut r, m, w + 3.0, 0.5, 2.0, 2.0, &mut pool);
            let base = pts.len();
            pts.extend(q);
            segs.extend((0..m).map(|k| (base + k, base + (k + 1) % m)));
        }
        // orientation variants: whole boundary reversed (clockwise), or one segment flipped (mis-oriented)
        let variant = r.below(8);
        if variant == 0 {
            for s in segs.iter_mut() {
                *s = (s.1, s.0);
            }
        }
        if variant == 1 {
            let j = r.below(segs.len() as u64) as usize;
            segs[j] = (segs[j].1, segs[j].0);
        }
        // points of interest: all corners, none, or a random subset
        // (or, with two loops, corners of one loop only: the other loop is then a curve without node)
        let poi: Vec<usize> = match r.below(4) {
            0 => (0..pts.len()).collect(),
            1 => Vec::new(),
            2 if second == 0 => {
                let first = r.chance(1, 2);
                let all = r.chance(1, 2);
                (0..pts.len()).filter(|&k| (k < n) == first).filter(|_| all || r.chance(1, 2)).collect()
            }
            _ => (0..pts.len()).filter(|_| r.chance(1, 2)).collect(),
        };
        let clipc = if kind == 1 { 1 + r.below(2) as u32 } else { r.below(3) as u32 };
        let clipc = std::env::var("HC_CLIP").ok().and_then(|v| v.parse().ok()).unwrap_or(clipc);
        run_input(&id, kind, clipc, cx, cy, &pts, &segs, &poi, &outdir, &mut obs, &mut ops, &mut cases);
    }
    obs.flush().unwrap();
    ops.flush().unwrap();
    cases.flush().unwrap();
}
