//! `core2`: histories of public CMap2 editing calls (C01, C04, C06, C18 families).
//!
//! Generates cases (seeded), executes them on the real implementation and writes
//!   <out>/cases.txt : `ID mask n0 op*`          (replayed by the Coq model)
//!   <out>/impl.txt  : `ID k class code ret dump` (one line per observed op)
//! Case language: see coq/theories/Extract/Run2.v (parse_op / parse_call).

use std::fmt::Write as _;
use std::io::Write as _;
use std::panic::{AssertUnwindSafe, catch_unwind};

use hc_harness::*;
use honeycomb_core::cmap::{CMap2, DartIdType, NULL_DART_ID};
use honeycomb_core::stm::{TransactionClosureResult, atomically_with_err};
use honeycomb_core::cmap::SewError;

#[derive(Debug, Clone)]
pub enum Call {
    Link1(u32, u32),
    Link2(u32, u32),
    Unlink1(u32),
    Unlink2(u32),
    Sew1(u32, u32),
    Sew2(u32, u32),
    Unsew1(u32),
    Unsew2(u32),
    WriteVertex(u32, f64, f64),
    RemoveVertex(u32),
    WriteAttr(u32, u32, u32),
    RemoveAttr(u32, u32),
    RemoveDartTx(u32),
}

#[derive(Debug, Clone)]
pub enum Op {
    AddDart,
    AddDarts(u32),
    InsertDart,
    RemoveDart(u32),
    Force(Option<u64>, Call),
    Block(Option<u64>, Vec<Call>),
    Obs(bool),
    Query,
}

fn call_toks(c: &Call, s: &mut String) {
    match c {
        Call::Link1(l, r) => write!(s, " 1 {l} {r}"),
        Call::Link2(l, r) => write!(s, " 2 {l} {r}"),
        Call::Unlink1(l) => write!(s, " 3 {l}"),
        Call::Unlink2(l) => write!(s, " 4 {l}"),
        Call::Sew1(l, r) => write!(s, " 5 {l} {r}"),
        Call::Sew2(l, r) => write!(s, " 6 {l} {r}"),
        Call::Unsew1(l) => write!(s, " 7 {l}"),
        Call::Unsew2(l) => write!(s, " 8 {l}"),
        Call::WriteVertex(d, x, y) => write!(s, " 9 {d} {} {}", ftok(*x), ftok(*y)),
        Call::RemoveVertex(d) => write!(s, " 10 {d}"),
        Call::WriteAttr(k, d, a) => write!(s, " 11 {k} {d} {a}"),
        Call::RemoveAttr(k, d) => write!(s, " 12 {k} {d}"),
        Call::RemoveDartTx(d) => write!(s, " 13 {d}"),
    }
    .unwrap();
}

fn fa_tok(fa: &Option<u64>) -> i64 {
    fa.map_or(-1, |k| k as i64)
}

fn op_toks(o: &Op, s: &mut String) {
    match o {
        Op::AddDart => s.push_str(" 1"),
        Op::AddDarts(k) => write!(s, " 2 {k}").unwrap(),
        Op::InsertDart => s.push_str(" 3"),
        Op::RemoveDart(d) => write!(s, " 4 {d}").unwrap(),
        Op::Force(fa, c) => {
            write!(s, " 5 {}", fa_tok(fa)).unwrap();
            call_toks(c, s);
        }
        Op::Block(fa, cs) => {
            write!(s, " 6 {} {}", fa_tok(fa), cs.len()).unwrap();
            for c in cs {
                call_toks(c, s);
            }
        }
        Op::Obs(b) => write!(s, " 7 {}", u8::from(*b)).unwrap(),
        Op::Query => s.push_str(" 8"),
    }
}

/// one call through `&mut Transaction`, errors coerced to SewError
fn call_tx(
    m: &CMap2<f64>,
    t: &mut honeycomb_core::stm::Transaction,
    c: &Call,
) -> TransactionClosureResult<(), SewError> {
    use honeycomb_core::stm::try_or_coerce;
    match *c {
        Call::Link1(l, r) => {
            try_or_coerce!(m.link::<1>(t, l, r), SewError);
        }
        Call::Link2(l, r) => {
            try_or_coerce!(m.link::<2>(t, l, r), SewError);
        }
        Call::Unlink1(l) => {
            try_or_coerce!(m.unlink::<1>(t, l), SewError);
        }
        Call::Unlink2(l) => {
            try_or_coerce!(m.unlink::<2>(t, l), SewError);
        }
        Call::Sew1(l, r) => m.sew::<1>(t, l, r)?,
        Call::Sew2(l, r) => m.sew::<2>(t, l, r)?,
        Call::Unsew1(l) => m.unsew::<1>(t, l)?,
        Call::Unsew2(l) => m.unsew::<2>(t, l)?,
        Call::WriteVertex(d, x, y) => {
            m.write_vertex(t, d, (x, y))?;
        }
        Call::RemoveVertex(d) => {
            m.remove_vertex(t, d)?;
        }
        Call::WriteAttr(k, d, a) => match k {
            0 => {
                m.write_attribute(t, d, Wt(a))?;
            }
            1 => {
                m.write_attribute(t, d, Ea(a))?;
            }
            2 => {
                m.write_attribute(t, d, Fa(a))?;
            }
            _ => {
                m.write_attribute(t, d, Vb(a))?;
            }
        },
        Call::RemoveAttr(k, d) => match k {
            0 => {
                m.remove_attribute::<Wt>(t, d)?;
            }
            1 => {
                m.remove_attribute::<Ea>(t, d)?;
            }
            2 => {
                m.remove_attribute::<Fa>(t, d)?;
            }
            _ => {
                m.remove_attribute::<Vb>(t, d)?;
            }
        },
        Call::RemoveDartTx(d) => {
            m.remove_free_dart_transac(t, d)?;
        }
    }
    Ok(())
}

/// the `force_*` variant where one exists, a one-call transaction otherwise
fn call_force(m: &CMap2<f64>, c: &Call) -> Result<(), SewError> {
    match *c {
        Call::Link1(l, r) => m.force_link::<1>(l, r).map_err(SewError::from),
        Call::Link2(l, r) => m.force_link::<2>(l, r).map_err(SewError::from),
        Call::Unlink1(l) => m.force_unlink::<1>(l).map_err(SewError::from),
        Call::Unlink2(l) => m.force_unlink::<2>(l).map_err(SewError::from),
        Call::Sew1(l, r) => m.force_sew::<1>(l, r),
        Call::Sew2(l, r) => m.force_sew::<2>(l, r),
        Call::Unsew1(l) => m.force_unsew::<1>(l),
        Call::Unsew2(l) => m.force_unsew::<2>(l),
        Call::WriteVertex(d, x, y) => {
            m.force_write_vertex(d, (x, y));
            Ok(())
        }
        Call::RemoveVertex(d) => {
            m.force_remove_vertex(d);
            Ok(())
        }
        _ => atomically_with_err(|t| call_tx(m, t, c)),
    }
}

fn exec(m: &mut CMap2<f64>, o: &Op) -> Res {
    let r = catch_unwind(AssertUnwindSafe(|| match o {
        Op::AddDart => Res::Ok(u64::from(m.add_free_dart())),
        Op::AddDarts(k) => Res::Ok(u64::from(m.add_free_darts(*k as usize))),
        Op::InsertDart => Res::Ok(u64::from(m.insert_free_dart())),
        Op::RemoveDart(d) => {
            m.remove_free_dart(*d);
            Res::Ok(0)
        }
        Op::Force(fa, c) => {
            arm_fault(*fa);
            let r = call_force(m, c);
            arm_fault(None);
            match r {
                Ok(()) => Res::Ok(0),
                Err(e) => Res::Err(sew_err_code(&e)),
            }
        }
        Op::Block(fa, cs) => {
            arm_fault(*fa);
            let r = atomically_with_err(|t| {
                // a re-executed attempt must count law calls from zero again
                arm_fault(*fa);
                for c in cs {
                    call_tx(m, t, c)?;
                }
                Ok(())
            });
            arm_fault(None);
            match r {
                Ok(()) => Res::Ok(0),
                Err(e) => Res::Err(sew_err_code(&e)),
            }
        }
        Op::Obs(_) | Op::Query => Res::Ok(0),
    }));
    arm_fault(None);
    r.unwrap_or(Res::Panic)
}

// ------------------------------------------------------------------ query observation (C03)

fn list_toks(r: std::thread::Result<Vec<u32>>, s: &mut String) {
    match r {
        Ok(l) => {
            write!(s, " {}", l.len()).unwrap();
            for x in l {
                write!(s, " {x}").unwrap();
            }
        }
        Err(_) => s.push_str(" -1"),
    }
}
fn id_toks(r: std::thread::Result<u32>, s: &mut String) {
    match r {
        Ok(x) => write!(s, " {x}").unwrap(),
        Err(_) => s.push_str(" -1"),
    }
}

/// orbits (plain and transactional) under eight policies, the three ids, then the three
/// cell iterators; mirrors `query2` of coq/theories/Extract/Query2.v
fn query2(m: &CMap2<f64>, s: &mut String) {
    use honeycomb_core::cmap::OrbitPolicy as P;
    use honeycomb_core::stm::atomically;
    let n = m.n_darts() as u32;
    write!(s, " {n}").unwrap();
    static C1: [u8; 2] = [1, 2];
    static C2: [u8; 1] = [0];
    static C3: [u8; 3] = [2, 0, 1];
    let pol = |i: usize| -> P {
        match i {
            0 => P::Vertex,
            1 => P::VertexLinear,
            2 => P::Edge,
            3 => P::Face,
            4 => P::FaceLinear,
            5 => P::Custom(&C1),
            6 => P::Custom(&C2),
            _ => P::Custom(&C3),
        }
    };
    for d in 1..n {
        for i in 0..8 {
            list_toks(catch_unwind(AssertUnwindSafe(|| m.orbit(pol(i), d).collect::<Vec<u32>>())), s);
            list_toks(
                catch_unwind(AssertUnwindSafe(|| {
                    atomically(|t| {
                        let mut v = Vec::new();
                        for x in m.orbit_transac(t, pol(i), d) {
                            v.push(x?);
                        }
                        Ok(v)
                    })
                })),
                s,
            );
        }
        id_toks(catch_unwind(AssertUnwindSafe(|| m.vertex_id(d))), s);
        id_toks(catch_unwind(AssertUnwindSafe(|| m.edge_id(d))), s);
        id_toks(catch_unwind(AssertUnwindSafe(|| m.face_id(d))), s);
    }
    list_toks(catch_unwind(AssertUnwindSafe(|| m.iter_vertices().collect::<Vec<u32>>())), s);
    list_toks(catch_unwind(AssertUnwindSafe(|| m.iter_edges().collect::<Vec<u32>>())), s);
    list_toks(catch_unwind(AssertUnwindSafe(|| m.iter_faces().collect::<Vec<u32>>())), s);
}

// ------------------------------------------------------------------ generation

struct View {
    n: u32,
    b: Vec<[u32; 3]>,
    unused: Vec<bool>,
}
fn view(m: &CMap2<f64>) -> View {
    let n = m.n_darts() as u32;
    View {
        n,
        b: (0..n)
            .map(|d| [m.beta::<0>(d), m.beta::<1>(d), m.beta::<2>(d)])
            .collect(),
        unused: (0..n).map(|d| m.is_unused(d)).collect(),
    }
}

const COORDS: [f64; 9] = [0.0, 1.0, 2.0, -1.0, 0.5, 3.0, -2.5, 1.5, 4.0];

fn gen_dart(rng: &mut Rng, v: &View, pred: impl Fn(u32) -> bool, wild: bool) -> u32 {
    if wild {
        // malformed stream: null dart, removed darts, one past the end
        return rng.below(u64::from(v.n) + 2) as u32;
    }
    let c: Vec<u32> = (1..v.n).filter(|&d| !v.unused[d as usize] && pred(d)).collect();
    if c.is_empty() {
        let u: Vec<u32> = (1..v.n).filter(|&d| !v.unused[d as usize]).collect();
        if u.is_empty() { 1 } else { *rng.pick(&u) }
    } else {
        *rng.pick(&c)
    }
}

fn gen_call(rng: &mut Rng, v: &View, mask: u32, wild_pct: u64) -> Call {
    let wild = rng.chance(wild_pct, 100);
    let loose = rng.chance(15, 100); // valid darts, but not chosen to make the call succeed
    let t = |_: u32| true;
    match rng.below(100) {
        0..=13 => {
            let l = gen_dart(rng, v, |d| loose || v.b[d as usize][1] == 0, wild);
            let r = gen_dart(rng, v, |d| loose || v.b[d as usize][0] == 0, wild);
            if rng.chance(1, 2) { Call::Link1(l, r) } else { Call::Sew1(l, r) }
        }
        14..=27 => {
            let l = gen_dart(rng, v, |d| loose || v.b[d as usize][2] == 0, wild);
            let r = gen_dart(rng, v, |d| (loose || v.b[d as usize][2] == 0) && d != l, wild);
            if rng.chance(1, 2) { Call::Link2(l, r) } else { Call::Sew2(l, r) }
        }
        28..=39 => {
            let l = gen_dart(rng, v, |d| loose || v.b[d as usize][1] != 0, wild);
            if rng.chance(1, 2) { Call::Unlink1(l) } else { Call::Unsew1(l) }
        }
        40..=51 => {
            let l = gen_dart(rng, v, |d| loose || v.b[d as usize][2] != 0, wild);
            if rng.chance(1, 2) { Call::Unlink2(l) } else { Call::Unsew2(l) }
        }
        52..=71 => Call::WriteVertex(
            gen_dart(rng, v, t, wild),
            *rng.pick(&COORDS),
            *rng.pick(&COORDS),
        ),
        72..=75 => Call::RemoveVertex(gen_dart(rng, v, t, wild)),
        76..=91 if mask != 0 => {
            let ks: Vec<u32> = (0..N_KINDS).filter(|k| mask & (1 << k) != 0).collect();
            // identifiers >= n_darts are outside the contract of attribute writes (the storages
            // have one spare slot that add_free_dart would later expose)
            Call::WriteAttr(*rng.pick(&ks), gen_dart(rng, v, t, wild).min(v.n - 1), rng.below(40) as u32)
        }
        92..=95 if mask != 0 => {
            let ks: Vec<u32> = (0..N_KINDS).filter(|k| mask & (1 << k) != 0).collect();
            Call::RemoveAttr(*rng.pick(&ks), gen_dart(rng, v, t, wild))
        }
        _ => Call::RemoveDartTx(gen_dart(
            rng,
            v,
            |d| loose || v.b[d as usize] == [0, 0, 0],
            wild,
        )),
    }
}

/// link/sew/unsew calls chosen so as to mostly succeed (they are the ones with attribute updates)
fn gen_sewish(rng: &mut Rng, v: &View) -> Call {
    let loose = rng.chance(1, 10);
    match rng.below(6) {
        0 => {
            let l = gen_dart(rng, v, |d| loose || v.b[d as usize][1] == 0, false);
            let r = gen_dart(rng, v, |d| loose || v.b[d as usize][0] == 0, false);
            Call::Sew1(l, r)
        }
        1 | 2 => {
            let l = gen_dart(rng, v, |d| loose || v.b[d as usize][2] == 0, false);
            let r = gen_dart(rng, v, |d| (loose || v.b[d as usize][2] == 0) && d != l, false);
            Call::Sew2(l, r)
        }
        3 => Call::Unsew1(gen_dart(rng, v, |d| loose || v.b[d as usize][1] != 0, false)),
        4 => Call::Unsew2(gen_dart(rng, v, |d| loose || v.b[d as usize][2] != 0, false)),
        _ => {
            let l = gen_dart(rng, v, |d| loose || v.b[d as usize][1] == 0, false);
            let r = gen_dart(rng, v, |d| loose || v.b[d as usize][0] == 0, false);
            Call::Link1(l, r)
        }
    }
}

fn gen_op(rng: &mut Rng, m: &CMap2<f64>, mask: u32, wild_pct: u64, fault_pct: u64) -> Op {
    let v = view(m);
    let fa = if mask != 0 && rng.chance(fault_pct, 100) {
        Some(rng.below(4))
    } else {
        None
    };
    match rng.below(100) {
        0..=2 => Op::AddDart,
        3..=4 => Op::AddDarts(rng.below(4) as u32),
        5..=8 => Op::InsertDart,
        9..=14 => {
            let w = rng.chance(wild_pct, 100);
            let loose = rng.chance(15, 100);
            Op::RemoveDart(gen_dart(rng, &v, |d| loose || v.b[d as usize] == [0, 0, 0], w))
        }
        15..=79 => Op::Force(fa, gen_call(rng, &v, mask, wild_pct)),
        _ => {
            let k = 1 + rng.below(4);
            // later calls of a block are generated against the pre-block view on purpose:
            // some of them then fail and abort the whole block
            Op::Block(fa, (0..k).map(|_| gen_call(rng, &v, mask, wild_pct)).collect())
        }
    }
}

// ------------------------------------------------------------------ parsing cases back (replay)

fn ftok_parse(t: &str) -> f64 {
    f64::from_bits(u64::from_str_radix(&t[1..], 16).unwrap())
}

fn parse_call(t: &[&str], i: &mut usize) -> Call {
    let u = |j: usize| -> u32 { t[j].parse::<i64>().unwrap() as u32 };
    let c = u(*i);
    let (call, len) = match c {
        1 => (Call::Link1(u(*i + 1), u(*i + 2)), 3),
        2 => (Call::Link2(u(*i + 1), u(*i + 2)), 3),
        3 => (Call::Unlink1(u(*i + 1)), 2),
        4 => (Call::Unlink2(u(*i + 1)), 2),
        5 => (Call::Sew1(u(*i + 1), u(*i + 2)), 3),
        6 => (Call::Sew2(u(*i + 1), u(*i + 2)), 3),
        7 => (Call::Unsew1(u(*i + 1)), 2),
        8 => (Call::Unsew2(u(*i + 1)), 2),
        9 => (Call::WriteVertex(u(*i + 1), ftok_parse(t[*i + 2]), ftok_parse(t[*i + 3])), 4),
        10 => (Call::RemoveVertex(u(*i + 1)), 2),
        11 => (Call::WriteAttr(u(*i + 1), u(*i + 2), u(*i + 3)), 4),
        12 => (Call::RemoveAttr(u(*i + 1), u(*i + 2)), 3),
        13 => (Call::RemoveDartTx(u(*i + 1)), 2),
        _ => panic!("bad call token"),
    };
    *i += len;
    call
}

fn parse_ops(t: &[&str]) -> Vec<Op> {
    let mut i = 0;
    let mut v = Vec::new();
    while i < t.len() {
        let c: u32 = t[i].parse().unwrap();
        i += 1;
        match c {
            1 => v.push(Op::AddDart),
            2 => {
                v.push(Op::AddDarts(t[i].parse().unwrap()));
                i += 1;
            }
            3 => v.push(Op::InsertDart),
            4 => {
                v.push(Op::RemoveDart(t[i].parse().unwrap()));
                i += 1;
            }
            5 => {
                let fa: i64 = t[i].parse().unwrap();
                i += 1;
                let c = parse_call(t, &mut i);
                v.push(Op::Force(if fa < 0 { None } else { Some(fa as u64) }, c));
            }
            6 => {
                let fa: i64 = t[i].parse().unwrap();
                let m: usize = t[i + 1].parse().unwrap();
                i += 2;
                let cs = (0..m).map(|_| parse_call(t, &mut i)).collect();
                v.push(Op::Block(if fa < 0 { None } else { Some(fa as u64) }, cs));
            }
            7 => {
                v.push(Op::Obs(t[i] != "0"));
                i += 1;
            }
            8 => v.push(Op::Query),
            _ => panic!("bad op token"),
        }
    }
    v
}

struct Out {
    cases: std::io::BufWriter<std::fs::File>,
    obs: std::io::BufWriter<std::fs::File>,
    ops: std::io::BufWriter<std::fs::File>,
}

fn run_case(id: &str, mask: u32, n0: u32, ops: &mut dyn FnMut(&CMap2<f64>, usize) -> Option<Op>, out: &mut Out) {
    let mut m = build2(n0 as usize, mask);
    let mut case = format!("{id} {mask} {n0}");
    let mut line = String::new();
    let mut k = 0usize;
    let mut observing = true;
    write!(line, "{id} {k} 0 0 0").unwrap();
    dump2(&m, mask, &mut line);
    writeln!(out.obs, "{line}").unwrap();
    let mut step = 0usize;
    while let Some(o) = ops(&m, step) {
        step += 1;
        op_toks(&o, &mut case);
        if let Op::Obs(b) = o {
            observing = b;
            if !b {
                continue;
            }
        }
        let r = exec(&mut m, &o);
        if observing {
            k += 1;
            line.clear();
            write!(line, "{id} {k} {}", r.toks()).unwrap();
            if matches!(o, Op::Query) {
                query2(&m, &mut line);
            } else {
                dump2(&m, mask, &mut line);
            }
            writeln!(out.obs, "{line}").unwrap();
            line.clear();
            write!(line, "{id} {k}").unwrap();
            op_toks(&o, &mut line);
            writeln!(out.ops, "{line}").unwrap();
        }
    }
    writeln!(out.cases, "{case}").unwrap();
}

// ------------------------------------------------------------------ exhaustive small scope

/// all well-formed 2-maps on `n` non-null darts: (beta1 pairs, beta2 pairs, removed darts)
fn all_maps(n: u32) -> Vec<(Vec<(u32, u32)>, Vec<(u32, u32)>, Vec<u32>)> {
    // partial injections beta1: dart -> dart
    fn inj(n: u32, d: u32, used: &mut Vec<bool>, cur: &mut Vec<(u32, u32)>, out: &mut Vec<Vec<(u32, u32)>>) {
        if d > n {
            out.push(cur.clone());
            return;
        }
        inj(n, d + 1, used, cur, out);
        for r in 1..=n {
            if !used[r as usize] {
                used[r as usize] = true;
                cur.push((d, r));
                inj(n, d + 1, used, cur, out);
                cur.pop();
                used[r as usize] = false;
            }
        }
    }
    // partial fixed-point-free involutions beta2
    fn inv(n: u32, d: u32, used: &mut Vec<bool>, cur: &mut Vec<(u32, u32)>, out: &mut Vec<Vec<(u32, u32)>>) {
        if d > n {
            out.push(cur.clone());
            return;
        }
        if used[d as usize] {
            inv(n, d + 1, used, cur, out);
            return;
        }
        inv(n, d + 1, used, cur, out);
        for r in d + 1..=n {
            if !used[r as usize] {
                used[r as usize] = true;
                used[d as usize] = true;
                cur.push((d, r));
                inv(n, d + 1, used, cur, out);
                cur.pop();
                used[r as usize] = false;
                used[d as usize] = false;
            }
        }
    }
    let mut b1s = Vec::new();
    inj(n, 1, &mut vec![false; n as usize + 1], &mut Vec::new(), &mut b1s);
    let mut b2s = Vec::new();
    inv(n, 1, &mut vec![false; n as usize + 1], &mut Vec::new(), &mut b2s);
    let mut res = Vec::new();
    for b1 in &b1s {
        for b2 in &b2s {
            let free: Vec<u32> = (1..=n)
                .filter(|d| {
                    !b1.iter().any(|(a, b)| a == d || b == d)
                        && !b2.iter().any(|(a, b)| a == d || b == d)
                })
                .collect();
            for sub in 0..(1u32 << free.len()) {
                let rem: Vec<u32> = free
                    .iter()
                    .enumerate()
                    .filter(|(i, _)| sub & (1 << i) != 0)
                    .map(|(_, d)| *d)
                    .collect();
                res.push((b1.clone(), b2.clone(), rem));
            }
        }
    }
    res
}

fn all_test_ops(n: u32) -> Vec<Op> {
    let mut v = vec![Op::AddDart, Op::AddDarts(2), Op::InsertDart];
    // arguments range over the null dart and one past the end as well
    for a in 0..=n + 1 {
        v.push(Op::RemoveDart(a));
        for f in [false, true] {
            let mk = |c: Call| if f { Op::Force(None, c) } else { Op::Block(None, vec![c]) };
            v.push(mk(Call::Unlink1(a)));
            v.push(mk(Call::Unlink2(a)));
            v.push(mk(Call::Unsew1(a)));
            v.push(mk(Call::Unsew2(a)));
            v.push(mk(Call::RemoveDartTx(a)));
            for b in 0..=n + 1 {
                v.push(mk(Call::Link1(a, b)));
                v.push(mk(Call::Link2(a, b)));
                v.push(mk(Call::Sew1(a, b)));
                v.push(mk(Call::Sew2(a, b)));
            }
        }
    }
    v
}

fn main() {
    let args: Vec<String> = std::env::args().collect();
    let get = |name: &str, dflt: &str| -> String {
        args.iter()
            .position(|a| a == name)
            .and_then(|i| args.get(i + 1).cloned())
            .unwrap_or_else(|| dflt.to_string())
    };
    let seed: u64 = get("--seed", "1").parse().unwrap();
    let mode = get("--mode", "random");
    let outdir = get("--out", ".");
    let ncases: usize = get("--cases", "200").parse().unwrap();
    let maxops: usize = get("--ops", "40").parse().unwrap();
    let maxn: u64 = get("--darts", "12").parse().unwrap();
    let wild: u64 = get("--wild", "8").parse().unwrap();
    let fault: u64 = get("--fault", "0").parse().unwrap();
    let tag = get("--tag", "r");
    let query_pct: u64 = get("--query", "0").parse().unwrap();
    quiet_panics();
    let mut out = Out {
        cases: std::io::BufWriter::new(std::fs::File::create(format!("{outdir}/cases.txt")).unwrap()),
        obs: std::io::BufWriter::new(std::fs::File::create(format!("{outdir}/impl.txt")).unwrap()),
        ops: std::io::BufWriter::new(std::fs::File::create(format!("{outdir}/ops.txt")).unwrap()),
    };
    match mode.as_str() {
        "random" => {
            let mut rng = Rng::new(seed);
            for i in 0..ncases {
                let mask = if rng.chance(1, 4) { 0 } else { rng.below(16) as u32 };
                let n0 = 1 + rng.below(maxn) as u32;
                let nops = 1 + rng.below(maxops as u64) as usize;
                // the first case in ten is kept inside the contract of C01 (no wild arguments)
                let w = if i % 10 == 0 { 0 } else { wild };
                let mut r2 = Rng::new(rng.next());
                let mut asked = false;
                run_case(
                    &format!("{tag}{i}"),
                    mask,
                    n0,
                    &mut |m, step| {
                        if step >= nops {
                            // a final query when the family asks for queries
                            if query_pct > 0 && !asked {
                                asked = true;
                                return Some(Op::Query);
                            }
                            None
                        } else if query_pct > 0 && r2.chance(query_pct, 100) {
                            Some(Op::Query)
                        } else {
                            Some(gen_op(&mut r2, m, mask, w, fault))
                        }
                    },
                    &mut out,
                );
            }
        }
        "exhaustive" => {
            let n = maxn as u32;
            let maps = all_maps(n);
            let tests = all_test_ops(n);
            let mut id = 0usize;
            for (b1, b2, rem) in &maps {
                let mut setup: Vec<Op> = vec![Op::Obs(false)];
                for (a, b) in b1 {
                    setup.push(Op::Force(None, Call::Link1(*a, *b)));
                }
                for (a, b) in b2 {
                    setup.push(Op::Force(None, Call::Link2(*a, *b)));
                }
                for d in rem {
                    setup.push(Op::RemoveDart(*d));
                }
                setup.push(Op::Obs(true));
                for t in &tests {
                    let mut ops = setup.clone();
                    ops.push(t.clone());
                    let mut it = ops.into_iter();
                    run_case(&format!("x{n}_{id}"), 0, n, &mut |_, _| it.next(), &mut out);
                    id += 1;
                }
            }
        }
        "fault" | "compose" => {
            let mut rng = Rng::new(seed);
            for i in 0..ncases {
                let mask = if mode == "fault" { [15u32, 15, 11, 7, 9, 3][rng.below(6) as usize] } else { rng.below(16) as u32 };
                let n0 = 2 + rng.below(maxn) as u32;
                let nops = 1 + rng.below(maxops as u64) as usize;
                let mut r2 = Rng::new(rng.next());
                // 1. a random prefix, recorded so that it can be replayed identically
                let mut m = build2(n0 as usize, mask);
                let mut prefix: Vec<Op> = vec![Op::Obs(false)];
                for _ in 0..nops {
                    let o = gen_op(&mut r2, &m, mask, 0, 0);
                    exec(&mut m, &o);
                    prefix.push(o);
                }
                prefix.push(Op::Obs(true));
                if mode == "fault" {
                    // 2. one final call or block, run once per position of the failing law call
                    let v = view(&m);
                    let fin = |fa: Option<u64>, r: &mut Rng| -> Op {
                        if r.chance(3, 4) {
                            Op::Force(fa, gen_sewish(r, &v))
                        } else {
                            Op::Block(fa, (0..2).map(|_| gen_sewish(r, &v)).collect())
                        }
                    };
                    let rs = r2.next();
                    let o = fin(None, &mut Rng::new(rs));
                    reset_last();
                    exec(&mut m, &o); // counting run
                    let calls = last_law_calls().min(12);
                    for k in std::iter::once(None).chain((0..calls).map(Some)) {
                        let mut ops = prefix.clone();
                        ops.push(fin(k, &mut Rng::new(rs)));
                        let mut it = ops.into_iter();
                        let kk = k.map_or("n".to_string(), |x| x.to_string());
                        run_case(&format!("{tag}{i}k{kk}"), mask, n0, &mut |_, _| it.next(), &mut out);
                    }
                } else {
                    // 2. calls generated against the evolving map (so that later calls read what
                    //    earlier ones wrote), executed one by one: case b; as one block: case a
                    let ncalls = 2 + r2.below(4) as usize;
                    let mut calls = Vec::new();
                    let mut bops = prefix.clone();
                    for _ in 0..ncalls {
                        let v = view(&m);
                        let c = if r2.chance(2, 3) { gen_sewish(&mut r2, &v) } else { gen_call(&mut r2, &v, mask, 0) };
                        let o = Op::Force(None, c.clone());
                        exec(&mut m, &o);
                        calls.push(c);
                        bops.push(o);
                    }
                    let mut aops = prefix.clone();
                    aops.push(Op::Block(None, calls));
                    let mut it = bops.into_iter();
                    run_case(&format!("{tag}{i}b"), mask, n0, &mut |_, _| it.next(), &mut out);
                    let mut it = aops.into_iter();
                    run_case(&format!("{tag}{i}a"), mask, n0, &mut |_, _| it.next(), &mut out);
                }
            }
        }
        "grid" => {
            // a small grid of squares built through the public calls (unobserved prefix), with
            // data on its cells, then a history dominated by 2-unsews / 2-sews (C04)
            let mut rng = Rng::new(seed);
            for i in 0..ncases {
                let mask = [15u32, 11, 3, 1, 0, 15][rng.below(6) as usize];
                let nx = 1 + rng.below(3) as u32;
                let ny = 1 + rng.below(3) as u32;
                let n0 = 4 * nx * ny + rng.below(3) as u32;
                let mut ops: Vec<Op> = vec![Op::Obs(false)];
                let dart = |ix: u32, iy: u32, k: u32| 1 + 4 * (ix + nx * iy) + k;
                for iy in 0..ny {
                    for ix in 0..nx {
                        for k in 0..4 {
                            ops.push(Op::Force(None, Call::Link1(dart(ix, iy, k), dart(ix, iy, (k + 1) % 4))));
                        }
                        let (x, y) = (f64::from(ix), f64::from(iy));
                        let jit = |r: &mut Rng| if r.chance(1, 6) { 0.25 } else { 0.0 };
                        ops.push(Op::Force(None, Call::WriteVertex(dart(ix, iy, 0), x + jit(&mut rng), y)));
                        ops.push(Op::Force(None, Call::WriteVertex(dart(ix, iy, 1), x + 1.0, y + jit(&mut rng))));
                        ops.push(Op::Force(None, Call::WriteVertex(dart(ix, iy, 2), x + 1.0, y + 1.0)));
                        ops.push(Op::Force(None, Call::WriteVertex(dart(ix, iy, 3), x, y + 1.0)));
                    }
                }
                for iy in 0..ny {
                    for ix in 0..nx {
                        if ix + 1 < nx {
                            ops.push(Op::Force(None, Call::Sew2(dart(ix, iy, 1), dart(ix + 1, iy, 3))));
                        }
                        if iy + 1 < ny {
                            ops.push(Op::Force(None, Call::Sew2(dart(ix, iy, 2), dart(ix, iy + 1, 0))));
                        }
                    }
                }
                ops.push(Op::Obs(true));
                let nops = 2 + rng.below(maxops as u64) as usize;
                let mut r2 = Rng::new(rng.next());
                let mut it = ops.into_iter();
                let mut extra = 0usize;
                run_case(
                    &format!("{tag}{i}"),
                    mask,
                    n0,
                    &mut |m, _| {
                        if let Some(o) = it.next() {
                            return Some(o);
                        }
                        if extra >= nops {
                            return None;
                        }
                        extra += 1;
                        let v = view(m);
                        let t = |_: u32| true;
                        Some(match r2.below(10) {
                            0..=2 => Op::Force(None, Call::Unsew2(gen_dart(&mut r2, &v, |d| v.b[d as usize][2] != 0, false))),
                            3..=5 => {
                                let l = gen_dart(&mut r2, &v, |d| v.b[d as usize][2] == 0, false);
                                let r = gen_dart(&mut r2, &v, |d| v.b[d as usize][2] == 0 && d != l, false);
                                Op::Force(None, Call::Sew2(l, r))
                            }
                            6 if mask != 0 => {
                                let ks: Vec<u32> = (0..N_KINDS).filter(|k| mask & (1 << k) != 0).collect();
                                let k = *r2.pick(&ks);
                                let d = gen_dart(&mut r2, &v, t, false);
                                // write at the cell identifier the kind is bound to
                                let id = match k {
                                    0 | 3 => m.vertex_id(d),
                                    1 => m.edge_id(d),
                                    _ => m.face_id(d),
                                };
                                Op::Force(None, Call::WriteAttr(k, id, 1 + r2.below(60) as u32))
                            }
                            7 => Op::Force(None, Call::Unsew1(gen_dart(&mut r2, &v, |d| v.b[d as usize][1] != 0, false))),
                            _ => gen_op(&mut r2, m, mask, 0, 0),
                        })
                    },
                    &mut out,
                );
            }
        }
        "exhq" => {
            let n = maxn as u32;
            for (id, (b1, b2, rem)) in all_maps(n).iter().enumerate() {
                let mut ops: Vec<Op> = vec![Op::Obs(false)];
                for (a, b) in b1 {
                    ops.push(Op::Force(None, Call::Link1(*a, *b)));
                }
                for (a, b) in b2 {
                    ops.push(Op::Force(None, Call::Link2(*a, *b)));
                }
                for d in rem {
                    ops.push(Op::RemoveDart(*d));
                }
                ops.push(Op::Obs(true));
                ops.push(Op::Query);
                let mut it = ops.into_iter();
                run_case(&format!("q{n}_{id}"), 0, n, &mut |_, _| it.next(), &mut out);
            }
        }
        "replay" => {
            let input = std::fs::read_to_string(get("--in", "cases.txt")).unwrap();
            for l in input.lines() {
                let toks: Vec<&str> = l.split_whitespace().collect();
                if toks.len() < 3 {
                    continue;
                }
                let mask: u32 = toks[1].parse().unwrap();
                let n0: u32 = toks[2].parse().unwrap();
                let ops = parse_ops(&toks[3..]);
                let mut it = ops.into_iter();
                run_case(toks[0], mask, n0, &mut |_, _| it.next(), &mut out);
            }
        }
        _ => panic!("unknown mode"),
    }
    out.cases.flush().unwrap();
    out.obs.flush().unwrap();
    out.ops.flush().unwrap();
    let _ = NULL_DART_ID;
    let _: Option<DartIdType> = None;
}
