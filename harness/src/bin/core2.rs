//! `core2`: histories of public CMap2 editing calls (C01, C04, C06, C18 families).
//!
//! Generates cases (seeded), executes them on the real implementation and writes
//!   <out>/cases.txt : `ID mask n0 op*`          (replayed by the Coq model)
//!   <out>/impl.txt  : `ID k class code ret dump` (one line per observed op)
//! Case language: see coq/theories/Extract/Run2.v (parse_op / parse_call).

use std::fmt::Write as _;
use std::io::Write as _;
use std::panic::{AssertUnwindSafe, catch_unwind};

use hc_harness::*;
use honeycomb_core::cmap::{CMap2, DartIdType, NULL_DART_ID};
use honeycomb_core::stm::{TransactionClosureResult, atomically_with_err};
use honeycomb_core::cmap::SewError;

#[derive(Debug, Clone)]
pub enum Call {
    Link1(u32, u32),
    Link2(u32, u32),
    Unlink1(u32),
    Unlink2(u32),
    Sew1(u32, u32),
    Sew2(u32, u32),
    Unsew1(u32),
    Unsew2(u32),
    WriteVertex(u32, f64, f64),
    RemoveVertex(u32),
    WriteAttr(u32, u32, u64),
    RemoveAttr(u32, u32),
    RemoveDartTx(u32),
}

#[derive(Debug, Clone)]
pub enum Op {
    AddDart,
    AddDarts(u32),
    InsertDart,
    RemoveDart(u32),
    Force(Option<u64>, Call),
    Block(Option<u64>, Vec<Call>),
    Obs(bool),
    Query,
    Kern(Option<u64>, KCall),
    KBlock(Option<u64>, Vec<Item>),
    Serialize,
    Roundtrip,
}

#[derive(Debug, Clone)]
pub enum KCall {
    InsertVertex(u32, u32, u32, Option<f64>),
    InsertVertices(u32, Vec<u32>, Vec<f64>),
    Fan(u32, Vec<u32>),
    FanConvex(u32, Vec<u32>),
    Earclip(bool, u32, Vec<u32>),
    Swap(u32),
    CutOuter(u32, [u32; 3]),
    CutInner(u32, [u32; 6]),
    Collapse(u32),
}

#[derive(Debug, Clone)]
pub enum Item {
    C(Call),
    K(KCall),
}

pub fn list_toks_u32(l: &[u32], s: &mut String) {
    write!(s, " {}", l.len()).unwrap();
    for x in l {
        write!(s, " {x}").unwrap();
    }
}

pub fn kcall_toks(k: &KCall, s: &mut String) {
    match k {
        KCall::InsertVertex(e, a, b, None) => write!(s, " 1 {e} {a} {b} 0").unwrap(),
        KCall::InsertVertex(e, a, b, Some(t)) => write!(s, " 1 {e} {a} {b} 1 {}", ftok(*t)).unwrap(),
        KCall::InsertVertices(e, nds, ts) => {
            write!(s, " 2 {e}").unwrap();
            list_toks_u32(nds, s);
            write!(s, " {}", ts.len()).unwrap();
            for t in ts {
                write!(s, " {}", ftok(*t)).unwrap();
            }
        }
        KCall::Fan(f, nds) => {
            write!(s, " 3 {f}").unwrap();
            list_toks_u32(nds, s);
        }
        KCall::FanConvex(f, nds) => {
            write!(s, " 4 {f}").unwrap();
            list_toks_u32(nds, s);
        }
        KCall::Earclip(ccw, f, nds) => {
            write!(s, " 5 {} {f}", u8::from(*ccw)).unwrap();
            list_toks_u32(nds, s);
        }
        KCall::Swap(e) => write!(s, " 6 {e}").unwrap(),
        KCall::CutOuter(e, n) => write!(s, " 7 {e} {} {} {}", n[0], n[1], n[2]).unwrap(),
        KCall::CutInner(e, n) => write!(s, " 8 {e} {} {} {} {} {} {}", n[0], n[1], n[2], n[3], n[4], n[5]).unwrap(),
        KCall::Collapse(e) => write!(s, " 9 {e}").unwrap(),
    }
}

/// `atomically_with_err`, except that a `retry()` -- which would block for ever in a
/// single-threaded run -- is reported as `None` (a hang)
fn with_watchdog<F>(f: F) -> Option<Result<(), u32>>
where
    F: Fn() -> honeycomb_core::stm::TransactionResult<(), u32>,
{
    match f() {
        honeycomb_core::stm::TransactionResult::Validated(()) => Some(Ok(())),
        honeycomb_core::stm::TransactionResult::Cancelled(c) => Some(Err(c)),
        honeycomb_core::stm::TransactionResult::Abandoned => None,
    }
}
fn atomically_or_hang<F>(f: F) -> honeycomb_core::stm::TransactionResult<(), u32>
where
    F: Fn(&mut honeycomb_core::stm::Transaction) -> TransactionClosureResult<(), u32>,
{
    use honeycomb_core::stm::{StmError, Transaction, TransactionControl};
    Transaction::with_control_and_err(
        |e| if e == StmError::Retry { TransactionControl::Abort } else { TransactionControl::Retry },
        f,
    )
}

/// one kernel call through `&mut Transaction`; `Err(code)` with the harness' error classes
pub fn kcall_tx(
    m: &CMap2<f64>,
    t: &mut honeycomb_core::stm::Transaction,
    k: &KCall,
) -> TransactionClosureResult<(), u32> {
    use honeycomb_core::stm::{TransactionError, abort};
    use honeycomb_kernels::{cell_insertion, remeshing, triangulation};
    // map a kernel result to our error classes, keeping STM control flow (retry / failure) intact
    macro_rules! lift {
        ($r:expr, $nulledge:expr, $badtopo:expr) => {
            match $r {
                Ok(_) => Ok(()),
                Err(TransactionError::Abort(e)) => {
                    let d = format!("{e:?}");
                    let c = if d.starts_with("NullEdge") {
                        $nulledge
                    } else if d.starts_with("BadTopology") {
                        $badtopo
                    } else {
                        err_code_dbg(&d)
                    };
                    abort(c)
                }
                Err(TransactionError::Stm(e)) => Err(TransactionError::Stm(e)),
            }
        };
    }
    match k {
        KCall::InsertVertex(e, a, b, tt) => lift!(cell_insertion::insert_vertex_on_edge(m, t, *e, (*a, *b), *tt), 0, 0),
        KCall::InsertVertices(e, nds, ts) => lift!(cell_insertion::insert_vertices_on_edge(m, t, *e, nds, ts), 0, 0),
        KCall::Fan(f, nds) => lift!(triangulation::fan_cell(t, m, *f, nds), 0, 0),
        KCall::FanConvex(f, nds) => lift!(triangulation::fan_convex_cell(t, m, *f, nds), 0, 0),
        KCall::Earclip(true, f, nds) => lift!(triangulation::earclip_cell_countercw(t, m, *f, nds), 0, 0),
        KCall::Earclip(false, f, nds) => lift!(triangulation::earclip_cell_cw(t, m, *f, nds), 0, 0),
        KCall::Swap(e) => lift!(remeshing::swap_edge(t, m, *e), 121, 123),
        KCall::CutOuter(e, n) => lift!(remeshing::cut_outer_edge(t, m, *e, *n), 0, 0),
        KCall::CutInner(e, n) => lift!(remeshing::cut_inner_edge(t, m, *e, *n), 0, 0),
        KCall::Collapse(e) => lift!(remeshing::collapse_edge(t, m, *e), 133, 134),
    }
}

pub fn call_toks(c: &Call, s: &mut String) {
    match c {
        Call::Link1(l, r) => write!(s, " 1 {l} {r}"),
        Call::Link2(l, r) => write!(s, " 2 {l} {r}"),
        Call::Unlink1(l) => write!(s, " 3 {l}"),
        Call::Unlink2(l) => write!(s, " 4 {l}"),
        Call::Sew1(l, r) => write!(s, " 5 {l} {r}"),
        Call::Sew2(l, r) => write!(s, " 6 {l} {r}"),
        Call::Unsew1(l) => write!(s, " 7 {l}"),
        Call::Unsew2(l) => write!(s, " 8 {l}"),
        Call::WriteVertex(d, x, y) => write!(s, " 9 {d} {} {}", ftok(*x), ftok(*y)),
        Call::RemoveVertex(d) => write!(s, " 10 {d}"),
        Call::WriteAttr(k, d, a) => write!(s, " 11 {k} {d} {a}"),
        Call::RemoveAttr(k, d) => write!(s, " 12 {k} {d}"),
        Call::RemoveDartTx(d) => write!(s, " 13 {d}"),
    }
    .unwrap();
}

fn fa_tok(fa: &Option<u64>) -> i64 {
    fa.map_or(-1, |k| k as i64)
}

pub fn op_toks(o: &Op, s: &mut String) {
    match o {
        Op::AddDart => s.push_str(" 1"),
        Op::AddDarts(k) => write!(s, " 2 {k}").unwrap(),
        Op::InsertDart => s.push_str(" 3"),
        Op::RemoveDart(d) => write!(s, " 4 {d}").unwrap(),
        Op::Force(fa, c) => {
            write!(s, " 5 {}", fa_tok(fa)).unwrap();
            call_toks(c, s);
        }
        Op::Block(fa, cs) => {
            write!(s, " 6 {} {}", fa_tok(fa), cs.len()).unwrap();
            for c in cs {
                call_toks(c, s);
            }
        }
        Op::Obs(b) => write!(s, " 7 {}", u8::from(*b)).unwrap(),
        Op::Query => s.push_str(" 8"),
        Op::Serialize => s.push_str(" 11"),
        Op::Roundtrip => s.push_str(" 12"),
        Op::Kern(fa, k) => {
            write!(s, " 9 {}", fa_tok(fa)).unwrap();
            kcall_toks(k, s);
        }
        Op::KBlock(fa, items) => {
            write!(s, " 10 {} {}", fa_tok(fa), items.len()).unwrap();
            for it in items {
                match it {
                    Item::C(c) => {
                        s.push_str(" 0");
                        call_toks(c, s);
                    }
                    Item::K(k) => {
                        s.push_str(" 1");
                        kcall_toks(k, s);
                    }
                }
            }
        }
    }
}

/// one call through `&mut Transaction`, errors coerced to SewError
pub fn call_tx(
    m: &CMap2<f64>,
    t: &mut honeycomb_core::stm::Transaction,
    c: &Call,
) -> TransactionClosureResult<(), SewError> {
    use honeycomb_core::stm::try_or_coerce;
    match *c {
        Call::Link1(l, r) => {
            try_or_coerce!(m.link::<1>(t, l, r), SewError);
        }
        Call::Link2(l, r) => {
            try_or_coerce!(m.link::<2>(t, l, r), SewError);
        }
        Call::Unlink1(l) => {
            try_or_coerce!(m.unlink::<1>(t, l), SewError);
        }
        Call::Unlink2(l) => {
            try_or_coerce!(m.unlink::<2>(t, l), SewError);
        }
        Call::Sew1(l, r) => m.sew::<1>(t, l, r)?,
        Call::Sew2(l, r) => m.sew::<2>(t, l, r)?,
        Call::Unsew1(l) => m.unsew::<1>(t, l)?,
        Call::Unsew2(l) => m.unsew::<2>(t, l)?,
        Call::WriteVertex(d, x, y) => {
            m.write_vertex(t, d, (x, y))?;
        }
        Call::RemoveVertex(d) => {
            m.remove_vertex(t, d)?;
        }
        Call::WriteAttr(k, d, a) => match k {
            0 => {
                m.write_attribute(t, d, Wt(a as u32))?;
            }
            1 => {
                m.write_attribute(t, d, Ea(a as u32))?;
            }
            2 => {
                m.write_attribute(t, d, Fa(a as u32))?;
            }
            3 => {
                m.write_attribute(t, d, Vb(a as u32))?;
            }
            4 => {
                m.write_attribute(t, d, dec_va(a))?;
            }
            5 => {
                m.write_attribute(t, d, dec_ea(a))?;
            }
            _ => {
                m.write_attribute(t, d, dec_fa(a))?;
            }
        },
        Call::RemoveAttr(k, d) => match k {
            0 => {
                m.remove_attribute::<Wt>(t, d)?;
            }
            1 => {
                m.remove_attribute::<Ea>(t, d)?;
            }
            2 => {
                m.remove_attribute::<Fa>(t, d)?;
            }
            3 => {
                m.remove_attribute::<Vb>(t, d)?;
            }
            4 => {
                m.remove_attribute::<VertexAnchor>(t, d)?;
            }
            5 => {
                m.remove_attribute::<EdgeAnchor>(t, d)?;
            }
            _ => {
                m.remove_attribute::<FaceAnchor>(t, d)?;
            }
        },
        Call::RemoveDartTx(d) => {
            m.remove_free_dart_transac(t, d)?;
        }
    }
    Ok(())
}

/// the `force_*` variant where one exists, a one-call transaction otherwise
pub fn call_force(m: &CMap2<f64>, c: &Call) -> Result<(), SewError> {
    // links and unlinks, half of the argument pairs: the transactional form inside a caller's transaction that
    // handles the error itself and COMMITS.  The cores test before they write (an unlink of a free dart writes
    // null over null), so a failed call must publish nothing -- the model's answer is the one of the force_ form.
    let swallow = match *c {
        Call::Link1(l, r) | Call::Link2(l, r) => (l ^ r) & 1 == 1,
        Call::Unlink1(l) | Call::Unlink2(l) => l & 1 == 1,
        _ => false,
    };
    if swallow {
        return honeycomb_core::stm::atomically(|t| match call_tx(m, t, c) {
            Ok(()) => Ok(Ok(())),
            Err(honeycomb_core::stm::TransactionError::Abort(e)) => Ok(Err(e)),
            Err(honeycomb_core::stm::TransactionError::Stm(e)) => Err(e),
        });
    }
    match *c {
        Call::Link1(l, r) => m.force_link::<1>(l, r).map_err(SewError::from),
        Call::Link2(l, r) => m.force_link::<2>(l, r).map_err(SewError::from),
        Call::Unlink1(l) => m.force_unlink::<1>(l).map_err(SewError::from),
        Call::Unlink2(l) => m.force_unlink::<2>(l).map_err(SewError::from),
        Call::Sew1(l, r) => m.force_sew::<1>(l, r),
        Call::Sew2(l, r) => m.force_sew::<2>(l, r),
        Call::Unsew1(l) => m.force_unsew::<1>(l),
        Call::Unsew2(l) => m.force_unsew::<2>(l),
        Call::WriteVertex(d, x, y) => {
            m.force_write_vertex(d, (x, y));
            Ok(())
        }
        Call::RemoveVertex(d) => {
            m.force_remove_vertex(d);
            Ok(())
        }
        _ => atomically_with_err(|t| call_tx(m, t, c)),
    }
}

pub fn exec(m: &mut CMap2<f64>, o: &Op) -> Res {
    let r = catch_unwind(AssertUnwindSafe(|| match o {
        Op::AddDart => Res::Ok(u64::from(m.add_free_dart())),
        Op::AddDarts(k) => Res::Ok(u64::from(m.add_free_darts(*k as usize))),
        Op::InsertDart => Res::Ok(u64::from(m.insert_free_dart())),
        Op::RemoveDart(d) => {
            m.remove_free_dart(*d);
            Res::Ok(0)
        }
        Op::Force(fa, c) => {
            arm_fault(*fa);
            let r = call_force(m, c);
            arm_fault(None);
            match r {
                Ok(()) => Res::Ok(0),
                Err(e) => Res::Err(sew_err_code(&e)),
            }
        }
        Op::Block(fa, cs) => {
            arm_fault(*fa);
            let r = atomically_with_err(|t| {
                // a re-executed attempt must count law calls from zero again
                arm_fault(*fa);
                for c in cs {
                    call_tx(m, t, c)?;
                }
                Ok(())
            });
            arm_fault(None);
            match r {
                Ok(()) => Res::Ok(0),
                Err(e) => Res::Err(sew_err_code(&e)),
            }
        }
        Op::Obs(_) | Op::Query | Op::Serialize | Op::Roundtrip => Res::Ok(0),
        Op::Kern(fa, k) => {
            arm_fault(*fa);
            let r = with_watchdog(|| {
                atomically_or_hang(|t| {
                    arm_fault(*fa);
                    kcall_tx(m, t, k)
                })
            });
            arm_fault(None);
            match r {
                Some(Ok(())) => Res::Ok(0),
                Some(Err(c)) => Res::Err(c),
                None => Res::Hang,
            }
        }
        Op::KBlock(fa, items) => {
            arm_fault(*fa);
            let r = with_watchdog(|| {
                atomically_or_hang(|t| {
                    arm_fault(*fa);
                    for it in items {
                        match it {
                            Item::C(c) => match call_tx(m, t, c) {
                                Ok(()) => {}
                                Err(honeycomb_core::stm::TransactionError::Abort(e)) => {
                                    return honeycomb_core::stm::abort(sew_err_code(&e));
                                }
                                Err(honeycomb_core::stm::TransactionError::Stm(e)) => {
                                    return Err(honeycomb_core::stm::TransactionError::Stm(e));
                                }
                            },
                            Item::K(k) => kcall_tx(m, t, k)?,
                        }
                    }
                    Ok(())
                })
            });
            arm_fault(None);
            match r {
                Some(Ok(())) => Res::Ok(0),
                Some(Err(c)) => Res::Err(c),
                None => Res::Hang,
            }
        }
    }));
    arm_fault(None);
    r.unwrap_or(Res::Panic)
}

// ------------------------------------------------------------------ cmap text (C09, C10)

/// the lexical layer of the cmap format: items = headers and non-empty content lines of tokens.
/// header: `-1 code` (0 meta 1 betas 2 unused 3 vertices 9 other); line: `-2 n tok*` with
/// tok = `0 int` (unsigned decimal literal) | `1 f<bits>` (anything else f64 parses) | `2`
pub fn lex(text: &str, out: &mut String) {
    for line in text.trim().lines() {
        let t = line.trim();
        if t.is_empty() || t.starts_with('#') {
            continue;
        }
        if t.starts_with('[') && t.contains(']') {
            let name = t.trim_matches(['[', ']']).to_lowercase();
            let c = match name.as_str() {
                "meta" => 0,
                "betas" => 1,
                "unused" => 2,
                "vertices" => 3,
                _ => 9,
            };
            write!(out, " -1 {c}").unwrap();
            continue;
        }
        let content = t.split('#').next().unwrap().trim();
        if content.is_empty() {
            continue;
        }
        let toks: Vec<&str> = content.split_whitespace().collect();
        write!(out, " -2 {}", toks.len()).unwrap();
        for tk in toks {
            if !tk.is_empty() && tk.len() <= 30 && tk.bytes().all(|b| b.is_ascii_digit()) {
                write!(out, " 0 {tk}").unwrap();
            } else if let Ok(x) = tk.parse::<f64>() {
                write!(out, " 1 {}", ftok(x)).unwrap();
            } else {
                out.push_str(" 2");
            }
        }
    }
}

/// result of building a 2-map from a text: class 4 = layout rejected by the file loader
pub fn build_from_text(text: &str, tag: &str) -> (u32, Option<CMap2<f64>>) {
    let path = std::env::temp_dir().join(format!("hc_verif_{}_{tag}.cmap", std::process::id()));
    std::fs::write(&path, text).unwrap();
    let p2 = path.clone();
    let b = catch_unwind(AssertUnwindSafe(move || honeycomb_core::cmap::CMapBuilder::<2, f64>::from_cmap_file(p2)));
    let r = match b {
        Err(_) => (4, None),
        Ok(b) => match catch_unwind(AssertUnwindSafe(move || b.build())) {
            Err(_) => (2, None),
            Ok(Err(_)) => (1, None),
            Ok(Ok(m)) => (0, Some(m)),
        },
    };
    let _ = std::fs::remove_file(&path);
    r
}

fn roundtrip(m: &CMap2<f64>, out: &mut String) {
    let mut t1 = String::new();
    m.serialize(&mut t1);
    match build_from_text(&t1, "rt") {
        (0, Some(m2)) => {
            out.push_str(" 1");
            dump2(&m2, 0, out);
            out.push_str(" -9");
            let mut t2 = String::new();
            m2.serialize(&mut t2);
            lex(&t2, out);
            // byte-for-byte clause, decided on the implementation itself
            if t1 != t2 && std::env::var("HC_LOUD").is_ok() {
                eprintln!("--- first\n{t1}\n--- second\n{t2}");
            }
            write!(out, " -8 {}", u8::from(t1 == t2)).unwrap();
        }
        _ => out.push_str(" 0"),
    }
}

fn mutate_text(r: &mut Rng, lines: &mut Vec<String>, n: u64) {
    if lines.is_empty() {
        return;
    }
    let li = r.below(lines.len() as u64) as usize;
    // the META line only gets small counts: a huge dart count is a resource failure, not a panic
    let meta_line = li > 0 && lines[li - 1].trim().eq_ignore_ascii_case("[meta]");
    let pool = |r: &mut Rng| -> String {
        if meta_line {
            return (n + r.below(4)).saturating_sub(2).to_string();
        }
        match r.below(12) {
            0 => "0".to_string(),
            1 => n.to_string(),
            2 => (n + 1 + r.below(3)).to_string(),
            3 => "-1".to_string(),
            4 => "x7".to_string(),
            5 => "1.5".to_string(),
            6 => "4294967296".to_string(),
            _ => r.below(n.max(1)).to_string(),
        }
    };
    match r.below(12) {
        0..=4 => {
            // replace one token
            let mut t: Vec<String> = lines[li].split_whitespace().map(str::to_string).collect();
            if !t.is_empty() {
                let j = r.below(t.len() as u64) as usize;
                t[j] = pool(r);
                lines[li] = t.join(" ");
            }
        }
        5 => {
            // delete a token / add one
            let mut t: Vec<String> = lines[li].split_whitespace().map(str::to_string).collect();
            if !t.is_empty() && r.chance(1, 2) {
                t.remove(r.below(t.len() as u64) as usize);
            } else {
                t.push(pool(r));
            }
            lines[li] = t.join(" ");
        }
        6 => {
            // swap two tokens of a line
            let mut t: Vec<String> = lines[li].split_whitespace().map(str::to_string).collect();
            if t.len() >= 2 {
                let (a, b) = (r.below(t.len() as u64) as usize, r.below(t.len() as u64) as usize);
                t.swap(a, b);
                lines[li] = t.join(" ");
            }
        }
        7 => {
            let l = lines[li].clone();
            lines.insert(li, l);
        }
        8 => {
            lines.remove(li);
        }
        9 => lines.insert(li, ["# comment", "", "   ", "[UNUSED]", "[vertices]", "[Betas]", "[other]"][r.below(7) as usize].to_string()),
        10 => lines[li].push_str(" # trailing comment"),
        _ => {
            // an extra id in the UNUSED section, or an extra vertex line
            if let Some(p) = lines.iter().position(|l| l.trim() == "[UNUSED]") {
                if p + 1 < lines.len() {
                    let extra = pool(r);
                    lines[p + 1] = format!("{} {extra}", lines[p + 1]);
                }
            }
            if r.chance(1, 2) {
                lines.push(format!("{} 0.5 0.25", pool(r)));
            }
        }
    }
}

// ------------------------------------------------------------------ query observation (C03)

fn list_toks(r: std::thread::Result<Vec<u32>>, s: &mut String) {
    match r {
        Ok(l) => {
            write!(s, " {}", l.len()).unwrap();
            for x in l {
                write!(s, " {x}").unwrap();
            }
        }
        Err(_) => s.push_str(" -1"),
    }
}
fn id_toks(r: std::thread::Result<u32>, s: &mut String) {
    match r {
        Ok(x) => write!(s, " {x}").unwrap(),
        Err(_) => s.push_str(" -1"),
    }
}

/// orbits (plain and transactional) under eight policies, the three ids, then the three
/// cell iterators; mirrors `query2` of coq/theories/Extract/Query2.v
fn query2(m: &CMap2<f64>, s: &mut String) {
    use honeycomb_core::cmap::OrbitPolicy as P;
    use honeycomb_core::stm::atomically;
    let n = m.n_darts() as u32;
    write!(s, " {n}").unwrap();
    static C1: [u8; 2] = [1, 2];
    static C2: [u8; 1] = [0];
    static C3: [u8; 3] = [2, 0, 1];
    let pol = |i: usize| -> P {
        match i {
            0 => P::Vertex,
            1 => P::VertexLinear,
            2 => P::Edge,
            3 => P::Face,
            4 => P::FaceLinear,
            5 => P::Custom(&C1),
            6 => P::Custom(&C2),
            _ => P::Custom(&C3),
        }
    };
    for d in 1..n {
        for i in 0..8 {
            list_toks(catch_unwind(AssertUnwindSafe(|| m.orbit(pol(i), d).collect::<Vec<u32>>())), s);
            list_toks(
                catch_unwind(AssertUnwindSafe(|| {
                    atomically(|t| {
                        let mut v = Vec::new();
                        for x in m.orbit_transac(t, pol(i), d) {
                            v.push(x?);
                        }
                        Ok(v)
                    })
                })),
                s,
            );
        }
        id_toks(catch_unwind(AssertUnwindSafe(|| m.vertex_id(d))), s);
        id_toks(catch_unwind(AssertUnwindSafe(|| m.edge_id(d))), s);
        id_toks(catch_unwind(AssertUnwindSafe(|| m.face_id(d))), s);
    }
    list_toks(catch_unwind(AssertUnwindSafe(|| m.iter_vertices().collect::<Vec<u32>>())), s);
    list_toks(catch_unwind(AssertUnwindSafe(|| m.iter_edges().collect::<Vec<u32>>())), s);
    list_toks(catch_unwind(AssertUnwindSafe(|| m.iter_faces().collect::<Vec<u32>>())), s);
}

// ------------------------------------------------------------------ generation

pub struct View {
    n: u32,
    b: Vec<[u32; 3]>,
    unused: Vec<bool>,
}
pub fn view_n(v: &View) -> u32 {
    v.n
}
pub fn view(m: &CMap2<f64>) -> View {
    let n = m.n_darts() as u32;
    View {
        n,
        b: (0..n)
            .map(|d| [m.beta::<0>(d), m.beta::<1>(d), m.beta::<2>(d)])
            .collect(),
        unused: (0..n).map(|d| m.is_unused(d)).collect(),
    }
}

const COORDS: [f64; 9] = [0.0, 1.0, 2.0, -1.0, 0.5, 3.0, -2.5, 1.5, 4.0];

pub fn gen_dart(rng: &mut Rng, v: &View, pred: impl Fn(u32) -> bool, wild: bool) -> u32 {
    if wild {
        // malformed stream: null dart, removed darts, one past the end
        return rng.below(u64::from(v.n) + 2) as u32;
    }
    let c: Vec<u32> = (1..v.n).filter(|&d| !v.unused[d as usize] && pred(d)).collect();
    if c.is_empty() {
        let u: Vec<u32> = (1..v.n).filter(|&d| !v.unused[d as usize]).collect();
        if u.is_empty() { 1 } else { *rng.pick(&u) }
    } else {
        *rng.pick(&c)
    }
}

pub fn gen_call(rng: &mut Rng, v: &View, mask: u32, wild_pct: u64) -> Call {
    let wild = rng.chance(wild_pct, 100);
    let loose = rng.chance(15, 100); // valid darts, but not chosen to make the call succeed
    let t = |_: u32| true;
    match rng.below(100) {
        0..=13 => {
            let l = gen_dart(rng, v, |d| loose || v.b[d as usize][1] == 0, wild);
            let r = gen_dart(rng, v, |d| loose || v.b[d as usize][0] == 0, wild);
            if rng.chance(1, 2) { Call::Link1(l, r) } else { Call::Sew1(l, r) }
        }
        14..=27 => {
            let l = gen_dart(rng, v, |d| loose || v.b[d as usize][2] == 0, wild);
            let r = gen_dart(rng, v, |d| (loose || v.b[d as usize][2] == 0) && d != l, wild);
            if rng.chance(1, 2) { Call::Link2(l, r) } else { Call::Sew2(l, r) }
        }
        28..=39 => {
            let l = gen_dart(rng, v, |d| loose || v.b[d as usize][1] != 0, wild);
            if rng.chance(1, 2) { Call::Unlink1(l) } else { Call::Unsew1(l) }
        }
        40..=51 => {
            let l = gen_dart(rng, v, |d| loose || v.b[d as usize][2] != 0, wild);
            if rng.chance(1, 2) { Call::Unlink2(l) } else { Call::Unsew2(l) }
        }
        52..=71 => Call::WriteVertex(
            gen_dart(rng, v, t, wild),
            *rng.pick(&COORDS),
            *rng.pick(&COORDS),
        ),
        72..=75 => Call::RemoveVertex(gen_dart(rng, v, t, wild)),
        76..=91 if mask != 0 => {
            let ks: Vec<u32> = (0..N_KINDS).filter(|k| mask & (1 << k) != 0).collect();
            // identifiers >= n_darts are outside the contract of attribute writes (the storages
            // have one spare slot that add_free_dart would later expose)
            Call::WriteAttr(*rng.pick(&ks), gen_dart(rng, v, t, wild).min(v.n - 1), rng.below(40))
        }
        92..=95 if mask != 0 => {
            let ks: Vec<u32> = (0..N_KINDS).filter(|k| mask & (1 << k) != 0).collect();
            Call::RemoveAttr(*rng.pick(&ks), gen_dart(rng, v, t, wild))
        }
        _ => Call::RemoveDartTx(gen_dart(
            rng,
            v,
            |d| loose || v.b[d as usize] == [0, 0, 0],
            wild,
        )),
    }
}

/// link/sew/unsew calls chosen so as to mostly succeed (they are the ones with attribute updates)
pub fn gen_sewish(rng: &mut Rng, v: &View) -> Call {
    let loose = rng.chance(1, 10);
    match rng.below(6) {
        0 => {
            let l = gen_dart(rng, v, |d| loose || v.b[d as usize][1] == 0, false);
            let r = gen_dart(rng, v, |d| loose || v.b[d as usize][0] == 0, false);
            Call::Sew1(l, r)
        }
        1 | 2 => {
            let l = gen_dart(rng, v, |d| loose || v.b[d as usize][2] == 0, false);
            let r = gen_dart(rng, v, |d| (loose || v.b[d as usize][2] == 0) && d != l, false);
            Call::Sew2(l, r)
        }
        3 => Call::Unsew1(gen_dart(rng, v, |d| loose || v.b[d as usize][1] != 0, false)),
        4 => Call::Unsew2(gen_dart(rng, v, |d| loose || v.b[d as usize][2] != 0, false)),
        _ => {
            let l = gen_dart(rng, v, |d| loose || v.b[d as usize][1] == 0, false);
            let r = gen_dart(rng, v, |d| loose || v.b[d as usize][0] == 0, false);
            Call::Link1(l, r)
        }
    }
}

pub fn gen_op(rng: &mut Rng, m: &CMap2<f64>, mask: u32, wild_pct: u64, fault_pct: u64) -> Op {
    let v = view(m);
    let fa = if mask != 0 && rng.chance(fault_pct, 100) {
        Some(rng.below(4))
    } else {
        None
    };
    match rng.below(100) {
        0..=2 => Op::AddDart,
        3..=4 => Op::AddDarts(rng.below(4) as u32),
        5..=8 => Op::InsertDart,
        9..=14 => {
            let w = rng.chance(wild_pct, 100);
            let loose = rng.chance(15, 100);
            Op::RemoveDart(gen_dart(rng, &v, |d| loose || v.b[d as usize] == [0, 0, 0], w))
        }
        15..=79 => Op::Force(fa, gen_call(rng, &v, mask, wild_pct)),
        _ => {
            let k = 1 + rng.below(4);
            // later calls of a block are generated against the pre-block view on purpose:
            // some of them then fail and abort the whole block
            Op::Block(fa, (0..k).map(|_| gen_call(rng, &v, mask, wild_pct)).collect())
        }
    }
}

// ------------------------------------------------------------------ parsing cases back (replay)

fn ftok_parse(t: &str) -> f64 {
    f64::from_bits(u64::from_str_radix(&t[1..], 16).unwrap())
}

fn parse_call(t: &[&str], i: &mut usize) -> Call {
    let u = |j: usize| -> u32 { t[j].parse::<i64>().unwrap() as u32 };
    let c = u(*i);
    let (call, len) = match c {
        1 => (Call::Link1(u(*i + 1), u(*i + 2)), 3),
        2 => (Call::Link2(u(*i + 1), u(*i + 2)), 3),
        3 => (Call::Unlink1(u(*i + 1)), 2),
        4 => (Call::Unlink2(u(*i + 1)), 2),
        5 => (Call::Sew1(u(*i + 1), u(*i + 2)), 3),
        6 => (Call::Sew2(u(*i + 1), u(*i + 2)), 3),
        7 => (Call::Unsew1(u(*i + 1)), 2),
        8 => (Call::Unsew2(u(*i + 1)), 2),
        9 => (Call::WriteVertex(u(*i + 1), ftok_parse(t[*i + 2]), ftok_parse(t[*i + 3])), 4),
        10 => (Call::RemoveVertex(u(*i + 1)), 2),
        11 => (Call::WriteAttr(u(*i + 1), u(*i + 2), t[*i + 3].parse::<u64>().unwrap()), 4),
        12 => (Call::RemoveAttr(u(*i + 1), u(*i + 2)), 3),
        13 => (Call::RemoveDartTx(u(*i + 1)), 2),
        _ => panic!("bad call token"),
    };
    *i += len;
    call
}

fn parse_list(t: &[&str], i: &mut usize) -> Vec<u32> {
    let m: usize = t[*i].parse().unwrap();
    *i += 1;
    let v = (0..m).map(|j| t[*i + j].parse::<i64>().unwrap() as u32).collect();
    *i += m;
    v
}

fn parse_kcall(t: &[&str], i: &mut usize) -> KCall {
    let u = |j: usize| -> u32 { t[j].parse::<i64>().unwrap() as u32 };
    let c = u(*i);
    *i += 1;
    match c {
        1 => {
            let (e, a, b) = (u(*i), u(*i + 1), u(*i + 2));
            let has = t[*i + 3] != "0";
            *i += 4;
            let tt = if has {
                *i += 1;
                Some(ftok_parse(t[*i - 1]))
            } else {
                None
            };
            KCall::InsertVertex(e, a, b, tt)
        }
        2 => {
            let e = u(*i);
            *i += 1;
            let nds = parse_list(t, i);
            let nt: usize = t[*i].parse().unwrap();
            *i += 1;
            let ts = (0..nt).map(|j| ftok_parse(t[*i + j])).collect();
            *i += nt;
            KCall::InsertVertices(e, nds, ts)
        }
        3 | 4 => {
            let f = u(*i);
            *i += 1;
            let nds = parse_list(t, i);
            if c == 3 { KCall::Fan(f, nds) } else { KCall::FanConvex(f, nds) }
        }
        5 => {
            let ccw = t[*i] != "0";
            let f = u(*i + 1);
            *i += 2;
            KCall::Earclip(ccw, f, parse_list(t, i))
        }
        6 => {
            *i += 1;
            KCall::Swap(u(*i - 1))
        }
        7 => {
            *i += 4;
            KCall::CutOuter(u(*i - 4), [u(*i - 3), u(*i - 2), u(*i - 1)])
        }
        8 => {
            *i += 7;
            KCall::CutInner(u(*i - 7), [u(*i - 6), u(*i - 5), u(*i - 4), u(*i - 3), u(*i - 2), u(*i - 1)])
        }
        9 => {
            *i += 1;
            KCall::Collapse(u(*i - 1))
        }
        _ => panic!("bad kernel call token"),
    }
}

// ------------------------------------------------------------------ kernel case generation

pub fn shuffle(r: &mut Rng, v: &mut [u32]) {
    for i in (1..v.len()).rev() {
        let j = r.below(i as u64 + 1) as usize;
        v.swap(i, j);
    }
}

/// ops building an nx x ny grid of squares, each split in two triangles, embedded with jittered
/// lattice points; returns (ops, number of darts used)
pub fn prefix_trimesh(rng: &mut Rng, nx: u32, ny: u32, anchors: bool) -> (Vec<Op>, u32) {
    let mut ops = vec![Op::Obs(false)];
    let d = |ix: u32, iy: u32, k: u32| 1 + 6 * (ix + nx * iy) + k;
    let mut pts = vec![(0.0f64, 0.0f64); ((nx + 1) * (ny + 1)) as usize];
    for j in 0..=ny {
        for i in 0..=nx {
            let interior = i > 0 && i < nx && j > 0 && j < ny;
            let jx = if interior { (rng.below(5) as f64 - 2.0) * 0.0625 } else { 0.0 };
            let jy = if interior { (rng.below(5) as f64 - 2.0) * 0.0625 } else { 0.0 };
            pts[(i + (nx + 1) * j) as usize] = (f64::from(i) + jx, f64::from(j) + jy);
        }
    }
    let pt = |i: u32, j: u32| pts[(i + (nx + 1) * j) as usize];
    for iy in 0..ny {
        for ix in 0..nx {
            let (a1, a2, a3, b1, b2, b3) = (d(ix, iy, 0), d(ix, iy, 1), d(ix, iy, 2), d(ix, iy, 3), d(ix, iy, 4), d(ix, iy, 5));
            for (x, y) in [(a1, a2), (a2, a3), (a3, a1), (b1, b2), (b2, b3), (b3, b1)] {
                ops.push(Op::Force(None, Call::Link1(x, y)));
            }
            let (p0, p1, p2, p3) = (pt(ix, iy), pt(ix + 1, iy), pt(ix + 1, iy + 1), pt(ix, iy + 1));
            for (dd, p) in [(a1, p0), (a2, p1), (a3, p3), (b1, p1), (b2, p2), (b3, p3)] {
                ops.push(Op::Force(None, Call::WriteVertex(dd, p.0, p.1)));
            }
            if anchors {
                // anchors are written dart by dart before the sews, consistently per lattice point /
                // edge, so that every merge performed by the sews is between equal anchors
                let va = |i: u32, j: u32| -> u64 {
                    let bx = i == 0 || i == nx;
                    let by = j == 0 || j == ny;
                    if bx && by { u64::from(1 + i + (nx + 1) * j) } else if bx || by { (1u64 << 32) + 1 } else { 2u64 << 32 }
                };
                let ea = |boundary: bool| -> u64 { if boundary { (1u64 << 32) + 1 } else { 2u64 << 32 } };
                for (dd, (i, j)) in [(a1, (ix, iy)), (a2, (ix + 1, iy)), (a3, (ix, iy + 1)), (b1, (ix + 1, iy)), (b2, (ix + 1, iy + 1)), (b3, (ix, iy + 1))] {
                    ops.push(Op::Force(None, Call::WriteAttr(4, dd, va(i, j))));
                }
                for (dd, bd) in [(a1, iy == 0), (a2, false), (a3, ix == 0), (b1, ix + 1 == nx), (b2, iy + 1 == ny), (b3, false)] {
                    ops.push(Op::Force(None, Call::WriteAttr(5, dd, ea(bd))));
                }
                ops.push(Op::Force(None, Call::WriteAttr(6, a1, 2u64 << 32)));
                ops.push(Op::Force(None, Call::WriteAttr(6, b1, 2u64 << 32)));
            }
        }
    }
    for iy in 0..ny {
        for ix in 0..nx {
            ops.push(Op::Force(None, Call::Sew2(d(ix, iy, 1), d(ix, iy, 5))));
            if ix + 1 < nx {
                ops.push(Op::Force(None, Call::Sew2(d(ix, iy, 3), d(ix + 1, iy, 2))));
            }
            if iy + 1 < ny {
                ops.push(Op::Force(None, Call::Sew2(d(ix, iy, 4), d(ix, iy + 1, 0))));
            }
        }
    }
    (ops, 6 * nx * ny)
}

/// a polygon of `k` sides as one face (darts 1..=k), counter-clockwise or clockwise
pub fn prefix_polygon(rng: &mut Rng, k: u32, shape: u32, ccw: bool) -> (Vec<Op>, u32) {
    let mut ops = vec![Op::Obs(false)];
    let mut pts: Vec<(f64, f64)> = Vec::new();
    for i in 0..k {
        let ang = std::f64::consts::TAU * f64::from(i) / f64::from(k);
        // shape 0: convex (circle with mild radius noise), 1: star-shaped with reflex vertices,
        // 2: one deep reflex vertex at a random position, 3: comb-like
        let r = match shape {
            0 => 2.0 + 0.0625 * rng.below(3) as f64,
            1 => if i % 2 == 0 { 2.0 } else { 0.75 + 0.125 * rng.below(3) as f64 },
            2 => 2.0,
            _ => if i % 3 == 1 { 0.5 } else { 2.0 + 0.25 * rng.below(2) as f64 },
        };
        // coordinates snapped to 1/64 so that areas are exact in binary64
        let snap = |x: f64| (x * 64.0).round() / 64.0;
        pts.push((snap(r * ang.cos()), snap(r * ang.sin())));
    }
    if shape == 2 {
        let j = rng.below(u64::from(k)) as usize;
        pts[j] = (pts[j].0 * 0.125, pts[j].1 * 0.125);
    }
    if shape == 4 {
        // a random simple polygon: random grid points, crossings removed by 2-opt moves
        // (reversing the sub-chain between two crossing segments), then made counter-clockwise
        let cr = |o: (f64, f64), a: (f64, f64), b: (f64, f64)| (a.0 - o.0) * (b.1 - o.1) - (a.1 - o.1) * (b.0 - o.0);
        let n = k as usize;
        loop {
            pts.clear();
            while pts.len() < n {
                let p = (rng.below(257) as f64 / 64.0 - 2.0, rng.below(257) as f64 / 64.0 - 2.0);
                if !pts.contains(&p) {
                    pts.push(p);
                }
            }
            let mut ok = false;
            for _ in 0..200 {
                let mut crossing = None;
                'find: for i in 0..n {
                    for j in i + 2..n {
                        if i == 0 && j == n - 1 {
                            continue;
                        }
                        let (a, b, c, d) = (pts[i], pts[(i + 1) % n], pts[j], pts[(j + 1) % n]);
                        if cr(a, b, c) * cr(a, b, d) < 0.0 && cr(c, d, a) * cr(c, d, b) < 0.0 {
                            crossing = Some((i, j));
                            break 'find;
                        }
                    }
                }
                match crossing {
                    Some((i, j)) => pts[i + 1..=j].reverse(),
                    None => {
                        ok = true;
                        break;
                    }
                }
            }
            // general position: no three consecutive collinear points, no vertex on another side
            let mut general = ok;
            for i in 0..n {
                for j in 0..n {
                    let (a, b) = (pts[j], pts[(j + 1) % n]);
                    if i != j && i != (j + 1) % n && cr(a, b, pts[i]) == 0.0 {
                        general = false;
                    }
                }
            }
            if general {
                break;
            }
        }
        let area2: f64 = (0..n).map(|i| pts[i].0 * pts[(i + 1) % n].1 - pts[(i + 1) % n].0 * pts[i].1).sum();
        if area2 < 0.0 {
            pts.reverse();
        }
    }
    if !ccw {
        pts.reverse();
    }
    for i in 0..k {
        ops.push(Op::Force(None, Call::Link1(1 + i, 1 + (i + 1) % k)));
        ops.push(Op::Force(None, Call::WriteVertex(1 + i, pts[i as usize].0, pts[i as usize].1)));
    }
    // embed the polygon in a larger mesh: triangles glued on some of its sides
    let mut used = k;
    if rng.chance(1, 2) {
        for i in 0..k {
            if !rng.chance(1, 3) {
                continue;
            }
            let (p, q) = (pts[i as usize], pts[((i + 1) % k) as usize]);
            let (dx, dy) = (q.0 - p.0, q.1 - p.1);
            let s = if ccw { 1.0 } else { -1.0 };
            let apex = ((p.0 + q.0) / 2.0 + s * dy * 0.5, (p.1 + q.1) / 2.0 - s * dx * 0.5);
            let (t1, t2, t3) = (used + 1, used + 2, used + 3);
            used += 3;
            ops.push(Op::Force(None, Call::Link1(t1, t2)));
            ops.push(Op::Force(None, Call::Link1(t2, t3)));
            ops.push(Op::Force(None, Call::Link1(t3, t1)));
            ops.push(Op::Force(None, Call::WriteVertex(t1, q.0, q.1)));
            ops.push(Op::Force(None, Call::WriteVertex(t2, p.0, p.1)));
            ops.push(Op::Force(None, Call::WriteVertex(t3, apex.0, apex.1)));
            ops.push(Op::Force(None, Call::Sew2(1 + i, t1)));
        }
    }
    (ops, used)
}

pub fn gen_kcall(r: &mut Rng, m: &CMap2<f64>, fresh: u32, poly: Option<(u32, u32)>, only: &str) -> KCall {
    let v = view(m);
    // darts that belong to the mesh (not the isolated spare ones)
    let any = |r: &mut Rng| gen_dart(r, &v, |d| v.b[d as usize] != [0, 0, 0], false);
    let inner = |r: &mut Rng| gen_dart(r, &v, |d| v.b[d as usize][2] != 0, false);
    let interior_vertex = |d: u32| m.orbit(honeycomb_core::cmap::OrbitPolicy::Vertex, d).all(|x| m.beta::<2>(x) != 0);
    let mut spare: Vec<u32> = (fresh..fresh + 8).collect();
    if r.chance(1, 2) {
        shuffle(r, &mut spare);
    }
    let bad = r.chance(1, 12);
    if let (Some((f, k)), true) = (poly, only != "insert" && only != "remesh") {
        let need = (2 * (k.max(3) - 3)) as usize;
        let cnt = if bad { need + [1usize, 2, need][r.below(3) as usize] - if r.chance(1, 2) { need.min(2) } else { 0 } } else { need };
        let mut nds: Vec<u32> = (fresh..fresh + cnt as u32).collect();
        if r.chance(1, 3) {
            shuffle(r, &mut nds);
        }
        let f = if r.chance(1, 4) { 1 + r.below(u64::from(k)) as u32 } else { f };
        return match r.below(5) {
            0 => KCall::Fan(f, nds),
            1 => KCall::FanConvex(f, nds),
            2 | 3 => KCall::Earclip(true, f, nds),
            _ => KCall::Earclip(false, f, nds),
        };
    }
    let pick = match only {
        "insert" => 6 + r.below(6),
        "remesh" => r.below(6),
        _ => r.below(12),
    };
    match pick {
        0 | 1 => KCall::Swap(if bad { r.below(u64::from(v.n)) as u32 } else if r.chance(4, 5) { inner(r) } else { any(r) }),
        2 | 3 => {
            let e = any(r);
            let boundary = v.b[e as usize][2] == 0;
            if boundary != bad { KCall::CutOuter(e, [spare[0], spare[1], spare[2]]) } else { KCall::CutInner(e, [spare[0], spare[1], spare[2], spare[3], spare[4], spare[5]]) }
        }
        4 | 5 => KCall::Collapse(if bad {
            r.below(u64::from(v.n)) as u32
        } else if r.chance(7, 10) {
            gen_dart(r, &v, |d| v.b[d as usize][1] != 0 && interior_vertex(d) && interior_vertex(v.b[d as usize][1]), false)
        } else {
            any(r)
        }),
        6 | 7 => {
            let tt = match r.below(5) {
                0 => None,
                1 if bad => Some([0.0, 1.0, -0.5, 1.5][r.below(4) as usize]),
                _ => Some([0.25, 0.5, 0.75, 0.125, 0.3][r.below(5) as usize]),
            };
            let (a, b) = if bad { (any(r), spare[1]) } else { (spare[0], spare[1]) };
            KCall::InsertVertex(any(r), a, if r.chance(1, 8) { 0 } else { b }, tt)
        }
        _ => {
            let k = r.below(4) as usize;
            let e = any(r);
            let two = v.b[e as usize][2] != 0;
            let mut nds: Vec<u32> = spare[..2 * k].to_vec();
            if !two && r.chance(1, 2) {
                for x in nds.iter_mut().skip(k) {
                    *x = 0;
                }
            }
            if bad && !nds.is_empty() {
                let j = r.below(nds.len() as u64) as usize;
                nds[j] = [0, any(r)][r.below(2) as usize];
            }
            let mut ts: Vec<f64> = (0..k).map(|j| (j as f64 + 1.0) / (k as f64 + 1.0)).collect();
            if r.chance(1, 4) {
                ts.reverse();
            }
            if bad && r.chance(1, 2) {
                ts.push(0.5);
            }
            KCall::InsertVertices(e, nds, ts)
        }
    }
}

pub fn parse_ops(t: &[&str]) -> Vec<Op> {
    let mut i = 0;
    let mut v = Vec::new();
    while i < t.len() {
        let c: u32 = t[i].parse().unwrap();
        i += 1;
        match c {
            1 => v.push(Op::AddDart),
            2 => {
                v.push(Op::AddDarts(t[i].parse().unwrap()));
                i += 1;
            }
            3 => v.push(Op::InsertDart),
            4 => {
                v.push(Op::RemoveDart(t[i].parse().unwrap()));
                i += 1;
            }
            5 => {
                let fa: i64 = t[i].parse().unwrap();
                i += 1;
                let c = parse_call(t, &mut i);
                v.push(Op::Force(if fa < 0 { None } else { Some(fa as u64) }, c));
            }
            6 => {
                let fa: i64 = t[i].parse().unwrap();
                let m: usize = t[i + 1].parse().unwrap();
                i += 2;
                let cs = (0..m).map(|_| parse_call(t, &mut i)).collect();
                v.push(Op::Block(if fa < 0 { None } else { Some(fa as u64) }, cs));
            }
            7 => {
                v.push(Op::Obs(t[i] != "0"));
                i += 1;
            }
            8 => v.push(Op::Query),
            11 => v.push(Op::Serialize),
            12 => v.push(Op::Roundtrip),
            9 => {
                let fa: i64 = t[i].parse().unwrap();
                i += 1;
                let k = parse_kcall(t, &mut i);
                v.push(Op::Kern(if fa < 0 { None } else { Some(fa as u64) }, k));
            }
            10 => {
                let fa: i64 = t[i].parse().unwrap();
                let m: usize = t[i + 1].parse().unwrap();
                i += 2;
                let mut items = Vec::new();
                for _ in 0..m {
                    let tag = t[i];
                    i += 1;
                    if tag == "0" {
                        items.push(Item::C(parse_call(t, &mut i)));
                    } else {
                        items.push(Item::K(parse_kcall(t, &mut i)));
                    }
                }
                v.push(Op::KBlock(if fa < 0 { None } else { Some(fa as u64) }, items));
            }
            _ => panic!("bad op token"),
        }
    }
    v
}

struct Out {
    cases: std::io::BufWriter<std::fs::File>,
    obs: std::io::BufWriter<std::fs::File>,
    ops: std::io::BufWriter<std::fs::File>,
}

fn run_case(id: &str, mask: u32, n0: u32, ops: &mut dyn FnMut(&CMap2<f64>, usize) -> Option<Op>, out: &mut Out) {
    let mut m = build2(n0 as usize, mask);
    let mut case = format!("{id} {mask} {n0}");
    let mut line = String::new();
    let mut k = 0usize;
    let mut observing = true;
    write!(line, "{id} {k} 0 0 0").unwrap();
    dump2(&m, mask, &mut line);
    writeln!(out.obs, "{line}").unwrap();
    let mut step = 0usize;
    while let Some(o) = ops(&m, step) {
        step += 1;
        op_toks(&o, &mut case);
        if let Op::Obs(b) = o {
            observing = b;
            if !b {
                continue;
            }
        }
        let r = exec(&mut m, &o);
        if observing {
            k += 1;
            line.clear();
            write!(line, "{id} {k} {}", r.toks()).unwrap();
            if matches!(o, Op::Query) {
                query2(&m, &mut line);
            } else if matches!(o, Op::Serialize) {
                let mut text = String::new();
                m.serialize(&mut text);
                lex(&text, &mut line);
            } else if matches!(o, Op::Roundtrip) {
                roundtrip(&m, &mut line);
            } else {
                dump2(&m, mask, &mut line);
                mark_dump_panics(id, k, &mut line);
            }
            writeln!(out.obs, "{line}").unwrap();
            line.clear();
            write!(line, "{id} {k}").unwrap();
            op_toks(&o, &mut line);
            writeln!(out.ops, "{line}").unwrap();
        }
    }
    writeln!(out.cases, "{case}").unwrap();
}

// ------------------------------------------------------------------ exhaustive small scope

/// all well-formed 2-maps on `n` non-null darts: (beta1 pairs, beta2 pairs, removed darts)
fn all_maps(n: u32) -> Vec<(Vec<(u32, u32)>, Vec<(u32, u32)>, Vec<u32>)> {
    // partial injections beta1: dart -> dart
    fn inj(n: u32, d: u32, used: &mut Vec<bool>, cur: &mut Vec<(u32, u32)>, out: &mut Vec<Vec<(u32, u32)>>) {
        if d > n {
            out.push(cur.clone());
            return;
        }
        inj(n, d + 1, used, cur, out);
        for r in 1..=n {
            if !used[r as usize] {
                used[r as usize] = true;
                cur.push((d, r));
                inj(n, d + 1, used, cur, out);
                cur.pop();
                used[r as usize] = false;
            }
        }
    }
    // partial fixed-point-free involutions beta2
    fn inv(n: u32, d: u32, used: &mut Vec<bool>, cur: &mut Vec<(u32, u32)>, out: &mut Vec<Vec<(u32, u32)>>) {
        if d > n {
            out.push(cur.clone());
            return;
        }
        if used[d as usize] {
            inv(n, d + 1, used, cur, out);
            return;
        }
        inv(n, d + 1, used, cur, out);
        for r in d + 1..=n {
            if !used[r as usize] {
                used[r as usize] = true;
                used[d as usize] = true;
                cur.push((d, r));
                inv(n, d + 1, used, cur, out);
                cur.pop();
                used[r as usize] = false;
                used[d as usize] = false;
            }
        }
    }
    let mut b1s = Vec::new();
    inj(n, 1, &mut vec![false; n as usize + 1], &mut Vec::new(), &mut b1s);
    let mut b2s = Vec::new();
    inv(n, 1, &mut vec![false; n as usize + 1], &mut Vec::new(), &mut b2s);
    let mut res = Vec::new();
    for b1 in &b1s {
        for b2 in &b2s {
            let free: Vec<u32> = (1..=n)
                .filter(|d| {
                    !b1.iter().any(|(a, b)| a == d || b == d)
                        && !b2.iter().any(|(a, b)| a == d || b == d)
                })
                .collect();
            for sub in 0..(1u32 << free.len()) {
                let rem: Vec<u32> = free
                    .iter()
                    .enumerate()
                    .filter(|(i, _)| sub & (1 << i) != 0)
                    .map(|(_, d)| *d)
                    .collect();
                res.push((b1.clone(), b2.clone(), rem));
            }
        }
    }
    res
}

fn all_test_ops(n: u32) -> Vec<Op> {
    let mut v = vec![Op::AddDart, Op::AddDarts(2), Op::InsertDart];
    // arguments range over the null dart and one past the end as well
    for a in 0..=n + 1 {
        v.push(Op::RemoveDart(a));
        for f in [false, true] {
            let mk = |c: Call| if f { Op::Force(None, c) } else { Op::Block(None, vec![c]) };
            v.push(mk(Call::Unlink1(a)));
            v.push(mk(Call::Unlink2(a)));
            v.push(mk(Call::Unsew1(a)));
            v.push(mk(Call::Unsew2(a)));
            v.push(mk(Call::RemoveDartTx(a)));
            for b in 0..=n + 1 {
                v.push(mk(Call::Link1(a, b)));
                v.push(mk(Call::Link2(a, b)));
                v.push(mk(Call::Sew1(a, b)));
                v.push(mk(Call::Sew2(a, b)));
            }
        }
    }
    v
}

fn main() {
    let args: Vec<String> = std::env::args().collect();
    let get = |name: &str, dflt: &str| -> String {
        args.iter()
            .position(|a| a == name)
            .and_then(|i| args.get(i + 1).cloned())
            .unwrap_or_else(|| dflt.to_string())
    };
    let seed: u64 = get("--seed", "1").parse().unwrap();
    let mode = get("--mode", "random");
    let outdir = get("--out", ".");
    let ncases: usize = get("--cases", "200").parse().unwrap();
    let maxops: usize = get("--ops", "40").parse().unwrap();
    let maxn: u64 = get("--darts", "12").parse().unwrap();
    let wild: u64 = get("--wild", "8").parse().unwrap();
    let fault: u64 = get("--fault", "0").parse().unwrap();
    let tag = get("--tag", "r");
    let query_pct: u64 = get("--query", "0").parse().unwrap();
    let only = get("--only", "all");
    let io_pct: u64 = get("--io", "0").parse().unwrap();
    if std::env::var("HC_LOUD").is_err() {
        quiet_panics();
    }
    let mut out = Out {
        cases: std::io::BufWriter::new(std::fs::File::create(format!("{outdir}/cases.txt")).unwrap()),
        obs: std::io::BufWriter::new(std::fs::File::create(format!("{outdir}/impl.txt")).unwrap()),
        ops: std::io::BufWriter::new(std::fs::File::create(format!("{outdir}/ops.txt")).unwrap()),
    };
    match mode.as_str() {
        "random" => {
            let mut rng = Rng::new(seed);
            for i in 0..ncases {
                let mask = if rng.chance(1, 4) { 0 } else { rng.below(16) as u32 };
                let n0 = 1 + rng.below(maxn) as u32;
                let nops = 1 + rng.below(maxops as u64) as usize;
                // the first case in ten is kept inside the contract of C01 (no wild arguments)
                let w = if i % 10 == 0 { 0 } else { wild };
                let mut r2 = Rng::new(rng.next());
                let mut asked = false;
                run_case(
                    &format!("{tag}{i}"),
                    mask,
                    n0,
                    &mut |m, step| {
                        if step >= nops {
                            // a final query when the family asks for queries
                            if query_pct > 0 && !asked {
                                asked = true;
                                return Some(Op::Query);
                            }
                            if io_pct > 0 && !asked {
                                asked = true;
                                return Some(Op::Roundtrip);
                            }
                            None
                        } else if query_pct > 0 && r2.chance(query_pct, 100) {
                            Some(Op::Query)
                        } else if io_pct > 0 && r2.chance(io_pct, 100) {
                            Some(if r2.chance(1, 2) { Op::Serialize } else { Op::Roundtrip })
                        } else {
                            Some(gen_op(&mut r2, m, mask, w, fault))
                        }
                    },
                    &mut out,
                );
            }
        }
        "exhaustive" => {
            let n = maxn as u32;
            let maps = all_maps(n);
            let tests = all_test_ops(n);
            let mut id = 0usize;
            for (b1, b2, rem) in &maps {
                let mut setup: Vec<Op> = vec![Op::Obs(false)];
                for (a, b) in b1 {
                    setup.push(Op::Force(None, Call::Link1(*a, *b)));
                }
                for (a, b) in b2 {
                    setup.push(Op::Force(None, Call::Link2(*a, *b)));
                }
                for d in rem {
                    setup.push(Op::RemoveDart(*d));
                }
                setup.push(Op::Obs(true));
                for t in &tests {
                    let mut ops = setup.clone();
                    ops.push(t.clone());
                    let mut it = ops.into_iter();
                    run_case(&format!("x{n}_{id}"), 0, n, &mut |_, _| it.next(), &mut out);
                    id += 1;
                }
            }
        }
        "fault" | "compose" => {
            let mut rng = Rng::new(seed);
            for i in 0..ncases {
                let mask = if mode == "fault" { [15u32, 15, 11, 7, 9, 3][rng.below(6) as usize] } else { rng.below(16) as u32 };
                let n0 = 2 + rng.below(maxn) as u32;
                let nops = 1 + rng.below(maxops as u64) as usize;
                let mut r2 = Rng::new(rng.next());
                // 1. a random prefix, recorded so that it can be replayed identically
                let mut m = build2(n0 as usize, mask);
                let mut prefix: Vec<Op> = vec![Op::Obs(false)];
                for _ in 0..nops {
                    let o = gen_op(&mut r2, &m, mask, 0, 0);
                    exec(&mut m, &o);
                    prefix.push(o);
                }
                prefix.push(Op::Obs(true));
                if mode == "fault" {
                    // 2. one final call or block, run once per position of the failing law call
                    let v = view(&m);
                    let fin = |fa: Option<u64>, r: &mut Rng| -> Op {
                        if r.chance(3, 4) {
                            Op::Force(fa, gen_sewish(r, &v))
                        } else {
                            Op::Block(fa, (0..2).map(|_| gen_sewish(r, &v)).collect())
                        }
                    };
                    let rs = r2.next();
                    let o = fin(None, &mut Rng::new(rs));
                    reset_last();
                    exec(&mut m, &o); // counting run
                    let calls = last_law_calls().min(12);
                    for k in std::iter::once(None).chain((0..calls).map(Some)) {
                        let mut ops = prefix.clone();
                        ops.push(fin(k, &mut Rng::new(rs)));
                        let mut it = ops.into_iter();
                        let kk = k.map_or("n".to_string(), |x| x.to_string());
                        run_case(&format!("{tag}{i}k{kk}"), mask, n0, &mut |_, _| it.next(), &mut out);
                    }
                } else {
                    // 2. calls generated against the evolving map (so that later calls read what
                    //    earlier ones wrote), executed one by one: case b; as one block: case a
                    let ncalls = 2 + r2.below(4) as usize;
                    let mut calls = Vec::new();
                    let mut bops = prefix.clone();
                    for _ in 0..ncalls {
                        let v = view(&m);
                        let c = if r2.chance(2, 3) { gen_sewish(&mut r2, &v) } else { gen_call(&mut r2, &v, mask, 0) };
                        let o = Op::Force(None, c.clone());
                        exec(&mut m, &o);
                        calls.push(c);
                        bops.push(o);
                    }
                    let mut aops = prefix.clone();
                    aops.push(Op::Block(None, calls));
                    let mut it = bops.into_iter();
                    run_case(&format!("{tag}{i}b"), mask, n0, &mut |_, _| it.next(), &mut out);
                    let mut it = aops.into_iter();
                    run_case(&format!("{tag}{i}a"), mask, n0, &mut |_, _| it.next(), &mut out);
                }
            }
        }
        "grid" => {
            // a small grid of squares built through the public calls (unobserved prefix), with
            // data on its cells, then a history dominated by 2-unsews / 2-sews (C04)
            let mut rng = Rng::new(seed);
            for i in 0..ncases {
                let mask = [15u32, 11, 3, 1, 0, 15][rng.below(6) as usize];
                let nx = 1 + rng.below(3) as u32;
                let ny = 1 + rng.below(3) as u32;
                let n0 = 4 * nx * ny + rng.below(3) as u32;
                let mut ops: Vec<Op> = vec![Op::Obs(false)];
                let dart = |ix: u32, iy: u32, k: u32| 1 + 4 * (ix + nx * iy) + k;
                for iy in 0..ny {
                    for ix in 0..nx {
                        for k in 0..4 {
                            ops.push(Op::Force(None, Call::Link1(dart(ix, iy, k), dart(ix, iy, (k + 1) % 4))));
                        }
                        let (x, y) = (f64::from(ix), f64::from(iy));
                        let jit = |r: &mut Rng| if r.chance(1, 6) { 0.25 } else { 0.0 };
                        ops.push(Op::Force(None, Call::WriteVertex(dart(ix, iy, 0), x + jit(&mut rng), y)));
                        ops.push(Op::Force(None, Call::WriteVertex(dart(ix, iy, 1), x + 1.0, y + jit(&mut rng))));
                        ops.push(Op::Force(None, Call::WriteVertex(dart(ix, iy, 2), x + 1.0, y + 1.0)));
                        ops.push(Op::Force(None, Call::WriteVertex(dart(ix, iy, 3), x, y + 1.0)));
                    }
                }
                for iy in 0..ny {
                    for ix in 0..nx {
                        if ix + 1 < nx {
                            ops.push(Op::Force(None, Call::Sew2(dart(ix, iy, 1), dart(ix + 1, iy, 3))));
                        }
                        if iy + 1 < ny {
                            ops.push(Op::Force(None, Call::Sew2(dart(ix, iy, 2), dart(ix, iy + 1, 0))));
                        }
                    }
                }
                ops.push(Op::Obs(true));
                let nops = 2 + rng.below(maxops as u64) as usize;
                let mut r2 = Rng::new(rng.next());
                let mut it = ops.into_iter();
                let mut extra = 0usize;
                run_case(
                    &format!("{tag}{i}"),
                    mask,
                    n0,
                    &mut |m, _| {
                        if let Some(o) = it.next() {
                            return Some(o);
                        }
                        if extra >= nops {
                            return None;
                        }
                        extra += 1;
                        let v = view(m);
                        let t = |_: u32| true;
                        Some(match r2.below(10) {
                            0..=2 => Op::Force(None, Call::Unsew2(gen_dart(&mut r2, &v, |d| v.b[d as usize][2] != 0, false))),
                            3..=5 => {
                                let l = gen_dart(&mut r2, &v, |d| v.b[d as usize][2] == 0, false);
                                let r = gen_dart(&mut r2, &v, |d| v.b[d as usize][2] == 0 && d != l, false);
                                Op::Force(None, Call::Sew2(l, r))
                            }
                            6 if mask != 0 => {
                                let ks: Vec<u32> = (0..N_KINDS).filter(|k| mask & (1 << k) != 0).collect();
                                let k = *r2.pick(&ks);
                                let d = gen_dart(&mut r2, &v, t, false);
                                // write at the cell identifier the kind is bound to
                                let id = match k {
                                    0 | 3 => m.vertex_id(d),
                                    1 => m.edge_id(d),
                                    _ => m.face_id(d),
                                };
                                Op::Force(None, Call::WriteAttr(k, id, 1 + r2.below(60)))
                            }
                            7 => Op::Force(None, Call::Unsew1(gen_dart(&mut r2, &v, |d| v.b[d as usize][1] != 0, false))),
                            _ => gen_op(&mut r2, m, mask, 0, 0),
                        })
                    },
                    &mut out,
                );
            }
        }
        "kern" | "kcompose" | "kfault" => {
            let mut rng = Rng::new(seed);
            for i in 0..ncases {
                let polygon = match only.as_str() {
                    "tri" => true,
                    "remesh" => false,
                    "insert" => rng.chance(1, 4),
                    _ => rng.chance(2, 5),
                };
                let user = if mode == "kfault" { [1u32, 3, 9, 11, 15][rng.below(5) as usize] } else if rng.chance(1, 3) { rng.below(16) as u32 } else { 0 };
                let anchors = if !polygon && rng.chance(1, 2) { 0x70 } else { 0 };
                let mask = user | anchors;
                let (mut prefix, used, poly) = if polygon {
                    let shape = rng.below(6).min(4) as u32;
                    let k = if shape == 4 { 4 + rng.below(9) as u32 } else { 3 + rng.below(8) as u32 };
                    let ccw = rng.chance(3, 4);
                    let (p, u) = prefix_polygon(&mut rng, k, shape, ccw);
                    (p, u, Some((1u32, k)))
                } else {
                    let (nx, ny) = (1 + rng.below(4) as u32, 1 + rng.below(4) as u32);
                    let (p, u) = prefix_trimesh(&mut rng, nx, ny, anchors != 0);
                    (p, u, None)
                };
                let n0 = used + rng.below(2) as u32;
                // replay the prefix on a scratch map to learn ids for the anchors
                let mut m = build2(n0 as usize, mask);
                for o in &prefix {
                    exec(&mut m, o);
                }
                if user != 0 {
                    // user attribute values on every cell id
                    for vtx in m.iter_vertices().collect::<Vec<_>>() {
                        for k in [0u32, 3] {
                            if mask & (1 << k) != 0 {
                                prefix.push(Op::Force(None, Call::WriteAttr(k, vtx, 1 + rng.below(50))));
                            }
                        }
                    }
                    if mask & 2 != 0 {
                        for e in m.iter_edges().collect::<Vec<_>>() {
                            prefix.push(Op::Force(None, Call::WriteAttr(1, e, 1 + rng.below(50))));
                        }
                    }
                    if mask & 4 != 0 {
                        for f in m.iter_faces().collect::<Vec<_>>() {
                            prefix.push(Op::Force(None, Call::WriteAttr(2, f, 1 + rng.below(50))));
                        }
                    }
                }
                if only == "insert" && rng.chance(1, 3) {
                    // open some faces: 1-free darts, dangling darts
                    for _ in 0..1 + rng.below(3) {
                        let d = 1 + rng.below(u64::from(used)) as u32;
                        prefix.push(Op::Force(None, Call::Unsew1(d)));
                    }
                }
                if rng.chance(1, 10) {
                    // an undefined vertex somewhere (error clauses)
                    let d = 1 + rng.below(u64::from(used)) as u32;
                    prefix.push(Op::Force(None, Call::RemoveVertex(m.vertex_id(d))));
                }
                prefix.push(Op::Obs(true));
                let mut m = build2(n0 as usize, mask);
                for o in &prefix {
                    exec(&mut m, o);
                }
                let nops = if mode == "kern" { 1 + rng.below(maxops as u64) as usize } else { 1 + rng.below(3) as usize };
                let mut r2 = Rng::new(rng.next());
                // generate the tail against the evolving scratch map
                let mut tail: Vec<Op> = Vec::new();
                let mut items: Vec<Item> = Vec::new();
                let mut prelinks: Vec<Op> = Vec::new();
                // kcompose: sometimes the block first inserts a vertex on a side of the polygon and then triangulates
                // it -- the triangulation must walk the face as the transaction left it (one more side)
                let mut poly = poly;
                let grow = mode == "kcompose" && poly.is_some() && only != "insert" && only != "remesh" && r2.chance(1, 3);
                let nops = if grow { nops.max(2) } else { nops };
                for iop in 0..nops {
                    let fresh = m.n_darts() as u32;
                    let alloc = Op::AddDarts(24);
                    exec(&mut m, &alloc);
                    tail.push(alloc);
                    let pl = if r2.chance(9, 10) || grow { poly } else { None };
                    let k = match (grow && iop == 0, poly) {
                        (true, Some((f, sides))) => {
                            let e = 1 + r2.below(u64::from(sides)) as u32;
                            poly = Some((f, sides + 1));
                            KCall::InsertVertex(e, fresh, fresh + 1, if r2.chance(1, 2) { Some(0.5) } else { None })
                        }
                        _ => gen_kcall(&mut r2, &m, fresh, pl, &only),
                    };
                    // spare darts that are linked in the committed map and freed earlier in the
                    // same block: the kernel must see its own transaction's view of them
                    if mode == "kcompose" && r2.chance(1, 3) {
                        let sp: Option<(u32, u32)> = match &k {
                            KCall::InsertVertex(_, a, b, _) if *a >= fresh && *b >= fresh && a != b => Some((*a, *b)),
                            KCall::InsertVertices(_, nds, _) if nds.len() >= 2 && nds[0] >= fresh && nds[1] >= fresh => Some((nds[0], nds[1])),
                            _ => None,
                        };
                        if let Some((a, b)) = sp {
                            let pre_link = Op::Force(None, Call::Link1(a, b));
                            exec(&mut m, &pre_link);
                            prelinks.push(pre_link);
                            let un = Call::Unlink1(a);
                            let o = Op::Force(None, un.clone());
                            exec(&mut m, &o);
                            tail.push(o);
                            items.push(Item::C(un));
                        }
                    }
                    let o = if mode == "kern" && r2.chance(1, 6) {
                        Op::KBlock(None, vec![Item::K(k.clone())])
                    } else {
                        Op::Kern(None, k.clone())
                    };
                    exec(&mut m, &o);
                    tail.push(o);
                    items.push(Item::K(k));
                    if mode != "kern" && r2.chance(1, 2) {
                        let v = view(&m);
                        let c = gen_sewish(&mut r2, &v);
                        let o = Op::Force(None, c.clone());
                        exec(&mut m, &o);
                        tail.push(o);
                        items.push(Item::C(c));
                    }
                }
                match mode.as_str() {
                    "kern" => {
                        let mut it = prefix.into_iter().chain(tail);
                        run_case(&format!("{tag}{i}"), mask, n0, &mut |_, _| it.next(), &mut out);
                    }
                    "kcompose" => {
                        // the spare darts are allocated up front in both variants
                        let allocs: Vec<Op> = tail.iter().filter(|o| matches!(o, Op::AddDarts(_))).cloned().collect();
                        let seq: Vec<Op> = tail.iter().filter(|o| !matches!(o, Op::AddDarts(_))).cloned().collect();
                        let mut pre = prefix.clone();
                        let obs = pre.pop().unwrap();
                        pre.extend(allocs);
                        pre.extend(prelinks.clone());
                        pre.push(obs);
                        let mut it = pre.clone().into_iter().chain(seq);
                        run_case(&format!("{tag}{i}b"), mask, n0, &mut |_, _| it.next(), &mut out);
                        let mut it = pre.into_iter().chain(std::iter::once(Op::KBlock(None, items)));
                        run_case(&format!("{tag}{i}a"), mask, n0, &mut |_, _| it.next(), &mut out);
                    }
                    _ => {
                        // fault enumeration on the last kernel call
                        let last = tail.pop().unwrap();
                        let last_k = match &last {
                            Op::Kern(_, k) => Op::Kern(None, k.clone()),
                            o => o.clone(),
                        };
                        let mut sc = build2(n0 as usize, mask);
                        for o in prefix.iter().chain(tail.iter()) {
                            exec(&mut sc, o);
                        }
                        reset_last();
                        exec(&mut sc, &last_k);
                        let calls = last_law_calls().min(16);
                        for k in std::iter::once(None).chain((0..calls).map(Some)) {
                            let fin = match &last_k {
                                Op::Kern(_, kc) => Op::Kern(k, kc.clone()),
                                Op::Force(_, c) => Op::Force(k, c.clone()),
                                o => o.clone(),
                            };
                            let mut it = prefix.clone().into_iter().chain(tail.clone()).chain(std::iter::once(fin));
                            let kk = k.map_or("n".to_string(), |x| x.to_string());
                            run_case(&format!("{tag}{i}k{kk}"), mask, n0, &mut |_, _| it.next(), &mut out);
                        }
                    }
                }
            }
        }
        "parse" => {
            // C10: valid serializations mutated at token / line / section level, and random texts
            // over the section grammar; the case line is the lexed text
            let mut rng = Rng::new(seed);
            for i in 0..ncases {
                let n0 = 1 + rng.below(maxn) as u32;
                let mut m = build2(n0 as usize, 0);
                let mut r2 = Rng::new(rng.next());
                for _ in 0..rng.below(maxops as u64 + 1) {
                    let o = gen_op(&mut r2, &m, 0, 0, 0);
                    exec(&mut m, &o);
                }
                let mut text = String::new();
                m.serialize(&mut text);
                let mut lines: Vec<String> = text.lines().map(str::to_string).collect();
                let nmut = rng.below(4);
                for _ in 0..nmut {
                    mutate_text(&mut r2, &mut lines, m.n_darts() as u64);
                }
                // whatever the mutations did to the section structure, the META section only keeps small counts
                // (a count of 2^32 makes the builder allocate 32 GB: a resource failure, not a parsing outcome)
                let mut in_meta = false;
                for l in &mut lines {
                    let t = l.trim();
                    if t.starts_with('[') {
                        in_meta = t.to_ascii_lowercase().starts_with("[meta");
                    } else if in_meta {
                        let toks: Vec<String> =
                            l.split_whitespace().map(|x| if x.parse::<u64>().is_ok_and(|v| v > 100_000) { "7".to_string() } else { x.to_string() }).collect();
                        *l = toks.join(" ");
                    }
                }
                let text = lines.join("\n") + "\n";
                let (cls, built) = build_from_text(&text, "p");
                let mut case = format!("{tag}{i}");
                lex(&text, &mut case);
                writeln!(out.cases, "{case}").unwrap();
                let mut o = format!("{tag}{i} 0 {cls} 0 0");
                if let Some(b) = built {
                    dump2(&b, 0, &mut o);
                }
                writeln!(out.obs, "{o}").unwrap();
            }
        }
        "exhq" => {
            let n = maxn as u32;
            for (id, (b1, b2, rem)) in all_maps(n).iter().enumerate() {
                let mut ops: Vec<Op> = vec![Op::Obs(false)];
                for (a, b) in b1 {
                    ops.push(Op::Force(None, Call::Link1(*a, *b)));
                }
                for (a, b) in b2 {
                    ops.push(Op::Force(None, Call::Link2(*a, *b)));
                }
                for d in rem {
                    ops.push(Op::RemoveDart(*d));
                }
                ops.push(Op::Obs(true));
                ops.push(Op::Query);
                let mut it = ops.into_iter();
                run_case(&format!("q{n}_{id}"), 0, n, &mut |_, _| it.next(), &mut out);
            }
        }
        "replay" => {
            let input = std::fs::read_to_string(get("--in", "cases.txt")).unwrap();
            for l in input.lines() {
                let toks: Vec<&str> = l.split_whitespace().collect();
                if toks.len() < 3 {
                    continue;
                }
                let mask: u32 = toks[1].parse().unwrap();
                let n0: u32 = toks[2].parse().unwrap();
                let ops = parse_ops(&toks[3..]);
                let mut it = ops.into_iter();
                run_case(toks[0], mask, n0, &mut |_, _| it.next(), &mut out);
            }
        }
        _ => panic!("unknown mode"),
    }
    out.cases.flush().unwrap();
    out.obs.flush().unwrap();
    out.ops.flush().unwrap();
    let _ = NULL_DART_ID;
    let _: Option<DartIdType> = None;
}
