
(** val add : Float64.t -> Float64.t -> Float64.t **)

let add = Float64.add

(** val div : Float64.t -> Float64.t -> Float64.t **)

let div = Float64.div
