(** * C19: model runner for the generated geometry and the law checker applied to
    implementation observations (exact dyadic arithmetic).  Model only. *)
From Coq Require Import List NArith ZArith Bool Floats.
From HC Require Import Geom.GenGeom Geom.GeomPrim Extract.Tok Extract.Dyadic.
Import ListNotations.
Open Scope Z_scope.

Definition floats_of (ts : list tok) : list float :=
  map (fun t => match t with TF f => f | TZ z => 0%float end) ts.

Definition run_geom (ts : list tok) : list (list tok) :=
  match ts with
  | TZ op :: args => [map TF (geom_run pops (Z.to_nat op) (floats_of args))]
  | _ => [[TZ (-1)]]
  end.

(** ** laws *)
Definition dabs (a : dy) : dy := (Z.abs (fst a), snd a).
Definition dy_leb (a b : dy) : bool := negb (dy_sgn (dy_sub a b) >? 0).
Definition dy_pow2 (e : Z) : dy := (1, e).
Definition dys (l : list float) : option (list dy) :=
  fold_right (fun f acc => match dy_of_float f, acc with Some d, Some r => Some (d :: r) | _, _ => None end) (Some []) l.
Definition sum_abs (l : list dy) : dy := fold_left (fun a x => dy_add a (dabs x)) l dy_zero.
Definition dmax (a b : dy) : dy := if dy_leb a b then b else a.
Definition is_pzero (f : float) : bool := feqb f 0%float.
Definition fzero_any (f : float) : bool := (f =? 0)%float.

Fixpoint forall2b {X Y} (p : X -> Y -> bool) (a : list X) (b : list Y) : bool :=
  match a, b with
  | [], [] => true
  | x :: a', y :: b' => p x y && forall2b p a' b'
  | _, _ => false
  end.

Definition to_nat_f (f : float) : nat :=
  if (f =? 2)%float then 2%nat else if (f =? 3)%float then 3%nat else if (f =? 1)%float then 1%nat else 0%nat.

(** tolerance: 2^-(p-6) relative to the given scale *)
Definition small (p : Z) (x scale : dy) : bool := dy_leb (dabs x) (dy_mul (dy_pow2 (6 - p)) scale).

Definition dot_dy (a b : list dy) : dy := fold_left dy_add (map (fun xy => dy_mul (fst xy) (snd xy)) (combine a b)) dy_zero.

Definition check_law (p : Z) (code : Z) (fs : list float) : bool :=
  match code with
  | 1 => (* assign = binary, bit for bit *)
    match fs with
    | n :: rest => let k := to_nat_f n in
                   forall2b feqb (firstn k rest) (firstn k (skipn k rest)) && Nat.eqb (length rest) (2 * k)
    | _ => false
    end
  | 2 => match fs with _ :: rest => forallb is_pzero rest | _ => false end
  | 3 => (* (v + u) - v = u up to rounding *)
    match fs with
    | n :: rest =>
      let k := to_nat_f n in
      match dys (firstn k rest), dys (firstn k (skipn k rest)), dys (skipn (2 * k) rest) with
      | Some v, Some u, Some r =>
        forall2b (fun vu ri => small p (dy_sub ri (snd vu)) (dy_add (dabs (fst vu)) (dabs (snd vu)))) (combine v u) r
      | _, _, _ => false
      end
    | _ => false
    end
  | 4 => match fs with [a; b] => feqb a b | _ => false end
  | 5 => match dys (firstn 3 fs), dys (skipn 3 fs) with
         | Some a, Some b => forall2b (fun x y => dy_eqb x (dy_sub dy_zero y)) a b
         | _, _ => false
         end
  | 6 => match dys (firstn 3 fs), dys (firstn 3 (skipn 3 fs)), dys (skipn 6 fs) with
         | Some a, Some b, Some c =>
           let sc := dy_mul (dy_mul (sum_abs a) (sum_abs a)) (sum_abs b) in
           let sc' := dy_mul (dy_mul (sum_abs b) (sum_abs b)) (sum_abs a) in
           small p (dot_dy a c) (dy_mul (8, 0) sc) && small p (dot_dy b c) (dy_mul (8, 0) sc')
         | _, _, _ => false
         end
  | 7 => match dys (firstn 6 fs), skipn 6 fs with
         | Some [x1; y1; x2; y2; x3; y3], [r] =>
           let d := dy_cross (x1, y1) (x2, y2) (x3, y3) in
           let band := dy_mul (dy_pow2 (8 - p))
                         (dy_add (dy_mul (dabs (dy_sub x2 x1)) (dabs (dy_sub y3 y2)))
                                 (dy_mul (dabs (dy_sub y2 y1)) (dabs (dy_sub x3 x2)))) in
           if dy_leb (dabs d) band then true
           else if dy_sgn d >? 0 then (0 <? r)%float else (r <? 0)%float
         | _, _ => false
         end
  | 8 => match fs with
         | n :: rest =>
           let k := to_nat_f n in
           let v := firstn k rest in
           match skipn k rest with
           | ok :: u =>
             if forallb fzero_any v then fzero_any ok          (* fails exactly on the null vector *)
             else negb (fzero_any ok) &&
                  match dys v, dys u with
                  | Some dv, Some du =>
                    small p (dy_sub (dot_dy du du) (1, 0)) (1, 0) &&
                    (dy_sgn (dot_dy du dv) >? 0) &&
                    (* parallel: every 2x2 minor of (u, v) vanishes up to rounding *)
                    forallb (fun ij => small p (dy_sub (dy_mul (nth (fst ij) du dy_zero) (nth (snd ij) dv dy_zero))
                                                       (dy_mul (nth (snd ij) du dy_zero) (nth (fst ij) dv dy_zero)))
                                             (sum_abs dv))
                            [(0, 1); (0, 2); (1, 2)]%nat
                  | _, _ => false
                  end
           | _ => false
           end
         | _ => false
         end
  | 9 => match fs with
         | [x; y; ok; wx; wy] =>
           if fzero_any x && fzero_any y then fzero_any ok
           else negb (fzero_any ok) &&
                match dys [x; y], dys [wx; wy] with
                | Some [dx; dyy], Some [dwx; dwy] =>
                  small p (dy_sub (dot_dy [dwx; dwy] [dwx; dwy]) (1, 0)) (1, 0) &&
                  small p (dot_dy [dx; dyy] [dwx; dwy]) (sum_abs [dx; dyy]) &&
                  (dy_sgn (dy_sub (dy_mul dx dwy) (dy_mul dyy dwx)) >? 0)      (* quarter turn counter-clockwise *)
                | _, _ => false
                end
         | _ => false
         end
  | 10 => match fs with
          | n :: rest =>
            let k := to_nat_f n in
            let a := firstn k rest in let b := firstn k (skipn k rest) in
            let m1 := firstn k (skipn (2 * k) rest) in let m2 := skipn (3 * k) rest in
            forall2b feqb m1 m2 &&
            match dys a, dys b, dys m1 with
            | Some da, Some db, Some dm =>
              forall2b (fun ab m => (dy_leb (fst ab) m && dy_leb m (snd ab)) || (dy_leb (snd ab) m && dy_leb m (fst ab)))
                       (combine da db) dm
            | _, _, _ => false
            end
          | _ => false
          end
  | 11 => match fs with
          | [reg; s0; s_start; s_trans; s_rot; s_scale; m] =>
            let tol := 0x1p-30%float in
            (* a translation by m leaves coordinates known to m * 2^-53 only: the angles of a polygon of diameter 4
               (sides above 1/2) move by a few m * 2^-52, hence "up to rounding" is relative to m for that image *)
            let tol_t := (tol + PrimFloat.abs m * 0x1p-44)%float in
            forallb (fun s => (- tol <=? s)%float && (s <=? 1 + tol)%float && (PrimFloat.abs (s - s0) <=? tol)%float)
                    [s0; s_start; s_rot; s_scale] &&
            (- tol_t <=? s_trans)%float && (s_trans <=? 1 + tol_t)%float && (PrimFloat.abs (s_trans - s0) <=? tol_t)%float &&
            (fzero_any reg || (PrimFloat.abs s0 <=? tol)%float)
          | _ => false
          end
  | _ => false
  end.

Definition oracle_geom_law (ts : list tok) : list (list tok) :=
  match ts with
  | TZ p :: TZ code :: rest => [[if check_law p code (floats_of rest) then TZ 1 else TZ 0; TZ code]]
  | _ => [[TZ (-1)]]
  end.
