(** * The "query" observation of 2-maps (orbits, ids, iterators) and the C03 oracle.
    Model only, no proofs. *)
From Coq Require Import List NArith ZArith Bool Floats.
From HC Require Import Base.Closure Stm.Prog Map2.Ops2 Map2.State2 Map2.Wf2 Map2.Orbit2
  Extract.Tok Extract.Run2.
Import ListNotations.
Open Scope N_scope.

Definition query_policies : list policy :=
  [PVertex; PVertexLinear; PEdge; PFace; PFaceLinear; PCustom [1; 2]; PCustom [0]; PCustom [2; 0; 1]].

Definition tlist (l : list N) : list tok := tN (N.of_nat (length l)) :: map tN l.
(* a failed evaluation (panic) is rendered as the length -1 *)
Definition topt_list (o : option (list N)) : list tok :=
  match o with Some l => tlist l | None => [TZ (-1)] end.
Definition topt (o : option N) : list tok :=
  match o with Some x => [tN x] | None => [TZ (-1)] end.

Definition query_dart (st : state2) (d : N) : list tok :=
  let E := env2 st None in
  let n := nd st in let s := mem st in
  flat_map (fun p => topt_list (orbit2 n s p d) ++ topt_list (eval E (orbit2_tx n p d) s)) query_policies ++
  topt (eval E (vertex_id_tx n d) s) ++ topt (eval E (edge_id_tx d) s) ++ topt (eval E (face_id_tx n d) s).

Definition query2 (st : state2) : list tok :=
  let E := env2 st None in
  let n := nd st in let s := mem st in
  tN n :: flat_map (query_dart st) (tl (nrange n)) ++
  tlist (iter_vertices2 E n s) ++ tlist (iter_edges2 E n s) ++ tlist (iter_faces2 E n s).

(** ** oracle: the implementation's answers against the *specification* of C03,
    evaluated with the verified closure [orbit2] on the implementation's own map dump *)
Definition take_list (ts : list tok) : option (list N * list tok) :=
  match ts with
  | TZ len :: rest =>
    if (len <? 0)%Z then None else
    let k := Z.to_nat len in
    let l := firstn k rest in
    if Nat.eqb (length l) k
    then Some (map (fun t => match t with TZ z => zN z | TF _ => 0 end) l, skipn k rest)
    else None
  | _ => None
  end.

Definition take_N (ts : list tok) : option (N * list tok) :=
  match ts with TZ z :: rest => if (z <? 0)%Z then None else Some (zN z, rest) | _ => None end.

Definition subsetb (a b : list N) : bool := forallb (fun x => mem_N x b) a.
Fixpoint nodupb (l : list N) : bool :=
  match l with [] => true | x :: r => negb (mem_N x r) && nodupb r end.
Definition hd_is (d : N) (l : list N) : bool := match l with x :: _ => x =? d | [] => false end.
Fixpoint list_eqb (a b : list N) : bool :=
  match a, b with
  | [], [] => true
  | x :: a', y :: b' => (x =? y) && list_eqb a' b'
  | _, _ => false
  end.
Definition is_min (r : N) (l : list N) : bool := mem_N r l && forallb (fun x => r <=? x) l.

(** what C03 says of one orbit answer [l] for dart [d] under policy [p] *)
Definition orbit_specb (n : N) (s : store) (p : policy) (d : N) (l : list N) : bool :=
  match orbit2 n s p d with
  | Some spec => hd_is d l && nodupb l && negb (mem_N 0 l) && subsetb l spec && subsetb spec l
  | None => false
  end.

(* failure classes: 1 orbit, 2 transactional orbit differs, 3 id not the minimum, 4 iterator *)
Fixpoint check_policies (n : N) (s : store) (d : N) (ps : list policy) (ts : list tok) : option (N * list tok) :=
  match ps with
  | [] => Some (0, ts)
  | p :: ps' =>
    match take_list ts with
    | Some (l1, ts1) =>
      match take_list ts1 with
      | Some (l2, ts2) =>
        if negb (orbit_specb n s p d l1) then Some (1, ts2)
        else if negb (list_eqb l1 l2) then Some (2, ts2)
        else check_policies n s d ps' ts2
      | None => Some (2, ts1)
      end
    | None => Some (1, ts)
    end
  end.

Definition id_ok (n : N) (s : store) (p : policy) (d r : N) : bool :=
  match orbit2 n s p d with Some spec => is_min r spec | None => false end.

Fixpoint check_darts (n : N) (s : store) (ds : list N) (ts : list tok) : option (N * list tok) :=
  match ds with
  | [] => Some (0, ts)
  | d :: ds' =>
    match check_policies n s d query_policies ts with
    | Some (0%N, ts1) =>
      match take_N ts1 with
      | Some (v, ts2) =>
        match take_N ts2 with
        | Some (e, ts3) =>
          match take_N ts3 with
          | Some (f, ts4) =>
            if id_ok n s PVertex d v && id_ok n s PEdge d e && id_ok n s PFace d f
            then check_darts n s ds' ts4 else Some (3, ts4)
          | None => Some (3, ts3)
          end
        | None => Some (3, ts2)
        end
      | None => Some (3, ts1)
      end
    | other => other
    end
  end.

Definition iter_specb (n : N) (s : store) (p : policy) (l : list N) : bool :=
  list_eqb l (filter (fun d => negb (d =? 0) && negb (unused s d) && id_ok n s p d d) (nrange n)).

Definition oracle_query2 (ts : list tok) : list (list tok) :=
  match split_step ts with
  | Some (pre, TZ 8 :: _, post) =>
    match obs_state pre, post with
    | Some st, _ :: _ :: _ :: TZ n' :: q =>
      let n := nd st in let s := mem st in
      if negb (wf2b n s) then [[TZ 2]] else
      match check_darts n s (tl (nrange n)) q with
      | Some (0%N, rest) =>
        match take_list rest with
        | Some (lv, r1) =>
          match take_list r1 with
          | Some (le, r2) =>
            match take_list r2 with
            | Some (lf, []) =>
              if iter_specb n s PVertex lv && iter_specb n s PEdge le && iter_specb n s PFace lf
              then [[TZ 1]] else [[TZ 0; TZ 4]]
            | _ => [[TZ 0; TZ 4]]
            end
          | None => [[TZ 0; TZ 4]]
          end
        | None => [[TZ 0; TZ 4]]
        end
      | Some (c, _) => [[TZ 0; tN c]]
      | None => [[TZ (-1)]]
      end
    | _, _ => [[TZ (-1)]]
    end
  | Some _ => [[TZ 2]]
  | None => [[TZ (-1)]]
  end%Z.
