(** * Step oracles for C06 and C18 applied to implementation observations. Model only. *)
From Coq Require Import List NArith ZArith Bool Floats.
From HC Require Import Stm.Prog Map2.Ops2 Map2.State2 Map2.Wf2 Extract.Tok Extract.Run2.
Import ListNotations.
Open Scope N_scope.

(** C06: a step that reports an error leaves every observable unchanged *)
Definition oracle_err_noop (ts : list tok) : list (list tok) :=
  match split_step ts with
  | Some (_, TZ 8%Z :: _, _) => [[TZ 2%Z]]
  | Some (pre, op, post) =>
    match pre, post with
    | _ :: _ :: _ :: dpre, TZ cls :: _ :: _ :: dpost =>
      if (cls =? 1)%Z then (if toks_eqb dpre dpost then [[TZ 1%Z]] else [[TZ 0%Z; TZ 1%Z]]) else [[TZ 2%Z]]
    | _, _ => [[TZ (-1)%Z]]
    end
  | None => [[TZ (-1)%Z]]
  end.

(** C18 *)
Definition slot_toks (st : state2) (d : N) : list tok := dump_dart (aks st) (mem st) d.
Definition same_slots (st st' : state2) (ds : list N) : bool :=
  forallb (fun d => toks_eqb (slot_toks st d) (slot_toks st' d)) ds.
Definition blank_toks (st : state2) : list tok :=
  [tN 0; tN 0; tN 0; tB false; TZ 0%Z] ++ map (fun _ => TZ 0%Z) (aks st).
Definition first_unused (st : state2) : option N := find_unused (mem st) 0 (N.to_nat (nd st)).
Definition except (d : N) (l : list N) : list N := filter (fun x => negb (x =? d)) l.

(* classes: 1 id / counts, 2 appended slot not blank, 3 reused slot keeps old data,
   4 removal wrongly accepted or refused, 5 unrelated state changed, 6 reused slot not free/in use *)
Definition alloc_append_ok (st st' : state2) (k ret : N) (okres : bool) : list tok :=
  if negb okres || negb (ret =? nd st) || negb (nd st' =? nd st + k) then [TZ 0%Z; TZ 1%Z]
  else if negb (same_slots st st' (nrange (nd st))) then [TZ 0%Z; TZ 5%Z]
  else if negb (forallb (fun d => toks_eqb (slot_toks st' d) (blank_toks st'))
                        (map (fun j => nd st + j) (nrange k))) then [TZ 0%Z; TZ 2%Z]
  else [TZ 1%Z].

Definition oracle_alloc (ts : list tok) : list (list tok) :=
  match split_step ts with
  | Some (pre, op, post) =>
    match obs_state pre, obs_state post, post with
    | Some st, Some st', TZ cls :: _ :: TZ ret :: _ =>
      if negb (wf2b (nd st) (mem st)) || unused (mem st) 0 then [[TZ 2%Z]] else
      let okres := (cls =? 0)%Z in let r := zN ret in
      match op with
      | [TZ 1%Z] => [alloc_append_ok st st' 1 r okres]
      | [TZ 2%Z; TZ k] => [alloc_append_ok st st' (zN k) r okres]
      | [TZ 3%Z] =>
        match first_unused st with
        | None => [alloc_append_ok st st' 1 r okres]
        | Some d =>
          if negb okres || negb (r =? d) || negb (nd st' =? nd st) then [[TZ 0%Z; TZ 1%Z]]
          else if negb (same_slots st st' (except d (nrange (nd st)))) then [[TZ 0%Z; TZ 5%Z]]
          else if unused (mem st') d || negb (is_free2 (mem st') d) then [[TZ 0%Z; TZ 6%Z]]
          else if negb (toks_eqb (slot_toks st' d) (blank_toks st')) then [[TZ 0%Z; TZ 3%Z]]
          else [[TZ 1%Z]]
        end
      | [TZ 4%Z; TZ dz] =>
        let d := zN dz in
        if (d =? 0) || negb (d <? nd st) then [[TZ 2%Z]] else
        if is_free2 (mem st) d && negb (unused (mem st) d) then
          if negb okres || negb (unused (mem st') d) || negb (nd st' =? nd st) then [[TZ 0%Z; TZ 4%Z]]
          else if negb (same_slots st st' (except d (nrange (nd st)))) then [[TZ 0%Z; TZ 5%Z]]
          else [[TZ 1%Z]]
        else
          if okres then [[TZ 0%Z; TZ 4%Z]]
          else if negb (nd st' =? nd st) || negb (same_slots st st' (nrange (nd st))) then [[TZ 0%Z; TZ 5%Z]]
          else [[TZ 1%Z]]
      | _ => [[TZ 2%Z]]
      end
    | _, _, _ => match op with TZ 8%Z :: _ => [[TZ 2%Z]] | _ => [[TZ (-1)%Z]] end
    end
  | None => [[TZ (-1)%Z]]
  end.
