(** * C20: the scene extracted by the viewer, as dumped by harness-render. Parsing only. *)
From Coq Require Import List NArith ZArith Bool Floats.
From HC Require Import Extract.Tok.
Import ListNotations.

Definition F3 := (float * float * float)%type.
Record scene := {
  s_tab : list F3;
  s_vertices : list (Z * nat);                 (* vertex id, table index *)
  s_edges : list (Z * nat * nat);
  s_faces : list (Z * list nat);
  s_darts : list (Z * Z * Z * Z * Z * nat * nat); (* dart, vertex, edge, face, volume ids; start, end *)
  s_fnormals : list (Z * nat * F3);
  s_vnormals : list (Z * nat * F3) }.

Definition zn (z : Z) : nat := Z.to_nat z.

Fixpoint take_f3 (k : nat) (ts : list tok) : option (list F3 * list tok) :=
  match k with
  | O => Some ([], ts)
  | S k' => match ts with
            | TF x :: TF y :: TF z :: r => match take_f3 k' r with Some (l, r') => Some ((x, y, z) :: l, r') | None => None end
            | _ => None end
  end.
Fixpoint take_v (k : nat) (ts : list tok) : option (list (Z * nat) * list tok) :=
  match k with
  | O => Some ([], ts)
  | S k' => match ts with
            | TZ i :: TZ x :: r => match take_v k' r with Some (l, r') => Some ((i, zn x) :: l, r') | None => None end
            | _ => None end
  end.
Fixpoint take_e (k : nat) (ts : list tok) : option (list (Z * nat * nat) * list tok) :=
  match k with
  | O => Some ([], ts)
  | S k' => match ts with
            | TZ i :: TZ a :: TZ b :: r => match take_e k' r with Some (l, r') => Some ((i, zn a, zn b) :: l, r') | None => None end
            | _ => None end
  end.
Fixpoint take_ns (k : nat) (ts : list tok) : option (list nat * list tok) :=
  match k with
  | O => Some ([], ts)
  | S k' => match ts with
            | TZ a :: r => match take_ns k' r with Some (l, r') => Some (zn a :: l, r') | None => None end
            | _ => None end
  end.
Fixpoint take_f (k : nat) (ts : list tok) : option (list (Z * list nat) * list tok) :=
  match k with
  | O => Some ([], ts)
  | S k' => match ts with
            | TZ i :: TZ n :: r =>
              match take_ns (zn n) r with
              | Some (l, r1) => match take_f k' r1 with Some (fs, r') => Some ((i, l) :: fs, r') | None => None end
              | None => None end
            | _ => None end
  end.
Fixpoint take_d (k : nat) (ts : list tok) : option (list (Z * Z * Z * Z * Z * nat * nat) * list tok) :=
  match k with
  | O => Some ([], ts)
  | S k' => match ts with
            | TZ d :: TZ v :: TZ e :: TZ f :: TZ vol :: TZ a :: TZ b :: r =>
              match take_d k' r with Some (l, r') => Some ((d, v, e, f, vol, zn a, zn b) :: l, r') | None => None end
            | _ => None end
  end.
Fixpoint take_n (k : nat) (ts : list tok) : option (list (Z * nat * F3) * list tok) :=
  match k with
  | O => Some ([], ts)
  | S k' => match ts with
            | TZ f :: TZ i :: TF x :: TF y :: TF z :: r =>
              match take_n k' r with Some (l, r') => Some ((f, zn i, (x, y, z)) :: l, r') | None => None end
            | _ => None end
  end.

Definition parse_scene (ts : list tok) : option scene :=
  match ts with
  | TZ nt :: r0 =>
    match take_f3 (zn nt) r0 with
    | Some (tab, TZ nv :: r1) =>
      match take_v (zn nv) r1 with
      | Some (vs, TZ ne :: r2) =>
        match take_e (zn ne) r2 with
        | Some (es, TZ nf :: r3) =>
          match take_f (zn nf) r3 with
          | Some (fs, TZ nd :: r4) =>
            match take_d (zn nd) r4 with
            | Some (ds, TZ nn :: r5) =>
              match take_n (zn nn) r5 with
              | Some (fnl, TZ nvn :: r6) =>
                match take_n (zn nvn) r6 with
                | Some (vnl, []) => Some {| s_tab := tab; s_vertices := vs; s_edges := es; s_faces := fs; s_darts := ds;
                                            s_fnormals := fnl; s_vnormals := vnl |}
                | _ => None end
              | _ => None end
            | _ => None end
          | _ => None end
        | _ => None end
      | _ => None end
    | _ => None end
  | _ => None
  end.

(** a stored normal is a finite unit vector (f32 arithmetic upstream: tolerance 1e-3 on the squared norm) *)
Definition unit_finite (n : F3) : bool :=
  let '(x, y, z) := n in
  let q := (x * x + y * y + z * z)%float in
  (PrimFloat.abs (q - 1) <? 0x1p-10)%float.
(** a coordinate converted to f32: relative tolerance 2^-20 *)
Definition close32 (a b : float) : bool :=
  (PrimFloat.abs (a - b) <=? 0x1p-20 * (1 + PrimFloat.abs b))%float.

Fixpoint index_of (x : N) (l : list N) (k : nat) : option nat :=
  match l with [] => None | y :: r => if N.eqb x y then Some k else index_of x r (S k) end.
Definition zN' (z : Z) : N := Z.to_N z.
Fixpoint list_eqb_nat (a b : list nat) : bool :=
  match a, b with [], [] => true | x :: a', y :: b' => Nat.eqb x y && list_eqb_nat a' b' | _, _ => false end.
Fixpoint sortedN (l : list N) : list N :=     (* insertion sort *)
  let fix ins (x : N) (l : list N) := match l with [] => [x] | y :: r => if N.leb x y then x :: l else y :: ins x r end in
  match l with [] => [] | x :: r => ins x (sortedN r) end.
