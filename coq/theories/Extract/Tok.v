(** * Tokens exchanged with the Rust harness: integers and IEEE-754 doubles (bit-exact). *)
From Coq Require Import List NArith ZArith Bool Floats.
Import ListNotations.
Inductive tok := TZ (z : Z) | TF (f : float).
Definition tN (n : N) : tok := TZ (Z.of_N n).
Definition tB (b : bool) : tok := TZ (if b then 1 else 0)%Z.
Definition zN (z : Z) : N := Z.to_N z.

(** bit-level equality of tokens (NaNs are canonicalised by the harness; zeros keep their sign) *)
Definition feqb (a b : float) : bool :=
  if PrimFloat.is_nan a then PrimFloat.is_nan b
  else PrimFloat.eqb a b && (negb (PrimFloat.is_zero a) || PrimFloat.eqb (1 / a) (1 / b))%float.
Definition tok_eqb (a b : tok) : bool :=
  match a, b with
  | TZ x, TZ y => Z.eqb x y
  | TF x, TF y => feqb x y
  | _, _ => false
  end.
Fixpoint toks_eqb (a b : list tok) : bool :=
  match a, b with
  | [], [] => true
  | x :: a', y :: b' => tok_eqb x y && toks_eqb a' b'
  | _, _ => false
  end.
