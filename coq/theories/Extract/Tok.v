(** * Tokens exchanged with the Rust harness: integers and IEEE-754 doubles (bit-exact). *)
From Coq Require Import List NArith ZArith Bool Floats.
Import ListNotations.
Inductive tok := TZ (z : Z) | TF (f : float).
Definition tN (n : N) : tok := TZ (Z.of_N n).
Definition tB (b : bool) : tok := TZ (if b then 1 else 0)%Z.
Definition zN (z : Z) : N := Z.to_N z.
