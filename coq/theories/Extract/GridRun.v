(** * C12 (2D): executable model of the grid builders (parse_2d, build_2d_grid,
    build_2d_splitgrid on the GENERATED tables) and the oracle applied to implementation dumps.
    Model only. *)
From Coq Require Import List NArith ZArith Bool Floats.
From HC Require Import Base.Closure Stm.Prog Map2.Ops2 Map2.State2 Map2.Wf2 Map2.Orbit2
  Build.GenGrid Build.Grid2 Build.Grid2Gen Extract.Tok Extract.Dyadic Extract.Run2 Extract.Query2 Extract.Sew2Oracle.
Import ListNotations.
Open Scope Z_scope.

(** T::from(usize): exact for the sizes at hand (< 2^53), float operations only *)
Fixpoint float_of_pos (p : positive) : float :=
  match p with
  | xH => 1%float
  | xO q => (2 * float_of_pos q)%float
  | xI q => (2 * float_of_pos q + 1)%float
  end.
Definition float_of_Z (z : Z) : float := match z with Z0 => 0%float | Zpos p => float_of_pos p | Zneg p => (- float_of_pos p)%float end.

(** ceil(x).to_usize() for a non-negative finite x; None = the unwrap() panics *)
Definition ceil_to_Z (x : float) : option Z :=
  match dy_of_float x with
  | Some (m, e) =>
    if m <? 0 then None
    else if 0 <=? e then Some (m * 2 ^ e)
    else let q := 2 ^ (- e) in Some (if m mod q =? 0 then m / q else m / q + 1)
  | None => None
  end.

Definition bad_len (x : float) : bool := (* is_sign_negative() | is_zero() *)
  (x <? 0)%float || ((x =? 0)%float) || (((1 / x) <? 0)%float && (x =? 0)%float) || PrimFloat.is_nan x && false.
Definition sign_negative (x : float) : bool := (x <? 0)%float || ((x =? 0)%float && (1 / x <? 0)%float).
Definition check_param (x : float) : bool := sign_negative x || (x =? 0)%float.

Inductive gres := GOk (st : state2) | GErr (code : Z) | GPanic.

(** descriptor: optional counts, optional cell lengths, optional total lengths *)
Definition parse_2d (n : option (Z * Z)) (lp : option (float * float)) (l : option (float * float))
  : option (option (Z * Z * (float * float))) :=      (* None = panic; Some None = Err *)
  match n, lp, l with
  | Some (nx, ny), Some (lpx, lpy), _ =>
      if (nx =? 0) || (ny =? 0) then Some None else
      if check_param lpx || check_param lpy then Some None else Some (Some (nx, ny, (lpx, lpy)))
  | Some (nx, ny), None, Some (lx, ly) =>
      if (nx =? 0) || (ny =? 0) then Some None else
      if check_param lx || check_param ly then Some None
      else Some (Some (nx, ny, ((lx / float_of_Z nx)%float, (ly / float_of_Z ny)%float)))
  | None, Some (lpx, lpy), Some (lx, ly) =>
      if check_param lpx || check_param lpy || check_param lx || check_param ly then Some None
      else match ceil_to_Z (lx / lpx)%float, ceil_to_Z (ly / lpy)%float with
           | Some nx, Some ny => Some (Some (nx, ny, (lpx, lpy)))
           | _, _ => None
           end
  | _, _, _ => Some None
  end.

Definition grid_store (rows : Z -> Z -> Z -> Z -> list (list Z)) (K nx ny : Z) : store :=
  fun v => match v with
           | XBeta i d => VN (Z.to_N (table_beta rows K nx ny (Z.of_N i) (Z.of_N d)))
           | _ => blank v
           end.

Definition write_at_vid (st : state2) (d : Z) (p : V2) : state2 :=
  match eval (env2 st None) (vertex_id_tx (nd st) (Z.to_N d)) (mem st) with
  | Some vid => with_mem st (upd (mem st) (XVertex vid) (VV (Some p)))
  | None => st
  end.

Definition zrange (n : Z) : list Z := map Z.of_nat (seq 0 (Z.to_nat n)).

(** the four blocks of vertex writes of build_2d_grid / build_2d_splitgrid;
    [c00 cx0 c0y cxy]: the local darts used for the four kinds of corners *)
Definition place_vertices (st : state2) (K nx ny : Z) (o : V2) (lx ly : float) (ktop kright ktr : Z) : state2 :=
  let pt (i j : Z) : V2 := ((fst o + float_of_Z i * lx)%float, (snd o + float_of_Z j * ly)%float) in
  let st1 := fold_left (fun s yx => write_at_vid s (1 + fst (snd yx) * K + fst yx * K * nx) (pt (fst (snd yx)) (fst yx)))
                       (flat_map (fun y => map (fun x => (y, (x, tt))) (zrange nx)) (zrange ny)) st in
  let st2 := fold_left (fun s x => write_at_vid s (ktop + x * K + (ny - 1) * K * nx) (pt x (ny - 1 + 1))) (zrange nx) st1 in
  let st3 := fold_left (fun s y => write_at_vid s (kright + (nx - 1) * K + y * K * nx) (pt (nx - 1 + 1) y)) (zrange ny) st2 in
  write_at_vid st3 (ktr + (nx - 1) * K + (ny - 1) * K * nx) (pt (nx - 1 + 1) (ny - 1 + 1)).

Definition build_grid2 (split : bool) (nx ny : Z) (o : V2) (lx ly : float) : gres :=
  (* `n - 1` on usize: a zero count panics (debug) *)
  if (nx <=? 0) || (ny <=? 0) then GPanic else
  let K := if split then 6 else 4 in
  let rows := if split then gen_tris_rows else gen_square_rows in
  let st0 := {| nd := Z.to_N (K * nx * ny + 1); mem := grid_store rows K nx ny; aks := [] |} in
  let st0 := compact2 st0 in
  GOk (compact2 (if split then place_vertices st0 K nx ny o lx ly 4 2 6 else place_vertices st0 K nx ny o lx ly 4 2 3)).

Definition opt_pair_Z (a b : Z) : option (Z * Z) := if a <? 0 then None else Some (a, b).

(** tokens: split nx ny (or -1 -1) has_lp lpx lpy has_l lx ly ox oy *)
Definition run_grid2 (ts : list tok) : list (list tok) :=
  match ts with
  | [TZ split; TZ nx; TZ ny; TZ hlp; TF lpx; TF lpy; TZ hl; TF lx; TF ly; TF ox; TF oy] =>
    match parse_2d (opt_pair_Z nx ny) (if hlp =? 0 then None else Some (lpx, lpy)) (if hl =? 0 then None else Some (lx, ly)) with
    | None => [[TZ 2; TZ 0; TZ 0]]
    | Some None => [[TZ 1; TZ 0; TZ 0]]
    | Some (Some (cx, cy, (ax, ay))) =>
      match build_grid2 (negb (split =? 0)) cx cy (ox, oy) ax ay with
      | GOk st => [[TZ 0; TZ 0; TZ 0] ++ dump2 st]
      | GErr c => [[TZ 1; TZ 0; TZ 0]]
      | GPanic => [[TZ 2; TZ 0; TZ 0]]
      end
    end
  | _ => [[TZ (-1)]]
  end.

(** ** oracle: the implementation's map is the advertised regular mesh (the hand-written
    specification tables of Build/Grid2.v, not the generated ones) *)
Definition corner2 (split : bool) (k : Z) : Z * Z :=
  if split then match k with 0 => (0, 0) | 1 => (1, 0) | 2 => (0, 1) | 3 => (0, 1) | 4 => (1, 0) | _ => (1, 1) end
  else match k with 0 => (0, 0) | 1 => (1, 0) | 2 => (1, 1) | _ => (0, 1) end.

Definition pt_of_f (x : float) : option dy := dy_of_float x.
Definition face_pts_of (st : state2) (f : N) : option (list pt) :=
  match orbit2 (nd st) (mem st) PFaceLinear f with
  | Some c =>
    fold_right (fun d acc =>
      match vertex (mem st) (cid st PVertex d), acc with
      | Some v, Some r =>
        match dy_of_float (fst v), dy_of_float (snd v) with Some x, Some y => Some ((x, y) :: r) | _, _ => None end
      | _, _ => None
      end) (Some []) c
  | None => None
  end.

(* classes: 1 result class / size, 2 ill-formed, 3 topology differs from the regular mesh,
   4 a vertex is not at its lattice point, 5 vertex count, 6 a face is not counter-clockwise,
   7 face area *)
Definition grid2_spec_check (S : cellspec) (split : bool) (nx ny : Z) (o : V2) (lx ly : float) (exact : bool) (st : state2) : N :=
  let n := ndarts S nx ny in
  let ds := map Z.of_nat (seq 1 (Z.to_nat (n - 1))) in
  let pt (i j : Z) : V2 := ((fst o + float_of_Z i * lx)%float, (snd o + float_of_Z j * ly)%float) in
  let vids := dedup (map (fun d => cid st PVertex (Z.to_N d)) ds) in
  let faces := dedup (map (fun d => cid st PFace (Z.to_N d)) ds) in
  let area (f : N) : option dy :=
    match face_pts_of st f with Some ps => Some (dy_area2 ps) | None => None end in
  if negb (Z.of_N (nd st) =? n) then 1%N
  else if negb (wf2b (nd st) (mem st)) then 2%N
  else if negb (forallb (fun d => forallb (fun i => Z.of_N (beta (mem st) (Z.to_N i) (Z.to_N d)) =? gbeta S nx ny i d) [0; 1; 2]) ds) then 3%N
  else if negb (forallb (fun d =>
                  let '(cx, cy) := corner2 split (dk S d) in
                  toks_eqb (tokV (vertex (mem st) (cid st PVertex (Z.to_N d)))) (tokV (Some (pt (dix S nx d + cx) (diy S nx d + cy))))) ds) then 4%N
  else if negb (Z.of_nat (length vids) =? (nx + 1) * (ny + 1)) then 5%N
  else if negb (forallb (fun f => match area f with Some a => dy_sgn a >? 0 | None => false end) faces) then 6%N
  else if exact && negb (match pt_of_f lx, pt_of_f ly with
                         | Some dlx, Some dly =>
                           let cell := dy_mul dlx dly in      (* area of a cell; twice a triangle's *)
                           forallb (fun f => match area f with
                                             | Some a => dy_eqb a (if split then cell else dy_mul (2, 0) cell)
                                             | None => false end) faces
                         | _, _ => false end) then 7%N
  else 0%N.

(** tokens: the 11 configuration tokens, exact flag, then the implementation observation *)
Definition oracle_grid2 (ts : list tok) : list (list tok) :=
  match ts with
  | TZ split :: TZ nx :: TZ ny :: TZ hlp :: TF lpx :: TF lpy :: TZ hl :: TF lx :: TF ly :: TF ox :: TF oy :: TZ exact :: TZ cls :: _ :: _ :: dump =>
    match parse_2d (opt_pair_Z nx ny) (if hlp =? 0 then None else Some (lpx, lpy)) (if hl =? 0 then None else Some (lx, ly)) with
    | None => [[TZ 2]]
    | Some None => if cls =? 1 then [[TZ 1]] else [[TZ 0; TZ 8]]       (* invalid descriptors are errors *)
    | Some (Some (cx, cy, (ax, ay))) =>
      if (cx <=? 0) || (cy <=? 0) then
        (* a zero count: an error or an empty map, never a panic *)
        if cls =? 1 then [[TZ 1]]
        else if cls =? 0 then
          match parse_dump2 dump with
          | Some (st, []) => if (nd st =? 1)%N then [[TZ 1]] else [[TZ 0; TZ 9]]
          | _ => [[TZ (-1)]]
          end
        else [[TZ 0; TZ 9]]
      else if negb (cls =? 0) then [[TZ 0; TZ 1]]
      else
        match parse_dump2 dump with
        | Some (st, []) =>
          let sp := negb (split =? 0) in
          match grid2_spec_check (if sp then tri_spec else sq_spec) sp cx cy (ox, oy) ax ay (negb (exact =? 0)) st with
          | 0%N => [[TZ 1]]
          | c => [[TZ 0; tN c]]
          end
        | _ => [[TZ (-1)]]
        end
    end
  | _ => [[TZ (-1)]]
  end.
