(** * Executable instance of the 3-map model (f64 coordinates) and its entry points. Model only. *)
From Coq Require Import List NArith ZArith Bool Floats.
From HC Require Import Base.Closure Stm.Prog Map2.Ops2 Map2.State2 Map2.Wf2 Map2.Orbit2 Map3.Ops3
  Build.GenGrid Extract.Tok Extract.Dyadic Extract.Run2 Extract.GridRun.
Import ListNotations.
Open Scope N_scope.

Definition V3 := (float * float * float)%type.
Definition vx (v : V3) := fst (fst v). Definition vy (v : V3) := snd (fst v). Definition vz (v : V3) := snd v.
Definition avg3 (a b : V3) : V3 :=
  (((vx a + vx b) / 2)%float, ((vy a + vy b) / 2)%float, ((vz a + vz b) / 2)%float).
(* lhs_vector = b1l - l ; rhs_vector = b1r - r ; refuse when dot >= 0 *)
Definition bad_orient3 (l b1r b1l r : V3) : bool :=
  let lx := (vx b1l - vx l)%float in let ly := (vy b1l - vy l)%float in let lz := (vz b1l - vz l)%float in
  let rx := (vx b1r - vx r)%float in let ry := (vy b1r - vy r)%float in let rz := (vz b1r - vz r)%float in
  (0 <=? (lx * rx + ly * ry + lz * rz))%float.

(* kernel geometry is 2D only: unused by the 3-map model *)
Definition lerp3 (a b : V3) (t : float) : V3 := a.
Definition cross3 (a b c : V3) : float := 0%float.
Definition v3_eqb (a b : V3) : bool := false.
Definition never (x : float) : bool := false.
Definition sig3_f64 : Sig := {|
  V := V3; A := Z;
  v_merge := fun a b => Some (avg3 a b); v_merge_inc := fun a => Some a; v_merge_none := None;
  v_split := fun a => Some (a, a); v_split_none := None;
  a_merge := am; a_merge_inc := ami; a_merge_none := amn; a_split := asp; a_split_none := aspn;
  bad_orient := bad_orient3;
  Sc := float; sc_in_unit := in_unit; v_lerp := lerp3; v_avg := avg3; v_cross := cross3;
  v_eqb := v3_eqb; sc_signum := fsignum; sc_eqb := PrimFloat.eqb;
  sc_small := never; sc_pos := never; sc_neg := never;
  anchor_dim := anc_dim; a_eqb := Z.eqb |}.

(* kinds of the 3D harness: 0 vertex weight, 1 edge, 2 face max, 3 vertex partial (same laws as 2D) *)
Definition kinds3_of_mask (m : N) : kinds := kinds_of_mask (N.land m 15).

#[local] Existing Instance sig3_f64 | 0.

Definition compact3s (n : N) (ks : kinds) (s : store) : store :=
  let ds := nrange (n + 1) in
  let col (f : N -> var) := map (fun d => s (f d)) ds in
  let b0 := col (XBeta 0) in let b1 := col (XBeta 1) in let b2 := col (XBeta 2) in
  let b3 := col (XBeta 3) in
  let un := col XUnused in let vxs := col XVertex in
  let ats := map (fun kc => (fst kc, col (XAttr (fst kc)))) ks in
  fun v =>
    match v with
    | XBeta i d =>
        match i with
        | 0 => nthN b0 d (blank v) | 1 => nthN b1 d (blank v)
        | 2 => nthN b2 d (blank v) | 3 => nthN b3 d (blank v) | _ => blank v
        end
    | XUnused d => nthN un d (blank v)
    | XVertex d => nthN vxs d (blank v)
    | XAttr k d =>
        match find (fun kc => fst kc =? k) ats with
        | Some (_, c) => nthN c d (blank v)
        | None => blank v
        end
    end.
Definition compact3 (st : state2) : state2 := with_mem st (compact3s (nd st) (aks st) (mem st)).

Definition dump_dart3 (ks : kinds) (s : store) (d : N) : list tok :=
  [tN (beta s 0 d); tN (beta s 1 d); tN (beta s 2 d); tN (beta s 3 d); tB (unused s d)] ++
  (match vertex s d with Some v => [TZ 1; TF (vx v); TF (vy v); TF (vz v)] | None => [TZ 0] end) ++
  flat_map (fun kc => match attr s (fst kc) d with Some a => [TZ 1; TZ a] | None => [TZ 0] end) ks.

Definition dump3 (st : state2) : list tok :=
  [tN (mask_of (aks st)); tN (nd st)] ++ flat_map (dump_dart3 (aks st) (mem st)) (nrange (nd st)).

Definition parse_call3 (ts : list tok) : option (call3 * list tok) :=
  match ts with
  | TZ 1 :: TZ l :: TZ r :: rest => Some (L1 (zN l) (zN r), rest)
  | TZ 2 :: TZ l :: TZ r :: rest => Some (L2 (zN l) (zN r), rest)
  | TZ 3 :: TZ l :: TZ r :: rest => Some (L3 (zN l) (zN r), rest)
  | TZ 4 :: TZ l :: rest => Some (U1 (zN l), rest)
  | TZ 5 :: TZ l :: rest => Some (U2 (zN l), rest)
  | TZ 6 :: TZ l :: rest => Some (U3 (zN l), rest)
  | TZ 7 :: TZ l :: TZ r :: rest => Some (S1 (zN l) (zN r), rest)
  | TZ 8 :: TZ l :: TZ r :: rest => Some (S2 (zN l) (zN r), rest)
  | TZ 9 :: TZ l :: TZ r :: rest => Some (S3 (zN l) (zN r), rest)
  | TZ 10 :: TZ l :: rest => Some (X1 (zN l), rest)
  | TZ 11 :: TZ l :: rest => Some (X2 (zN l), rest)
  | TZ 12 :: TZ l :: rest => Some (X3 (zN l), rest)
  | TZ 13 :: TZ d :: TF x :: TF y :: TF z :: rest => Some (WV (zN d) (x, y, z), rest)
  | TZ 14 :: TZ d :: rest => Some (RV (zN d), rest)
  | TZ 15 :: TZ k :: TZ d :: TZ a :: rest => Some (WA (zN k) (zN d) a, rest)
  | TZ 16 :: TZ k :: TZ d :: rest => Some (RA (zN k) (zN d), rest)
  | TZ 17 :: TZ d :: rest => Some (RD (zN d), rest)
  | _ => None
  end%Z.

Fixpoint parse_calls3 (m : nat) (ts : list tok) : option (list (call3) * list tok) :=
  match m with
  | O => Some ([], ts)
  | S m' =>
    match parse_call3 ts with
    | Some (c, rest) => match parse_calls3 m' rest with Some (cs, rest') => Some (c :: cs, rest') | None => None end
    | None => None
    end
  end.

Definition parse_op3 (ts : list tok) : option (option N * op3 * list tok) :=
  match ts with
  | TZ 1 :: rest => Some (None, AddDart3, rest)
  | TZ 2 :: TZ k :: rest => Some (None, AddDarts3 (zN k), rest)
  | TZ 3 :: rest => Some (None, InsertDart3, rest)
  | TZ 4 :: TZ d :: rest => Some (None, RemoveDart3 (zN d), rest)
  | TZ 5 :: TZ fa :: rest =>
      match parse_call3 rest with Some (c, rest') => Some (fail_of fa, Force3 c, rest') | None => None end
  | TZ 6 :: TZ fa :: TZ m :: rest =>
      match parse_calls3 (Z.to_nat m) rest with Some (cs, rest') => Some (fail_of fa, Block3 cs, rest') | None => None end
  | _ => None
  end%Z.

(** the "query" observation of 3-maps: orbits under the eight policies, four ids, four iterators *)
Definition query_policies3 : list policy3 :=
  [QVertex; QVertexLinear; QEdge; QFace; QFaceLinear; QVolume; QVolumeLinear; QCustom [1; 0]].
Definition tlist3 (o : option (list N)) : list tok :=
  match o with Some l => tN (N.of_nat (length l)) :: map tN l | None => [TZ (-1)%Z] end.
Definition topt3 (o : option N) : list tok := match o with Some x => [tN x] | None => [TZ (-1)%Z] end.
Definition ev3 {X} (st : state2) (p : prog X) : option X := eval (env3 st None) p (mem st).

Definition iter3 (st : state2) (idf : N -> prog N) : list N :=
  filter (fun d => negb (d =? 0) && negb (unused (mem st) d) &&
                   match ev3 st (idf d) with Some v => d =? v | None => false end) (nrange (nd st)).

Definition query3 (st : state2) : list tok :=
  let n := nd st in
  tN n :: flat_map (fun d =>
      flat_map (fun p => tlist3 (orbit3 n (mem st) p d) ++ tlist3 (orbit3 n (mem st) p d)) query_policies3 ++
      topt3 (ev3 st (vertex_id3 n d)) ++ topt3 (ev3 st (edge_id3 n d)) ++ topt3 (ev3 st (face_id3 n d)) ++
      topt3 (ev3 st (volume_id3 n d))) (tl (nrange n)) ++
  tlist3 (Some (iter3 st (vertex_id3 n))) ++ tlist3 (Some (iter3 st (edge_id3 n))) ++
  tlist3 (Some (iter3 st (face_id3 n))) ++ tlist3 (Some (iter3 st (volume_id3 n))) ++
  (* g(next d) asked right after f(d), for the 16 pairs of id functions: the model's ids are functions *)
  flat_map (fun d =>
      let d2 := d mod (n - 1) + 1 in
      flat_map (fun _ : N => topt3 (ev3 st (vertex_id3 n d2)) ++ topt3 (ev3 st (edge_id3 n d2)) ++
                             topt3 (ev3 st (face_id3 n d2)) ++ topt3 (ev3 st (volume_id3 n d2))) [0; 1; 2; 3])
    (tl (nrange n)).

Fixpoint run_ops3 (fuel : nat) (obs : bool) (st : state2) (ts : list tok) : list (list tok) :=
  match fuel with
  | O => []
  | S f =>
    match ts with
    | [] => []
    | TZ 7%Z :: TZ b :: rest =>
      if (b =? 0)%Z then run_ops3 f false st rest
      else (dump_result (ROk 0) ++ dump3 st) :: run_ops3 f true st rest
    | TZ 8%Z :: rest =>
      if obs then (dump_result (ROk 0) ++ query3 st) :: run_ops3 f obs st rest else run_ops3 f obs st rest
    | _ =>
      match parse_op3 ts with
      | None => [[TZ (-1)%Z]]
      | Some (fa, o, rest) =>
        let '(r, st') := step3 fa st o in
        let st'' := compact3 st' in
        if obs then (dump_result r ++ dump3 st'') :: run_ops3 f obs st'' rest else run_ops3 f obs st'' rest
      end
    end
  end.

(** hexahedral grid as build_3d_grid writes it from the translated tables *)
Definition hex_beta (nx ny nz : Z) (i d : Z) : Z :=
  if (1 <=? d)%Z && (d <=? 24 * nx * ny * nz)%Z then
    let k := ((d - 1) mod 24)%Z in let c := ((d - 1) / 24)%Z in
    let ix := (c mod nx)%Z in let iy := ((c / nx) mod ny)%Z in let iz := (c / (nx * ny))%Z in
    nth (Z.to_nat i) (nth (Z.to_nat k) (gen_hex_rows nx ny nz ix iy iz) []) 0%Z
  else 0%Z.

Definition hex_offset (nx ny : Z) (lens : float * float * float) (d : Z) : option V3 :=
  let dm := (d mod 24)%Z in let dmm := (d mod (24 * nx))%Z in let dmmm := (d mod (24 * nx * ny))%Z in
  let x := ((dmm - dm) / 24)%Z in let y := ((dmmm - dmm) / (24 * nx))%Z in let z := ((d - dmmm) / (24 * nx * ny))%Z in
  let idx (i : Z) := match i with 0%Z => x | 1%Z => y | _ => z end in
  let len (i : Z) := match i with 0%Z => vx lens | 1%Z => vy lens | _ => vz lens end in
  match gen_hex_corner dm with
  | Some ((i0, o0, l0), (i1, o1, l1), (i2, o2, l2)) =>
    Some ((float_of_Z (idx i0 + o0) * len l0)%float, (float_of_Z (idx i1 + o1) * len l1)%float, (float_of_Z (idx i2 + o2) * len l2)%float)
  | None => None
  end.

Definition hex_state (mask : N) (nx ny nz : Z) (o lens : V3) : state2 :=
  let n := Z.to_N (24 * nx * ny * nz + 1) in
  let m0 : store := fun v => match v with
                     | XBeta i d => VN (Z.to_N (hex_beta nx ny nz (Z.of_N i) (Z.of_N d)))
                     | _ => blank v end in
  let st0 := compact3 {| nd := n; mem := m0; aks := kinds3_of_mask mask |} in
  let st1 := fold_left (fun (s : state2) d =>
      match ev3 s (vertex_id3 n d), hex_offset nx ny lens (Z.of_N d) with
      | Some v, Some off => if v =? d then
           with_mem s (upd (mem s) (XVertex d) (VV (Some ((vx o + vx off)%float, (vy o + vy off)%float, (vz o + vz off)%float))))
         else s
      | _, _ => s
      end) (tl (nrange n)) st0 in
  compact3 st1.

(** case = mask kind a b c op* ; kind 0: from_n_darts(a); kind 1: hex grid a x b x c, unit cells *)
Definition run_case3 (ts : list tok) : list (list tok) :=
  match ts with
  | TZ mask :: TZ kind :: TZ a :: TZ b :: TZ c :: rest =>
      let st : state2 :=
        if (kind =? 0)%Z then {| nd := zN a + 1; mem := blank; aks := kinds3_of_mask (zN mask) |}
        else hex_state (zN mask) a b c (0, 0, 0)%float (1, 1, 1)%float in
      (dump_result (ROk 0) ++ dump3 st) :: run_ops3 (length rest) true st rest
  | _ => [[TZ (-1)%Z]]
  end.
