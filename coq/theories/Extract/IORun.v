(** * C09 / C10: executable instance of the cmap text model and its entry points. Model only. *)
From Coq Require Import List NArith ZArith Bool Floats.
From HC Require Import Stm.Prog Map2.Ops2 Map2.State2 Map2.Wf2 Map2.Orbit2 IO.CMapText
  Extract.Tok Extract.Dyadic Extract.Run2 Extract.GridRun.
Import ListNotations.
Open Scope Z_scope.

(** a coordinate as the lexer reads back what Display printed: a plain unsigned integer literal
    when the value is a non-negative integer, a float literal otherwise *)
Definition tok_of_f (x : float) : ctok :=
  match dy_of_float x with
  | Some (m, e) =>
    if (0 <=? m) && negb ((x =? 0)%float && (1 / x <? 0)%float) then
      if 0 <=? e then CInt (m * 2 ^ e)
      else if m mod 2 ^ (- e) =? 0 then CInt (m / 2 ^ (- e)) else CFloat x
    else CFloat x
  | None => CFloat x
  end.

Definition mkv (x y : float) : V2 := (x, y).
Definition build_items := @build_from_items sig_f64 mkv float_of_Z.
Definition ser := @ser_items sig_f64 (fun v : V2 => fst v) (fun v : V2 => snd v) tok_of_f.

(** token encoding of items *)
Definition enc_ctok (t : ctok) : list tok :=
  match t with CInt z => [TZ 0; TZ z] | CFloat v => [TZ 1; TF v] | CBad => [TZ 2] end.
Definition enc_item (i : item) : list tok :=
  match i with
  | IHeader (Some SMeta) => [TZ (-1); TZ 0] | IHeader (Some SBetas) => [TZ (-1); TZ 1]
  | IHeader (Some SUnused) => [TZ (-1); TZ 2] | IHeader (Some SVertices) => [TZ (-1); TZ 3]
  | IHeader None => [TZ (-1); TZ 9]
  | ILine ts => TZ (-2) :: TZ (Z.of_nat (length ts)) :: flat_map enc_ctok ts
  end.
(* lines without tokens do not exist in a text *)
Definition enc_items (l : list item) : list tok :=
  flat_map enc_item (filter (fun i => match i with ILine [] => false | _ => true end) l).

Fixpoint dec_toks (k : nat) (fuel : nat) (ts : list tok) : option (list ctok * list tok) :=
  match k with
  | O => Some ([], ts)
  | S k' =>
    match ts with
    | TZ 0 :: TZ z :: r => match dec_toks k' fuel r with Some (l, r') => Some (CInt z :: l, r') | None => None end
    | TZ 1 :: TF v :: r => match dec_toks k' fuel r with Some (l, r') => Some (CFloat v :: l, r') | None => None end
    | TZ 2 :: r => match dec_toks k' fuel r with Some (l, r') => Some (CBad :: l, r') | None => None end
    | _ => None
    end
  end.

Fixpoint dec_items (fuel : nat) (ts : list tok) : option (list item) :=
  match fuel with
  | O => None
  | S f =>
    match ts with
    | [] => Some []
    | TZ (-1) :: TZ c :: r =>
      let s := match c with 0 => Some SMeta | 1 => Some SBetas | 2 => Some SUnused | 3 => Some SVertices | _ => None end in
      match dec_items f r with Some l => Some (IHeader s :: l) | None => None end
    | TZ (-2) :: TZ n :: r =>
      match dec_toks (Z.to_nat n) 0 r with
      | Some (l, r') => match dec_items f r' with Some its => Some (ILine l :: its) | None => None end
      | None => None
      end
    | _ => None
    end
  end.

Definition dump_iores (r : iores state2) : list tok :=
  match r with
  | IOk st => [TZ 0; TZ 0; TZ 0] ++ dump2 (compact2 st)
  | IErr _ => [TZ 1; TZ 0; TZ 0]
  | IPanic => [TZ 2; TZ 0; TZ 0]
  end.

(** entry: a lexed text -> result of building a map from it *)
Definition run_cmap_build (ts : list tok) : list (list tok) :=
  match dec_items (S (length ts)) ts with
  | Some its =>
    match @parse_file sig_f64 its with
    | IOk _ => [dump_iores (build_items its)]
    | _ => [[TZ 4; TZ 0; TZ 0]]              (* rejected by the file loader (layout / meta) *)
    end
  | None => [[TZ (-1)]]
  end.

(** the special observations 11 (serialize) and 12 (round trip) of histories *)
Definition io_special (st : state2) (code : Z) : list tok :=
  if code =? 11 then enc_items (ser st)
  else match build_items (ser st) with
       | IOk st' => TZ 1 :: dump2 (compact2 st') ++ TZ (-9) :: enc_items (ser (compact2 st')) ++ [TZ (-8); tB (toks_eqb (enc_items (ser st)) (enc_items (ser (compact2 st'))))]
       | _ => [TZ 0]
       end.

(** C10 oracle on an implementation observation: [lexed text] ++ [-7] ++ observation *)
Fixpoint split_at_marker (ts : list tok) (acc : list tok) : option (list tok * list tok) :=
  match ts with
  | [] => None
  | TZ (-7) :: r => Some (rev acc, r)
  | t :: r => split_at_marker r (t :: acc)
  end.

Definition oracle_cmap_build (ts : list tok) : list (list tok) :=
  match split_at_marker ts [] with
  | Some (_, TZ cls :: _ :: _ :: dump) =>
    if (cls =? 1) then [[TZ 1]]
    else if cls =? 4 then [[TZ 2]]           (* layout not accepted by the loader: outside the property *)
    else if cls =? 0 then
      match parse_dump2 dump with
      | Some (st, []) => if wf2b (nd st) (mem st) then [[TZ 1]] else [[TZ 0; TZ 1]]
      | _ => [[TZ (-1)]]
      end
    else [[TZ 0; TZ 2]]                     (* panic (or hang) *)
  | _ => [[TZ (-1)]]
  end.

Fixpoint split_at_marker_z (mk : Z) (ts : list tok) (acc : list tok) : option (list tok * list tok) :=
  match ts with
  | [] => None
  | TZ z :: r => if z =? mk then Some (rev acc, r) else split_at_marker_z mk r (TZ z :: acc)
  | t :: r => split_at_marker_z mk r (t :: acc)
  end.

(** C09 oracle: pre-observation (a state dump), op 12, the round-trip observation
    [1 dump' -9 lexed' -8 flag] *)
Definition oracle_roundtrip (ts : list tok) : list (list tok) :=
  match split_step ts with
  | Some (pre, TZ 12 :: _, post) =>
    match obs_state pre with
    | Some st =>
      if negb (wf2b (nd st) (mem st)) then [[TZ 2]] else
      match post with
      | _ :: _ :: _ :: TZ 1 :: rest =>
        match split_at_marker_z (-9) rest [] with
        | Some (dump', rest') =>
          match parse_dump2 dump', split_at_marker_z (-8) rest' [] with
          | Some (st', []), Some (_, [TZ flag]) =>
            let ds := nrange (nd st) in
            if negb (nd st' =? nd st)%N then [[TZ 0; TZ 1]]
            else if negb (forallb (fun d => (beta (mem st') 0 d =? beta (mem st) 0 d)%N && (beta (mem st') 1 d =? beta (mem st) 1 d)%N &&
                                            (beta (mem st') 2 d =? beta (mem st) 2 d)%N) ds) then [[TZ 0; TZ 2]]
            else if negb (forallb (fun d => Bool.eqb (unused (mem st') d) (unused (mem st) d)) ds) then [[TZ 0; TZ 3]]
            else if negb (forallb (fun v => toks_eqb (match vertex (mem st') v with Some (x, y) => [TF x; TF y] | None => [] end)
                                                     (match vertex (mem st) v with Some (x, y) => [TF x; TF y] | None => [] end))
                                  (iter_vertices2 (env2 st None) (nd st) (mem st))) then [[TZ 0; TZ 4]]
            else if flag =? 0 then [[TZ 0; TZ 5]]
            else [[TZ 1]]
          | _, _ => [[TZ (-1)]]
          end
        | None => [[TZ (-1)]]
        end
      | _ => [[TZ 0; TZ 6]]              (* the text written by serialize was refused *)
      end
    | None => [[TZ (-1)]]
    end
  | Some _ => [[TZ 2]]
  | None => [[TZ (-1)]]
  end.
