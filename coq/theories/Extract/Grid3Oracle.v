(** * C12, 3D clause: the hexahedral grid builder returns nx*ny*nz hexahedra on the lattice points, glued exactly
    on shared faces.  Validator over the implementation's dump of a unit-cell grid at the origin (the sizes are
    read off the coordinates and cross-checked with the dart count).  Model only. *)
From Coq Require Import List NArith ZArith Bool Floats.
From HC Require Import Base.Closure Stm.Prog Map2.Ops2 Map2.State2 Map2.Wf2 Map2.Orbit2 Map3.Ops3 Map3.Wf3
  Extract.Tok Extract.Run2 Extract.Run3 Extract.Oracle3 Extract.Sew3Oracle Extract.SceneParse Extract.SceneOracle3.
Import ListNotations.
Open Scope N_scope.
#[local] Existing Instance sig3_f64 | 0.

Definition fmax (a c : float) : float := if (a <? c)%float then c else a.
Definition small_ints : list float :=
  [0; 1; 2; 3; 4; 5; 6; 7; 8; 9; 10; 11; 12]%float.
Definition is_int_in (x hi : float) : bool :=
  (x <=? hi)%float && existsb (fun k => (x =? k)%float) small_ints.
Definition v3_eq (a c : V3) : bool := (vx a =? vx c)%float && (vy a =? vy c)%float && (vz a =? vz c)%float.
Fixpoint nodup_v3 (l : list V3) : bool :=
  match l with [] => true | x :: r => negb (existsb (v3_eq x) r) && nodup_v3 r end.
Definition nat_of_float (x : float) : nat :=
  match find (fun p => (x =? fst p)%float) (combine small_ints (seq 0 13)) with Some p => snd p | None => 0%nat end.

(* classes: 1 ill-formed, 2 dart / volume count, 3 a volume is not a hexahedron (6 quadrilateral faces, 24 darts),
   4 vertex count or a vertex off the lattice / duplicated, 5 faces not glued exactly on shared faces *)
Definition check_grid3 (st : state2) : N :=
  if negb (wf3b (nd st) (mem st)) then 1 else
  let m := live3 st in
  let vids := ids3 st QVertex m in
  let pts := flat_map (fun v => match vertex (mem st) v with Some p => [p] | None => [] end) vids in
  let mx := fold_left (fun a p => fmax a (vx p)) pts 0%float in
  let my := fold_left (fun a p => fmax a (vy p)) pts 0%float in
  let mz := fold_left (fun a p => fmax a (vz p)) pts 0%float in
  let (nx, ny) := (nat_of_float mx, nat_of_float my) in let nz := nat_of_float mz in
  let cells := (nx * ny * nz)%nat in
  let vols := ids3 st QVolume m in
  if negb (Nat.eqb (length m) (24 * cells) && N.eqb (nd st) (N.of_nat (24 * cells + 1)) && Nat.eqb (length vols) cells && Nat.ltb 0 cells) then 2 else
  if negb (forallb (fun v => let c := cell3 st QVolume v in
                             Nat.eqb (length c) 24 &&
                             Nat.eqb (length (dedupN (map (cid3 st QFace) c))) 6 &&
                             forallb (fun d => Nat.eqb (length (cyc3 st d)) 4 && closed3 st d) c) vols) then 3 else
  if negb (Nat.eqb (length pts) (length vids) && Nat.eqb (length vids) ((nx + 1) * (ny + 1) * (nz + 1)) &&
           forallb (fun p => is_int_in (vx p) mx && is_int_in (vy p) my && is_int_in (vz p) mz) pts && nodup_v3 pts) then 4 else
  let glued := filter (fun d => negb (b3 st 3 d =? 0)) m in
  let internal := ((nx - 1) * ny * nz + nx * (ny - 1) * nz + nx * ny * (nz - 1))%nat in
  if negb (Nat.eqb (length glued) (8 * internal) &&
           forallb (fun d => let e := b3 st 3 d in
                     negb (cid3 st QVolume d =? cid3 st QVolume e) &&
                     match coord3 st d, coord3 st (b3 st 1 e), coord3 st (b3 st 1 d), coord3 st e with
                     | Some a, Some a', Some c, Some c' => v3_eq a a' && v3_eq c c'
                     | _, _, _, _ => false end) glued) then 5 else 0.

Definition oracle_grid3 (ts : list tok) : list (list tok) :=
  match split_step ts with
  | Some (pre, TZ 8%Z :: _, _) =>
    match obs_state3 pre with
    | Some st => match check_grid3 st with 0 => [[TZ 1%Z]] | c => [[TZ 0%Z; tN c]] end
    | None => [[TZ (-1)%Z]]
    end
  | Some _ => [[TZ 2%Z]]
  | None => [[TZ (-1)%Z]]
  end.
