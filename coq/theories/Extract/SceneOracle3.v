(** * C20 on 3-maps. Validator over (map dump, scene dump). Model only. *)
From Coq Require Import List NArith ZArith Bool Floats.
From HC Require Import Base.Closure Stm.Prog Map2.Ops2 Map2.State2 Map2.Wf2 Map2.Orbit2 Map3.Ops3 Map3.Wf3
  Extract.Tok Extract.Run2 Extract.Run3 Extract.Oracle3 Extract.Sew3Oracle Extract.SceneParse.
Import ListNotations.
Open Scope N_scope.
#[local] Existing Instance sig3_f64 | 0.

Definition live3 (st : state2) : list N := filter (fun d => negb (is_free3 (mem st) d)) (in_use3 st).
Definition b3 (st : state2) (i d : N) : N := beta (mem st) i d.
Definition cyc3 (st : state2) (d : N) : list N := cell3 st (QCustom [1]) d.
Definition closed3 (st : state2) (d : N) : bool :=
  let l := cyc3 st d in (b3 st 1 (last l 0) =? d) && forallb (fun x => negb (b3 st 1 x =? 0)) l && Nat.leb 3 (length l).
Definition coord3 (st : state2) (d : N) : option V3 := vertex (mem st) (cid3 st QVertex d).
Definition sub3 (a c : V3) : V3 := ((vx a - vx c)%float, (vy a - vy c)%float, (vz a - vz c)%float).
Definition cross3f (a c : V3) : V3 :=
  ((vy a * vz c - vz a * vy c)%float, (vz a * vx c - vx a * vz c)%float, (vx a * vy c - vy a * vx c)%float).
Definition nz3 (a : V3) : bool := negb ((vx a =? 0)%float && (vy a =? 0)%float && (vz a =? 0)%float).
(** non-degenerate corner: the two sides are non-null and not collinear *)
Definition corner3_ok (st : state2) (d : N) : bool :=
  match coord3 st (b3 st 0 d), coord3 st d, coord3 st (b3 st 1 d) with
  | Some p, Some q, Some r => nz3 (sub3 q p) && nz3 (sub3 r q) && nz3 (cross3f (sub3 q p) (sub3 r q))
  | _, _, _ => false
  end.
Definition premise3 (st : state2) : bool :=
  wf3b (nd st) (mem st) && forallb (fun d => closed3 st d && corner3_ok st d) (live3 st).

Definition dedupN (l : list N) : list N := fold_right (fun x acc => if mem_N x acc then acc else x :: acc) [] l.
Definition ids3 (st : state2) (p : policy3) (ds : list N) : list N := sortedN (dedupN (map (cid3 st p) ds)).

(* classes as in 2D, plus 8 volume normals *)
Definition check_scene3 (st : state2) (sc : scene) : N :=
  let m := live3 st in
  let vids := ids3 st QVertex m in let eids := ids3 st QEdge m in let fids := ids3 st QFace m in
  let idx (d : N) : nat := match index_of (cid3 st QVertex d) vids 0 with Some k => k | None => 0%nat end in
  let tab_ok :=
    Nat.eqb (length (s_tab sc)) (length vids) &&
    forallb (fun p => let '(v, (x, y, z)) := p in
               match vertex (mem st) v with
               | Some c => close32 x (vx c) && close32 y (vy c) && close32 z (vz c)
               | None => false end) (combine vids (s_tab sc)) in
  if negb tab_ok then 2 else
  if negb (Nat.eqb (length (s_vertices sc)) (length vids) &&
           forallb (fun p => let '(v, (i, k)) := p in Z.eqb i (Z.of_N v) && Nat.eqb k (idx v)) (combine vids (s_vertices sc))) then 3 else
  if negb (Nat.eqb (length (s_edges sc)) (length eids) &&
           forallb (fun p => let '(e, (i, a, c)) := p in
                      let other := if negb (b3 st 3 e =? 0) then b3 st 3 e else if negb (b3 st 2 e =? 0) then b3 st 2 e else b3 st 1 e in
                      Z.eqb i (Z.of_N e) && Nat.eqb a (idx e) && Nat.eqb c (idx other)) (combine eids (s_edges sc))) then 4 else
  if negb (Nat.eqb (length (s_faces sc)) (length fids) &&
           forallb (fun p => let '(f, (i, l)) := p in
                      Z.eqb i (Z.of_N f) && list_eqb_nat l (map idx (cyc3 st f))) (combine fids (s_faces sc))) then 5 else
  let ds := sortedN m in
  if negb (Nat.eqb (length (s_darts sc)) (length ds) &&
           forallb (fun p => let '(d, (i, v, e, f, vol, a, c)) := p in
                      Z.eqb i (Z.of_N d) && Z.eqb v (Z.of_N (cid3 st QVertex d)) && Z.eqb e (Z.of_N (cid3 st QEdge d)) &&
                      Z.eqb f (Z.of_N (cid3 st QFace d)) && Z.eqb vol (Z.of_N (cid3 st QVolume d)) &&
                      Nat.eqb a (idx d) && Nat.eqb c (idx (b3 st 1 d))) (combine ds (s_darts sc))) then 6 else
  let keys := flat_map (fun f => map (fun d => (f, idx d)) (cyc3 st f)) fids in
  if negb (forallb (fun k => existsb (fun n => let '(i, j, _) := n in Z.eqb i (Z.of_N (fst k)) && Nat.eqb j (snd k)) (s_fnormals sc)) keys &&
           forallb (fun n => let '(i, j, v) := n in
                      existsb (fun k => Z.eqb i (Z.of_N (fst k)) && Nat.eqb j (snd k)) keys && unit_finite v) (s_fnormals sc)) then 7 else
  let vkeys := map (fun d => (cid3 st QVolume d, idx d)) m in
  if negb (forallb (fun k => existsb (fun n => let '(i, j, _) := n in Z.eqb i (Z.of_N (fst k)) && Nat.eqb j (snd k)) (s_vnormals sc)) vkeys &&
           forallb (fun n => let '(i, j, v) := n in
                      existsb (fun k => Z.eqb i (Z.of_N (fst k)) && Nat.eqb j (snd k)) vkeys && unit_finite v) (s_vnormals sc)) then 8 else 0.

Definition oracle_scene3 (ts : list tok) : list (list tok) :=
  match split_step ts with
  | Some (pre, TZ 50%Z :: TZ 3%Z :: _, post) =>
    match obs_state3 pre, post with
    | Some st, TZ cls :: _ :: _ :: sct =>
      if negb (premise3 st) then [[TZ 2%Z]] else
      if negb (cls =? 0)%Z then [[TZ 0%Z; TZ 1%Z]] else
      match parse_scene sct with
      | Some sc => match check_scene3 st sc with 0 => [[TZ 1%Z]] | c => [[TZ 0%Z; tN c]] end
      | None => [[TZ (-1)%Z]]
      end
    | _, _ => [[TZ (-1)%Z]]
    end
  | Some _ => [[TZ 2%Z]]
  | None => [[TZ (-1)%Z]]
  end.
