(** * C05: the specification of 3D sew/unsew on embedded data, as an executable predicate over
    (pre-state, call, post-state) observations of the implementation.  Model only.
    Cells are computed with the verified closure (orbit3 = Closure.orbit on the policy's images). *)
From Coq Require Import List NArith ZArith Bool Floats.
From HC Require Import Base.Closure Stm.Prog Map2.Ops2 Map2.State2 Map2.Wf2 Map2.Orbit2 Map3.Ops3 Map3.Wf3
  Extract.Tok Extract.Run2 Extract.Run3 Extract.Oracle3.
Import ListNotations.
Open Scope N_scope.
#[local] Existing Instance sig3_f64 | 0.

Definition cell3 (st : state2) (p : policy3) (d : N) : list N :=
  match orbit3 (nd st) (mem st) p d with Some l => l | None => [] end.
Definition cid3 (st : state2) (p : policy3) (d : N) : N := fold_left N.min (cell3 st p d) d.
Definition in_use3 (st : state2) : list N :=
  filter (fun d => negb (d =? 0) && negb (unused (mem st) d)) (nrange (nd st)).
Definition dedup3 (l : list N) : list N :=
  fold_right (fun x acc => if mem_N x acc then acc else x :: acc) [] l.

Inductive dkind3 := D3Coords | D3Attr (k : N).
Definition tokV3 (o : option V3) : list tok :=
  match o with Some v => [TZ 1%Z; TF (vx v); TF (vy v); TF (vz v)] | None => [TZ 0%Z] end.
Definition tokA3 (o : option Z) : list tok := match o with Some a => [TZ 1%Z; TZ a] | None => [TZ 0%Z] end.
Definition slot3 (st : state2) (k : dkind3) (d : N) : list tok :=
  match k with D3Coords => tokV3 (vertex (mem st) d) | D3Attr k => tokA3 (attr (mem st) k d) end.
Definition is_none3 (t : list tok) : bool := toks_eqb t [TZ 0%Z].

Definition law_merge3 (st : state2) (k : dkind3) (i1 i2 : N) : option (list tok) :=
  match k with
  | D3Coords =>
    match vertex (mem st) i1, vertex (mem st) i2 with
    | Some a, Some b => Some (tokV3 (Some (avg3 a b)))
    | Some a, None | None, Some a => Some (tokV3 (Some a))
    | None, None => None
    end
  | D3Attr k =>
    match attr (mem st) k i1, attr (mem st) k i2 with
    | Some a, Some b => option_map (fun v => tokA3 (Some v)) (am k a b)
    | Some a, None | None, Some a => option_map (fun v => tokA3 (Some v)) (ami k a)
    | None, None => option_map (fun v => tokA3 (Some v)) (amn k)
    end
  end.
Definition law_split3 (st : state2) (k : dkind3) (i : N) : option (list tok * list tok) :=
  match k with
  | D3Coords => match vertex (mem st) i with Some a => Some (tokV3 (Some a), tokV3 (Some a)) | None => None end
  | D3Attr k =>
    match (match attr (mem st) k i with Some a => asp k a | None => aspn k end) with
    | Some (a, b) => Some (tokA3 (Some a), tokA3 (Some b)) | None => None
    end
  end.

Definition kinds_bound3 (st : state2) (c : cellkind) : list dkind3 :=
  (match c with KVertex => [D3Coords] | _ => [] end) ++
  map (fun kc => D3Attr (fst kc)) (filter (fun kc => cellkind_eqb (snd kc) c) (aks st)).
Definition pol3_of (c : cellkind) : policy3 :=
  match c with KVertex => QVertex | KEdge => QEdge | KFace => QFace | KVolume => QVolume end.
Definition clean3 (st : state2) (c : cellkind) (k : dkind3) : bool :=
  forallb (fun d => (cid3 st (pol3_of c) d =? d) || is_none3 (slot3 st k d)) (in_use3 st).
Definition first_fail3 (l : list N) : N := match filter (fun c => negb (c =? 0)) l with c :: _ => c | [] => 0 end.

(* classes: 2 unchanged cell changed value, 3 merged cell does not carry the merge, 4 split cells do
   not carry the split, 5 value left under a dead identifier, 6 succeeded although the law rejects *)
Definition check_merge3 (st st' : state2) (c : cellkind) (k : dkind3) : N :=
  let p := pol3_of c in
  first_fail3 (map (fun d' =>
    if negb (cid3 st' p d' =? d') then 0 else
    let c' := cell3 st' p d' in
    match dedup3 (map (cid3 st p) c') with
    | [i] => if Nat.eqb (length (cell3 st p i)) (length c')
             then (if toks_eqb (slot3 st' k d') (slot3 st k i) then 0 else 2) else 0
    | [i1; i2] =>
      if negb (Nat.eqb (length (cell3 st p i1) + length (cell3 st p i2)) (length c')) then 0 else
      match law_merge3 st k i1 i2, law_merge3 st k i2 i1 with
      | Some e1, Some e2 => if toks_eqb (slot3 st' k d') e1 || toks_eqb (slot3 st' k d') e2 then 0 else 3
      | _, _ => 6
      end
    | _ => 0
    end) (in_use3 st')).

Definition check_split3 (st st' : state2) (c : cellkind) (k : dkind3) : N :=
  let p := pol3_of c in
  first_fail3 (map (fun d =>
    if negb (cid3 st p d =? d) then 0 else
    let c0 := cell3 st p d in
    match dedup3 (map (cid3 st' p) c0) with
    | [j] => if Nat.eqb (length (cell3 st' p j)) (length c0)
             then (if toks_eqb (slot3 st' k j) (slot3 st k d) then 0 else 2) else 0
    | [j1; j2] =>
      if negb (Nat.eqb (length (cell3 st' p j1) + length (cell3 st' p j2)) (length c0)) then 0 else
      match law_split3 st k d with
      | Some (a, b) =>
        if (toks_eqb (slot3 st' k j1) a && toks_eqb (slot3 st' k j2) b) ||
           (toks_eqb (slot3 st' k j1) b && toks_eqb (slot3 st' k j2) a) then 0 else 4
      | None => 6
      end
    | _ => 0
    end) (in_use3 st)).

(** the premise "no cell takes part in more than one merge or split of the call" *)
Definition single_use3 (merge : bool) (st st' : state2) (c : cellkind) : bool :=
  let p := pol3_of c in
  if merge then forallb (fun d' => Nat.leb (length (dedup3 (map (cid3 st p) (cell3 st' p d')))) 2) (in_use3 st')
  else forallb (fun d => Nat.leb (length (dedup3 (map (cid3 st' p) (cell3 st p d)))) 2) (in_use3 st).

Definition data_checks3 (merge : bool) (cells : list cellkind) (st st' : state2) : N :=
  first_fail3 (flat_map (fun c =>
    if negb (single_use3 merge st st' c) then [] else
    flat_map (fun k => [if merge then check_merge3 st st' c k else check_split3 st st' c k;
                        if clean3 st c k && negb (clean3 st' c k) then 5 else 0]) (kinds_bound3 st c)) cells).

Definition topo3_tokens (st : state2) : list tok :=
  tN (nd st) :: flat_map (fun d => [tN (beta (mem st) 0 d); tN (beta (mem st) 1 d); tN (beta (mem st) 2 d);
                                     tN (beta (mem st) 3 d); tB (unused (mem st) d)]) (nrange (nd st)).

(** closed faces: every in-use non-free dart lies on a closed beta1 cycle *)
Definition closed_faces3 (st : state2) : bool :=
  forallb (fun d => is_free3 (mem st) d ||
                    match orbit3 (nd st) (mem st) (QCustom [1]) d with
                    | Some l => (beta (mem st) 1 (last l 0) =? d) && forallb (fun x => negb (beta (mem st) 1 x =? 0)) l
                    | None => false
                    end) (in_use3 st).
Definition fully_embedded3 (st : state2) : bool :=
  forallb (fun d => is_free3 (mem st) d || match vertex (mem st) (cid3 st QVertex d) with Some _ => true | None => false end) (in_use3 st).

(** polyhedral cells: every dart of a cell has a 2-image (closed volumes) *)
Definition closed_volumes3 (st : state2) : bool :=
  forallb (fun d => is_free3 (mem st) d || negb (beta (mem st) 2 d =? 0)) (in_use3 st).

(** the premise "no cell takes part in more than one merge or split of the call", read off the merges / splits
    the call performs (the model's own pair lists; the model is tied to the code by the correspondence runs) *)
Fixpoint ids_disjoint (ps : list (N * N)) : bool :=
  match ps with
  | [] => true
  | (a, c) :: r =>
    negb (existsb (fun q => (fst q =? a) || (snd q =? a) || (fst q =? c) || (snd q =? c)) r) && ids_disjoint r
  end.
Definition proper_pairs (ps : list (N * N)) : list (N * N) :=
  filter (fun q => negb (fst q =? snd q) && negb (fst q =? 0) && negb (snd q =? 0)) ps.
Definition n3 (st : state2) : N := nd st.
Definition pairs_sew3 (st : state2) (l r : N) : option (list (N * N) * list (N * N)) :=
  ev3 st (lo <- orbit_tx3 (n3 st) [1; 0] l ;; ro <- orbit_tx3 (n3 st) [0; 1] r ;; sew3_pairs (n3 st) lo ro).
(* the pairs three_unsew splits, computed on the state after the 3-unlink *)
Fixpoint unsew3_pair_list (n : N) (ls rs : list N) : prog (list (N * N) * list (N * N)) :=
  match ls, rs with
  | l :: ls', r :: rs' =>
    el <- edge_id3 n l ;; er <- edge_id3 n r ;;
    x <- next_or_b2 l ;;
    v1 <- vertex_id3 n x ;; v2 <- vertex_id3 n r ;;
    b0l <- rdB 0 l ;;
    extra <- (if b0l =? 0 then
                y <- next_or_b2 r ;; w1 <- vertex_id3 n l ;; w2 <- vertex_id3 n y ;; Ret [(w1, w2)]
              else Ret []) ;;
    rest <- unsew3_pair_list n ls' rs' ;;
    Ret ((el, er) :: fst rest, (v1, v2) :: extra ++ snd rest)
  | _, _ => Ret ([], [])
  end.
Definition pairs_unsew3 (st : state2) (l : N) : option (list (N * N) * list (N * N)) :=
  match step3 None st (Force3 (U3 l)) with
  | (ROk _, stu) =>
    let r := beta (mem st) 3 l in
    ev3 (compact3 stu) (lo <- orbit_tx3 (n3 st) [1; 0] l ;; ro <- orbit_tx3 (n3 st) [0; 1] r ;; unsew3_pair_list (n3 st) lo ro)
  | _ => None
  end.
Definition vid3 (st : state2) (d : N) : N := cid3 st QVertex d.
Definition single_use_call3 (st : state2) (c : call3) : bool :=
  let s := mem st in
  match c with
  | S3 l r =>
    match pairs_sew3 st l r with
    | Some (es, vs) => ids_disjoint (proper_pairs es) && ids_disjoint (proper_pairs vs)
    | None => false
    end
  | X3 l =>
    match pairs_unsew3 st l with
    | Some (es, vs) => ids_disjoint (proper_pairs es) && ids_disjoint (proper_pairs vs)
    | None => false
    end
  | S2 l r =>
    let b1l := beta s 1 l in let b1r := beta s 1 r in
    ids_disjoint (proper_pairs ((if b1r =? 0 then [] else [(vid3 st l, vid3 st b1r)]) ++
                                (if b1l =? 0 then [] else [(vid3 st b1l, vid3 st r)])))
  | X2 l =>
    let r := beta s 2 l in
    match step3 None st (Force3 (U2 l)) with
    | (ROk _, stu) =>
      let su := compact3 stu in
      let b1l := beta s 1 l in let b1r := beta s 1 r in
      ids_disjoint (proper_pairs ((if b1r =? 0 then [] else [(vid3 su l, vid3 su b1r)]) ++
                                  (if b1l =? 0 then [] else [(vid3 su b1l, vid3 su r)]))) &&
      ((b1l =? 0) || (b1r =? 0) || negb (vid3 st l =? vid3 st r))
    | _ => false
    end
  | _ => true
  end.

(** a complex of polyhedral cells: no cell is glued to itself through beta3 *)
Definition no_self_glue3 (st : state2) (c : call3) : bool :=
  forallb (fun d => (beta (mem st) 3 d =? 0) || negb (cid3 st QVolume d =? cid3 st QVolume (beta (mem st) 3 d))) (in_use3 st) &&
  match c with S3 l r => negb (cid3 st QVolume l =? cid3 st QVolume r) | _ => true end.

Definition link_of3 (c : call3) : option call3 :=
  match c with
  | S1 l r => Some (L1 l r) | S2 l r => Some (L2 l r) | S3 l r => Some (L3 l r)
  | X1 l => Some (U1 l) | X2 l => Some (U2 l) | X3 l => Some (U3 l)
  | _ => None
  end.

(* classes: 1 topology differs from the link's, 2-6 data (above), 7 unsew refused on a fully embedded mesh *)
Definition oracle_sew3 (ts : list tok) : list (list tok) :=
  match split_step ts with
  | Some (pre, TZ 5%Z :: TZ fa :: callt, post) =>
    match obs_state3 pre, obs_state3 post, post, parse_call3 callt with
    | Some st, Some st', TZ cls :: _, Some (c, []) =>
      if negb (wf3b (nd st) (mem st) && pre_call3b (nd st) (mem st) c && closed_faces3 st && no_self_glue3 st c && single_use_call3 st c) then [[TZ 2%Z]] else
      match link_of3 c with
      | None => [[TZ 2%Z]]
      | Some lc =>
        let dim := match c with S1 _ _ | X1 _ => 1 | S2 _ _ | X2 _ => 2 | _ => 3 end in
        let cells := [KVertex] ++ (if 2 <=? dim then [KEdge] else []) ++ (if 3 <=? dim then [KFace] else []) in
        let is_sew := match c with S1 _ _ | S2 _ _ | S3 _ _ => true | _ => false end in
        if (cls =? 0)%Z then
          match step3 None st (Force3 lc) with
          | (ROk _, stl) =>
            if negb (toks_eqb (topo3_tokens (compact3 stl)) (topo3_tokens st')) then [[TZ 0%Z; TZ 1%Z]] else
            (match data_checks3 is_sew cells st st' with 0 => [[TZ 1%Z]] | f => [[TZ 0%Z; tN f]] end)
          | _ => [[TZ 0%Z; TZ 1%Z]]
          end
        else
          (* unsew on a fully embedded mesh succeeds on any sewn dart *)
          if negb is_sew && fully_embedded3 st && closed_volumes3 st && (fa <? 0)%Z &&
             match aks st with [] => true | _ => false end &&
             match step3 None st (Force3 lc) with (ROk _, _) => true | _ => false end
          then [[TZ 0%Z; TZ 7%Z]] else [[TZ 1%Z]]
      end
    | _, _, _, _ => [[TZ (-1)%Z]]
    end
  | Some _ => [[TZ 2%Z]]
  | None => [[TZ (-1)%Z]]
  end.
