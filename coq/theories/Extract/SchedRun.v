(** * C07: replay of a controlled schedule in the concurrent machine of Stm/Serial.v, and the
    serializability oracle applied to implementation observations. Model only. *)
From Coq Require Import List NArith ZArith Bool Floats.
From HC Require Import Stm.Prog Stm.Atomic Stm.Serial Map2.Ops2 Map2.State2 Map2.Wf2 Map2.Orbit2 Map2.Kern2 Map2.KOps2
  Extract.Tok Extract.Run2.
Import ListNotations.
Open Scope N_scope.

Definition thr := thread unit.

(** the action a parked thread is waiting to perform (the yield points of the patched fast-stm):
    1 first transactional read, 2 non-transactional read, 3 commit, 4 retry() *)
Definition pending_kind (E : env) (t : thr) : option Z :=
  match att unit t with
  | None => None
  | Some a =>
    match cur unit a with
    | Rd v _ =>
      if e_dom E v then
        match wfind (ws unit a) v, rfind (rs unit a) v with
        | None, None => Some 1%Z
        | _, _ => None
        end
      else None
    | RdAtomic v _ => if e_dom E v then Some 2%Z else None
    | Ret _ => Some 3%Z
    | Retry => Some 4%Z
    | _ => None
    end
  end.

(** run the steps of a thread that touch nothing shared, up to its next yield point *)
Fixpoint settle (E : env) (fuel : nat) (g : gstore) (t : thr) : thr :=
  match fuel with
  | O => t
  | S f =>
    match pending_kind E t with
    | Some _ => t
    | None => match tstep unit E g t with Some (t', _) => settle E f g t' | None => t end
    end
  end.

Definition settle_fuel : nat := 200000.

Definition settle_all (E : env) (c : cfg unit) : cfg unit :=
  {| G := G unit c; clock := clock unit c; ths := map (settle E settle_fuel (G unit c)) (ths unit c); hist := hist unit c |}.

(** one grant of the scheduler: the thread performs its pending action, then runs to its next yield point;
    returns the label (kind) and whether the step committed *)
Definition grant (E : env) (c : cfg unit) (j : nat) : cfg unit * Z * bool :=
  match nth_error (ths unit c) j with
  | None => (c, 0%Z, false)
  | Some t =>
    match pending_kind E t with
    | None => (c, 0%Z, false)
    | Some k =>
      match cstep unit E c j with
      | None => (c, k, false)
      | Some c' =>
        let committed := negb (Nat.eqb (length (hist unit c')) (length (hist unit c))) in
        let ths' := match nth_error (ths unit c') j with
                    | Some t' => set_nth (ths unit c') j (settle E settle_fuel (G unit c') t')
                    | None => ths unit c' end in
        ({| G := G unit c'; clock := clock unit c'; ths := ths'; hist := hist unit c' |}, k, committed)
      end
    end
  end.

Fixpoint grants (E : env) (c : cfg unit) (s : list nat) (labels : list (nat * Z)) (commits : list nat)
  : cfg unit * list (nat * Z) * list nat :=
  match s with
  | [] => (c, rev labels, rev commits)
  | j :: r =>
    let '(c', k, cm) := grant E c j in
    grants E c' r ((j, k) :: labels) (if cm then j :: commits else commits)
  end.

(** parsing the workload *)
Fixpoint parse_txs (m : nat) (ts : list tok) : option (list (list bitem) * list tok) :=
  match m with
  | O => Some ([], ts)
  | S m' =>
    match ts with
    | TZ k :: rest =>
      match parse_bitems (Z.to_nat k) rest with
      | Some (bs, rest') =>
        match parse_txs m' rest' with Some (l, r) => Some (bs :: l, r) | None => None end
      | None => None
      end
    | _ => None
    end
  end.
Fixpoint parse_threads (m : nat) (ts : list tok) : option (list (list (list bitem)) * list tok) :=
  match m with
  | O => Some ([], ts)
  | S m' =>
    match ts with
    | TZ k :: rest =>
      match parse_txs (Z.to_nat k) rest with
      | Some (txs, rest') =>
        match parse_threads m' rest' with Some (l, r) => Some (txs :: l, r) | None => None end
      | None => None
      end
    | _ => None
    end
  end.
Definition parse_workload (ts : list tok) : option (list (list (list bitem)) * list tok) :=
  match ts with
  | TZ 20%Z :: TZ n :: rest => parse_threads (Z.to_nat n) rest
  | _ => None
  end.

Fixpoint run_prefix (fuel : nat) (st : state2) (ts : list tok) : option (state2 * list tok) :=
  match fuel with
  | O => None
  | S f =>
    match ts with
    | TZ 20%Z :: _ => Some (st, ts)
    | _ =>
      match parse_opk ts with
      | Some (fa, o, rest) => let '(_, st') := stepk fa st o in run_prefix f (compact2 st') rest
      | None => None
      end
    end
  end.

Definition tok_out (r : result unit) : list tok :=
  match r with
  | ROk _ => [TZ 0; TZ 0]
  | RErr e => [TZ 1; TZ (err_code e)]
  | RHang => [TZ 3; TZ 0]
  | RPanic _ => [TZ 2; TZ 0]
  end%Z.

Definition unfinished (t : thr) : bool :=
  match att unit t, pend unit t with None, [] => false | _, _ => true end.

Definition tnat (n : nat) : tok := TZ (Z.of_nat n).

(** case = mask n0 prefix-op* 20 workload nsched tid* *)
Definition run_sched_case (ts : list tok) : list (list tok) :=
  match ts with
  | TZ mask :: TZ n0 :: rest =>
    let st0 := empty2 (zN n0) (kinds_of_mask (zN mask)) in
    match run_prefix (S (length rest)) st0 rest with
    | Some (st, rest1) =>
      match parse_workload rest1 with
      | Some (wl, TZ ns :: sch) =>
        let E := env2 st None in
        let progs := map (map (kblock_prog (nd st) (aks st))) wl in
        let c0 := settle_all E (init unit (mem st) progs) in
        let s := map (fun t => match t with TZ z => Z.to_nat z | TF _ => O end) (firstn (Z.to_nat ns) sch) in
        let '(c, labels, commits) := grants E c0 s [] [] in
        let hang := existsb unfinished (ths unit c) in
        let final := compact2 (with_mem st (vals (G unit c))) in
        [ dump_result (ROk 0) ++ dump2 st;
          dump_result (ROk 0) ++ [tB hang; tnat (length (ths unit c))] ++
          flat_map (fun t => tnat (length (outs unit t)) :: flat_map tok_out (outs unit t)) (ths unit c) ++
          (tnat (length commits) :: map tnat commits) ++
          (tnat (length labels) :: flat_map (fun l => [tnat (fst l); TZ (snd l)]) labels) ++
          dump2 final ]
      | _ => [[TZ (-1)%Z]]
      end
    | None => [[TZ (-1)%Z]]
    end
  | _ => [[TZ (-1)%Z]]
  end.

(** ** the oracle: the implementation's own observation must be explained by a one-at-a-time execution *)
Fixpoint take_outs (m : nat) (ts : list tok) : option (list (Z * Z) * list tok) :=
  match m with
  | O => Some ([], ts)
  | S m' =>
    match ts with
    | TZ c :: TZ code :: rest =>
      match take_outs m' rest with Some (l, r) => Some ((c, code) :: l, r) | None => None end
    | _ => None
    end
  end.
Fixpoint take_thread_outs (m : nat) (ts : list tok) : option (list (list (Z * Z)) * list tok) :=
  match m with
  | O => Some ([], ts)
  | S m' =>
    match ts with
    | TZ k :: rest =>
      match take_outs (Z.to_nat k) rest with
      | Some (o, rest') =>
        match take_thread_outs m' rest' with Some (l, r) => Some (o :: l, r) | None => None end
      | None => None
      end
    | _ => None
    end
  end.
Fixpoint take_nats (m : nat) (ts : list tok) : option (list nat * list tok) :=
  match m with
  | O => Some ([], ts)
  | S m' =>
    match ts with
    | TZ z :: rest => match take_nats m' rest with Some (l, r) => Some (Z.to_nat z :: l, r) | None => None end
    | _ => None
    end
  end.

(** the committed transactions of each thread are its outs of class 0, in program order: pair each
    commit (a thread index) with the next not-yet-used committed transaction of that thread *)
Fixpoint nth_committed (txs : list (list bitem)) (os : list (Z * Z)) (k : nat) : option (list bitem) :=
  match txs, os with
  | tx :: txs', (c, _) :: os' =>
    if (c =? 0)%Z then (match k with O => Some tx | S k' => nth_committed txs' os' k' end)
    else nth_committed txs' os' k
  | _, _ => None
  end.
Fixpoint count_before (l : list nat) (j : nat) : nat :=
  match l with [] => O | x :: r => (if Nat.eqb x j then 1 else 0) + count_before r j end.
Fixpoint order_txs (wl : list (list (list bitem))) (outs : list (list (Z * Z))) (seen commits : list nat)
  : option (list (list bitem)) :=
  match commits with
  | [] => Some []
  | j :: r =>
    match nth_error wl j, nth_error outs j with
    | Some txs, Some os =>
      match nth_committed txs os (count_before seen j), order_txs wl outs (j :: seen) r with
      | Some tx, Some l => Some (tx :: l)
      | _, _ => None
      end
    | _, _ => None
    end
  end.

Fixpoint replay_serial (st : state2) (txs : list (list bitem)) : option state2 :=
  match txs with
  | [] => Some st
  | tx :: r =>
    match stepk None st (KBlock tx) with
    | (ROk _, st') => replay_serial (compact2 st') r
    | _ => None
    end
  end.

(** all orders of the commits (tried when the commit order itself does not explain the outcome) *)
Fixpoint insert_all {X} (x : X) (l : list X) : list (list X) :=
  match l with
  | [] => [[x]]
  | y :: r => (x :: l) :: map (cons y) (insert_all x r)
  end.
Fixpoint perms {X} (l : list X) : list (list X) :=
  match l with
  | [] => [[]]
  | x :: r => flat_map (insert_all x) (perms r)
  end.

(* verdict classes: 1 a thread panicked, 2 a thread did not terminate, 3 no one-at-a-time order of the
   committed transactions gives the final map (well-formedness of that map is then C01 along the serial order) *)
Definition oracle_serial (ts : list tok) : list (list tok) :=
  match split_step ts with
  | Some (pre, op, post) =>
    match obs_state pre, parse_workload op, post with
    | Some st, Some (wl, []), _ :: _ :: _ :: TZ hang :: TZ nth :: rest =>
      match take_thread_outs (Z.to_nat nth) rest with
      | Some (outs, TZ nc :: rest1) =>
        match take_nats (Z.to_nat nc) rest1 with
        | Some (commits, TZ nl :: rest2) =>
          let dumpt := skipn (2 * Z.to_nat nl) rest2 in
          if existsb (existsb (fun o => (fst o =? 2)%Z)) outs then [[TZ 0; TZ 1]]%Z
          else if negb (hang =? 0)%Z then
            (* a thread is still running when the step budget ends. If its pending transaction also blocks
               (retry() on undefined data) when run alone on the final map, the blocking is a property of
               the data, not of the interleaving: out of contract. Otherwise: not terminating. *)
            (match parse_dump2 dumpt with
             | Some (stf, []) =>
               let blocked_alone (txs : list (list bitem)) (os : list (Z * Z)) : bool :=
                 match nth_error txs (length os) with
                 | Some tx => match stepk None stf (KBlock tx) with (RHang, _) => true | _ => false end
                 | None => true
                 end in
               if forallb (fun p => blocked_alone (fst p) (snd p)) (combine wl outs) then [[TZ 2]]%Z else [[TZ 0; TZ 2]]%Z
             | _ => [[TZ (-1)]]%Z
             end)
          else
            let explains (order : list nat) : bool :=
              match order_txs wl outs [] order with
              | Some txs =>
                match replay_serial st txs with
                | Some st' => toks_eqb (dump2 st') dumpt
                | None => false
                end
              | None => false
              end in
            if explains commits || (Nat.leb (length commits) 6 && existsb explains (perms commits))
            then [[TZ 1]]%Z
            else [[TZ 0; TZ 3]]%Z
        | _ => [[TZ (-1)]]%Z
        end
      | _ => [[TZ (-1)]]%Z
      end
    | _, _, _ => [[TZ (-1)]]%Z
    end
  | None => [[TZ (-1)]]%Z
  end.
