(** * C13 / C14 / C15: the kernels' specifications as executable predicates over
    (pre-state, kernel call, post-state) observations of the implementation.  Model only.
    Cells come from the verified closure (C03); areas and orientations are exact (Dyadic). *)
From Coq Require Import List NArith ZArith Bool Floats.
From HC Require Import Base.Closure Stm.Prog Map2.Ops2 Map2.State2 Map2.Wf2 Map2.Orbit2 Map2.Kern2 Map2.KOps2
  Extract.Tok Extract.Dyadic Extract.Run2 Extract.Query2 Extract.Sew2Oracle.
Import ListNotations.
Open Scope N_scope.

Definition b (st : state2) (i d : N) : N := beta (mem st) i d.
Definition vtx (st : state2) (d : N) : option V2 := vertex (mem st) (cid st PVertex d).
Definition vtok (o : option V2) : list tok := tokV o.
Definition pt_of_v (v : V2) : option pt :=
  match dy_of_float (fst v), dy_of_float (snd v) with Some x, Some y => Some (x, y) | _, _ => None end.
Definition pt_at (st : state2) (d : N) : option pt := match vtx st d with Some v => pt_of_v v | None => None end.

Fixpoint all_some {X} (l : list (option X)) : option (list X) :=
  match l with
  | [] => Some []
  | Some x :: r => match all_some r with Some xs => Some (x :: xs) | None => None end
  | None :: _ => None
  end.

(** the beta1-cycle through [d] when it is closed *)
Definition face_cycle (st : state2) (d : N) : option (list N) :=
  match orbit2 (nd st) (mem st) PFaceLinear d with
  | Some l => if (b st 1 (last l 0) =? d) && forallb (fun x => negb (b st 1 x =? 0)) l then Some l else None
  | None => None
  end.

Definition usable (st : state2) (d : N) : bool := negb (d =? 0) && (d <? nd st) && negb (unused (mem st) d).
Definition same_topo_at (st st' : state2) (d : N) : bool :=
  (b st' 0 d =? b st 0 d) && (b st' 1 d =? b st 1 d) && (b st' 2 d =? b st 2 d) &&
  Bool.eqb (unused (mem st') d) (unused (mem st) d).
Definition same_vtx_at (st st' : state2) (d : N) : bool := toks_eqb (vtok (vtx st' d)) (vtok (vtx st d)).
Definition attrs_unchanged (st st' : state2) (ds : list N) : bool :=
  forallb (fun d => forallb (fun kc => toks_eqb (slot st' (DAttr (fst kc)) d) (slot st (DAttr (fst kc)) d)) (aks st)) ds.
Definition minus (l ex : list N) : list N := filter (fun x => negb (mem_N x ex)) l.
Definition all_darts (st : state2) : list N := tl (nrange (nd st)).

Definition verdict (c : N) : list (list tok) := match c with 0 => [[TZ 1%Z]] | _ => [[TZ 0%Z; tN c]] end.
Fixpoint first_bad (l : list (bool * N)) : N :=
  match l with [] => 0 | (ok, c) :: r => if ok then first_bad r else c end.

(** ** C14: vertex insertion on an edge *)
(* expected new chain on one side: prev -> x1 -> ... -> xk -> old successor *)
Fixpoint chain_ok (st' : state2) (prev : N) (xs : list N) (last_succ : N) : bool :=
  match xs with
  | [] => b st' 1 prev =? last_succ
  | x :: r => (b st' 1 prev =? x) && (b st' 0 x =? prev) && chain_ok st' x r last_succ
  end.

Definition insert_spec (st st' : state2) (e : N) (fh sh : list N) (pts : list V2) : N :=
  let d1 := e in let d2 := b st 2 d1 in
  let s1 := b st 1 d1 in let s2 := b st 1 d2 in
  let news := fh ++ (if d2 =? 0 then [] else sh) in
  let touched := [d1; d2; s1; s2] ++ news in
  first_bad [
    (wf2b (nd st') (mem st'), 1);
    (* side 1 and side 2 chains *)
    (chain_ok st' d1 fh s1 && ((s1 =? 0) || (b st' 0 s1 =? last fh d1)), 2);
    ((d2 =? 0) || (chain_ok st' d2 sh s2 && ((s2 =? 0) || (b st' 0 s2 =? last sh d2))), 2);
    (* beta2 pairs the two sides segment by segment *)
    ((d2 =? 0) || forallb (fun xy => (b st' 2 (fst xy) =? snd xy) && (b st' 2 (snd xy) =? fst xy))
                          (combine (d1 :: fh) (rev (d2 :: sh))), 3);
    ((negb (d2 =? 0)) || forallb (fun x => b st' 2 x =? 0) (d1 :: fh), 3);
    (* the new vertices carry the requested points, under their cell id, in order *)
    (forallb (fun xp => toks_eqb (vtok (vtx st' (fst xp))) (vtok (Some (snd xp)))) (combine fh pts), 4);
    (* nothing else moved: topology of every other dart, unused flags, beta0 of d1/d2, beta1 elsewhere *)
    (forallb (same_topo_at st st') (minus (all_darts st) touched), 5);
    ((b st' 0 d1 =? b st 0 d1) && ((d2 =? 0) || (b st' 0 d2 =? b st 0 d2)) &&
     ((s1 =? 0) || ((b st' 1 s1 =? b st 1 s1) && (b st' 2 s1 =? b st 2 s1))) &&
     ((s2 =? 0) || ((b st' 1 s2 =? b st 1 s2) && (b st' 2 s2 =? b st 2 s2))), 5);
    (forallb (fun d => Bool.eqb (unused (mem st') d) (unused (mem st) d)) (all_darts st), 5);
    (* every pre-existing vertex keeps its coordinates; attributes untouched *)
    (forallb (same_vtx_at st st') (filter (fun d => usable st d) (minus (all_darts st) news)), 6);
    (attrs_unchanged st st' (nrange (nd st)), 6)
  ].

Definition insert_pre (st : state2) (e : N) (fh sh : list N) (ts_ok : bool) : bool :=
  let d2 := b st 2 e in
  let news := fh ++ (if d2 =? 0 then [] else sh) in
  usable st e && ts_ok &&
  forallb (fun x => usable st x && is_free2 (mem st) x) news && nodupb news &&
  (* the edge has a defined end point on each side *)
  match vtx st e, vtx st (if negb (b st 1 e =? 0) then b st 1 e else d2) with
  | Some _, Some _ => negb ((b st 1 e =? 0) && (d2 =? 0))
  | _, _ => false
  end.

(* the spare darts the call will use are non-null and free (clause "non-free or null spare darts ... are
   reported as errors"): an Ok result on a state where this fails is a failure of the property *)
Definition spares_ok (st : state2) (e : N) (fh sh : list N) : bool :=
  let news := fh ++ (if b st 2 e =? 0 then [] else sh) in
  forallb (fun x => negb (x =? 0) && (x <? nd st) && is_free2 (mem st) x) news.

Definition oracle_insert (ts : list tok) : list (list tok) :=
  match split_step ts with
  | Some (pre, TZ 9%Z :: TZ _ :: kt, post) =>
    match obs_state pre, obs_state post, post, parse_kcall kt with
    | Some st, Some st', TZ cls :: _, Some (k, []) =>
      if negb (wf2b (nd st) (mem st)) then [[TZ 2%Z]] else
      match k with
      | KInsertVertex e nd1 nd2 t =>
        let ok_t := match t with Some t => in_unit t | None => true end in
        if insert_pre st e [nd1] [nd2] ok_t then
          if (cls =? 0)%Z then
            match vtx st e, vtx st (if b st 2 e =? 0 then b st 1 e else b st 2 e) with
            | Some v1, Some v2 => verdict (insert_spec st st' e [nd1] [nd2] [new_vertex v1 v2 t])
            | _, _ => [[TZ 2%Z]]
            end
          else [[TZ 2%Z]]
        else if (cls =? 0)%Z && (negb ok_t || (usable st e && negb (spares_ok st e [nd1] [nd2]))) then [[TZ 0%Z; TZ 7%Z]] else [[TZ 2%Z]]
      | KInsertVertices e nds tsf =>
        let k := length tsf in
        let fh := firstn k nds in let sh := skipn k nds in
        let ok_t := forallb in_unit tsf in
        if Nat.eqb (length nds) (2 * k) && insert_pre st e fh sh ok_t then
          if (cls =? 0)%Z then
            match vtx st e, vtx st (if negb (b st 1 e =? 0) then b st 1 e else b st 2 e) with
            | Some v1, Some v2 => verdict (insert_spec st st' e fh sh (map (lerp2 v1 v2) tsf))
            | _, _ => [[TZ 2%Z]]
            end
          else [[TZ 2%Z]]
        else if (cls =? 0)%Z && (negb ok_t || negb (Nat.eqb (length nds) (2 * k)) ||
                                 (usable st e && negb (spares_ok st e fh sh))) then [[TZ 0%Z; TZ 7%Z]]
        else [[TZ 2%Z]]
      | _ => [[TZ 2%Z]]
      end
    | _, _, _, _ => [[TZ (-1)%Z]]
    end
  | Some _ => [[TZ 2%Z]]
  | None => [[TZ (-1)%Z]]
  end.

(** ** C13: triangulation of a polygonal face *)
Fixpoint pairs_lt {X} (l : list X) : list (X * X) :=
  match l with [] => [] | x :: r => map (fun y => (x, y)) r ++ pairs_lt r end.
Fixpoint triples_lt {X} (l : list X) : list (X * X * X) :=
  match l with [] => [] | x :: r => map (fun yz => (x, fst yz, snd yz)) (pairs_lt r) ++ triples_lt r end.

Definition cyc_edges (ps : list pt) : list (nat * (pt * pt)) :=
  match ps with
  | [] => []
  | p0 :: _ => enumerate_from 0 (combine ps (tl ps ++ [p0]))
  end.

Definition simple_poly (ps : list pt) : bool :=
  let n := length ps in
  forallb (fun pq => negb (pt_eqb (fst pq) (snd pq))) (pairs_lt ps) &&
  forallb (fun ef =>
      let '((i, (a, bb)), (j, (c, d))) := ef in
      if Nat.eqb (S i) j || (Nat.eqb i 0 && Nat.eqb (S j) n)
      then (* adjacent edges: they only share their common end point *)
           (if Nat.eqb (S i) j then negb (Z.eqb (dy_sgn (dy_cross a bb d)) 0)
            else negb (Z.eqb (dy_sgn (dy_cross c d bb)) 0))
      else negb (seg_meet a bb c d))
    (pairs_lt (cyc_edges ps)).

Definition turn_signs (ps : list pt) : list Z :=
  match ps with
  | p0 :: p1 :: _ => map (fun t => dy_sgn (dy_cross (fst (fst t)) (snd (fst t)) (snd t)))
                         (combine (combine ps (tl ps ++ [p0])) (tl (tl ps) ++ [p0; p1]))
  | _ => []
  end.
Definition strictly_convex (ps : list pt) : bool :=
  simple_poly ps &&
  match turn_signs ps with
  | s :: r => negb (Z.eqb s 0) && forallb (Z.eqb s) r
  | [] => false
  end.
Definition general_position (ps : list pt) : bool :=
  forallb (fun t => negb (Z.eqb (dy_sgn (dy_cross (fst (fst t)) (snd (fst t)) (snd t))) 0)) (triples_lt ps).

Definition tri_spec (st st' : state2) (ds nds : list N) (ps : list pt) : N :=
  let D := ds ++ nds in
  let n := length ds in
  let tris := map (fun x => (x, face_cycle st' x)) D in
  let area := dy_area2 ps in
  let tri_area (c : list N) : option dy :=
    match all_some (map (pt_at st') c) with
    | Some [p; q; r] => Some (dy_cross p q r)
    | _ => None
    end in
  let firsts := filter (fun xc => match snd xc with Some c => lmin c (fst xc) =? fst xc | None => false end) tris in
  let areas := map (fun xc => match snd xc with Some c => tri_area c | None => None end) firsts in
  first_bad [
    (wf2b (nd st') (mem st'), 1);
    (forallb (fun xc => match snd xc with
                        | Some c => Nat.eqb (length c) 3 && subsetb c D
                        | None => false end) tris && Nat.eqb (length firsts) (n - 2), 2);
    (forallb (fun d => same_vtx_at st st' d) ds &&
     forallb (fun x => match pt_at st' x with Some p => existsb (pt_eqb p) ps | None => false end) D, 3);
    (match all_some areas with
     | Some l => forallb (fun a => Z.eqb (dy_sgn a) (dy_sgn area) && negb (Z.eqb (dy_sgn a) 0)) l &&
                 dy_eqb (fold_left dy_add l dy_zero) area
     | None => false
     end, 4);
    (forallb (fun d => b st' 2 d =? b st 2 d) ds &&
     forallb (same_topo_at st st') (minus (all_darts st) D) &&
     forallb (same_vtx_at st st') (filter (usable st) (minus (all_darts st) nds)), 5)
  ].

Definition oracle_tri (ts : list tok) : list (list tok) :=
  match split_step ts with
  | Some (pre, TZ 9%Z :: TZ _ :: kt, post) =>
    match obs_state pre, obs_state post, post, parse_kcall kt with
    | Some st, Some st', TZ cls :: _, Some (k, []) =>
      let go (kind : N) (ccw : bool) (f : N) (nds : list N) :=
        if negb (wf2b (nd st) (mem st) && usable st f) then [[TZ 2%Z]] else
        match face_cycle st f with
        | None => [[TZ 2%Z]]
        | Some ds =>
          match all_some (map (pt_at st) ds) with
          | None => [[TZ 2%Z]]
          | Some ps =>
            let n := length ds in
            (* premises: fan_convex_cell is only specified on convex cells, ear clipping on
               polygons of the announced orientation *)
            if Nat.leb 4 n && simple_poly ps && Nat.eqb (length nds) (2 * (n - 3)) && nodupb nds &&
               ((negb (kind =? 4)) || strictly_convex ps) &&
               ((negb (kind =? 5)) || Z.eqb (dy_sgn (dy_area2 ps)) (if ccw then 1 else (-1))%Z) &&
               forallb (fun x => usable st x && is_free2 (mem st) x && negb (mem_N x ds)) nds
            then
              if (cls =? 0)%Z then verdict (tri_spec st st' ds nds ps)
              else match aks st with
                   | _ :: _ => [[TZ 2%Z]]          (* an attribute law may legitimately refuse *)
                   | [] =>
                     if (kind =? 3) && strictly_convex ps then [[TZ 0%Z; TZ 7%Z]]
                     else if (kind =? 5) && general_position ps &&
                             Z.eqb (dy_sgn (dy_area2 ps)) (if ccw then 1 else (-1))%Z then [[TZ 0%Z; TZ 8%Z]]
                     else [[TZ 1%Z]]
                   end
            else [[TZ 2%Z]]
          end
        end in
      match k with
      | KFan f nds => go 3 true f nds
      | KFanConvex f nds => go 4 true f nds
      | KEarclip ccw f nds => go 5 ccw f nds
      | _ => [[TZ 2%Z]]
      end
    | _, _, _, _ => [[TZ (-1)%Z]]
    end
  | Some _ => [[TZ 2%Z]]
  | None => [[TZ (-1)%Z]]
  end.

(** ** C15: swap / cut / collapse on triangle meshes *)
Definition mesh_darts (st : state2) : list N :=
  filter (fun d => usable st d && negb (is_free2 (mem st) d)) (all_darts st).
Definition ids_of (st : state2) (p : policy) (ds : list N) : list N := dedup (map (cid st p) ds).
Definition all_triangles (st : state2) : bool :=
  forallb (fun d => match face_cycle st d with Some c => Nat.eqb (length c) 3 | None => false end) (mesh_darts st).
Definition fully_embedded (st : state2) : bool :=
  forallb (fun d => match pt_at st d with Some _ => true | None => false end) (mesh_darts st).

Fixpoint minus_one (x : list tok) (l : list (list tok)) : list (list tok) :=
  match l with
  | [] => []
  | y :: r => if toks_eqb x y then r else y :: minus_one x r
  end.
Definition count_toks (x : list tok) (l : list (list tok)) : nat := length (filter (toks_eqb x) l).
Definition multiset_eq (a c : list (list tok)) : bool :=
  Nat.eqb (length a) (length c) && forallb (fun x => Nat.eqb (count_toks x a) (count_toks x c)) a.
Definition vertex_multiset (st : state2) : list (list tok) :=
  map (fun v => vtok (vtx st v)) (ids_of st PVertex (mesh_darts st)).

Definition total_area2 (st : state2) : option dy :=
  let fs := ids_of st PFace (mesh_darts st) in
  match all_some (map (fun f => match face_cycle st f with
                                | Some c => match all_some (map (pt_at st) c) with
                                            | Some ps => Some (dy_area2 ps) | None => None end
                                | None => None end) fs) with
  | Some l => Some (fold_left dy_add l dy_zero)
  | None => None
  end.

Definition counts (st : state2) : Z * Z * Z :=
  let m := mesh_darts st in
  (Z.of_nat (length (ids_of st PVertex m)), Z.of_nat (length (ids_of st PEdge m)), Z.of_nat (length (ids_of st PFace m))).
Definition counts_delta (st st' : state2) (dv de df : Z) : bool :=
  let '(v, e, f) := counts st in let '(v', e', f') := counts st' in
  (Z.eqb (v' - v) dv && Z.eqb (e' - e) de && Z.eqb (f' - f) df)%Z.

Definition opt_dy_eqb (a c : option dy) : bool :=
  match a, c with Some x, Some y => dy_eqb x y | _, _ => false end.

Definition exact_mid (p q : pt) : pt := (dy_half (dy_add (fst p) (fst q)), dy_half (dy_add (snd p) (snd q))).

(* anchors of vertices, keyed by coordinates: every post vertex other than [skip] keeps the anchor
   of the pre vertex with the same coordinates *)
Definition vanchor (st : state2) (v : N) : list tok := slot st (DAttr KVA) v.
Definition anchors_kept (st st' : state2) (skip : list (list tok)) : bool :=
  negb (has_kind (aks st) KVA) ||
  forallb (fun v' =>
     let c' := vtok (vtx st' v') in
     existsb (toks_eqb c') skip ||
     existsb (fun v => toks_eqb (vtok (vtx st v)) c' && toks_eqb (vanchor st v) (vanchor st' v'))
             (ids_of st PVertex (mesh_darts st)))
    (ids_of st' PVertex (mesh_darts st')).

Definition sign_consistent_around (st : state2) (v : N) : bool :=
  let ds := cell_of st PVertex v in
  let signs := map (fun d => match face_cycle st d with
                             | Some c => match all_some (map (pt_at st) c) with
                                         | Some ps => dy_sgn (dy_area2 ps) | None => 0%Z end
                             | None => 0%Z end) ds in
  (* degenerate (zero-area) triangles have no orientation: only the non-zero signs must agree *)
  match filter (fun s => negb (Z.eqb s 0)) signs with s :: r => forallb (Z.eqb s) r | [] => true end.

(** the premise of the collapse clause: the end points are two vertices whose only common neighbours are the
    opposite corners of the (one or two) triangles on the edge *)
Definition vneigh (st : state2) (v : N) : list N :=
  dedup (flat_map (fun d => (if b st 1 d =? 0 then [] else [cid st PVertex (b st 1 d)]) ++
                            (if b st 0 d =? 0 then [] else [cid st PVertex (b st 0 d)])) (cell_of st PVertex v)).
(* on a mesh with boundary the outside counts as one more vertex, neighbour of every boundary vertex: it is the
   opposite corner of a boundary edge, and a common neighbour beyond the corners for an interior edge between
   two boundary vertices (collapsing such an edge pinches the mesh or drops an ear together with its apex) *)
Definition on_boundary (st : state2) (v : N) : bool :=
  existsb (fun d => (b st 2 d =? 0) || (b st 2 (b st 0 d) =? 0)) (cell_of st PVertex v).
Definition link_condition (st : state2) (l : N) : bool :=
  let r := b st 2 l in
  let v1 := cid st PVertex l in let v2 := cid st PVertex (b st 1 l) in
  let opp := cid st PVertex (b st 0 l) :: (if r =? 0 then [] else [cid st PVertex (b st 0 r)]) in
  negb (v1 =? v2) && forallb (fun x => negb (mem_N x (vneigh st v2)) || mem_N x opp) (vneigh st v1) &&
  ((r =? 0) || negb (on_boundary st v1 && on_boundary st v2)).

(** where the anchors send the surviving vertex, and the anchor it must carry: [None] when the map has no
    vertex anchors (midpoint, nothing to carry) *)
Definition collapse_verdict (st : state2) (l : N) : option (bool * bool * Z) :=
  if negb (has_kind (aks st) KVA) then None else
  match attr (mem st) KVA (cid st PVertex l), attr (mem st) KVA (cid st PVertex (b st 1 l)) with
  | Some a1, Some a2 =>
    match a_merge KVA a1 a2 with
    | Some m => Some ((m =? a1)%Z, (m =? a2)%Z, m)
    | None => None
    end
  | _, _ => None
  end.

(* a cut splits faces: every face of the result carries the FaceAnchor of the face its old darts came from *)
Definition face_anchors_follow (st st' : state2) : bool :=
  negb (has_kind (aks st) KFA) ||
  (* a FaceAnchor left under a dart that is not a face id (swaps can do that) would be adopted by a new face:
     the clause is claimed on states whose face anchors sit at face ids *)
  negb (clean st KFace (DAttr KFA)) ||
  let old_mesh x := usable st x && negb (is_free2 (mem st) x) in
  forallb (fun d' =>
     match face_cycle st' d' with
     | Some c =>
       match filter old_mesh c with
       | x :: _ => toks_eqb (slot st' (DAttr KFA) (cid st' PFace d')) (slot st (DAttr KFA) (cid st PFace x))
       | [] => true
       end
     | None => true
     end) (mesh_darts st').

(* classes: 1 ill-formed, 2 a face is not a triangle, 3 V/E/F counts, 4 C15:vertex-set-wrong,
   5 signed area not conserved, 6 orientation around the collapsed vertex, 7 swap did not produce
   the other diagonal, 8 anchors, 9 removed darts not flagged *)
Definition remesh_common (st st' : state2) : list (bool * N) :=
  [ (wf2b (nd st') (mem st'), 1); (all_triangles st' && fully_embedded st', 2) ].

Definition oracle_remesh (ts : list tok) : list (list tok) :=
  match split_step ts with
  | Some (pre, TZ 9%Z :: TZ _ :: kt, post) =>
    match obs_state pre, obs_state post, post, parse_kcall kt with
    | Some st, Some st', TZ cls :: _, Some (k, []) =>
      if negb (wf2b (nd st) (mem st) && all_triangles st && fully_embedded st) then [[TZ 2%Z]] else
      if negb (cls =? 0)%Z then [[TZ 2%Z]] else
      match k with
      | KSwap e =>
        let l := e in let r := b st 2 l in
        if negb (usable st l) || (r =? 0) then [[TZ 2%Z]] else
        let corner d := vtok (vtx st d) in
        let A := corner l in let B := corner r in let C := corner (b st 0 l) in let D := corner (b st 0 r) in
        let face_pts s d := match face_cycle s d with Some c => map (fun x => vtok (vtx s x)) c | None => [] end in
        let f1 := face_pts st' l in let f2 := face_pts st' r in
        verdict (first_bad (remesh_common st st' ++ [
          (counts_delta st st' 0 0 0, 3);
          (multiset_eq (vertex_multiset st) (vertex_multiset st'), 4);
          (opt_dy_eqb (total_area2 st) (total_area2 st'), 5);
          ((multiset_eq f1 [A; C; D] && multiset_eq f2 [B; C; D]) ||
           (multiset_eq f1 [B; C; D] && multiset_eq f2 [A; C; D]), 7);
          (b st' 2 l =? r, 7);
          (anchors_kept st st' [], 8) ]))
      | KCutOuter e n1 n2 n3 | KCutInner e n1 n2 n3 _ _ _ =>
        let inner := match k with KCutInner _ _ _ _ _ _ _ => true | _ => false end in
        let spare := match k with KCutInner _ a c d f g h => [a; c; d; f; g; h] | _ => [n1; n2; n3] end in
        if negb (usable st e) || negb (Bool.eqb inner (negb (b st 2 e =? 0))) ||
           negb (forallb (fun x => usable st x && is_free2 (mem st) x) spare && nodupb spare) then [[TZ 2%Z]] else
        match pt_at st e, pt_at st (b st 1 e), vtx st e, vtx st (b st 1 e) with
        | Some p, Some q, Some v1, Some v2 =>
          let mid := avg2 v1 v2 in
          let exact := match pt_of_v mid with Some m => pt_eqb m (exact_mid p q) | None => false end in
          verdict (first_bad (remesh_common st st' ++ [
            (if inner then counts_delta st st' 1 3 2 else counts_delta st st' 1 2 1, 3);
            (multiset_eq (vtok (Some mid) :: vertex_multiset st) (vertex_multiset st'), 4);
            (negb exact || opt_dy_eqb (total_area2 st) (total_area2 st'), 5);
            (anchors_kept st st' [vtok (Some mid)] && face_anchors_follow st st', 8) ]))
        | _, _, _, _ => [[TZ 2%Z]]
        end
      | KCollapse e =>
        let l := e in let r := b st 2 l in
        if negb (usable st l) || negb (link_condition st l) then [[TZ 2%Z]] else
        match vtx st l, vtx st (b st 1 l) with
        | Some v1, Some v2 =>
          let olds := vertex_multiset st in
          let news := vertex_multiset st' in
          let verdict_a := collapse_verdict st l in
          let cand := match verdict_a with
                      | None => if has_kind (aks st) KVA then [vtok (Some v1); vtok (Some v2); vtok (Some (avg2 v1 v2))]
                                else [vtok (Some (avg2 v1 v2))]
                      | Some (true, false, _) => [vtok (Some v1)]
                      | Some (false, true, _) => [vtok (Some v2)]
                      | Some (_, _, _) => [vtok (Some (avg2 v1 v2))]
                      end in
          let removed := filter (fun d => unused (mem st') d && negb (unused (mem st) d)) (all_darts st) in
          verdict (first_bad (remesh_common st st' ++ [
            (if r =? 0 then counts_delta st st' (-1) (-2) (-1) else counts_delta st st' (-1) (-3) (-2), 3);
            (* known finding: in some configurations the vertex ends at avg(avg(v1,v2), v_i) *)
            (negb (existsb (fun c => multiset_eq (c :: minus_one (vtok (Some v1)) (minus_one (vtok (Some v2)) olds)) news)
                           [vtok (Some (avg2 (avg2 v1 v2) v1)); vtok (Some (avg2 (avg2 v1 v2) v2));
                            vtok (Some (avg2 v1 (avg2 v1 v2))); vtok (Some (avg2 v2 (avg2 v1 v2)))]) ||
             existsb (fun c => multiset_eq (c :: minus_one (vtok (Some v1)) (minus_one (vtok (Some v2)) olds)) news) cand, 10);
            (existsb (fun c => multiset_eq (c :: minus_one (vtok (Some v1)) (minus_one (vtok (Some v2)) olds)) news) cand, 4);
            (Nat.eqb (length removed) (if r =? 0 then 3 else 6), 9);
            (match verdict_a with
             | Some (_, _, m) =>
               existsb (fun v' => existsb (toks_eqb (vtok (vtx st' v'))) cand && toks_eqb (vanchor st' v') [TZ 1; TZ m])
                       (ids_of st' PVertex (mesh_darts st')) && anchors_kept st st' cand
             | None => true
             end, 8);
            (forallb (fun v' => negb (existsb (toks_eqb (vtok (vtx st' v'))) cand) || sign_consistent_around st' v')
                     (ids_of st' PVertex (mesh_darts st')), 6) ]))
        | _, _ => [[TZ 2%Z]]
        end
      | _ => [[TZ 2%Z]]
      end
    | _, _, _, _ => [[TZ (-1)%Z]]
    end
  | Some _ => [[TZ 2%Z]]
  | None => [[TZ (-1)%Z]]
  end.
