(** * Executable instance of the 2-map model and its token-level entry points.

    This is what the correspondence check runs (extracted to OCaml): the same case
    lines the Rust harness executed are replayed here and the dumps are compared.
    Model only, no proofs. *)
From Coq Require Import List NArith ZArith Bool Floats.
From HC Require Import Stm.Prog Map2.Ops2 Map2.State2 Map2.Wf2 Map2.Orbit2 Map2.Kern2 Map2.KOps2 Extract.Tok.
Import ListNotations.
Open Scope N_scope.


(** ** the f64 coordinates + the harness' four user attribute kinds *)
Definition V2 := (float * float)%type.
Definition avg2 (a b : V2) : V2 :=
  (((fst a + fst b) / 2)%float, ((snd a + snd b) / 2)%float).
(* two_sew: lhs_vector = b1l - l; rhs_vector = b1r - r; refuse when dot >= 0 *)
Definition bad_orient2 (l b1r b1l r : V2) : bool :=
  let lx := (fst b1l - fst l)%float in let ly := (snd b1l - snd l)%float in
  let rx := (fst b1r - fst r)%float in let ry := (snd b1r - snd r)%float in
  (0 <=? (lx * rx + ly * ry))%float.

Definition w32 (z : Z) : Z := Z.modulo z 4294967296.

(* kernels' geometry on f64 *)
Definition lerp2 (a b : V2) (t : float) : V2 :=
  ((fst a + (fst b - fst a) * t)%float, (snd a + (snd b - snd a) * t)%float).
Definition cross2 (v1 v2 v3 : V2) : float :=
  ((fst v2 - fst v1) * (snd v3 - snd v2) - (snd v2 - snd v1) * (fst v3 - fst v2))%float.
Definition fsignum (x : float) : float :=
  if PrimFloat.is_nan x then x
  else if (x <? 0)%float || ((x =? 0)%float && (1 / x <? 0)%float) then (-1)%float else 1%float.
Definition feps : float := 0x1p-52%float.
Definition in_unit (t : float) : bool := negb ((1 <=? t)%float || (t <=? 0)%float).
Definition v2_eqb (a b : V2) : bool := (fst a =? fst b)%float && (snd a =? snd b)%float.
(* anchors: dimension * 2^32 + identifier *)
Definition anc_dim (a : Z) : N := Z.to_N (Z.div a 4294967296).
Definition anc_merge (a b : Z) : option Z :=
  if (anc_dim a =? anc_dim b)%N then (if Z.eqb a b then Some a else None)
  else if (anc_dim a <? anc_dim b)%N then Some a else Some b.

(** kind 0: Wt, vertex, additive weight (non idempotent)
    kind 1: Ea, edge, non-commutative
    kind 2: Fa, face, max
    kind 3: Vb, vertex, partial laws *)
Definition am (k : N) (a b : Z) : option Z :=
  match k with
  | 0 => Some (w32 (a + b)%Z)
  | 1 => Some (w32 (3 * a + b + 1)%Z)
  | 2 => Some (Z.max a b)
  | 3 => if Z.eqb (Z.modulo (a + b) 5) 0 then None else Some (w32 (2 * a + b)%Z)
  | _ => anc_merge a b
  end.
Definition ami (k : N) (a : Z) : option Z :=
  match k with
  | 0 => Some a
  | 1 => Some (w32 (a + 100)%Z)
  | 2 => None
  | 3 => Some (w32 (a + 1)%Z)
  | _ => Some a
  end.
Definition amn (k : N) : option Z :=
  match k with
  | 0 => None | 1 => Some 7%Z | 2 => None | 3 => Some 0%Z | _ => None
  end.
Definition asp (k : N) (a : Z) : option (Z * Z) :=
  match k with
  | 0 => Some (Z.div a 2, a - Z.div a 2)%Z
  | 1 => Some (w32 (a + 1)%Z, w32 (2 * a + 3)%Z)
  | 2 => Some (a, a)
  | 3 => if Z.eqb (Z.modulo a 7) 0 then None else Some (w32 (a + 2)%Z, Z.div a 3)
  | _ => Some (a, a)
  end.
Definition aspn (k : N) : option (Z * Z) :=
  match k with
  | 0 => None | 1 => Some (8, 9)%Z | 2 => None | 3 => Some (1, 2)%Z | _ => None
  end.

Global Instance sig_f64 : Sig := {|
  V := V2; A := Z;
  v_merge := fun a b => Some (avg2 a b);
  v_merge_inc := fun a => Some a;
  v_merge_none := None;
  v_split := fun a => Some (a, a);
  v_split_none := None;
  a_merge := am; a_merge_inc := ami; a_merge_none := amn;
  a_split := asp; a_split_none := aspn;
  bad_orient := bad_orient2;
  Sc := float; sc_in_unit := in_unit; v_lerp := lerp2; v_avg := avg2; v_cross := cross2; v_eqb := v2_eqb;
  sc_signum := fsignum; sc_eqb := PrimFloat.eqb;
  sc_small := fun x => (PrimFloat.abs x <? feps)%float;
  sc_pos := fun x => (0 <? x)%float; sc_neg := fun x => (x <? 0)%float;
  anchor_dim := anc_dim; a_eqb := Z.eqb |}.

Definition kind_cell (k : N) : cellkind :=
  match k with 0 => KVertex | 1 => KEdge | 2 => KFace | 3 => KVertex | 4 => KVertex | 5 => KEdge | _ => KFace end.

Definition kinds_of_mask (m : N) : kinds :=
  map (fun k => (k, kind_cell k)) (filter (fun k => N.testbit m k) [0; 1; 2; 3; 4; 5; 6]).

(** ** compaction: rebuild a store as lookup tables (extensionally the same store on
    every addressable variable; keeps closures from piling up over long histories) *)
Fixpoint nthN {X} (l : list X) (i : N) (dflt : X) : X :=
  match l with
  | [] => dflt
  | x :: r => if i =? 0 then x else nthN r (N.pred i) dflt
  end.

Definition compact (n : N) (ks : kinds) (s : store) : store :=
  let ds := nrange (n + 1) in
  let col (f : N -> var) := map (fun d => s (f d)) ds in
  let b0 := col (XBeta 0) in let b1 := col (XBeta 1) in let b2 := col (XBeta 2) in
  let b3 := col (XBeta 3) in
  let un := col XUnused in let vx := col XVertex in
  let ats := map (fun kc => (fst kc, col (XAttr (fst kc)))) ks in
  fun v =>
    match v with
    | XBeta i d =>
        match i with
        | 0 => nthN b0 d (blank v) | 1 => nthN b1 d (blank v)
        | 2 => nthN b2 d (blank v) | 3 => nthN b3 d (blank v) | _ => blank v
        end
    | XUnused d => nthN un d (blank v)
    | XVertex d => nthN vx d (blank v)
    | XAttr k d =>
        match find (fun kc => fst kc =? k) ats with
        | Some (_, c) => nthN c d (blank v)
        | None => blank v
        end
    end.

Definition compact2 (st : state2) : state2 := with_mem st (compact (nd st) (aks st) (mem st)).

(** ** dumps *)

Definition dump_dart (ks : kinds) (s : store) (d : N) : list tok :=
  [tN (beta s 0 d); tN (beta s 1 d); tN (beta s 2 d); tB (unused s d)] ++
  (match vertex s d with Some (x, y) => [TZ 1; TF x; TF y] | None => [TZ 0] end) ++
  flat_map (fun kc => match attr s (fst kc) d with Some a => [TZ 1; TZ a] | None => [TZ 0] end) ks.

Definition mask_of (ks : kinds) : N := fold_left (fun m kc => N.lor m (N.shiftl 1 (fst kc))) ks 0.

Definition dump2 (st : state2) : list tok :=
  [tN (mask_of (aks st)); tN (nd st)] ++ flat_map (dump_dart (aks st) (mem st)) (nrange (nd st)).

Definition err_code (e : err) : Z :=
  match e with
  | ENonFreeBase i => 10 + Z.of_N i | ENonFreeImage i => 20 + Z.of_N i
  | EAlreadyFree i => 30 + Z.of_N i | EAsymmetrical => 40
  | EBadGeometry i => 50 + Z.of_N i | EAttr => 60 | EKernel c => 100 + Z.of_N c
  end%Z.

Definition dump_result (r : result N) : list tok :=
  match r with
  | ROk x => [TZ 0; TZ 0; tN x]
  | RErr e => [TZ 1; TZ (err_code e); TZ 0]
  | RHang => [TZ 3; TZ 0; TZ 0]
  | RPanic _ => [TZ 2; TZ 0; TZ 0]
  end.

(** ** parsing cases *)

Definition parse_call (ts : list tok) : option (call2 * list tok) :=
  match ts with
  | TZ 1 :: TZ l :: TZ r :: rest => Some (Link1 (zN l) (zN r), rest)
  | TZ 2 :: TZ l :: TZ r :: rest => Some (Link2 (zN l) (zN r), rest)
  | TZ 3 :: TZ l :: rest => Some (Unlink1 (zN l), rest)
  | TZ 4 :: TZ l :: rest => Some (Unlink2 (zN l), rest)
  | TZ 5 :: TZ l :: TZ r :: rest => Some (Sew1 (zN l) (zN r), rest)
  | TZ 6 :: TZ l :: TZ r :: rest => Some (Sew2 (zN l) (zN r), rest)
  | TZ 7 :: TZ l :: rest => Some (Unsew1 (zN l), rest)
  | TZ 8 :: TZ l :: rest => Some (Unsew2 (zN l), rest)
  | TZ 9 :: TZ d :: TF x :: TF y :: rest => Some (WriteVertex (zN d) (x, y), rest)
  | TZ 10 :: TZ d :: rest => Some (RemoveVertex (zN d), rest)
  | TZ 11 :: TZ k :: TZ d :: TZ a :: rest => Some (WriteAttr (zN k) (zN d) a, rest)
  | TZ 12 :: TZ k :: TZ d :: rest => Some (RemoveAttr (zN k) (zN d), rest)
  | TZ 13 :: TZ d :: rest => Some (RemoveDartTx (zN d), rest)
  | _ => None
  end%Z.

Fixpoint parse_calls (m : nat) (ts : list tok) : option (list call2 * list tok) :=
  match m with
  | O => Some ([], ts)
  | S m' =>
    match parse_call ts with
    | Some (c, rest) =>
      match parse_calls m' rest with
      | Some (cs, rest') => Some (c :: cs, rest')
      | None => None
      end
    | None => None
    end
  end.

(** kernel calls *)
Fixpoint take_Ns (k : nat) (ts : list tok) : option (list N * list tok) :=
  match k with
  | O => Some ([], ts)
  | S k' =>
    match ts with
    | TZ z :: rest =>
      match take_Ns k' rest with Some (l, r) => Some (zN z :: l, r) | None => None end
    | _ => None
    end
  end.
Fixpoint take_Fs (k : nat) (ts : list tok) : option (list float * list tok) :=
  match k with
  | O => Some ([], ts)
  | S k' =>
    match ts with
    | TF f :: rest =>
      match take_Fs k' rest with Some (l, r) => Some (f :: l, r) | None => None end
    | _ => None
    end
  end.
Definition take_counted_Ns (ts : list tok) : option (list N * list tok) :=
  match ts with TZ m :: rest => take_Ns (Z.to_nat m) rest | _ => None end.

Definition parse_kcall (ts : list tok) : option (kcall * list tok) :=
  match ts with
  | TZ 1 :: TZ e :: TZ a :: TZ b :: TZ 0 :: rest => Some (KInsertVertex (zN e) (zN a) (zN b) None, rest)
  | TZ 1 :: TZ e :: TZ a :: TZ b :: TZ 1 :: TF t :: rest => Some (KInsertVertex (zN e) (zN a) (zN b) (Some t), rest)
  | TZ 2 :: TZ e :: rest =>
    match take_counted_Ns rest with
    | Some (nds, TZ nt :: rest') =>
      match take_Fs (Z.to_nat nt) rest' with
      | Some (tsf, rest'') => Some (KInsertVertices (zN e) nds tsf, rest'')
      | None => None
      end
    | _ => None
    end
  | TZ 3 :: TZ f :: rest =>
    match take_counted_Ns rest with Some (nds, r) => Some (KFan (zN f) nds, r) | None => None end
  | TZ 4 :: TZ f :: rest =>
    match take_counted_Ns rest with Some (nds, r) => Some (KFanConvex (zN f) nds, r) | None => None end
  | TZ 5 :: TZ ccw :: TZ f :: rest =>
    match take_counted_Ns rest with Some (nds, r) => Some (KEarclip (negb (ccw =? 0)%Z) (zN f) nds, r) | None => None end
  | TZ 6 :: TZ e :: rest => Some (KSwap (zN e), rest)
  | TZ 7 :: TZ e :: TZ a :: TZ b :: TZ c :: rest => Some (KCutOuter (zN e) (zN a) (zN b) (zN c), rest)
  | TZ 8 :: TZ e :: TZ a :: TZ b :: TZ c :: TZ d :: TZ f :: TZ g :: rest =>
      Some (KCutInner (zN e) (zN a) (zN b) (zN c) (zN d) (zN f) (zN g), rest)
  | TZ 9 :: TZ e :: rest => Some (KCollapse (zN e), rest)
  | _ => None
  end%Z.

Definition parse_bitem (ts : list tok) : option (bitem * list tok) :=
  match ts with
  | TZ 0 :: rest => match parse_call rest with Some (c, r) => Some (BC c, r) | None => None end
  | TZ 1 :: rest => match parse_kcall rest with Some (k, r) => Some (BK k, r) | None => None end
  | _ => None
  end%Z.

Fixpoint parse_bitems (m : nat) (ts : list tok) : option (list bitem * list tok) :=
  match m with
  | O => Some ([], ts)
  | S m' =>
    match parse_bitem ts with
    | Some (b, rest) =>
      match parse_bitems m' rest with
      | Some (bs, rest') => Some (b :: bs, rest')
      | None => None
      end
    | None => None
    end
  end.

Definition fail_of (z : Z) : option N := if (z <? 0)%Z then None else Some (zN z).

(** an op together with its fault-injection index *)
Definition parse_op (ts : list tok) : option (option N * op2 * list tok) :=
  match ts with
  | TZ 1 :: rest => Some (None, AddDart, rest)
  | TZ 2 :: TZ k :: rest => Some (None, AddDarts (zN k), rest)
  | TZ 3 :: rest => Some (None, InsertDart, rest)
  | TZ 4 :: TZ d :: rest => Some (None, RemoveDart (zN d), rest)
  | TZ 5 :: TZ fa :: rest =>
      match parse_call rest with
      | Some (c, rest') => Some (fail_of fa, Force c, rest')
      | None => None
      end
  | TZ 6 :: TZ fa :: TZ m :: rest =>
      match parse_calls (Z.to_nat m) rest with
      | Some (cs, rest') => Some (fail_of fa, Block cs, rest')
      | None => None
      end
  | _ => None
  end%Z.

Definition parse_opk (ts : list tok) : option (option N * opk * list tok) :=
  match ts with
  | TZ 9 :: TZ fa :: rest =>
      match parse_kcall rest with
      | Some (k, rest') => Some (fail_of fa, Kern k, rest')
      | None => None
      end
  | TZ 10 :: TZ fa :: TZ m :: rest =>
      match parse_bitems (Z.to_nat m) rest with
      | Some (bs, rest') => Some (fail_of fa, KBlock bs, rest')
      | None => None
      end
  | _ =>
      match parse_op ts with
      | Some (fa, o, rest) => Some (fa, Base o, rest)
      | None => None
      end
  end%Z.

(** run the ops of a case, emitting one observation line per observed op;
    [7 b] switches observation on/off (switching on emits the current state);
    [fuel] bounds the number of ops (the token count is enough) *)
Fixpoint run_ops (query : Z -> state2 -> list tok) (fuel : nat) (obs : bool) (st : state2) (ts : list tok) : list (list tok) :=
  match fuel with
  | O => []
  | S f =>
    match ts with
    | [] => []
    | TZ 7 :: TZ b :: rest =>
      if (b =? 0)%Z then run_ops query f false st rest
      else (dump_result (ROk 0) ++ dump2 st) :: run_ops query f true st rest
    | TZ 8 :: rest =>
      if obs then (dump_result (ROk 0) ++ query 8%Z st) :: run_ops query f obs st rest
      else run_ops query f obs st rest
    | TZ 11 :: rest =>       (* serialize: the lexed text *)
      if obs then (dump_result (ROk 0) ++ query 11%Z st) :: run_ops query f obs st rest
      else run_ops query f obs st rest
    | TZ 12 :: rest =>       (* serialize, rebuild, serialize again *)
      if obs then (dump_result (ROk 0) ++ query 12%Z st) :: run_ops query f obs st rest
      else run_ops query f obs st rest
    | _ =>
      match parse_opk ts with
      | None => [[TZ (-1)]]                       (* malformed case: visible in the diff *)
      | Some (fa, o, rest) =>
        let '(r, st') := stepk fa st o in
        let st'' := compact2 st' in
        if obs then (dump_result r ++ dump2 st'') :: run_ops query f obs st'' rest
        else run_ops query f obs st'' rest
      end
    end
  end.

(** case = mask n0 op* ; the initial map is CMapBuilder::from_n_darts(n0) with the masked kinds *)
Definition run_case2 (query : Z -> state2 -> list tok) (ts : list tok) : list (list tok) :=
  match ts with
  | TZ mask :: TZ n0 :: rest =>
      let st := empty2 (zN n0) (kinds_of_mask (zN mask)) in
      (dump_result (ROk 0) ++ dump2 st) :: run_ops query (length rest) true st rest
  | _ => [[TZ (-1)]]
  end.

(** ** parsing dumps back (for the oracles applied to implementation observations) *)
Definition parse_opt_v (ts : list tok) : option (option V2 * list tok) :=
  match ts with
  | TZ 0 :: rest => Some (None, rest)
  | TZ 1 :: TF x :: TF y :: rest => Some (Some (x, y), rest)
  | _ => None
  end%Z.

Definition parse_opt_a (ts : list tok) : option (option Z * list tok) :=
  match ts with
  | TZ 0 :: rest => Some (None, rest)
  | TZ 1 :: TZ a :: rest => Some (Some a, rest)
  | _ => None
  end%Z.

Fixpoint parse_attrs (ks : kinds) (d : N) (s : store) (ts : list tok) : option (store * list tok) :=
  match ks with
  | [] => Some (s, ts)
  | (k, _) :: ks' =>
    match parse_opt_a ts with
    | Some (o, rest) => parse_attrs ks' d (upd s (XAttr k d) (VA o)) rest
    | None => None
    end
  end.

Definition parse_dart (ks : kinds) (d : N) (s : store) (ts : list tok) : option (store * list tok) :=
  match ts with
  | TZ b0 :: TZ b1 :: TZ b2 :: TZ u :: rest =>
    let s := upd (upd (upd (upd s (XBeta 0 d) (VN (zN b0))) (XBeta 1 d) (VN (zN b1)))
                      (XBeta 2 d) (VN (zN b2))) (XUnused d) (VB (negb (u =? 0)%Z)) in
    match parse_opt_v rest with
    | Some (o, rest') => parse_attrs ks d (upd s (XVertex d) (VV o)) rest'
    | None => None
    end
  | _ => None
  end.

Fixpoint parse_darts (ks : kinds) (ds : list N) (s : store) (ts : list tok) : option (store * list tok) :=
  match ds with
  | [] => Some (s, ts)
  | d :: ds' =>
    match parse_dart ks d s ts with
    | Some (s', rest) => parse_darts ks ds' s' rest
    | None => None
    end
  end.

Definition parse_dump2 (ts : list tok) : option (state2 * list tok) :=
  match ts with
  | TZ mask :: TZ n :: rest =>
    let ks := kinds_of_mask (zN mask) in
    match parse_darts ks (nrange (zN n)) blank rest with
    | Some (s, rest') => Some ({| nd := zN n; mem := compact (zN n) ks s; aks := ks |}, rest')
    | None => None
    end
  | _ => None
  end.

(** ** oracles: applied to *implementation* observations.
    Input: [npre] pre-observation, [nop] op tokens, post-observation.
    Output: [1] holds, [0; class] violated, [2] outside the property's premises, [-1] unreadable. *)
Definition split_step (ts : list tok) : option (list tok * list tok * list tok) :=
  match ts with
  | TZ npre :: rest =>
    let pre := firstn (Z.to_nat npre) rest in
    match skipn (Z.to_nat npre) rest with
    | TZ nop :: rest' => Some (pre, firstn (Z.to_nat nop) rest', skipn (Z.to_nat nop) rest')
    | _ => None
    end
  | _ => None
  end.

Definition obs_state (ts : list tok) : option state2 :=
  match ts with
  | _ :: _ :: _ :: dump =>
    match parse_dump2 dump with
    | Some (st, []) => Some st
    | _ => None
    end
  | _ => None
  end.

(** C01, one step: a well-formed pre-state and an in-contract op give a well-formed post-state *)
Definition oracle_wf2_step (ts : list tok) : list (list tok) :=
  match split_step ts with
  | Some (_, TZ 8 :: _, _) => [[TZ 2]]
  | Some (pre, op, post) =>
    match obs_state pre, obs_state post with
    | Some st, Some st' =>
      match op with
      | TZ 7 :: _ => [[if wf2b (nd st') (mem st') then TZ 1 else TZ 2]]
      | TZ 8 :: _ => [[TZ 2]]
      | _ =>
        match parse_op op with
        | Some (fa, o, []) =>
          if wf2b (nd st) (mem st) && pre_opb fa st o
          then (if wf2b (nd st') (mem st') then [[TZ 1]] else [[TZ 0; TZ 1]])
          else [[TZ 2]]
        | _ => [[TZ (-1)]]
        end
      end
    | _, _ => [[TZ (-1)]]
    end
  | None => [[TZ (-1)]]
  end%Z.
