(** * C20 on 2-maps: the extracted scene mirrors the map. Validator over (map dump, scene dump). Model only. *)
From Coq Require Import List NArith ZArith Bool Floats.
From HC Require Import Base.Closure Stm.Prog Map2.Ops2 Map2.State2 Map2.Wf2 Map2.Orbit2
  Extract.Tok Extract.Dyadic Extract.Run2 Extract.Query2 Extract.Sew2Oracle Extract.KernOracle Extract.SceneParse.
Import ListNotations.
Open Scope N_scope.

Definition live2 (st : state2) : list N := mesh_darts st.
Definition face_of (st : state2) (f : N) : list N := match face_cycle st f with Some c => c | None => [] end.
(** non-degenerate closed faces: at least three sides, consecutive corners distinct, no corner where the
    boundary turns straight back -- all three AFTER the viewer's conversion of the coordinates to f32: two
    corners closer than 2^-20 of their magnitude, or a reversal within the direction error that such a rounding
    can cause, are outside the premise (a bisector does not exist there) *)
Definition dy_le (a c : dy) : bool := negb (dy_sgn (dy_sub c a) <? 0)%Z.
Definition sq (a : dy) : dy := dy_mul a a.
Definition norm2 (p : pt) : dy := dy_add (sq (fst p)) (sq (snd p)).
Definition dist2 (p q : pt) : dy := dy_add (sq (dy_sub (fst q) (fst p))) (sq (dy_sub (snd q) (snd p))).
Definition corner_ok (st : state2) (d : N) : bool :=
  match pt_at st (b st 0 d), pt_at st d, pt_at st (b st 1 d) with
  | Some p, Some q, Some r =>
    let m2 := dy_add (norm2 p) (dy_add (norm2 q) (norm2 r)) in
    let a2 := dist2 p q in let b2 := dist2 q r in
    let dot := dy_add (dy_mul (dy_sub (fst q) (fst p)) (dy_sub (fst r) (fst q)))
                      (dy_mul (dy_sub (snd q) (snd p)) (dy_sub (snd r) (snd q))) in
    negb (dy_le a2 (dy_mul (1, -40)%Z m2)) && negb (dy_le b2 (dy_mul (1, -40)%Z m2)) &&
    negb ((dy_sgn dot <? 0)%Z && dy_le (sq (dy_cross p q r)) (dy_mul (1, -36)%Z (dy_mul m2 (dy_add a2 b2))))
  | _, _, _ => false
  end.
Definition premise2 (st : state2) : bool :=
  wf2b (nd st) (mem st) && fully_embedded st &&
  forallb (fun d => match face_cycle st d with Some c => Nat.leb 3 (length c) | None => false end && corner_ok st d) (live2 st).

(* classes: 1 extraction crashed, 2 coordinate table, 3 vertex entities, 4 edge entities, 5 face entities,
   6 dart entities, 7 normals (missing, extra, not finite or not unit) *)
Definition check_scene2 (st : state2) (sc : scene) : N :=
  let m := live2 st in
  let vids := sortedN (ids_of st PVertex m) in
  let eids := sortedN (ids_of st PEdge m) in
  let fids := sortedN (ids_of st PFace m) in
  let idx (d : N) : nat := match index_of (cid st PVertex d) vids 0 with Some k => k | None => 0%nat end in
  let tab_ok :=
    Nat.eqb (length (s_tab sc)) (length vids) &&
    forallb (fun p => let '(v, (x, y, z)) := p in
               match vertex (mem st) v with
               | Some (cx, cy) => close32 x cx && close32 y cy && (z =? 0)%float
               | None => false end) (combine vids (s_tab sc)) in
  if negb tab_ok then 2 else
  if negb (Nat.eqb (length (s_vertices sc)) (length vids) &&
           forallb (fun p => let '(v, (i, k)) := p in Z.eqb i (Z.of_N v) && Nat.eqb k (idx v)) (combine vids (s_vertices sc))) then 3 else
  if negb (Nat.eqb (length (s_edges sc)) (length eids) &&
           forallb (fun p => let '(e, (i, a, c)) := p in
                      let other := if b st 2 e =? 0 then b st 1 e else b st 2 e in
                      Z.eqb i (Z.of_N e) && Nat.eqb a (idx e) && Nat.eqb c (idx other)) (combine eids (s_edges sc))) then 4 else
  if negb (Nat.eqb (length (s_faces sc)) (length fids) &&
           forallb (fun p => let '(f, (i, l)) := p in
                      Z.eqb i (Z.of_N f) && list_eqb_nat l (map idx (face_of st f))) (combine fids (s_faces sc))) then 5 else
  let ds := sortedN m in
  if negb (Nat.eqb (length (s_darts sc)) (length ds) &&
           forallb (fun p => let '(d, (i, v, e, f, vol, a, c)) := p in
                      Z.eqb i (Z.of_N d) && Z.eqb v (Z.of_N (cid st PVertex d)) && Z.eqb e (Z.of_N (cid st PEdge d)) &&
                      Z.eqb f (Z.of_N (cid st PFace d)) && Z.eqb vol 1 &&
                      Nat.eqb a (idx d) && Nat.eqb c (idx (b st 1 d))) (combine ds (s_darts sc))) then 6 else
  let keys := flat_map (fun f => map (fun d => (f, idx d)) (face_of st f)) fids in
  let has (f : N) (k : nat) := existsb (fun n => let '(i, j, _) := n in Z.eqb i (Z.of_N f) && Nat.eqb j k) (s_fnormals sc) in
  if negb (forallb (fun k => has (fst k) (snd k)) keys &&
           forallb (fun n => let '(i, j, v) := n in
                      existsb (fun k => Z.eqb i (Z.of_N (fst k)) && Nat.eqb j (snd k)) keys && unit_finite v) (s_fnormals sc)) then 7 else 0.

Definition oracle_scene2 (ts : list tok) : list (list tok) :=
  match split_step ts with
  | Some (pre, TZ 50%Z :: TZ 2%Z :: _, post) =>
    match obs_state pre, post with
    | Some st, TZ cls :: _ :: _ :: sct =>
      if negb (premise2 st) then [[TZ 2%Z]] else
      if negb (cls =? 0)%Z then [[TZ 0%Z; TZ 1%Z]] else
      match parse_scene sct with
      | Some sc => match check_scene2 st sc with 0 => [[TZ 1%Z]] | c => [[TZ 0%Z; tN c]] end
      | None => [[TZ (-1)%Z]]
      end
    | _, _ => [[TZ (-1)%Z]]
    end
  | Some _ => [[TZ 2%Z]]
  | None => [[TZ (-1)%Z]]
  end.
