(** * Exact arithmetic on dyadic numbers m * 2^e (every finite binary64 value is one).
    Used by the geometric oracles: areas and orientations are compared exactly. *)
From Coq Require Import ZArith Floats List Bool.
Import ListNotations.
Open Scope Z_scope.

Definition dy := (Z * Z)%type.            (* (m, e) stands for m * 2^e *)

(** exact decomposition of a finite float, using exact float operations only
    (doubling / halving / subtraction of a power of two within the 53-bit window) *)
Definition two52 : float := 0x1p52%float.
Definition two53 : float := 0x1p53%float.
Fixpoint fnorm (fuel : nat) (x : float) (e : Z) : float * Z :=
  match fuel with
  | O => (x, e)
  | S f =>
    if (x <? two52)%float then fnorm f (x * 2)%float (e - 1)
    else if (two53 <=? x)%float then fnorm f (x / 2)%float (e + 1)
    else (x, e)
  end.
(* x is an integer-valued float in [0, 2^53): its value as a Z, bit by bit from 2^52 down *)
Fixpoint fbits (k : nat) (p : float) (pz : Z) (x : float) (acc : Z) : Z :=
  match k with
  | O => acc
  | S k' =>
    if (p <=? x)%float then fbits k' (p / 2)%float (pz / 2) (x - p)%float (acc + pz)
    else fbits k' (p / 2)%float (pz / 2) x acc
  end.
Definition dy_of_float (f : float) : option dy :=
  if PrimFloat.is_nan f || PrimFloat.is_infinity f then None
  else if (f =? 0)%float then Some (0, 0)
  else
    let neg := (f <? 0)%float in
    let '(x, e) := fnorm 2200 (PrimFloat.abs f) 0 in
    let m := fbits 53 two52 (2 ^ 52) x 0 in
    Some (if neg then - m else m, e).

Definition dy_align (a b : dy) : Z * Z * Z :=
  let e := Z.min (snd a) (snd b) in
  (fst a * 2 ^ (snd a - e), fst b * 2 ^ (snd b - e), e).
Definition dy_add (a b : dy) : dy := let '(x, y, e) := dy_align a b in (x + y, e).
Definition dy_sub (a b : dy) : dy := let '(x, y, e) := dy_align a b in (x - y, e).
Definition dy_mul (a b : dy) : dy := (fst a * fst b, snd a + snd b).
Definition dy_sgn (a : dy) : Z := Z.sgn (fst a).
Definition dy_eqb (a b : dy) : bool := let '(x, y, _) := dy_align a b in Z.eqb x y.
Definition dy_zero : dy := (0, 0).
Definition dy_half (a : dy) : dy := (fst a, snd a - 1).

Definition pt := (dy * dy)%type.
(* (b - a) x (c - b): twice the signed area of the triangle a b c *)
Definition dy_cross (a b c : pt) : dy :=
  dy_sub (dy_mul (dy_sub (fst b) (fst a)) (dy_sub (snd c) (snd b)))
         (dy_mul (dy_sub (snd b) (snd a)) (dy_sub (fst c) (fst b))).
(* twice the signed area of a polygon (shoelace) *)
Fixpoint dy_shoelace_from (first : pt) (l : list pt) : dy :=
  match l with
  | [] => dy_zero
  | [p] => dy_sub (dy_mul (fst p) (snd first)) (dy_mul (fst first) (snd p))
  | p :: ((q :: _) as r) =>
      dy_add (dy_sub (dy_mul (fst p) (snd q)) (dy_mul (fst q) (snd p))) (dy_shoelace_from first r)
  end.
Definition dy_area2 (l : list pt) : dy := match l with [] => dy_zero | p :: _ => dy_shoelace_from p l end.
Definition pt_eqb (a b : pt) : bool := dy_eqb (fst a) (fst b) && dy_eqb (snd a) (snd b).

(* proper crossing or touching of the closed segments [a,b] and [c,d] (exact) *)
Definition seg_meet (a b c d : pt) : bool :=
  let o1 := dy_sgn (dy_cross a b c) in let o2 := dy_sgn (dy_cross a b d) in
  let o3 := dy_sgn (dy_cross c d a) in let o4 := dy_sgn (dy_cross c d b) in
  (* collinear configurations count as meeting: conservative for "simple polygon" *)
  negb (o1 * o2 >? 0) && negb (o3 * o4 >? 0).
