(** * Entry points the generic OCaml driver dispatches on. Model only, no proofs. *)
From Coq Require Import List NArith ZArith Bool Floats.
From HC Require Import Map2.Orbit2 Extract.Tok Extract.Run2 Extract.Query2 Extract.Oracle2 Extract.Sew2Oracle Extract.KernOracle Extract.GeomRun Extract.GridRun Extract.IORun Extract.Run3 Extract.Oracle3 Extract.Sew3Oracle Extract.Query3Oracle Extract.SchedRun Extract.VtkOracle Extract.GrisOracle Extract.SceneOracle2 Extract.SceneOracle3 Extract.Grid3Oracle.
Import ListNotations.
Open Scope N_scope.
Definition entry (which : N) (ts : list tok) : list (list tok) :=
  match which with
  | 1 => run_case2 (fun code st => if (code =? 8)%Z then query2 st else io_special st code) ts
  | 2 => oracle_wf2_step ts
  | 3 => oracle_query2 ts
  | 4 => oracle_err_noop ts
  | 5 => oracle_alloc ts
  | 6 => oracle_sew2 ts
  | 7 => oracle_insert ts
  | 8 => oracle_tri ts
  | 9 => oracle_remesh ts
  | 20 => run_geom ts
  | 21 => oracle_geom_law ts
  | 30 => run_grid2 ts
  | 31 => oracle_grid2 ts
  | 40 => run_cmap_build ts
  | 41 => oracle_cmap_build ts
  | 42 => oracle_roundtrip ts
  | 50 => run_case3 ts
  | 51 => oracle_wf3_step ts
  | 52 => oracle_err_noop3 ts
  | 53 => oracle_sew3 ts
  | 54 => oracle_query3 ts
  | 55 => oracle_alloc3 ts
  | 60 => run_sched_case ts
  | 61 => oracle_serial ts
  | 70 => oracle_vtk_roundtrip ts
  | 71 => oracle_vtk_import ts
  | 80 => oracle_grisubal ts
  | 81 => oracle_capture ts
  | 32 => oracle_grid3 ts
  | 90 => oracle_scene2 ts
  | 91 => oracle_scene3 ts
  | 98 => match obs_state ts with Some st => map (fun d => tN d :: tN (cid st PVertex d) :: vtok (vtx st d)) (all_darts st) | None => [] end
  | 99 => match obs_state ts with Some st => vertex_multiset st | None => [] end
  | _ => [[TZ (-2)]]
  end.
