(** * C03 and C18 on 3-maps: the specification as executable predicates over implementation observations.
    Cells are closures (verified BFS, Base/Closure.v) under the generators of each policy AND their
    inverses; the implementation's answers are compared with that, not with the model's transcription. *)
From Coq Require Import List NArith ZArith Bool Floats.
From HC Require Import Base.Closure Stm.Prog Map2.Ops2 Map2.State2 Map2.Wf2 Map2.Orbit2 Map3.Ops3 Map3.Wf3
  Extract.Tok Extract.Run2 Extract.Query2 Extract.Run3 Extract.Oracle3.
Import ListNotations.
Open Scope N_scope.
#[local] Existing Instance sig3_f64 | 0.

(** generators with their inverses *)
Definition sym_succ3 (s : store) (p : policy3) (d : N) : list N :=
  let b i x := beta s i x in
  match p with
  | QVertex | QVertexLinear =>
      [b 3 (b 2 d); b 2 (b 3 d); b 1 (b 3 d); b 3 (b 0 d); b 1 (b 2 d); b 2 (b 0 d)]
  | QEdge => [b 2 d; b 3 d]
  | QFace | QFaceLinear => [b 1 d; b 0 d; b 3 d]
  | QVolume | QVolumeLinear => [b 1 d; b 0 d; b 2 d]
  | QCustom l => flat_map (fun i => [b i d; b (match i with 0 => 1 | 1 => 0 | j => j end) d]) l
  end.
Definition spec_cell3 (n : N) (s : store) (p : policy3) (d : N) : option (list N) :=
  if policy3_ok p && (d <? n) then orbit (sym_succ3 s p) (bfs_fuel n) d else None.

(** a one-directional policy is claimed on closed cells: every forward generator is total on the cell *)
Definition is_linear3 (p : policy3) : bool :=
  match p with QVertexLinear | QFaceLinear | QVolumeLinear => true | QCustom _ => true | _ => false end.
Definition closed_cell3 (n : N) (s : store) (p : policy3) (d : N) : bool :=
  match spec_cell3 n s p d with
  | Some c => forallb (fun x => forallb (fun y => negb (y =? 0)) (succ3 s p x)) c
  | None => false
  end.

(** glued faces are closed (mirroring is part of wf3) *)
Definition glued_closed3 (n : N) (s : store) : bool :=
  forallb (fun d => (beta s 3 d =? 0) ||
                    match orbit3 n s (QCustom [1]) d with
                    | Some l => (beta s 1 (last l 0) =? d)
                    | None => false
                    end) (tl (nrange n)).

Definition needs_glued (p : policy3) : bool :=
  match p with QVertex | QVertexLinear | QFace | QFaceLinear => true | _ => false end.

Definition orbit_specb3 (n : N) (s : store) (p : policy3) (d : N) (l : list N) : bool :=
  match spec_cell3 n s p d with
  | Some spec => hd_is d l && nodupb l && negb (mem_N 0 l) && subsetb l spec && subsetb spec l
  | None => false
  end.
Definition claimed3 (glued : bool) (n : N) (s : store) (p : policy3) (d : N) : bool :=
  (glued || negb (needs_glued p)) && (negb (is_linear3 p) || closed_cell3 n s p d).

(* classes: 1 orbit, 2 transactional orbit differs, 3 id not the minimum, 4 iterator, 5 id after another id query *)
Fixpoint check_policies3 (glued : bool) (n : N) (s : store) (d : N) (ps : list policy3) (ts : list tok)
  : option (N * list tok) :=
  match ps with
  | [] => Some (0, ts)
  | p :: ps' =>
    match take_list ts with
    | Some (l1, ts1) =>
      match take_list ts1 with
      | Some (l2, ts2) =>
        if negb (claimed3 glued n s p d) then check_policies3 glued n s d ps' ts2
        else if negb (orbit_specb3 n s p d l1) then Some (1, ts2)
        else if negb (list_eqb l1 l2) then Some (2, ts2)
        else check_policies3 glued n s d ps' ts2
      | None => if claimed3 glued n s p d then Some (2, ts1) else None
      end
    | None => if claimed3 glued n s p d then Some (1, ts) else None
    end
  end.

Definition id_ok3 (n : N) (s : store) (p : policy3) (d r : N) : bool :=
  match spec_cell3 n s p d with Some spec => is_min r spec | None => false end.
Definition ids_ok3 (glued : bool) (n : N) (s : store) (d v e f vol : N) : bool :=
  (negb glued || (id_ok3 n s QVertex d v && id_ok3 n s QFace d f)) && id_ok3 n s QEdge d e && id_ok3 n s QVolume d vol.

Definition take4 (ts : list tok) : option (N * N * N * N * list tok) :=
  match take_N ts with
  | Some (a, t1) => match take_N t1 with
    | Some (b, t2) => match take_N t2 with
      | Some (c, t3) => match take_N t3 with
        | Some (d, t4) => Some (a, b, c, d, t4)
        | None => None end
      | None => None end
    | None => None end
  | None => None
  end.

Fixpoint check_darts3 (glued : bool) (n : N) (s : store) (ds : list N) (ts : list tok) : option (N * list tok) :=
  match ds with
  | [] => Some (0, ts)
  | d :: ds' =>
    match check_policies3 glued n s d query_policies3 ts with
    | Some (0%N, ts1) =>
      match take4 ts1 with
      | Some (v, e, f, vol, ts2) =>
        if ids_ok3 glued n s d v e f vol then check_darts3 glued n s ds' ts2 else Some (3, ts2)
      | None => Some (3, ts1)
      end
    | other => other
    end
  end.

Definition iter_specb3 (n : N) (s : store) (p : policy3) (l : list N) : bool :=
  list_eqb l (filter (fun d => negb (d =? 0) && negb (unused s d) && id_ok3 n s p d d) (nrange n)).

Fixpoint check_after3 (glued : bool) (n : N) (s : store) (ds : list N) (ts : list tok) : option (N * list tok) :=
  match ds with
  | [] => Some (0, ts)
  | d :: ds' =>
    let d2 := d mod (n - 1) + 1 in
    (fix rep (k : nat) (ts : list tok) : option (N * list tok) :=
       match k with
       | O => check_after3 glued n s ds' ts
       | S k' =>
         match take4 ts with
         | Some (v, e, f, vol, ts') => if ids_ok3 glued n s d2 v e f vol then rep k' ts' else Some (5, ts')
         | None => Some (5, ts)
         end
       end) 4%nat ts
  end.

Definition oracle_query3 (ts : list tok) : list (list tok) :=
  match split_step ts with
  | Some (pre, TZ 8%Z :: _, post) =>
    match obs_state3 pre, post with
    | Some st, _ :: _ :: _ :: TZ n' :: q =>
      let n := nd st in let s := mem st in
      if negb (wf3b n s) then [[TZ 2%Z]] else
      let glued := glued_closed3 n s in
      match check_darts3 glued n s (tl (nrange n)) q with
      | Some (0%N, rest) =>
        match take_list rest with
        | Some (lv, r1) => match take_list r1 with
          | Some (le, r2) => match take_list r2 with
            | Some (lf, r3) => match take_list r3 with
              | Some (lvol, r4) =>
                if (negb glued || (iter_specb3 n s QVertex lv && iter_specb3 n s QFace lf)) &&
                   iter_specb3 n s QEdge le && iter_specb3 n s QVolume lvol
                then match check_after3 glued n s (tl (nrange n)) r4 with
                     | Some (0%N, []) => [[TZ 1%Z]]
                     | Some (0%N, _) => [[TZ (-1)%Z]]
                     | Some (c, _) => [[TZ 0%Z; tN c]]
                     | None => [[TZ (-1)%Z]]
                     end
                else [[TZ 0%Z; TZ 4%Z]]
              | None => [[TZ 0%Z; TZ 4%Z]] end
            | None => [[TZ 0%Z; TZ 4%Z]] end
          | None => [[TZ 0%Z; TZ 4%Z]] end
        | None => [[TZ 0%Z; TZ 4%Z]]
        end
      | Some (c, _) => [[TZ 0%Z; tN c]]
      | None => [[TZ (-1)%Z]]
      end
    | _, _ => [[TZ (-1)%Z]]
    end
  | Some _ => [[TZ 2%Z]]
  | None => [[TZ (-1)%Z]]
  end.

(** ** C18 on 3-maps *)
Definition slot_toks3 (st : state2) (d : N) : list tok := dump_dart3 (aks st) (mem st) d.
Definition same_slots3 (st st' : state2) (ds : list N) : bool :=
  forallb (fun d => toks_eqb (slot_toks3 st d) (slot_toks3 st' d)) ds.
Definition blank_toks3 (st : state2) : list tok :=
  [tN 0; tN 0; tN 0; tN 0; tB false; TZ 0%Z] ++ map (fun _ => TZ 0%Z) (aks st).
Definition except3 (d : N) (l : list N) : list N := filter (fun x => negb (x =? d)) l.
Definition first_unused3 (st : state2) : option N := find_unused (mem st) 0 (N.to_nat (nd st)).

Definition alloc_append_ok3 (st st' : state2) (k ret : N) (okres : bool) : list tok :=
  if negb okres || negb (ret =? nd st) || negb (nd st' =? nd st + k) then [TZ 0%Z; TZ 1%Z]
  else if negb (same_slots3 st st' (nrange (nd st))) then [TZ 0%Z; TZ 5%Z]
  else if negb (forallb (fun d => toks_eqb (slot_toks3 st' d) (blank_toks3 st'))
                        (map (fun j => nd st + j) (nrange k))) then [TZ 0%Z; TZ 2%Z]
  else [TZ 1%Z].

Definition oracle_alloc3 (ts : list tok) : list (list tok) :=
  match split_step ts with
  | Some (pre, op, post) =>
    match obs_state3 pre, obs_state3 post, post with
    | Some st, Some st', TZ cls :: _ :: TZ ret :: _ =>
      if negb (wf3b (nd st) (mem st)) || unused (mem st) 0 then [[TZ 2%Z]] else
      let okres := (cls =? 0)%Z in let r := zN ret in
      match op with
      | [TZ 1%Z] => [alloc_append_ok3 st st' 1 r okres]
      | [TZ 2%Z; TZ k] => [alloc_append_ok3 st st' (zN k) r okres]
      | [TZ 3%Z] =>
        match first_unused3 st with
        | None => [alloc_append_ok3 st st' 1 r okres]
        | Some d =>
          if negb okres || negb (r =? d) || negb (nd st' =? nd st) then [[TZ 0%Z; TZ 1%Z]]
          else if negb (same_slots3 st st' (except3 d (nrange (nd st)))) then [[TZ 0%Z; TZ 5%Z]]
          else if unused (mem st') d || negb (is_free3 (mem st') d) then [[TZ 0%Z; TZ 6%Z]]
          else if negb (toks_eqb (slot_toks3 st' d) (blank_toks3 st')) then [[TZ 0%Z; TZ 3%Z]]
          else [[TZ 1%Z]]
        end
      | [TZ 4%Z; TZ dz] =>
        let d := zN dz in
        if (d =? 0) || negb (d <? nd st) then [[TZ 2%Z]] else
        if is_free3 (mem st) d && negb (unused (mem st) d) then
          if negb okres || negb (unused (mem st') d) || negb (nd st' =? nd st) then [[TZ 0%Z; TZ 4%Z]]
          else if negb (same_slots3 st st' (except3 d (nrange (nd st)))) then [[TZ 0%Z; TZ 5%Z]]
          else [[TZ 1%Z]]
        else
          if okres then [[TZ 0%Z; TZ 4%Z]]
          else if negb (nd st' =? nd st) || negb (same_slots3 st st' (nrange (nd st))) then [[TZ 0%Z; TZ 5%Z]]
          else [[TZ 1%Z]]
      | _ => [[TZ 2%Z]]
      end
    | _, _, _ => match op with TZ 8%Z :: _ => [[TZ 2%Z]] | _ => [[TZ (-1)%Z]] end
    end
  | None => [[TZ (-1)%Z]]
  end.
