(** * C11: "export then import gives the same mesh" and "import of a conforming grid gives the grid's
    mesh" as executable predicates over implementation observations (the original map / the cell list, and
    the imported map).  Model only.  A mesh is described up to dart renaming by: the multiset of vertex
    coordinates, the faces as cyclic sequences of corner coordinates (orientation kept), the interior sides
    with the two faces they separate, and the boundary sides. *)
From Coq Require Import List NArith ZArith Bool Floats.
From HC Require Import Base.Closure Stm.Prog Map2.Ops2 Map2.State2 Map2.Wf2 Map2.Orbit2
  Extract.Tok Extract.Run2 Extract.Query2 Extract.Sew2Oracle.
Import ListNotations.
Open Scope N_scope.

Definition lv_eqb (a b : list V2) : bool :=
  Nat.eqb (length a) (length b) && forallb (fun p => v2_eqb (fst p) (snd p)) (combine a b).
Definition rotate {X} (k : nat) (l : list X) : list X := skipn k l ++ firstn k l.
Definition cyc_eqb (a b : list V2) : bool :=
  Nat.eqb (length a) (length b) &&
  (match a with [] => true | _ => existsb (fun k => lv_eqb (rotate k a) b) (seq 0 (length a)) end).

(** multiset equality under an equivalence given as a boolean *)
Fixpoint remove_first {X} (eqv : X -> X -> bool) (x : X) (l : list X) : option (list X) :=
  match l with
  | [] => None
  | y :: r => if eqv x y then Some r else option_map (cons y) (remove_first eqv x r)
  end.
Fixpoint mset_eqb {X} (eqv : X -> X -> bool) (a b : list X) : bool :=
  match a with
  | [] => match b with [] => true | _ => false end
  | x :: r => match remove_first eqv x b with Some b' => mset_eqb eqv r b' | None => false end
  end.

Definition side := (V2 * V2)%type.
Definition side_eqb (a b : side) : bool := v2_eqb (fst a) (fst b) && v2_eqb (snd a) (snd b).
Definition inner := (V2 * V2 * list V2 * list V2)%type.
Definition inner_eqb (a b : inner) : bool :=
  let '(f, t, fa, fb) := a in let '(f', t', fa', fb') := b in
  (v2_eqb f f' && v2_eqb t t' && cyc_eqb fa fa' && cyc_eqb fb fb') ||
  (v2_eqb f t' && v2_eqb t f' && cyc_eqb fa fb' && cyc_eqb fb fa').

Record mesh := { m_vertices : list V2; m_faces : list (list V2); m_inner : list inner; m_boundary : list side }.

(* classes: 2 vertices, 3 faces, 4 interior adjacency, 5 boundary *)
Definition mesh_diff (a b : mesh) : N :=
  if negb (mset_eqb v2_eqb (m_vertices a) (m_vertices b)) then 2
  else if negb (mset_eqb cyc_eqb (m_faces a) (m_faces b)) then 3
  else if negb (mset_eqb inner_eqb (m_inner a) (m_inner b)) then 4
  else if negb (mset_eqb side_eqb (m_boundary a) (m_boundary b)) then 5
  else 0.

(** the mesh a 2-map describes *)
Definition live (st : state2) : list N := filter (fun d => negb (is_free2 (mem st) d)) (in_use st).
Definition coord (st : state2) (d : N) : option V2 := vertex (mem st) (cid st PVertex d).
Definition face_darts (st : state2) (d : N) : list N := cell_of st (PCustom [1]) d.
Definition closed_face (st : state2) (d : N) : bool :=
  let l := face_darts st d in
  (beta (mem st) 1 (last l 0) =? d) && forallb (fun x => negb (beta (mem st) 1 x =? 0)) l && Nat.leb 3 (length l).
Definition dflt_v : V2 := (0%float, 0%float).
Definition co (st : state2) (d : N) : V2 := match coord st d with Some v => v | None => dflt_v end.
Definition face_cyc (st : state2) (d : N) : list V2 := map (co st) (face_darts st (cid st PFace d)).

(** conforming: no two darts run from the same vertex to the same vertex (every side is used by at most
    two faces, in opposite directions) *)
Fixpoint nodup_NN (l : list (N * N)) : bool :=
  match l with
  | [] => true
  | x :: r => negb (existsb (fun y => (fst x =? fst y) && (snd x =? snd y)) r) && nodup_NN r
  end.
Definition simple_sides (st : state2) : bool :=
  nodup_NN (map (fun d => (cid st PVertex d, cid st PVertex (beta (mem st) 1 d))) (live st)).

(** faces are polygons: no side of zero length (two consecutive corners at the same position) -- the 2-sews of the
    importer refuse such sides (orientation test on null vectors), and "the same faces as cyclic sequences of
    coordinates" has no meaning for them *)
Definition no_zero_side (st : state2) : bool :=
  forallb (fun d => negb (v2_eqb (co st d) (co st (beta (mem st) 1 d)))) (live st).

Definition premise_mesh (st : state2) : bool :=
  wf2b (nd st) (mem st) &&
  forallb (fun d => closed_face st d && match coord st d with Some _ => true | None => false end) (live st) &&
  simple_sides st && no_zero_side st.

Definition mesh_of (st : state2) : mesh :=
  let ds := live st in
  {| m_vertices := map (co st) (filter (fun d => cid st PVertex d =? d) ds);
     m_faces := map (face_cyc st) (filter (fun d => cid st PFace d =? d) ds);
     m_inner := map (fun d => (co st d, co st (beta (mem st) 1 d), face_cyc st d, face_cyc st (beta (mem st) 2 d)))
                    (filter (fun d => negb (beta (mem st) 2 d =? 0) && (d <? beta (mem st) 2 d)) ds);
     m_boundary := map (fun d => (co st d, co st (beta (mem st) 1 d))) (filter (fun d => beta (mem st) 2 d =? 0) ds) |}.

(** a slit: two boundary sides that run along each other in opposite directions *)
Definition has_slit (m : mesh) : bool :=
  existsb (fun a => existsb (fun b => v2_eqb (fst a) (snd b) && v2_eqb (snd a) (fst b)) (m_boundary m)) (m_boundary m).

(* verdict classes: 1 export/import failed, 2-5 mesh differs (see mesh_diff), 6 imported map ill-formed,
   7 C11:slit-resewn (the original has a slit and the import glued it) *)
Definition oracle_vtk_roundtrip (ts : list tok) : list (list tok) :=
  match split_step ts with
  | Some (pre, TZ 30%Z :: _, post) =>
    match obs_state pre, post with
    | Some st, TZ cls :: _ =>
      if negb (premise_mesh st) then [[TZ 2%Z]] else
      if negb (cls =? 0)%Z then [[TZ 0%Z; TZ 1%Z]] else
      match obs_state post with
      | Some st' =>
        if negb (wf2b (nd st') (mem st')) then [[TZ 0%Z; TZ 6%Z]] else
        let m := mesh_of st in
        match mesh_diff m (mesh_of st') with
        | 0 => [[TZ 1%Z]]
        | c => if has_slit m && ((c =? 4) || (c =? 5)) then [[TZ 0%Z; TZ 7%Z]] else [[TZ 0%Z; tN c]]
        end
      | None => [[TZ (-1)%Z]]
      end
    | _, _ => [[TZ (-1)%Z]]
    end
  | Some _ => [[TZ 2%Z]]
  | None => [[TZ (-1)%Z]]
  end.

(** ** import of a cell list *)
Fixpoint take_pts (k : nat) (ts : list tok) : option (list V2 * list tok) :=
  match k with
  | O => Some ([], ts)
  | S k' =>
    match ts with
    | TF x :: TF y :: rest => match take_pts k' rest with Some (l, r) => Some ((x, y) :: l, r) | None => None end
    | _ => None
    end
  end.
Fixpoint take_nats_z (k : nat) (ts : list tok) : option (list nat * list tok) :=
  match k with
  | O => Some ([], ts)
  | S k' =>
    match ts with
    | TZ z :: rest => match take_nats_z k' rest with Some (l, r) => Some (Z.to_nat z :: l, r) | None => None end
    | _ => None
    end
  end.
Fixpoint take_cells (k : nat) (ts : list tok) : option (list (Z * list nat) * list tok) :=
  match k with
  | O => Some ([], ts)
  | S k' =>
    match ts with
    | TZ ty :: TZ n :: rest =>
      match take_nats_z (Z.to_nat n) rest with
      | Some (vs, rest') => match take_cells k' rest' with Some (l, r) => Some ((ty, vs) :: l, r) | None => None end
      | None => None
      end
    | _ => None
    end
  end.

Definition dsides (vs : list nat) : list (nat * nat) := combine vs (rotate 1 vs).
Definition pair_eqb (a b : nat * nat) : bool := Nat.eqb (fst a) (fst b) && Nat.eqb (snd a) (snd b).
Fixpoint nodup_pairs (l : list (nat * nat)) : bool :=
  match l with [] => true | x :: r => negb (existsb (pair_eqb x) r) && nodup_pairs r end.
Fixpoint nodup_nat (l : list nat) : bool :=
  match l with [] => true | x :: r => negb (existsb (Nat.eqb x) r) && nodup_nat r end.
Fixpoint nodup_v (l : list V2) : bool :=
  match l with [] => true | x :: r => negb (existsb (v2_eqb x) r) && nodup_v r end.

Definition poly_cells (cells : list (Z * list nat)) : list (list nat) :=
  map snd (filter (fun c => (fst c =? 5)%Z || (fst c =? 9)%Z || (fst c =? 7)%Z) cells).

(** conforming: polygons with >= 3 distinct in-range corners of the right count for their type, every
    directed side used at most once, points with distinct coordinates; other cells are lines / vertices *)
Definition conforming (pts : list V2) (cells : list (Z * list nat)) : bool :=
  let ps := poly_cells cells in
  forallb (fun c => let '(ty, vs) := c in
     match ty with
     | 5%Z => Nat.eqb (length vs) 3 | 9%Z => Nat.eqb (length vs) 4 | 7%Z => Nat.leb 3 (length vs)
     | 3%Z => Nat.eqb (length vs) 2 | 1%Z => Nat.eqb (length vs) 1 | _ => false
     end && forallb (fun v => Nat.ltb v (length pts)) vs) cells &&
  forallb nodup_nat ps && nodup_pairs (flat_map dsides ps) && nodup_v pts.

Definition mesh_of_cells (pts : list V2) (cells : list (Z * list nat)) : mesh :=
  let ps := poly_cells cells in
  let pt i := nth i pts dflt_v in
  let cyc vs := map pt vs in
  let tagged := flat_map (fun vs => map (fun s => (s, vs)) (dsides vs)) ps in
  let opposite (s : nat * nat) := find (fun t => pair_eqb (fst t) (snd s, fst s)) tagged in
  let used := fold_right (fun v acc => if existsb (Nat.eqb v) acc then acc else v :: acc) [] (concat ps) in
  {| m_vertices := map pt used;
     m_faces := map cyc ps;
     m_inner := flat_map (fun t => let '(s, vs) := t in
                   match opposite s with
                   | Some (_, ws) => if Nat.ltb (fst s) (snd s) then [(pt (fst s), pt (snd s), cyc vs, cyc ws)] else []
                   | None => []
                   end) tagged;
     m_boundary := flat_map (fun t => let '(s, _) := t in
                   match opposite s with Some _ => [] | None => [(pt (fst s), pt (snd s))] end) tagged |}.

Definition oracle_vtk_import (ts : list tok) : list (list tok) :=
  match split_step ts with
  | Some (_, TZ 31%Z :: TZ np :: rest, post) =>
    match take_pts (Z.to_nat np) rest with
    | Some (pts, TZ nc :: rest1) =>
      match take_cells (Z.to_nat nc) rest1 with
      | Some (cells, []) =>
        if negb (conforming pts cells) then [[TZ 2%Z]] else
        match post with
        | TZ cls :: _ =>
          if negb (cls =? 0)%Z then [[TZ 0%Z; TZ 1%Z]] else
          match obs_state post with
          | Some st' =>
            if negb (wf2b (nd st') (mem st')) then [[TZ 0%Z; TZ 6%Z]] else
            (* the vertex multiset is not part of the import clause: cells that only touch at a point keep
               separate vertex cells there *)
            let exp := mesh_of_cells pts cells in let got := mesh_of st' in
            match mesh_diff exp {| m_vertices := m_vertices exp; m_faces := m_faces got; m_inner := m_inner got;
                                   m_boundary := m_boundary got |} with
            | 0 => [[TZ 1%Z]]
            | c => [[TZ 0%Z; tN c]]
            end
          | None => [[TZ (-1)%Z]]
          end
        | _ => [[TZ (-1)%Z]]
        end
      | _ => [[TZ (-1)%Z]]
      end
    | _ => [[TZ (-1)%Z]]
    end
  | Some _ => [[TZ 2%Z]]
  | None => [[TZ (-1)%Z]]
  end.
