(** * C04: the specification of 2D sew/unsew on embedded data, as an executable predicate
    over (pre-state, call, post-state) observations of the implementation.  Model only.

    Cells are computed with the verified closure [orbit2] (C03); laws are those of the
    harness' attribute kinds ([sig_f64]). *)
From Coq Require Import List NArith ZArith Bool Floats.
From HC Require Import Base.Closure Stm.Prog Map2.Ops2 Map2.State2 Map2.Wf2 Map2.Orbit2
  Extract.Tok Extract.Run2 Extract.Query2.
Import ListNotations.
Open Scope N_scope.

Definition cell_of (st : state2) (p : policy) (d : N) : list N :=
  match orbit2 (nd st) (mem st) p d with Some l => l | None => [] end.
Definition lmin (l : list N) (dflt : N) : N := fold_left N.min l dflt.
Definition cid (st : state2) (p : policy) (d : N) : N := lmin (cell_of st p d) d.
Definition in_use (st : state2) : list N :=
  filter (fun d => negb (d =? 0) && negb (unused (mem st) d)) (nrange (nd st)).
Definition dedup (l : list N) : list N :=
  fold_right (fun x acc => if mem_N x acc then acc else x :: acc) [] l.

(** a data slot of any kind, rendered as tokens so that slots of all kinds compare alike *)
Inductive dkind := DCoords | DAttr (k : N).
Definition slot (st : state2) (k : dkind) (d : N) : list tok :=
  match k with
  | DCoords => match vertex (mem st) d with Some (x, y) => [TZ 1; TF x; TF y] | None => [TZ 0] end
  | DAttr k => match attr (mem st) k d with Some a => [TZ 1; TZ a] | None => [TZ 0] end
  end.
Definition is_none (t : list tok) : bool := toks_eqb t [TZ 0%Z].

Definition tokV (o : option V2) : list tok := match o with Some (x, y) => [TZ 1; TF x; TF y] | None => [TZ 0] end.
Definition tokA (o : option Z) : list tok := match o with Some a => [TZ 1; TZ a] | None => [TZ 0] end.

(** the merge a storage performs on two slots: [None] = the law rejects *)
Definition law_merge (st : state2) (k : dkind) (i1 i2 : N) : option (list tok) :=
  match k with
  | DCoords =>
    match vertex (mem st) i1, vertex (mem st) i2 with
    | Some a, Some b => option_map (fun v => tokV (Some v)) (v_merge a b)
    | Some a, None | None, Some a => option_map (fun v => tokV (Some v)) (v_merge_inc a)
    | None, None => option_map (fun v => tokV (Some v)) v_merge_none
    end
  | DAttr k =>
    match attr (mem st) k i1, attr (mem st) k i2 with
    | Some a, Some b => option_map (fun v => tokA (Some v)) (a_merge k a b)
    | Some a, None | None, Some a => option_map (fun v => tokA (Some v)) (a_merge_inc k a)
    | None, None => option_map (fun v => tokA (Some v)) (a_merge_none k)
    end
  end.
Definition law_split (st : state2) (k : dkind) (i : N) : option (list tok * list tok) :=
  match k with
  | DCoords =>
    match (match vertex (mem st) i with Some a => v_split a | None => v_split_none end) with
    | Some (a, b) => Some (tokV (Some a), tokV (Some b)) | None => None
    end
  | DAttr k =>
    match (match attr (mem st) k i with Some a => a_split k a | None => a_split_none k end) with
    | Some (a, b) => Some (tokA (Some a), tokA (Some b)) | None => None
    end
  end.

Definition kinds_bound (st : state2) (c : cellkind) : list dkind :=
  (match c with KVertex => [DCoords] | _ => [] end) ++
  map (fun kc => DAttr (fst kc)) (filter (fun kc => cellkind_eqb (snd kc) c) (aks st)).

Definition pol_of (c : cellkind) : policy :=
  match c with KVertex => PVertex | KEdge => PEdge | _ => PFace end.

(** values sit only at cell identifiers (of darts in use) *)
Definition clean (st : state2) (c : cellkind) (k : dkind) : bool :=
  forallb (fun d => (cid st (pol_of c) d =? d) || is_none (slot st k d)) (in_use st).

(* result of checking one family of cells: 0 ok, otherwise the failure class *)
Definition first_fail (l : list N) : N := match filter (fun c => negb (c =? 0)) l with c :: _ => c | [] => 0 end.

(** classes: 2 unchanged cell lost/changed its value, 3 merged cell does not carry the merge,
    4 split cells do not carry the split, 5 value left under a dead identifier,
    6 the call succeeded although the attribute law rejects *)
Definition check_merge (st st' : state2) (c : cellkind) (k : dkind) : N :=
  let p := pol_of c in
  first_fail (map (fun d' =>
    if negb (cid st' p d' =? d') then 0 else
    let c' := cell_of st' p d' in
    let srcs := dedup (map (cid st p) c') in
    match srcs with
    | [i] => if Nat.eqb (length (cell_of st p i)) (length c')
             then (if toks_eqb (slot st' k d') (slot st k i) then 0 else 2) else 0
    | [i1; i2] =>
      if negb (Nat.eqb (length (cell_of st p i1) + length (cell_of st p i2)) (length c')) then 0 else
      match law_merge st k i1 i2, law_merge st k i2 i1 with
      | Some e1, Some e2 => if toks_eqb (slot st' k d') e1 || toks_eqb (slot st' k d') e2 then 0 else 3
      | _, _ => 6
      end
    | _ => 0
    end) (in_use st')).

Definition check_split (st st' : state2) (c : cellkind) (k : dkind) : N :=
  let p := pol_of c in
  first_fail (map (fun d =>
    if negb (cid st p d =? d) then 0 else
    let c0 := cell_of st p d in
    let dsts := dedup (map (cid st' p) c0) in
    match dsts with
    | [j] => if Nat.eqb (length (cell_of st' p j)) (length c0)
             then (if toks_eqb (slot st' k j) (slot st k d) then 0 else 2) else 0
    | [j1; j2] =>
      if negb (Nat.eqb (length (cell_of st' p j1) + length (cell_of st' p j2)) (length c0)) then 0 else
      match law_split st k d with
      | Some (a, b) =>
        if (toks_eqb (slot st' k j1) a && toks_eqb (slot st' k j2) b) ||
           (toks_eqb (slot st' k j1) b && toks_eqb (slot st' k j2) a) then 0 else 4
      | None => 6
      end
    | _ => 0
    end) (in_use st)).

Definition check_clean (st st' : state2) (c : cellkind) (k : dkind) : N :=
  if clean st c k && negb (clean st' c k) then 5 else 0.

Definition topo_tokens (st : state2) : list tok :=
  tN (nd st) :: flat_map (fun d => [tN (beta (mem st) 0 d); tN (beta (mem st) 1 d); tN (beta (mem st) 2 d);
                                     tB (unused (mem st) d)]) (nrange (nd st)).

(** the corresponding link/unlink, run in the model on the implementation's pre-state *)
Definition link_of (c : call2) : option call2 :=
  match c with
  | Sew1 l r => Some (Link1 l r) | Sew2 l r => Some (Link2 l r)
  | Unsew1 l => Some (Unlink1 l) | Unsew2 l => Some (Unlink2 l)
  | _ => None
  end.

Definition distinct_ends (st : state2) (l : N) : bool :=
  let b1 := beta (mem st) 1 l in (b1 =? 0) || negb (cid st PVertex l =? cid st PVertex b1).

Definition data_checks (merge : bool) (st st' : state2) : N :=
  let chk c k := if merge then check_merge st st' c k else check_split st st' c k in
  first_fail (
    flat_map (fun k => [chk KVertex k; check_clean st st' KVertex k]) (kinds_bound st KVertex) ++
    flat_map (fun k => [chk KEdge k; check_clean st st' KEdge k]) (kinds_bound st KEdge) ++
    (* face-bound data: 2D sews never change a face's dart set *)
    map (fun k => if forallb (fun d => toks_eqb (slot st' k d) (slot st k d)) (nrange (nd st)) then 0 else 2)
        (kinds_bound st KFace)).

Definition oracle_sew2 (ts : list tok) : list (list tok) :=
  match split_step ts with
  | Some (pre, TZ 5%Z :: TZ fa :: callt, post) =>
    match obs_state pre, obs_state post, post, parse_call callt with
    | Some st, Some st', TZ cls :: _, Some (c, []) =>
      if negb (wf2b (nd st) (mem st) && pre_callb (nd st) (mem st) c) then [[TZ 2%Z]] else
      match link_of c with
      | None => [[TZ 2%Z]]
      | Some lc =>
        if (cls =? 0)%Z then
          (* topology = the corresponding link *)
          match step2 None st (Force lc) with
          | (ROk _, stl) =>
            if negb (toks_eqb (topo_tokens stl) (topo_tokens st')) then [[TZ 0%Z; TZ 1%Z]] else
            match c with
            | Sew2 l r =>
              if distinct_ends st l && distinct_ends st r &&
                 negb (cid st' PVertex l =? cid st' PVertex r)
              then (match data_checks true st st' with 0 => [[TZ 1%Z]] | f => [[TZ 0%Z; tN f]] end)
              else [[TZ 2%Z]]
            | Unsew2 l =>
              let r := beta (mem st) 2 l in
              if negb (cid st PVertex l =? cid st PVertex r) &&
                 distinct_ends st' l && distinct_ends st' r
              then (match data_checks false st st' with 0 => [[TZ 1%Z]] | f => [[TZ 0%Z; tN f]] end)
              else [[TZ 2%Z]]
            | _ => [[TZ 1%Z]]
            end
          | _ => [[TZ 0%Z; TZ 1%Z]]       (* the sew succeeded where the link is refused *)
          end
        else
          (* refusals the property demands are decided by the model comparison; here: an
             orientation-violating fully embedded 2-sew must not succeed -- checked above by
             construction (cls = 0 branch); an error result is always acceptable *)
          [[TZ 1%Z]]
      end
    | _, _, _, _ => [[TZ (-1)%Z]]
    end
  | Some _ => [[TZ 2%Z]]
  | None => [[TZ (-1)%Z]]
  end.
