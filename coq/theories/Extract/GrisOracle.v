(** * C16 / C17: validators of the grisubal kernel and of capture + classification, applied to each
    (input boundary, output map) pair produced by the implementation.  Model only.  All geometry is exact
    (every binary64 value is a dyadic number); incidence of computed intersection points is tested with the
    tolerance [tol] (an intersection point is a rounded value: exact incidence is false of any float code). *)
From Coq Require Import List NArith ZArith Bool Floats.
From HC Require Import Base.Closure Stm.Prog Map2.Ops2 Map2.State2 Map2.Wf2 Map2.Orbit2
  Extract.Tok Extract.Dyadic Extract.Run2 Extract.Query2 Extract.Sew2Oracle Extract.KernOracle.
Import ListNotations.
Open Scope N_scope.

Definition dy_ltb (a c : dy) : bool := (dy_sgn (dy_sub a c) <? 0)%Z.
Definition dy_leb (a c : dy) : bool := (dy_sgn (dy_sub a c) <=? 0)%Z.
Definition dy_abs (a : dy) : dy := (Z.abs (fst a), snd a).
Definition dy_min (a c : dy) : dy := if dy_leb a c then a else c.
Definition dy_max (a c : dy) : dy := if dy_leb a c then c else a.
Definition tol : dy := (1%Z, (-30)%Z).
Definition tol_area : dy := (1%Z, (-24)%Z).

Definition vsub (p q : pt) : pt := (dy_sub (fst p) (fst q), dy_sub (snd p) (snd q)).
Definition vdot (p q : pt) : dy := dy_add (dy_mul (fst p) (fst q)) (dy_mul (snd p) (snd q)).
Definition vcrs (p q : pt) : dy := dy_sub (dy_mul (fst p) (snd q)) (dy_mul (snd p) (fst q)).

(** [p] lies on the closed segment [a, c] up to [tol] (distances relative to the segment's length) *)
Definition near_seg (a c p : pt) : bool :=
  let ac := vsub c a in let ap := vsub p a in
  let l2 := vdot ac ac in
  let cr := vcrs ac ap in
  let dt := vdot ac ap in
  let slack := dy_mul tol l2 in
  dy_leb (dy_mul cr cr) (dy_mul (dy_mul tol tol) (dy_mul l2 l2)) &&
  dy_leb (dy_sub dy_zero slack) dt && dy_leb dt (dy_add l2 slack).

Definition fold_pts_min (sel : pt -> dy) (l : list pt) : dy :=
  match l with [] => dy_zero | p :: r => fold_left (fun a q => dy_min a (sel q)) r (sel p) end.

(** ** the input *)
Record ginput := { g_kind : Z; g_clip : Z; g_cx : dy; g_cy : dy; g_pts : list pt; g_segs : list (nat * nat); g_poi : list nat }.

Fixpoint take_dpts (k : nat) (ts : list tok) : option (list pt * list tok) :=
  match k with
  | O => Some ([], ts)
  | S k' =>
    match ts with
    | TF x :: TF y :: rest =>
      match dy_of_float x, dy_of_float y, take_dpts k' rest with
      | Some a, Some c, Some (l, r) => Some ((a, c) :: l, r)
      | _, _, _ => None
      end
    | _ => None
    end
  end.
Fixpoint take_pairs (k : nat) (ts : list tok) : option (list (nat * nat) * list tok) :=
  match k with
  | O => Some ([], ts)
  | S k' =>
    match ts with
    | TZ a :: TZ c :: rest => match take_pairs k' rest with Some (l, r) => Some ((Z.to_nat a, Z.to_nat c) :: l, r) | None => None end
    | _ => None
    end
  end.
Fixpoint take_idx (k : nat) (ts : list tok) : option (list nat * list tok) :=
  match k with
  | O => Some ([], ts)
  | S k' =>
    match ts with
    | TZ a :: rest => match take_idx k' rest with Some (l, r) => Some (Z.to_nat a :: l, r) | None => None end
    | _ => None
    end
  end.

Definition parse_ginput (ts : list tok) : option ginput :=
  match ts with
  | TZ 40%Z :: TZ kind :: TZ clip :: TF cx :: TF cy :: TZ np :: rest =>
    match dy_of_float cx, dy_of_float cy, take_dpts (Z.to_nat np) rest with
    | Some dx, Some dyy, Some (pts, TZ ns :: rest1) =>
      match take_pairs (Z.to_nat ns) rest1 with
      | Some (segs, TZ nq :: rest2) =>
        match take_idx (Z.to_nat nq) rest2 with
        | Some (poi, []) => Some {| g_kind := kind; g_clip := clip; g_cx := dx; g_cy := dyy; g_pts := pts; g_segs := segs; g_poi := poi |}
        | _ => None
        end
      | _ => None
      end
    | _, _, _ => None
    end
  | _ => None
  end.

Definition ptn (g : ginput) (i : nat) : pt := nth i (g_pts g) (dy_zero, dy_zero).
Definition count_nat (f : nat -> bool) (l : list nat) : nat := length (filter f l).

(** some vertex starts two segments or ends two segments: must be rejected *)
Definition misoriented (g : ginput) : bool :=
  existsb (fun i => Nat.ltb 1 (count_nat (Nat.eqb i) (map fst (g_segs g))) ||
                    Nat.ltb 1 (count_nat (Nat.eqb i) (map snd (g_segs g)))) (seq 0 (length (g_pts g))).
(** closed and consistently oriented: every point starts exactly one segment and ends exactly one *)
Definition closed_oriented (g : ginput) : bool :=
  forallb (fun i => Nat.eqb (count_nat (Nat.eqb i) (map fst (g_segs g))) 1 &&
                    Nat.eqb (count_nat (Nat.eqb i) (map snd (g_segs g))) 1) (seq 0 (length (g_pts g))).

(** the loops, by following the segments *)
Definition next_of (g : ginput) (i : nat) : nat :=
  match find (fun s => Nat.eqb (fst s) i) (g_segs g) with Some s => snd s | None => i end.
Fixpoint loop_from (g : ginput) (fuel : nat) (start cur : nat) (acc : list nat) : list nat :=
  match fuel with
  | O => rev acc
  | S f => let nx := next_of g cur in if Nat.eqb nx start then rev (cur :: acc) else loop_from g f start nx (cur :: acc)
  end.
Fixpoint loops_of (g : ginput) (fuel : nat) (todo : list nat) : list (list nat) :=
  match fuel with
  | O => []
  | S f =>
    match todo with
    | [] => []
    | i :: _ =>
      let l := loop_from g (length (g_pts g)) i i [] in
      l :: loops_of g f (filter (fun j => negb (existsb (Nat.eqb j) l)) todo)
    end
  end.
Definition loops (g : ginput) : list (list pt) :=
  map (map (ptn g)) (loops_of g (length (g_pts g)) (seq 0 (length (g_pts g)))).

Definition seg_pts (g : ginput) : list (pt * pt) := map (fun s => (ptn g (fst s), ptn g (snd s))) (g_segs g).

(** simple loops that do not meet each other *)
Definition simple_input (g : ginput) : bool :=
  let ls := loops g in
  forallb (fun l => Nat.leb 3 (length l) && simple_poly l) ls &&
  forallb (fun pq => let '(l1, l2) := pq in
     forallb (fun e1 => forallb (fun e2 => negb (seg_meet (fst (snd e1)) (snd (snd e1)) (fst (snd e2)) (snd (snd e2))))
                                (cyc_edges l2)) (cyc_edges l1)) (pairs_lt ls).

(** the grid of the kernel: origin = lower-left corner of the bounding box minus one cell and a half
    (the kernel only moves it when a vertex sits on a grid corner, which the premise below excludes) *)
Definition dy_quot (x c : dy) : Z := let '(a, k, _) := dy_align x c in Z.div a k.
Definition dy_multiple (x c : dy) : bool := let '(a, k, _) := dy_align x c in Z.eqb (Z.modulo a k) 0.
Definition three_halves : dy := (3%Z, (-1)%Z).
Definition grid_ox (g : ginput) : dy := dy_sub (fold_pts_min fst (g_pts g)) (dy_mul three_halves (g_cx g)).
Definition grid_oy (g : ginput) : dy := dy_sub (fold_pts_min snd (g_pts g)) (dy_mul three_halves (g_cy g)).
(** general position: no vertex of the boundary on a grid line *)
Definition zrange (lo hi : Z) : list Z := map (fun k => (lo + Z.of_nat k)%Z) (seq 0 (Z.to_nat (hi - lo + 1))).
Definition dy_of_Z (z : Z) : dy := (z, 0%Z).
(** ... and no segment of the boundary through a corner of the grid (the kernel has a code path for that case,
    outside the property's premise: it leaves a hole in its table of intersections and then mis-numbers them) *)
Definition seg_through_corner (g : ginput) (a c : pt) : bool :=
  let qx p := dy_quot (dy_sub (fst p) (grid_ox g)) (g_cx g) in
  let qy p := dy_quot (dy_sub (snd p) (grid_oy g)) (g_cy g) in
  existsb (fun i => existsb (fun j =>
      let L : pt := (dy_add (grid_ox g) (dy_mul (dy_of_Z i) (g_cx g)), dy_add (grid_oy g) (dy_mul (dy_of_Z j) (g_cy g))) in
      Z.eqb (dy_sgn (dy_cross a c L)) 0)
    (zrange (Z.min (qy a) (qy c)) (Z.max (qy a) (qy c) + 1)))
    (zrange (Z.min (qx a) (qx c)) (Z.max (qx a) (qx c) + 1)).
Definition general_position_grid (g : ginput) : bool :=
  forallb (fun p => negb (dy_multiple (dy_sub (fst p) (grid_ox g)) (g_cx g)) &&
                    negb (dy_multiple (dy_sub (snd p) (grid_oy g)) (g_cy g))) (g_pts g) &&
  forallb (fun s => negb (seg_through_corner g (fst s) (snd s))) (seg_pts g).
Definition cell_of_pt (g : ginput) (p : pt) : Z * Z :=
  (dy_quot (dy_sub (fst p) (grid_ox g)) (g_cx g), dy_quot (dy_sub (snd p) (grid_oy g)) (g_cy g)).
(** a loop that crosses no grid line (all its vertices in one cell) *)
Definition in_one_cell (g : ginput) (l : list pt) : bool :=
  match l with
  | [] => true
  | p :: r => forallb (fun q => let '(i, j) := cell_of_pt g q in let '(i0, j0) := cell_of_pt g p in Z.eqb i i0 && Z.eqb j j0) r
  end.
Definition loop_of_point (g : ginput) (i : nat) : list pt :=
  match find (fun l => existsb (Nat.eqb i) l) (loops_of g (length (g_pts g)) (seq 0 (length (g_pts g)))) with
  | Some l => map (ptn g) l | None => [] end.

Definition input_area2 (g : ginput) : dy := fold_left dy_add (map dy_area2 (loops g)) dy_zero.

(** ** the output mesh *)
Definition out_pts (st : state2) : list pt :=
  flat_map (fun v => match pt_at st v with Some p => [p] | None => [] end) (ids_of st PVertex (mesh_darts st)).
Definition all_closed (st : state2) : bool :=
  forallb (fun d => match face_cycle st d with Some _ => true | None => false end) (mesh_darts st).
Definition face_area2s (st : state2) : list dy :=
  flat_map (fun f => match face_cycle st f with
                     | Some c => match all_some (map (pt_at st) c) with Some ps => [dy_area2 ps] | None => [] end
                     | None => [] end) (ids_of st PFace (mesh_darts st)).
Definition fold_pts (f : dy -> dy -> dy) (sel : pt -> dy) (l : list pt) : dy :=
  match l with [] => dy_zero | p :: r => fold_left (fun a q => f a (sel q)) r (sel p) end.
Definition bdry_darts (st : state2) : list N := filter (fun d => b st 2 d =? 0) (mesh_darts st).
Definition ends_of (st : state2) (d : N) : option (pt * pt) :=
  match pt_at st d, pt_at st (b st 1 d) with Some p, Some q => Some (p, q) | _, _ => None end.
Fixpoint dedup_dy (l : list dy) : list dy :=
  match l with [] => [] | x :: r => if existsb (dy_eqb x) r then dedup_dy r else x :: dedup_dy r end.

(** two edges of the result cross properly (exact test) *)
Definition proper_cross (a c d e : pt) : bool :=
  (dy_sgn (dy_cross a c d) * dy_sgn (dy_cross a c e) <? 0)%Z && (dy_sgn (dy_cross d e a) * dy_sgn (dy_cross d e c) <? 0)%Z.
Definition edges_cross (st : state2) : bool :=
  let es := flat_map (fun e => match ends_of st e with Some pq => [pq] | None => [] end) (ids_of st PEdge (mesh_darts st)) in
  existsb (fun e1 => existsb (fun e2 => proper_cross (fst e1) (snd e1) (fst e2) (snd e2)) es) es.

(** two different edges of the result join the same two points (exact test): what a chord gives when the two crossings
    it joins lie on the same grid line -- it then runs along that line, on top of the grid edges *)
Definition pt_eq (p q : pt) : bool := dy_eqb (fst p) (fst q) && dy_eqb (snd p) (snd q).
Fixpoint has_double (es : list (pt * pt)) : bool :=
  match es with
  | [] => false
  | e :: r => existsb (fun e2 => (pt_eq (fst e) (fst e2) && pt_eq (snd e) (snd e2)) || (pt_eq (fst e) (snd e2) && pt_eq (snd e) (fst e2))) r
              || has_double r
  end.
Definition double_edge (st : state2) : bool :=
  has_double (flat_map (fun e => match ends_of st e with Some pq => [pq] | None => [] end) (ids_of st PEdge (mesh_darts st))).

(* classes: 1 refused or crashed on a valid boundary, 2 ill-formed / not embedded / open face,
   3 negatively oriented face, 4 faces do not tile the grid rectangle, 5 a point of interest is not a vertex,
   6 a crossing with a grid line is not a vertex, 7 kept area differs from the area of the kept side,
   8 mis-oriented boundary accepted, 9 an input segment is not covered by free boundary edges,
   10 C16:loop-inside-one-cell-dropped (the missing points of interest belong to loops that cross no grid line),
   18 C16:dropped-corner-chords-cross (negative face, some corner is not a point of interest, two edges of the result cross),
   20 C16:dropped-corner-chord-on-grid-line (negative face, some corner is not a point of interest, no crossing, two
      different edges of the result join the same two points) *)
Definition check16 (g : ginput) (st : state2) : N :=
  if negb (wf2b (nd st) (mem st) && fully_embedded st && all_closed st) then 2 else
  if existsb (fun a => (dy_sgn a <? 0)%Z) (face_area2s st) then
    (* known finding: corners that are not points of interest are cut off by straight chords between grid
       crossings; around a feature thinner than a cell two such chords can cross each other *)
    (if negb (Nat.eqb (length (g_poi g)) (length (g_pts g))) then
       (if edges_cross st then 18 else if double_edge st then 20 else 3)
     else 3) else
  let ps := out_pts st in
  let minx := fold_pts dy_min fst ps in let maxx := fold_pts dy_max fst ps in
  let miny := fold_pts dy_min snd ps in let maxy := fold_pts dy_max snd ps in
  let bbox2 := dy_mul (2%Z, 0%Z) (dy_mul (dy_sub maxx minx) (dy_sub maxy miny)) in
  let total := fold_left dy_add (face_area2s st) dy_zero in
  let on_side (p q : pt) : bool :=
    (dy_eqb (fst p) minx && dy_eqb (fst q) minx) || (dy_eqb (fst p) maxx && dy_eqb (fst q) maxx) ||
    (dy_eqb (snd p) miny && dy_eqb (snd q) miny) || (dy_eqb (snd p) maxy && dy_eqb (snd q) maxy) in
  let missing := filter (fun i => negb (existsb (pt_eqb (ptn g i)) ps)) (g_poi g) in
  let poi_class : N :=
    match missing with
    | [] => 0
    | _ => if forallb (fun i => in_one_cell g (loop_of_point g i)) missing then 10 else 5
    end in
  if (g_clip g =? 0)%Z then
    if negb (forallb (fun d => match ends_of st d with Some (p, q) => on_side p q | None => false end) (bdry_darts st)
             && dy_eqb total bbox2) then 4 else
    let xs := dedup_dy (map fst (filter (fun p => dy_eqb (snd p) miny) ps)) in
    let ys := dedup_dy (map snd (filter (fun p => dy_eqb (fst p) minx) ps)) in
    (* points of interest that sit on a grid line are dropped by the kernel (the crossing captures them) *)
    let retained i := let p := ptn g i in negb (existsb (dy_eqb (fst p)) xs || existsb (dy_eqb (snd p)) ys) in
    if negb (forallb (fun i => negb (retained i) || existsb (pt_eqb (ptn g i)) ps) (g_poi g)) then
      (if negb (poi_class =? 0) then poi_class else 5) else
    let crossing_ok (s : pt * pt) : bool :=
      let '(a, c) := s in
      forallb (fun X => negb (dy_ltb (dy_min (fst a) (fst c)) X && dy_ltb X (dy_max (fst a) (fst c))) ||
                        existsb (fun p => dy_eqb (fst p) X && near_seg a c p) ps) xs &&
      forallb (fun Y => negb (dy_ltb (dy_min (snd a) (snd c)) Y && dy_ltb Y (dy_max (snd a) (snd c))) ||
                        existsb (fun p => dy_eqb (snd p) Y && near_seg a c p) ps) ys in
    if negb (forallb crossing_ok (seg_pts g)) then 6 else 0
  else
    if negb (poi_class =? 0) then poi_class else
    if negb (Nat.eqb (length (g_poi g)) (length (g_pts g))) then 0 else
    let A2 := input_area2 g in
    let pos := (0 <? dy_sgn A2)%Z in
    let keeps_left := (g_clip g =? 2)%Z in
    let expected :=
      if keeps_left then (if pos then A2 else dy_add bbox2 A2)
      else (if pos then dy_sub bbox2 A2 else dy_sub dy_zero A2) in
    if negb (dy_leb (dy_abs (dy_sub total expected)) tol_area) then 7 else
    let exterior_kept := negb (Bool.eqb keeps_left pos) in
    let bds := flat_map (fun d => match ends_of st d with Some e => [e] | None => [] end) (bdry_darts st) in
    let on_input (e : pt * pt) := existsb (fun s => near_seg (fst s) (snd s) (fst e) && near_seg (fst s) (snd s) (snd e)) (seg_pts g) in
    if negb (forallb (fun e => on_input e || (exterior_kept && on_side (fst e) (snd e))) bds) then 9 else
    (* every input segment is covered: the projections of the boundary edges lying on it add up to its length *)
    let covered (s : pt * pt) : bool :=
      let '(a, c) := s in
      let ac := vsub c a in let l2 := vdot ac ac in
      let on := filter (fun e => near_seg a c (fst e) && near_seg a c (snd e)) bds in
      let sum := fold_left dy_add (map (fun e => dy_abs (vdot (vsub (snd e) (fst e)) ac)) on) dy_zero in
      dy_leb (dy_abs (dy_sub sum l2)) (dy_mul tol_area l2) in
    if negb (forallb covered (seg_pts g)) then 9 else 0.

Definition verdict16 (c : N) : list (list tok) := match c with 0 => [[TZ 1%Z]] | _ => [[TZ 0%Z; tN c]] end.

Definition oracle_grisubal (ts : list tok) : list (list tok) :=
  match split_step ts with
  | Some (_, op, post) =>
    match parse_ginput op, post with
    | Some g, TZ cls :: _ =>
      if negb (g_kind g =? 0)%Z then [[TZ 2%Z]] else
      if misoriented g then (if (cls =? 0)%Z then [[TZ 0%Z; TZ 8%Z]] else [[TZ 1%Z]]) else
      if negb (closed_oriented g && simple_input g && general_position_grid g) then [[TZ 2%Z]] else
      if negb (cls =? 0)%Z then
        (* a refusal is only held against the kernel when the captured boundary is the input boundary itself:
           corners that are not points of interest are cut by chords between consecutive grid crossings, and
           for features thinner than a cell those chords may cross (the captured boundary is then not simple) *)
        (if Nat.eqb (length (g_poi g)) (length (g_pts g)) || (g_clip g =? 0)%Z then [[TZ 0%Z; TZ 1%Z]] else [[TZ 2%Z]])
      else
      match obs_state post with
      | Some st => verdict16 (check16 g st)
      | None => [[TZ (-1)%Z]]
      end
    | _, _ => [[TZ (-1)%Z]]
    end
  | None => [[TZ (-1)%Z]]
  end.

(** ** C17: anchors after capture + classification (kinds 4, 5, 6 = vertex, edge, face anchors) *)
Definition anc (st : state2) (k d : N) : option Z := attr (mem st) k d.
Definition adim (a : Z) : Z := Z.div a 4294967296.
Definition has_dim (o : option Z) (ds : list Z) : bool :=
  match o with Some a => existsb (Z.eqb (adim a)) ds | None => false end.
Definition on_boundary (st : state2) (v : N) : bool := existsb (fun d => b st 2 d =? 0) (cell_of st PVertex v).
(* the next boundary dart after the boundary dart [d], turning around the end vertex of [d] *)
Fixpoint next_bdry (st : state2) (fuel : nat) (x : N) : N :=
  match fuel with
  | O => x
  | S f => if b st 2 x =? 0 then x else next_bdry st f (b st 1 (b st 2 x))
  end.
Definition opt_Z_eqb (a c : option Z) : bool :=
  match a, c with Some x, Some y => Z.eqb x y | None, None => true | _, _ => false end.

(* key of the stretch of boundary the boundary dart [x] belongs to: walking forward along the boundary from [d0], the
   dart whose end vertex is a node (2x+1), or, when the walk comes back to [d0] without meeting a node, the smallest
   dart of the loop (2m): two boundary darts lie between the same two consecutive nodes (or on the same loop without
   node) iff their keys are equal *)
Fixpoint stretch_key (st : state2) (len : nat) (fuel : nat) (d0 x mn : N) : N :=
  match fuel with
  | O => 2 * mn
  | S f =>
    let y := next_bdry st len (b st 1 x) in
    if has_dim (anc st 4 (cid st PVertex y)) [0%Z] then 2 * x + 1
    else if y =? d0 then 2 * mn
    else stretch_key st len f d0 y (N.min mn y)
  end.

(* classes: 11 refused or crashed, 12 a cell without anchor, 13 a point of interest is not a node vertex,
   14 edge / face anchored to the wrong kind, 15 vertex anchored to the wrong kind,
   16 adjacent faces with different surfaces, 17 consecutive boundary edges not separated by a node have different curves,
   19 two different curves (stretches between consecutive nodes / loops without node) carry the same identifier *)
Definition check17 (g : ginput) (st : state2) : N :=
  if negb (wf2b (nd st) (mem st) && fully_embedded st && all_closed st) then 2 else
  let m := mesh_darts st in
  let vs := ids_of st PVertex m in let es := ids_of st PEdge m in let fs := ids_of st PFace m in
  if negb (forallb (fun v => match anc st 4 v with Some _ => true | None => false end) vs &&
           forallb (fun e => match anc st 5 e with Some _ => true | None => false end) es &&
           forallb (fun f => match anc st 6 f with Some _ => true | None => false end) fs) then 12 else
  if negb (forallb (fun i => existsb (fun v => match pt_at st v with
                                               | Some p => pt_eqb p (ptn g i) && has_dim (anc st 4 v) [0%Z]
                                               | None => false end) vs) (g_poi g)) then
    (if forallb (fun i => in_one_cell g (loop_of_point g i) ||
                          existsb (fun v => match pt_at st v with Some p => pt_eqb p (ptn g i) && has_dim (anc st 4 v) [0%Z] | None => false end) vs)
                (g_poi g) then 10 else 13) else
  if negb (forallb (fun e => if existsb (fun d => b st 2 d =? 0) (cell_of st PEdge e)
                             then has_dim (anc st 5 e) [1%Z] else has_dim (anc st 5 e) [2%Z]) es &&
           forallb (fun f => has_dim (anc st 6 f) [2%Z]) fs) then 14 else
  if negb (forallb (fun v => if on_boundary st v then has_dim (anc st 4 v) [0%Z; 1%Z] else has_dim (anc st 4 v) [2%Z]) vs) then 15 else
  if negb (forallb (fun d => (b st 2 d =? 0) ||
                             opt_Z_eqb (anc st 6 (cid st PFace d)) (anc st 6 (cid st PFace (b st 2 d)))) m) then 16 else
  if negb (forallb (fun d =>
             let x := next_bdry st (length m) (b st 1 d) in
             has_dim (anc st 4 (cid st PVertex x)) [0%Z] ||
             opt_Z_eqb (anc st 5 (cid st PEdge d)) (anc st 5 (cid st PEdge x))) (bdry_darts st)) then 17 else
  (* one identifier per curve: boundary edges carrying the same curve identifier lie on the same stretch *)
  let keyed := map (fun d => (anc st 5 (cid st PEdge d), stretch_key st (length m) (length m) d d d)) (bdry_darts st) in
  if negb (forallb (fun p => forallb (fun q => negb (opt_Z_eqb (fst p) (fst q)) || (snd p =? snd q)) keyed) keyed) then 19 else 0.

Definition oracle_capture (ts : list tok) : list (list tok) :=
  match split_step ts with
  | Some (_, op, post) =>
    match parse_ginput op, post with
    | Some g, TZ cls :: _ =>
      if negb (g_kind g =? 1)%Z then [[TZ 2%Z]] else
      if misoriented g then (if (cls =? 0)%Z then [[TZ 0%Z; TZ 8%Z]] else [[TZ 1%Z]]) else
      if negb (closed_oriented g && simple_input g && general_position_grid g) then [[TZ 2%Z]] else
      (* the clip mode must keep a bounded region: the left side when the signed area is positive *)
      let pos := (0 <? dy_sgn (input_area2 g))%Z in
      if negb (Bool.eqb (g_clip g =? 2)%Z pos) then [[TZ 2%Z]] else
      if negb (cls =? 0)%Z then [[TZ 0%Z; TZ 11%Z]] else
      match obs_state post with
      | Some st => verdict16 (check17 g st)
      | None => [[TZ (-1)%Z]]
      end
    | _, _ => [[TZ (-1)%Z]]
    end
  | None => [[TZ (-1)%Z]]
  end.
