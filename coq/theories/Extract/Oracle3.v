(** * C02 / C05 (and C06 in 3D): step oracles applied to implementation observations of 3-maps. *)
From Coq Require Import List NArith ZArith Bool Floats.
From HC Require Import Base.Closure Stm.Prog Map2.Ops2 Map2.State2 Map2.Wf2 Map2.Orbit2 Map3.Ops3 Map3.Wf3
  Extract.Tok Extract.Run2 Extract.Run3.
Import ListNotations.
Open Scope N_scope.
#[local] Existing Instance sig3_f64 | 0.

(** parsing dumps back *)
Definition parse_opt_v3 (ts : list tok) : option (option V3 * list tok) :=
  match ts with
  | TZ 0%Z :: rest => Some (None, rest)
  | TZ 1%Z :: TF x :: TF y :: TF z :: rest => Some (Some (x, y, z), rest)
  | _ => None
  end.
Fixpoint parse_attrs3 (ks : kinds) (d : N) (s : store) (ts : list tok) : option (store * list tok) :=
  match ks with
  | [] => Some (s, ts)
  | (k, _) :: ks' =>
    match ts with
    | TZ 0%Z :: rest => parse_attrs3 ks' d (upd s (XAttr k d) (VA None)) rest
    | TZ 1%Z :: TZ a :: rest => parse_attrs3 ks' d (upd s (XAttr k d) (VA (Some a))) rest
    | _ => None
    end
  end.
Definition parse_dart3 (ks : kinds) (d : N) (s : store) (ts : list tok) : option (store * list tok) :=
  match ts with
  | TZ b0 :: TZ b1 :: TZ b2 :: TZ b3 :: TZ u :: rest =>
    let s := upd (upd (upd (upd (upd s (XBeta 0 d) (VN (zN b0))) (XBeta 1 d) (VN (zN b1)))
                      (XBeta 2 d) (VN (zN b2))) (XBeta 3 d) (VN (zN b3))) (XUnused d) (VB (negb (u =? 0)%Z)) in
    match parse_opt_v3 rest with
    | Some (o, rest') => parse_attrs3 ks d (upd s (XVertex d) (VV o)) rest'
    | None => None
    end
  | _ => None
  end.
Fixpoint parse_darts3 (ks : kinds) (ds : list N) (s : store) (ts : list tok) : option (store * list tok) :=
  match ds with
  | [] => Some (s, ts)
  | d :: ds' => match parse_dart3 ks d s ts with Some (s', rest) => parse_darts3 ks ds' s' rest | None => None end
  end.
Definition obs_state3 (ts : list tok) : option state2 :=
  match ts with
  | _ :: _ :: _ :: TZ mask :: TZ n :: rest =>
    let ks := kinds3_of_mask (zN mask) in
    match parse_darts3 ks (nrange (zN n)) blank rest with
    | Some (s, []) => Some (compact3 {| nd := zN n; mem := s; aks := ks |})
    | _ => None
    end
  | _ => None
  end.

Definition pre_op3b (st : state2) (o : op3) : bool :=
  match o with
  | AddDart3 | AddDarts3 _ | InsertDart3 => true
  | RemoveDart3 d => negb (d =? 0)
  | Force3 c => pre_call3b (nd st) (mem st) c
  | Block3 cs => match cs with [c] => pre_call3b (nd st) (mem st) c | _ => false end
  end.

(** C02: well-formedness preserved by in-contract ops; a successful 3-link / 3-sew only on
    mirrorable faces.  classes: 1 post-state ill-formed, 2 non-mirrorable faces accepted *)
Definition oracle_wf3_step (ts : list tok) : list (list tok) :=
  match split_step ts with
  | Some (_, TZ 8%Z :: _, _) => [[TZ 2%Z]]
  | Some (pre, op, post) =>
    match obs_state3 pre, obs_state3 post, post with
    | Some st, Some st', TZ cls :: _ =>
      match op with
      | TZ 7%Z :: _ => [[if wf3b (nd st') (mem st') then TZ 1%Z else TZ 2%Z]]
      | _ =>
        match parse_op3 op with
        | Some (fa, o, []) =>
          if wf3b (nd st) (mem st) && pre_op3b st o then
            if negb (wf3b (nd st') (mem st')) then [[TZ 0%Z; TZ 1%Z]]
            else match o with
                 | Force3 (L3 l r) | Force3 (S3 l r) | Block3 [L3 l r] | Block3 [S3 l r] =>
                   if (cls =? 0)%Z && negb (mirrorable (nd st) (mem st) l r) then [[TZ 0%Z; TZ 2%Z]] else [[TZ 1%Z]]
                 | _ => [[TZ 1%Z]]
                 end
          else [[TZ 2%Z]]
        | _ => [[TZ (-1)%Z]]
        end
      end
    | _, _, _ => [[TZ (-1)%Z]]
    end
  | None => [[TZ (-1)%Z]]
  end.

(** C06 in 3D: an error leaves every observable unchanged *)
Definition oracle_err_noop3 (ts : list tok) : list (list tok) :=
  match split_step ts with
  | Some (_, TZ 8%Z :: _, _) => [[TZ 2%Z]]
  | Some (pre, op, post) =>
    match pre, post with
    | _ :: _ :: _ :: dpre, TZ cls :: _ :: _ :: dpost =>
      if (cls =? 1)%Z then (if toks_eqb dpre dpost then [[TZ 1%Z]] else [[TZ 0%Z; TZ 1%Z]]) else [[TZ 2%Z]]
    | _, _ => [[TZ (-1)%Z]]
    end
  | None => [[TZ (-1)%Z]]
  end.
