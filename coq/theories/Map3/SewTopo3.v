(** * C05, topology clause: a successful 3D sew / unsew (dimensions 1, 2, 3) has exactly the effect of the
    corresponding link / unlink on the images and removal flags of every dart (coordinates and attributes apart).

    As in 2D, every sew is  (steps that only read, or only write data) ; link ; (steps that only write data);
    the links -- the lock-step walks of the 3-link included -- only read and write images, so their outcome is
    determined by the topology part of the store. *)
From Coq Require Import List NArith Bool Lia.
From HC Require Import Base.Closure Stm.Prog Stm.ProgFacts Stm.Atomic Map2.Ops2 Map2.State2 Map2.Wf2 Map2.Wf2Proofs
  Map2.SewTopo Map3.Ops3 Map3.Wf3 Map3.Wf3Proofs Map3.Wf3Links Map3.Wf3Link3 Map3.Wf3All.
Import ListNotations.
Open Scope N_scope.
Arguments N.eqb : simpl never.

Section SewTopo3.
Context `{Sig}.

(** determined by the topology: same result, topology-equal stores, no law call *)
Definition det_topo {X} (p : prog X) : Prop :=
  forall E c c' w w' cnt cnt' x w1 cnt1, topo_eq w w' ->
    run E p c' w' cnt' = (Done x, w1, cnt1) ->
    exists w2, run E p c w cnt = (Done x, w2, cnt) /\ topo_eq w2 w1.

Lemma det_core (p : prog unit) : det_topo p -> core_topo p.
Proof. intros Hp E c c' w w' cnt cnt' w1 cnt1 T Hr. exact (Hp E c c' w w' cnt cnt' tt w1 cnt1 T Hr). Qed.

Lemma det_ret {X} (x : X) : det_topo (Ret x).
Proof. intros E c c' w w' cnt cnt' y w1 cnt1 T Hr. cbn in *. injection Hr as <- <- <-. eexists. split; [reflexivity|exact T]. Qed.
Lemma det_fail {X} e : det_topo (@Fail _ X e).
Proof. intros E c c' w w' cnt cnt' y w1 cnt1 T Hr. discriminate Hr. Qed.
Lemma det_panic {X} q : det_topo (@Panic _ X q).
Proof. intros E c c' w w' cnt cnt' y w1 cnt1 T Hr. discriminate Hr. Qed.
Lemma det_rdB i d : det_topo (rdB i d).
Proof.
  intros E c c' w w' cnt cnt' y w1 cnt1 T Hr. cbn [run rdB] in *.
  destruct (e_dom E (XBeta i d)); [|discriminate Hr]. cbn [run] in *.
  injection Hr as <- <- <-. rewrite (beta_of_topo _ _ _ _ T). eexists. split; [reflexivity|exact T].
Qed.
Lemma det_wrB i d x : det_topo (wrB i d x).
Proof.
  intros E c c' w w' cnt cnt' y w1 cnt1 T Hr. cbn [run wrB] in *.
  destruct (e_dom E (XBeta i d)); [|discriminate Hr]. cbn [run] in *.
  injection Hr as <- <- <-. eexists. split; [reflexivity|]. now apply topo_eq_upd_beta.
Qed.
Lemma det_bind {X Y} (p : prog X) (f : X -> prog Y) :
  det_topo p -> (forall x, det_topo (f x)) -> det_topo (bind p f).
Proof.
  intros Hp Hf E c c' w w' cnt cnt' y w1 cnt1 T Hr. rewrite run_bind in Hr.
  destruct (run E p c' w' cnt') as [[[x|e| |q] wa] cnta] eqn:Ea; try discriminate Hr.
  destruct (Hp E c c' w w' cnt cnt' x wa cnta T Ea) as (wb & Eb & Tb).
  destruct (Hf x E c c' wb wa cnt cnta y w1 cnt1 Tb Hr) as (w2 & E2 & T2).
  exists w2. split; [|exact T2]. rewrite run_bind, Eb. exact E2.
Qed.

Ltac dt := repeat match goal with
  | |- det_topo (bind _ _) => apply det_bind; [|intros ?; cbv beta]
  | |- det_topo (rdB _ _) => apply det_rdB
  | |- det_topo (wrB _ _ _) => apply det_wrB
  | |- det_topo (Ret _) => apply det_ret
  | |- det_topo (Fail _) => apply det_fail
  | |- det_topo (Panic _) => apply det_panic
  | |- det_topo (if ?b then _ else _) => destruct b
  | |- det_topo (let '(_, _) := ?o in _) => destruct o
  end.

Lemma det_one_link_core l r : det_topo (one_link_core l r). Proof. unfold one_link_core. dt. Qed.
Lemma det_one_unlink_core l : det_topo (one_unlink_core l). Proof. unfold one_unlink_core. dt. Qed.
Lemma det_two_link_core l r : det_topo (two_link_core l r). Proof. unfold two_link_core. dt. Qed.
Lemma det_two_unlink_core l : det_topo (two_unlink_core l). Proof. unfold two_unlink_core. dt. Qed.
Lemma det_three_link_core l r : det_topo (three_link_core l r). Proof. unfold three_link_core. dt. Qed.
Lemma det_three_unlink_core l : det_topo (three_unlink_core l). Proof. unfold three_unlink_core. dt. Qed.
Lemma det_one_link3 l r : det_topo (one_link3 l r).
Proof. unfold one_link3. dt; apply det_one_link_core. Qed.
Lemma det_one_unlink3 l : det_topo (one_unlink3 l).
Proof. unfold one_unlink3. dt; apply det_one_unlink_core. Qed.
Lemma det_link3_fwd f : forall ld l r, det_topo (link3_fwd f ld l r).
Proof.
  induction f as [|f IH]; intros ld l r; cbn [link3_fwd]; [apply det_panic|].
  dt; try apply det_three_link_core. apply IH.
Qed.
Lemma det_link3_bwd f : forall l r, det_topo (link3_bwd f l r).
Proof.
  induction f as [|f IH]; intros l r; cbn [link3_bwd]; [apply det_panic|].
  dt; try apply det_three_link_core. apply IH.
Qed.
Lemma det_three_link n ld rd : det_topo (three_link n ld rd).
Proof. unfold three_link. dt; try apply det_three_link_core; try apply det_link3_fwd; try apply det_link3_bwd. Qed.
Lemma det_unlink3_fwd f : forall ld l r, det_topo (unlink3_fwd f ld l r).
Proof.
  induction f as [|f IH]; intros ld l r; cbn [unlink3_fwd]; [apply det_panic|].
  dt; try apply det_three_unlink_core. apply IH.
Qed.
Lemma det_unlink3_bwd f : forall l r, det_topo (unlink3_bwd f l r).
Proof.
  induction f as [|f IH]; intros l r; cbn [unlink3_bwd]; [apply det_panic|].
  dt; try apply det_three_unlink_core. apply IH.
Qed.
Lemma det_three_unlink n ld : det_topo (three_unlink n ld).
Proof. unfold three_unlink. dt; try apply det_three_unlink_core; try apply det_unlink3_fwd; try apply det_unlink3_bwd. Qed.

(** *** the sews *)
Ltac wis3 := first
  [ apply wi_vertex_id3 | apply wi_edge_id3 | apply wi_orbit_tx3 | apply wi_next_or_b2 | apply wi_sew3_pairs
  | apply wi_merge_pairs | apply wi_unsew3_pairs | apply wi_vertices_merge | apply wi_vertices_split
  | apply wi_merge_attributes | apply wi_split_attributes | (cbn; intros; exact I)
  | (repeat match goal with |- writes_in _ (if ?b then _ else _) => destruct b end;
     first [ apply wi_vertex_id3 | exact I ]) ].
Ltac peel3 Hr T :=
  let x := fresh "x" in let wa := fresh "wa" in let ca := fresh "ca" in let Ta := fresh "Ta" in
  apply peel_data in Hr; [|solve [wis3]];
  destruct Hr as (x & wa & ca & Ta & Hr); cbv beta in Hr;
  pose proof (topo_eq_trans _ _ _ T Ta) as T'; clear T Ta; rename T' into T.
Ltac tail_wi3 := repeat (apply writes_in_bind; [solve [wis3]|intros ?]); solve [wis3].

Theorem one_sew3_topology E n ks l r c w cnt w1 cnt1 :
  run E (one_sew3 n ks l r) c w cnt = (Done tt, w1, cnt1) ->
  exists w2, run E (one_link3 l r) c w cnt = (Done tt, w2, cnt) /\ topo_eq w2 w1.
Proof.
  intros Hr. unfold one_sew3 in Hr. pose proof (topo_eq_refl w) as T.
  peel3 Hr T. peel3 Hr T. peel3 Hr T. peel3 Hr T.
  eapply core_then_data; [apply det_core, det_one_link3| |exact T|exact Hr].
  destruct (negb (x1 =? 0)); [tail_wi3|exact I].
Qed.

Theorem one_unsew3_topology E n ks l c w cnt w1 cnt1 :
  run E (one_unsew3 n ks l) c w cnt = (Done tt, w1, cnt1) ->
  exists w2, run E (one_unlink3 l) c w cnt = (Done tt, w2, cnt) /\ topo_eq w2 w1.
Proof.
  intros Hr. unfold one_unsew3 in Hr. pose proof (topo_eq_refl w) as T.
  peel3 Hr T. peel3 Hr T.
  eapply core_then_data; [apply det_core, det_one_unlink3| |exact T|exact Hr].
  apply writes_in_bind; [wis3|intros b2]. apply writes_in_bind; [wis3|intros b3].
  destruct ((b2 =? 0) && (b3 =? 0)); [exact I|].
  apply writes_in_bind; [wis3|intros v1]. apply writes_in_bind; [wis3|intros v2].
  destruct (negb (v1 =? v2)); [tail_wi3|exact I].
Qed.

Theorem two_sew3_topology E n ks l r c w cnt w1 cnt1 :
  run E (two_sew3 n ks l r) c w cnt = (Done tt, w1, cnt1) ->
  exists w2, run E (two_link_core l r) c w cnt = (Done tt, w2, cnt) /\ topo_eq w2 w1.
Proof.
  intros Hr. unfold two_sew3 in Hr. pose proof (topo_eq_refl w) as T.
  peel3 Hr T. peel3 Hr T. destruct (x =? 0), (x0 =? 0).
  - peel3 Hr T. peel3 Hr T.
    eapply core_then_data; [apply two_link_core_topo| |exact T|exact Hr]. tail_wi3.
  - peel3 Hr T. peel3 Hr T. peel3 Hr T. peel3 Hr T.
    eapply core_then_data; [apply two_link_core_topo| |exact T|exact Hr]. tail_wi3.
  - peel3 Hr T. peel3 Hr T. peel3 Hr T. peel3 Hr T.
    eapply core_then_data; [apply two_link_core_topo| |exact T|exact Hr]. tail_wi3.
  - peel3 Hr T. peel3 Hr T. peel3 Hr T. peel3 Hr T. peel3 Hr T. peel3 Hr T. peel3 Hr T. peel3 Hr T. peel3 Hr T. peel3 Hr T.
    apply peel_data in Hr.
    2:{ repeat match goal with x : option V |- _ => destruct x end; try exact I.
        match goal with |- writes_in _ (if ?b then _ else _) => destruct b end; exact I. }
    destruct Hr as (xz & wz & cz & Tz & Hr). cbv beta in Hr.
    pose proof (topo_eq_trans _ _ _ T Tz) as T'.
    eapply core_then_data; [apply two_link_core_topo| |exact T'|exact Hr]. tail_wi3.
Qed.

Theorem two_unsew3_topology E n ks l c w cnt w1 cnt1 :
  run E (two_unsew3 n ks l) c w cnt = (Done tt, w1, cnt1) ->
  exists w2, run E (two_unlink_core l) c w cnt = (Done tt, w2, cnt) /\ topo_eq w2 w1.
Proof.
  intros Hr. unfold two_unsew3 in Hr. pose proof (topo_eq_refl w) as T.
  peel3 Hr T. peel3 Hr T. peel3 Hr T. destruct (x0 =? 0), (x1 =? 0).
  - peel3 Hr T. eapply core_then_data; [apply two_unlink_core_topo| |exact T|exact Hr]. tail_wi3.
  - peel3 Hr T. peel3 Hr T. eapply core_then_data; [apply two_unlink_core_topo| |exact T|exact Hr]. tail_wi3.
  - peel3 Hr T. peel3 Hr T. eapply core_then_data; [apply two_unlink_core_topo| |exact T|exact Hr]. tail_wi3.
  - peel3 Hr T. peel3 Hr T. peel3 Hr T. eapply core_then_data; [apply two_unlink_core_topo| |exact T|exact Hr]. tail_wi3.
Qed.

Theorem three_sew3_topology E n ks l r c w cnt w1 cnt1 :
  run E (three_sew3 n ks l r) c w cnt = (Done tt, w1, cnt1) ->
  exists w2, run E (three_link n l r) c w cnt = (Done tt, w2, cnt) /\ topo_eq w2 w1.
Proof.
  intros Hr. unfold three_sew3 in Hr. pose proof (topo_eq_refl w) as T.
  peel3 Hr T. peel3 Hr T.
  destruct (lmin3 x) as [lf|]; [|discriminate Hr]. destruct (lmin3 x0) as [rf|]; [|discriminate Hr].
  peel3 Hr T. destruct x1 as [edges vertices].
  peel3 Hr T. peel3 Hr T. peel3 Hr T. peel3 Hr T. peel3 Hr T. peel3 Hr T. peel3 Hr T. peel3 Hr T. peel3 Hr T. peel3 Hr T.
  apply peel_data in Hr.
  2:{ destruct x7 as [a|], x8 as [b|], x9 as [c0|], x10 as [d|]; try exact I. destruct (bad_orient a b c0 d); exact I. }
  destruct Hr as (xz & wz & cz & Tz & Hr). cbv beta in Hr.
  pose proof (topo_eq_trans _ _ _ T Tz) as T'.
  eapply core_then_data; [apply det_core, det_three_link| |exact T'|exact Hr]. tail_wi3.
Qed.

Theorem three_unsew3_topology E n ks l c w cnt w1 cnt1 :
  run E (three_unsew3 n ks l) c w cnt = (Done tt, w1, cnt1) ->
  exists w2, run E (three_unlink n l) c w cnt = (Done tt, w2, cnt) /\ topo_eq w2 w1.
Proof.
  intros Hr. unfold three_unsew3 in Hr. pose proof (topo_eq_refl w) as T.
  peel3 Hr T.
  eapply core_then_data; [apply det_core, det_three_unlink| |exact T|exact Hr].
  apply writes_in_bind; [wis3|intros lo]. apply writes_in_bind; [wis3|intros ro].
  destruct (lmin3 lo); [|exact I]. destruct (lmin3 ro); [|exact I]. tail_wi3.
Qed.

End SewTopo3.
