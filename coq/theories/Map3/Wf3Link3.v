(** * C02, the 3-link: a successful [three_link] keeps wf3.

    The walks of [three_link] glue the darts of two faces pairwise.  Part 1 is about stores only: gluing any
    family of pairs of 3-free darts that is closed under the successor / predecessor of the two faces (with the
    mirror orientation) keeps the 3-map well formed.  Part 2 shows that a run of [three_link] that terminates
    normally has glued exactly such a family: every [three_link_core] of the walk found its two darts 3-free
    at that time, which makes all glued darts pairwise distinct (a dart glued to itself makes the NEXT step of
    the walk fail), and the tests that end the walks give the closure. *)
From Coq Require Import List NArith Bool Lia.
From HC Require Import Stm.Prog Stm.ProgFacts Stm.Atomic Map2.Ops2 Map2.State2 Map2.Wf2 Map2.Wf2Proofs
  Map3.Ops3 Map3.Wf3 Map3.Wf3Dec Map3.Wf3Proofs Map3.Wf3Links.
Import ListNotations.
Open Scope N_scope.
Arguments N.add : simpl never. Arguments N.mul : simpl never. Arguments N.min : simpl never.
Arguments N.eqb : simpl never. Arguments N.ltb : simpl never. Arguments N.leb : simpl never.

Section Link3.
Context `{Sig}.

(** ** Part 1: stores *)
Definition link3 (w : store) (p : N * N) : store :=
  upd (upd w (XBeta 3 (fst p)) (VN (snd p))) (XBeta 3 (snd p)) (VN (fst p)).
Definition links (w : store) (ps : list (N * N)) : store := fold_right (fun p w => link3 w p) w ps.
Definition darts (ps : list (N * N)) : list N := flat_map (fun p => [fst p; snd p]) ps.

Lemma darts_cons p ps : darts (p :: ps) = fst p :: snd p :: darts ps.
Proof. reflexivity. Qed.
Lemma darts_app a c : darts (a ++ c) = darts a ++ darts c.
Proof. unfold darts. apply flat_map_app. Qed.
Lemma in_darts ps x : In x (darts ps) <-> exists p, In p ps /\ (x = fst p \/ x = snd p).
Proof.
  unfold darts. rewrite in_flat_map. split.
  - intros (p & Hp & Hx). exists p. split; [exact Hp|]. cbn in Hx. intuition.
  - intros (p & Hp & Hx). exists p. split; [exact Hp|]. cbn. intuition.
Qed.

Lemma links_other w ps i d : i <> 3 -> beta (links w ps) i d = beta w i d.
Proof.
  intros Hi. induction ps as [|p ps IH]; cbn [links fold_right]; [reflexivity|].
  unfold link3. rewrite !beta_upd_beta.
  destruct (N.eqb_spec i 3); [contradiction|]. cbn [andb]. exact IH.
Qed.
Lemma links_unused w ps d : unused (links w ps) d = unused w d.
Proof.
  induction ps as [|p ps IH]; cbn [links fold_right]; [reflexivity|].
  unfold link3. rewrite !unused_upd_other by (intros; discriminate). exact IH.
Qed.
Lemma links_out w ps d : ~ In d (darts ps) -> beta (links w ps) 3 d = beta w 3 d.
Proof.
  induction ps as [|p ps IH]; cbn [links fold_right]; [reflexivity|].
  rewrite darts_cons. intros Hn. unfold link3. rewrite !beta_upd_beta.
  destruct (N.eqb_spec d (snd p)) as [->|]; [exfalso; apply Hn; cbn; auto|].
  destruct (N.eqb_spec d (fst p)) as [->|]; [exfalso; apply Hn; cbn; auto|].
  rewrite !andb_false_r. apply IH. intros Hi. apply Hn. cbn. auto.
Qed.
(* the value under a glued dart is its partner *)
Lemma links_in w ps : NoDup (darts ps) -> forall l r, In (l, r) ps ->
  beta (links w ps) 3 l = r /\ beta (links w ps) 3 r = l.
Proof.
  induction ps as [|p ps IH]; [intros _ l r []|].
  rewrite darts_cons. intros Hnd l r Hin.
  inversion Hnd as [|a la Ha Hnd1]; subst. inversion Hnd1 as [|a' la' Ha' Hnd2]; subst.
  cbn [links fold_right]. unfold link3. rewrite !beta_upd_beta. cbn [N.eqb andb].
  destruct Hin as [->|Hin]; cbn [fst snd] in *.
  - rewrite !N.eqb_refl. cbn [andb].
    destruct (N.eqb_spec l r) as [->|Hlr]; [exfalso; apply Ha; cbn; auto|]. auto.
  - assert (Hl : In l (darts ps)) by (apply in_darts; exists (l, r); cbn; auto).
    assert (Hr : In r (darts ps)) by (apply in_darts; exists (l, r); cbn; auto).
    destruct (N.eqb_spec l (snd p)) as [->|]; [contradiction|].
    destruct (N.eqb_spec l (fst p)) as [->|]; [exfalso; apply Ha; cbn; auto|].
    destruct (N.eqb_spec r (snd p)) as [->|]; [contradiction|].
    destruct (N.eqb_spec r (fst p)) as [->|]; [exfalso; apply Ha; cbn; auto|].
    cbn [andb]. apply IH; auto.
Qed.
(* whatever the order, a glued dart has a non-null image as soon as no glued dart is null *)
Lemma links_nonnull w ps : (forall x, In x (darts ps) -> x <> 0) ->
  forall x, In x (darts ps) -> beta (links w ps) 3 x <> 0.
Proof.
  induction ps as [|p ps IH]; [intros _ x []|].
  rewrite darts_cons. intros Hnz x Hx. cbn [links fold_right]. unfold link3. rewrite !beta_upd_beta. cbn [N.eqb andb].
  destruct (N.eqb_spec x (snd p)) as [->|Hs]; cbn [andb].
  - apply Hnz. cbn. auto.
  - destruct (N.eqb_spec x (fst p)) as [->|Hf]; cbn [andb].
    + apply Hnz. cbn. auto.
    + apply IH; [intros y Hy; apply Hnz; cbn; auto|]. destruct Hx as [Hx|[Hx|Hx]]; congruence.
Qed.

Definition glueable (n : N) (w : store) (x : N) : Prop :=
  x <> 0 /\ x < n /\ unused w x = false /\ beta w 3 x = 0.

Lemma wf3_links n w ps :
  wf3 n w ->
  NoDup (darts ps) -> (forall x, In x (darts ps) -> glueable n w x) ->
  (forall l r, In (l, r) ps -> beta w 1 l <> 0 -> exists r', In (beta w 1 l, r') ps /\ beta w 1 r' = r) ->
  (forall l r, In (l, r) ps -> beta w 1 r <> 0 -> exists l', In (l', beta w 1 r) ps /\ beta w 1 l' = l) ->
  (forall x, In x (darts ps) -> beta w 0 x = 0 \/ In (beta w 0 x) (darts ps)) ->
  wf3 n (links w ps).
Proof.
  intros W Hnd Hg C1 C2 C3. pose proof W as [W1 W2 W3 W4 W5 W6 W7 W8].
  set (w' := links w ps).
  assert (Oth : forall i d, i <> 3 -> beta w' i d = beta w i d) by (intros; now apply links_other).
  assert (Out : forall d, ~ In d (darts ps) -> beta w' 3 d = beta w 3 d) by (intros; now apply links_out).
  assert (Inn : forall l r, In (l, r) ps -> beta w' 3 l = r /\ beta w' 3 r = l) by (intros; now apply links_in).
  assert (Dec : forall d, In d (darts ps) \/ ~ In d (darts ps)).
  { intros d. destruct (in_dec N.eq_dec d (darts ps)); auto. }
  assert (Pair : forall d, In d (darts ps) -> exists l r, In (l, r) ps /\ (d = l \/ d = r)).
  { intros d Hd. apply in_darts in Hd as ([l r] & Hp & Hx). exists l, r. auto. }
  assert (InD : forall l r, In (l, r) ps -> In l (darts ps) /\ In r (darts ps)).
  { intros l r Hp. split; apply in_darts; exists (l, r); cbn; auto. }
  constructor.
  - (* null *)
    intros i Hi. destruct (N.eq_dec i 3) as [->|Hne]; [|rewrite Oth by exact Hne; auto].
    rewrite Out; [apply W1; lia|]. intros H0. apply Hg in H0 as (H0 & _). congruence.
  - (* range *)
    intros i d Hi Hd. destruct (N.eq_dec i 3) as [->|Hne]; [|rewrite Oth by exact Hne; auto].
    destruct (Dec d) as [Hin|Hout]; [|rewrite Out by exact Hout; apply W2; lia].
    apply Pair in Hin as (l & r & Hp & [->| ->]); destruct (Inn _ _ Hp) as [E1 E2]; destruct (InD _ _ Hp) as [Il Ir].
    + rewrite E1. destruct (Hg _ Ir) as (_ & Hlt & _). exact Hlt.
    + rewrite E2. destruct (Hg _ Il) as (_ & Hlt & _). exact Hlt.
  - intros d Hd. rewrite !Oth by lia. auto.
  - intros d Hd. rewrite !Oth by lia. auto.
  - intros d Hd. rewrite !Oth by lia. auto.
  - (* beta3 involution *)
    intros d Hd Hnz. destruct (Dec d) as [Hin|Hout].
    + apply Pair in Hin as (l & r & Hp & [->| ->]); destruct (Inn _ _ Hp) as [E1 E2]; destruct (InD _ _ Hp) as [Il Ir].
      * rewrite E1, E2. split; [reflexivity|]. intros ->.
        clear - Hnd Hp. induction ps as [|q ps IH]; [destruct Hp|].
        rewrite darts_cons in Hnd. inversion Hnd as [|a la Ha Hnd1]; subst. inversion Hnd1 as [|a' la' Ha' Hnd2]; subst.
        destruct Hp as [->|Hp]; [apply Ha; cbn; auto|auto].
      * rewrite E2, E1. split; [reflexivity|]. intros ->.
        clear - Hnd Hp. induction ps as [|q ps IH]; [destruct Hp|].
        rewrite darts_cons in Hnd. inversion Hnd as [|a la Ha Hnd1]; subst. inversion Hnd1 as [|a' la' Ha' Hnd2]; subst.
        destruct Hp as [->|Hp]; [apply Ha; cbn; auto|auto].
    + rewrite (Out d Hout) in *. destruct (W6 d Hd Hnz) as [E Ne].
      assert (Hu : ~ In (beta w 3 d) (darts ps)).
      { intros Hu. apply Hg in Hu as (_ & _ & _ & Hfree). rewrite E in Hfree. subst d.
        apply Hnz. apply W1. lia. }
      rewrite Out by exact Hu. auto.
  - (* mirror *)
    intros d Hd. cbv zeta. rewrite !Oth by lia. intros Ht H3d H3t.
    destruct (Dec d) as [Hin|Hout].
    + apply Pair in Hin as (l & r & Hp & [->| ->]); destruct (Inn _ _ Hp) as [E1 E2].
      * destruct (C1 _ _ Hp Ht) as (r' & Hp' & Hb). destruct (Inn _ _ Hp') as [E1' E2'].
        rewrite E1', E1. rewrite Oth by lia. exact Hb.
      * destruct (C2 _ _ Hp Ht) as (l' & Hp' & Hb). destruct (Inn _ _ Hp') as [E1' E2'].
        rewrite E2', E2. rewrite Oth by lia. exact Hb.
    + destruct (Dec (beta w 1 d)) as [Tin|Tout].
      * exfalso. destruct (C3 _ Tin) as [Z|Zin]; rewrite (W3 d Hd Ht) in *.
        -- subst d. apply Ht. apply W1. lia.
        -- contradiction.
      * rewrite (Out d Hout) in *. rewrite (Out (beta w 1 d) Tout) in *. rewrite ?Oth by lia.
        apply (W7 d Hd Ht H3d H3t).
  - (* unused darts are free *)
    intros d Hd Hun i Hi. unfold w' in Hun. rewrite links_unused in Hun.
    destruct (N.eq_dec i 3) as [->|Hne]; [|rewrite Oth by exact Hne; auto].
    rewrite Out; [apply W8; auto|]. intros Hin. apply Hg in Hin as (_ & _ & Hu & _). congruence.
Qed.


(** ** Part 2: the walks *)
Ltac run_step Hr :=
  match type of Hr with
  | context [e_dom ?E ?v] => destruct (e_dom E v) eqn:?
  | context [if negb (?a =? ?b) then _ else _] => destruct (N.eqb_spec a b); cbn [negb] in Hr
  | context [if (?a =? ?b) then _ else _] => destruct (N.eqb_spec a b)
  end; cbn [run bind rdB wrB] in Hr.
Ltac run_all Hr := cbn [run bind rdB wrB] in Hr; repeat run_step Hr.

Definition not_done {X} (o : outcome X * store * N) : Prop :=
  match fst (fst o) with Done _ => False | _ => True end.

Lemma run_three_link_core E l r c w cnt o w' cnt' :
  run E (three_link_core l r) c w cnt = (o, w', cnt') ->
  match o with
  | Done _ => beta w 3 l = 0 /\ beta w 3 r = 0 /\ w' = link3 w (l, r) /\ cnt' = cnt
  | _ => True
  end.
Proof.
  intros Hr. unfold three_link_core in Hr. run_all Hr; injection Hr as <- <- <-; auto.
Qed.

Lemma core_blocked_l E l r c w cnt : beta w 3 l <> 0 -> not_done (run E (three_link_core l r) c w cnt).
Proof.
  intros Hl. destruct (run E (three_link_core l r) c w cnt) as [[o w'] cnt'] eqn:Hr.
  apply run_three_link_core in Hr. unfold not_done; cbn. destruct o; auto. destruct Hr as (Z & _). congruence.
Qed.

Lemma not_done_bind {X Y} E (p : prog X) (f : X -> prog Y) c w cnt :
  not_done (run E p c w cnt) -> not_done (run E (bind p f) c w cnt).
Proof.
  unfold not_done. rewrite run_bind. destruct (run E p c w cnt) as [[[x|e| |q] w1] cnt1]; cbn; tauto.
Qed.

Lemma fwd_blocked E fuel ld lside rside c w cnt :
  lside <> ld -> lside <> 0 -> beta w 3 lside <> 0 -> not_done (run E (link3_fwd fuel ld lside rside) c w cnt).
Proof.
  intros H1 H2 H3. destruct fuel as [|f]; cbn [link3_fwd]; [exact I|].
  destruct (N.eqb_spec lside ld); [contradiction|]. destruct (N.eqb_spec lside 0); [contradiction|]. cbn [orb].
  destruct (N.eqb_spec rside 0); [exact I|].
  apply not_done_bind. now apply core_blocked_l.
Qed.

Lemma bwd_blocked E fuel lside rside c w cnt :
  lside <> 0 -> beta w 3 lside <> 0 -> not_done (run E (link3_bwd fuel lside rside) c w cnt).
Proof.
  intros H2 H3. destruct fuel as [|f]; cbn [link3_bwd]; [exact I|].
  destruct (N.eqb_spec lside 0); [contradiction|].
  destruct (N.eqb_spec rside 0); [exact I|].
  apply not_done_bind. now apply core_blocked_l.
Qed.

Lemma fst_snd_distinct ps : NoDup (darts ps) -> forall a c d e, In (a, c) ps -> In (d, e) ps -> a <> e.
Proof.
  induction ps as [|[p1 p2] ps IH]; [intros _ a c d e []|].
  rewrite darts_cons. cbn [fst snd]. intros Hnd a c d e H1 H2.
  inversion Hnd as [|x lx Hx Hnd1]; subst. inversion Hnd1 as [|x' lx' Hx' Hnd2]; subst.
  destruct H1 as [H1|H1], H2 as [H2|H2].
  - injection H1 as -> ->. injection H2 as -> ->. intros ->. apply Hx. cbn. auto.
  - injection H1 as -> ->. intros ->. apply Hx. cbn. right. apply in_darts. exists (d, e). cbn. auto.
  - injection H2 as -> ->. intros ->. apply Hx'. apply in_darts. exists (e, c). cbn. auto.
  - eapply IH; eauto.
Qed.

(** the walks of one call, over the store [w0] it starts from *)
Section Walk.
Variables (n : N) (w0 : store) (ld rd : N) (E : env).
Hypothesis W0 : wf3 n w0.
Notation B1 := (beta w0 1).
Notation B0 := (beta w0 0).

Definition Good (acc : list (N * N)) : Prop :=
  NoDup (darts acc) /\ forall x, In x (darts acc) -> glueable n w0 x.

(* most recent pair first; the pairs of the forward walk *)
Inductive fchain : list (N * N) -> Prop :=
| fc1 : fchain [(ld, rd)]
| fcS pl pr rest : fchain ((pl, pr) :: rest) -> B1 pl <> 0 -> B0 pr <> 0 -> B1 pl <> ld ->
    fchain ((B1 pl, B0 pr) :: (pl, pr) :: rest).

Lemma fchain_base acc : fchain acc -> In (ld, rd) acc.
Proof. induction 1; cbn; auto. Qed.

Lemma free_not_glued acc x : Good acc -> beta (links w0 acc) 3 x = 0 -> ~ In x (darts acc) /\ beta w0 3 x = 0.
Proof.
  intros [Hnd Hg] Hz. assert (Hn : ~ In x (darts acc)).
  { intros Hin. revert Hz. apply links_nonnull; [|exact Hin]. intros y Hy. apply Hg in Hy. apply Hy. }
  split; [exact Hn|]. rewrite links_out in Hz by exact Hn. exact Hz.
Qed.

Lemma glueable_next x : glueable n w0 x -> B1 x <> 0 -> beta w0 3 (B1 x) = 0 -> glueable n w0 (B1 x).
Proof.
  destruct W0 as [W1 W2 W3 W4 W5 W6 W7 W8]. intros (X0 & Xn & Xu & X3) Hnz Hfree.
  assert (Hlt : B1 x < n) by (apply W2; [lia|exact Xn]).
  repeat split; auto.
  destruct (unused w0 (B1 x)) eqn:Hu; [|reflexivity]. exfalso.
  pose proof (W8 _ Hlt Hu 0 ltac:(lia)) as Hz. rewrite (W3 x Xn Hnz) in Hz. congruence.
Qed.
Lemma glueable_prev x : glueable n w0 x -> B0 x <> 0 -> beta w0 3 (B0 x) = 0 -> glueable n w0 (B0 x).
Proof.
  destruct W0 as [W1 W2 W3 W4 W5 W6 W7 W8]. intros (X0 & Xn & Xu & X3) Hnz Hfree.
  assert (Hlt : B0 x < n) by (apply W2; [lia|exact Xn]).
  repeat split; auto.
  destruct (unused w0 (B0 x)) eqn:Hu; [|reflexivity]. exfalso.
  pose proof (W8 _ Hlt Hu 1 ltac:(lia)) as Hz. rewrite (W4 x Xn Hnz) in Hz. congruence.
Qed.

Lemma good_cons acc l r : Good acc -> glueable n w0 l -> glueable n w0 r ->
  ~ In l (darts acc) -> ~ In r (darts acc) -> l <> r -> Good ((l, r) :: acc).
Proof.
  intros [Hnd Hg] Gl Gr Nl Nr Hlr. split.
  - rewrite darts_cons. cbn [fst snd]. constructor; [|constructor; assumption].
    intros [->|Hin]; [congruence|contradiction].
  - intros x. rewrite darts_cons. cbn [fst snd]. intros [<-|[<-|Hin]]; auto.
Qed.

Lemma fwd_done : forall fuel pl pr rest c cnt lf rf w' cnt',
  fchain ((pl, pr) :: rest) -> Good ((pl, pr) :: rest) ->
  run E (link3_fwd fuel ld (B1 pl) (B0 pr)) c (links w0 ((pl, pr) :: rest)) cnt = (Done (lf, rf), w', cnt') ->
  exists pl' pr' rest', fchain ((pl', pr') :: rest') /\ Good ((pl', pr') :: rest') /\
    w' = links w0 ((pl', pr') :: rest') /\ lf = B1 pl' /\ rf = B0 pr' /\ (lf = ld \/ lf = 0).
Proof.
  induction fuel as [|f IH]; intros pl pr rest c cnt lf rf w' cnt' Hch Hgood Hr; [discriminate|].
  cbn [link3_fwd] in Hr.
  destruct (N.eqb_spec (B1 pl) ld) as [El|Nl].
  { cbn [orb run] in Hr. injection Hr as <- <- <- <-. exists pl, pr, rest.
    split; [exact Hch|]. split; [exact Hgood|]. repeat split; auto. }
  destruct (N.eqb_spec (B1 pl) 0) as [Ez|Nz].
  { rewrite orb_true_r in Hr. cbn [run] in Hr. injection Hr as <- <- <- <-. exists pl, pr, rest.
    split; [exact Hch|]. split; [exact Hgood|]. repeat split; auto. }
  cbn [orb] in Hr.
  destruct (N.eqb_spec (B0 pr) 0) as [Rz|Rnz]; [discriminate|].
  rewrite run_bind in Hr.
  destruct (run E (three_link_core (B1 pl) (B0 pr)) c (links w0 ((pl, pr) :: rest)) cnt) as [[o1 w1] cnt1] eqn:Hc.
  apply run_three_link_core in Hc. destruct o1 as [[]|e| |q]; try discriminate.
  destruct Hc as (Fl & Fr & -> & ->).
  destruct (free_not_glued _ _ Hgood Fl) as [Nil Fl0]. destruct (free_not_glued _ _ Hgood Fr) as [Nir Fr0].
  assert (Gpl : glueable n w0 pl) by (apply Hgood; rewrite darts_cons; cbn; auto).
  assert (Gpr : glueable n w0 pr) by (apply Hgood; rewrite darts_cons; cbn; auto).
  pose proof (glueable_next _ Gpl Nz Fl0) as Gl. pose proof (glueable_prev _ Gpr Rnz Fr0) as Gr.
  change (link3 (links w0 ((pl, pr) :: rest)) (B1 pl, B0 pr)) with (links w0 ((B1 pl, B0 pr) :: (pl, pr) :: rest)) in Hr.
  cbn [run bind rdB] in Hr.
  destruct (e_dom E (XBeta 1 (B1 pl))); [|discriminate].
  destruct (e_dom E (XBeta 0 (B0 pr))); [|discriminate].
  fold (beta (links w0 ((B1 pl, B0 pr) :: (pl, pr) :: rest)) 1 (B1 pl)) in Hr.
  fold (beta (links w0 ((B1 pl, B0 pr) :: (pl, pr) :: rest)) 0 (B0 pr)) in Hr.
  rewrite !links_other in Hr by lia.
  destruct (N.eq_dec (B1 pl) (B0 pr)) as [Eq|Hlr].
  - (* a dart glued to itself: the next step is on a glued dart *)
    exfalso. destruct W0 as [W1 W2 W3 W4 W5 W6 W7 W8].
    assert (Hnext : B1 (B1 pl) = pr).
    { rewrite Eq. apply W4; [apply Gpr|exact Rnz]. }
    rewrite Hnext in Hr.
    assert (Hb : not_done (run E (link3_fwd f ld pr (B0 (B0 pr))) c (links w0 ((B1 pl, B0 pr) :: (pl, pr) :: rest)) cnt)).
    { apply fwd_blocked.
      - intros Epr. apply fchain_base in Hch.
        eapply (fst_snd_distinct _ (proj1 Hgood) ld rd pl pr); cbn; auto.
      - apply Gpr.
      - apply links_nonnull.
        + intros y. rewrite darts_cons. cbn [fst snd]. intros [<-|[<-|Hy]]; [exact Nz|exact Rnz|apply Hgood in Hy; apply Hy].
        + rewrite !darts_cons. cbn. auto. }
    unfold not_done in Hb. rewrite Hr in Hb. exact Hb.
  - apply IH in Hr; [exact Hr| |].
    + constructor; auto.
    + apply good_cons; auto.
Qed.

(* the pairs of the backward walk, most recent first, on top of the pair (ld, rd) *)
Definition prevB (bl : list (N * N)) : N * N := match bl with [] => (ld, rd) | p :: _ => p end.
Inductive bchain : list (N * N) -> Prop :=
| bc0 : bchain []
| bcS bl : bchain bl -> B0 (fst (prevB bl)) <> 0 -> B1 (snd (prevB bl)) <> 0 ->
    bchain ((B0 (fst (prevB bl)), B1 (snd (prevB bl))) :: bl).

Lemma prevB_in bl accF : In (ld, rd) accF -> In (prevB bl) (bl ++ accF).
Proof. destruct bl as [|p bl]; cbn; auto. Qed.

Lemma bwd_done : forall fuel bl accF c cnt w' cnt',
  bchain bl -> Good (bl ++ accF) -> In (ld, rd) accF ->
  run E (link3_bwd fuel (B0 (fst (prevB bl))) (B1 (snd (prevB bl)))) c (links w0 (bl ++ accF)) cnt = (Done tt, w', cnt') ->
  exists bl', bchain bl' /\ Good (bl' ++ accF) /\ w' = links w0 (bl' ++ accF) /\
    B0 (fst (prevB bl')) = 0 /\ B1 (snd (prevB bl')) = 0.
Proof.
  induction fuel as [|f IH]; intros bl accF c cnt w' cnt' Hch Hgood Hbase Hr; [discriminate|].
  cbn [link3_bwd] in Hr.
  set (pl := fst (prevB bl)) in *. set (pr := snd (prevB bl)) in *.
  destruct (N.eqb_spec (B0 pl) 0) as [Ez|Nz].
  { destruct (N.eqb_spec (B1 pr) 0) as [Rz|Rnz]; cbn [negb run] in Hr; [|discriminate].
    injection Hr as <- <-. exists bl. split; [exact Hch|]. split; [exact Hgood|]. repeat split; auto. }
  destruct (N.eqb_spec (B1 pr) 0) as [Rz|Rnz]; [discriminate|].
  rewrite run_bind in Hr.
  destruct (run E (three_link_core (B0 pl) (B1 pr)) c (links w0 (bl ++ accF)) cnt) as [[o1 w1] cnt1] eqn:Hc.
  apply run_three_link_core in Hc. destruct o1 as [[]|e| |q]; try discriminate.
  destruct Hc as (Fl & Fr & -> & ->).
  destruct (free_not_glued _ _ Hgood Fl) as [Nil Fl0]. destruct (free_not_glued _ _ Hgood Fr) as [Nir Fr0].
  pose proof (prevB_in bl accF Hbase) as Hprev.
  assert (Gpl : glueable n w0 pl).
  { apply Hgood. apply in_darts. exists (prevB bl). split; [exact Hprev|]. auto. }
  assert (Gpr : glueable n w0 pr).
  { apply Hgood. apply in_darts. exists (prevB bl). split; [exact Hprev|]. auto. }
  pose proof (glueable_prev _ Gpl Nz Fl0) as Gl. pose proof (glueable_next _ Gpr Rnz Fr0) as Gr.
  change (link3 (links w0 (bl ++ accF)) (B0 pl, B1 pr)) with (links w0 (((B0 pl, B1 pr) :: bl) ++ accF)) in Hr.
  cbn [run bind rdB] in Hr.
  destruct (e_dom E (XBeta 0 (B0 pl))); [|discriminate].
  destruct (e_dom E (XBeta 1 (B1 pr))); [|discriminate].
  fold (beta (links w0 (((B0 pl, B1 pr) :: bl) ++ accF)) 0 (B0 pl)) in Hr.
  fold (beta (links w0 (((B0 pl, B1 pr) :: bl) ++ accF)) 1 (B1 pr)) in Hr.
  rewrite !links_other in Hr by lia.
  destruct (N.eq_dec (B0 pl) (B1 pr)) as [Eq|Hlr].
  - exfalso. destruct W0 as [W1 W2 W3 W4 W5 W6 W7 W8].
    assert (Hnext : B0 (B0 pl) = pr).
    { rewrite Eq. apply W3; [apply Gpr|exact Rnz]. }
    rewrite Hnext in Hr.
    assert (Hb : not_done (run E (link3_bwd f pr (B1 (B1 pr))) c (links w0 (((B0 pl, B1 pr) :: bl) ++ accF)) cnt)).
    { apply bwd_blocked.
      - apply Gpr.
      - apply links_nonnull.
        + intros y. cbn [app]. rewrite darts_cons. cbn [fst snd]. intros [<-|[<-|Hy]]; [exact Nz|exact Rnz|apply Hgood in Hy; apply Hy].
        + cbn [app]. rewrite darts_cons. right. right. apply in_darts. exists (prevB bl). split; [exact Hprev|]. auto. }
    unfold not_done in Hb. rewrite Hr in Hb. exact Hb.
  - apply (IH ((B0 pl, B1 pr) :: bl)) in Hr; [exact Hr| | |exact Hbase].
    + apply (bcS bl); auto.
    + cbn [app]. apply good_cons; auto.
Qed.

(** *** shape of the two chains *)
Lemma fchain_succ acc : fchain acc -> forall l r, In (l, r) acc ->
  hd_error acc = Some (l, r) \/ (B1 l <> 0 /\ B0 r <> 0 /\ In (B1 l, B0 r) acc).
Proof.
  induction 1 as [|pl pr rest Hch IH Hl Hr Hld]; intros l r Hin.
  - destruct Hin as [Hin|[]]. left. cbn. now rewrite Hin.
  - destruct Hin as [Hin|Hin]; [left; cbn; now rewrite Hin|].
    right. destruct (IH _ _ Hin) as [Hh|(A & B & C)].
    + cbn in Hh. injection Hh as <- <-. repeat split; auto. cbn. auto.
    + repeat split; auto. cbn. auto.
Qed.
Lemma fchain_pred acc : fchain acc -> forall l r, In (l, r) acc ->
  (l, r) = (ld, rd) \/ exists pl pr, In (pl, pr) acc /\ l = B1 pl /\ r = B0 pr /\ l <> 0 /\ r <> 0.
Proof.
  induction 1 as [|pl pr rest Hch IH Hl Hr Hld]; intros l r Hin.
  - destruct Hin as [Hin|[]]. left. now rewrite Hin.
  - destruct Hin as [Hin|Hin].
    + right. injection Hin as <- <-. exists pl, pr. repeat split; auto. cbn. auto.
    + destruct (IH _ _ Hin) as [Hb|(ql & qr & Hq & A)]; [left; exact Hb|].
      right. exists ql, qr. split; [cbn; auto|exact A].
Qed.
Lemma bchain_pred bl : bchain bl -> forall l r, In (l, r) bl ->
  exists pl pr, In (pl, pr) ((ld, rd) :: bl) /\ l = B0 pl /\ r = B1 pr /\ l <> 0 /\ r <> 0.
Proof.
  induction 1 as [|bl Hch IH Hl Hr]; intros l r Hin; [destruct Hin|].
  destruct Hin as [Hin|Hin].
  - injection Hin as <- <-. exists (fst (prevB bl)), (snd (prevB bl)). rewrite <- surjective_pairing.
    repeat split; auto. destruct bl as [|q bl]; cbn; auto.
  - destruct (IH _ _ Hin) as (ql & qr & Hq & A). exists ql, qr. split; [|exact A].
    destruct Hq as [Hq|Hq]; [left; exact Hq|right; right; exact Hq].
Qed.
Lemma bchain_succ bl : bchain bl -> forall l r, In (l, r) ((ld, rd) :: bl) ->
  (l, r) = prevB bl \/ (B0 l <> 0 /\ B1 r <> 0 /\ In (B0 l, B1 r) bl).
Proof.
  induction 1 as [|bl Hch IH Hl Hr]; intros l r Hin.
  - destruct Hin as [Hin|[]]. left. cbn. now rewrite Hin.
  - assert (Hin' : (l, r) = (B0 (fst (prevB bl)), B1 (snd (prevB bl))) \/ In (l, r) ((ld, rd) :: bl)).
    { destruct Hin as [Hin|[Hin|Hin]]; [right; left; exact Hin|left; now rewrite Hin|right; right; exact Hin]. }
    destruct Hin' as [Hh|Hin']; [left; exact Hh|].
    right. destruct (IH _ _ Hin') as [Hp|(A & B & C)].
    + rewrite <- Hp in *. cbn [fst snd] in *. repeat split; auto. cbn. auto.
    + repeat split; auto. cbn. auto.
Qed.

(** *** the glued family is closed under the successors / predecessors of the two faces *)
Definition ends_ok (hl hr : N) (bl : list (N * N)) : Prop :=
  (B1 hl = ld /\ B0 hr = rd /\ bl = []) \/
  (B1 hl = 0 /\ B0 hr = 0 /\ B0 (fst (prevB bl)) = 0 /\ B1 (snd (prevB bl)) = 0).

Lemma good_pair ps l r : Good ps -> In (l, r) ps -> glueable n w0 l /\ glueable n w0 r.
Proof. intros [_ Hg] Hin. split; apply Hg; apply in_darts; exists (l, r); cbn; auto. Qed.

Lemma closure hl hr rest bl :
  fchain ((hl, hr) :: rest) -> bchain bl -> Good (bl ++ (hl, hr) :: rest) -> ends_ok hl hr bl ->
  let ps := bl ++ (hl, hr) :: rest in
  (forall l r, In (l, r) ps -> B1 l <> 0 -> exists r', In (B1 l, r') ps /\ B1 r' = r) /\
  (forall l r, In (l, r) ps -> B1 r <> 0 -> exists l', In (l', B1 r) ps /\ B1 l' = l) /\
  (forall x, In x (darts ps) -> B0 x = 0 \/ In (B0 x) (darts ps)).
Proof.
  intros HF HB Hgood Hends ps. destruct W0 as [W1 W2 W3 W4 W5 W6 W7 W8].
  set (accF := (hl, hr) :: rest) in *.
  assert (InF : forall p, In p accF -> In p ps) by (intros; apply in_or_app; auto).
  assert (InB : forall p, In p bl -> In p ps) by (intros; apply in_or_app; auto).
  assert (InB' : forall p, In p ((ld, rd) :: bl) -> In p ps).
  { intros p [<-|Hp]; [apply InF; now apply fchain_base|now apply InB]. }
  assert (GP : forall l r, In (l, r) ps -> glueable n w0 l /\ glueable n w0 r) by (intros; eapply good_pair; eauto).
  assert (Gld : glueable n w0 ld /\ glueable n w0 rd) by (apply GP, InF; now apply fchain_base).
  assert (Ghd : glueable n w0 hl /\ glueable n w0 hr) by (apply GP, InF; cbn; auto).
  assert (InD : forall l r, In (l, r) ps -> In l (darts ps) /\ In r (darts ps)).
  { intros l r Hp. split; apply in_darts; exists (l, r); cbn; auto. }
  split; [|split].
  - (* C1 *)
    intros l r Hin Hnz. apply in_app_or in Hin as [Hin|Hin].
    + destruct (bchain_pred _ HB _ _ Hin) as (pl & pr & Hp & -> & -> & Hl & Hr).
      destruct (GP _ _ (InB' _ Hp)) as [(_ & Pn & _) _].
      rewrite (W4 pl Pn Hl). exists pr. split; [apply InB'; exact Hp|reflexivity].
    + destruct (fchain_succ _ HF _ _ Hin) as [Hh|(A & B & C)].
      * cbn in Hh. injection Hh as <- <-.
        destruct Hends as [(E1 & E2 & _)|(E1 & _)]; [|congruence].
        exists rd. rewrite E1. split; [apply InF; now apply fchain_base|].
        rewrite <- E2. apply W4; [apply Ghd|]. rewrite E2. apply Gld.
      * exists (B0 r). split; [apply InF; exact C|]. apply W4; [|exact B]. apply (GP _ _ (InF _ Hin)).
  - (* C2 *)
    intros l r Hin Hnz. apply in_app_or in Hin as [Hin|Hin].
    + destruct (bchain_succ _ HB l r (or_intror Hin)) as [Hp|(A & B & C)].
      * exfalso. destruct Hends as [(_ & _ & ->)|(_ & _ & _ & Ee)]; [destruct Hin|].
        rewrite <- Hp in Ee. cbn in Ee. congruence.
      * exists (B0 l). split; [apply InB; exact C|]. apply W4; [|exact A]. apply (GP _ _ (InB _ Hin)).
    + destruct (fchain_pred _ HF _ _ Hin) as [Hb|(pl & pr & Hp & -> & -> & Hl & Hr)].
      * injection Hb as -> ->.
        destruct Hends as [(E1 & E2 & _)|(_ & _ & E3 & E4)].
        -- exists hl. assert (Hh : B1 rd = hr).
           { rewrite <- E2. apply W4; [apply Ghd|]. rewrite E2. apply Gld. }
           rewrite Hh. split; [apply InF; cbn; auto|exact E1].
        -- destruct (bchain_succ _ HB ld rd (or_introl eq_refl)) as [Hp|(A & B & C)].
           ++ exfalso. rewrite <- Hp in E4. cbn in E4. congruence.
           ++ exists (B0 ld). split; [apply InB; exact C|]. apply W4; [apply Gld|exact A].
      * destruct (GP _ _ (InF _ Hp)) as [_ (_ & Pn & _)].
        rewrite (W4 pr Pn Hr). exists pl. split; [apply InF; exact Hp|reflexivity].
  - (* C3 *)
    intros x Hx. apply in_darts in Hx as ([l r] & Hin & Hx). cbn [fst snd] in Hx.
    apply in_app_or in Hin as [Hin|Hin].
    + destruct Hx as [->| ->].
      * destruct (bchain_succ _ HB l r (or_intror Hin)) as [Hp|(A & B & C)].
        -- left. destruct Hends as [(_ & _ & ->)|(_ & _ & Ee & _)]; [destruct Hin|].
           rewrite <- Hp in Ee. exact Ee.
        -- right. apply (InD _ _ (InB _ C)).
      * destruct (bchain_pred _ HB _ _ Hin) as (pl & pr & Hp & -> & -> & Hl & Hr).
        destruct (GP _ _ (InB' _ Hp)) as [_ (_ & Pn & _)].
        right. rewrite (W3 pr Pn Hr). apply (InD _ _ (InB' _ Hp)).
    + destruct Hx as [->| ->].
      * destruct (fchain_pred _ HF _ _ Hin) as [Hb|(pl & pr & Hp & -> & -> & Hl & Hr)].
        -- injection Hb as -> ->.
           destruct Hends as [(E1 & E2 & _)|(_ & _ & E3 & E4)].
           ++ right. assert (Hh : B0 ld = hl).
              { rewrite <- E1. apply W3; [apply Ghd|]. rewrite E1. apply Gld. }
              rewrite Hh. apply (InD hl hr). apply InF. cbn. auto.
           ++ destruct (bchain_succ _ HB ld rd (or_introl eq_refl)) as [Hp|(A & B & C)].
              ** left. rewrite <- Hp in E3. exact E3.
              ** right. apply (InD _ _ (InB _ C)).
        -- destruct (GP _ _ (InF _ Hp)) as [(_ & Pn & _) _].
           right. rewrite (W3 pl Pn Hl). apply (InD _ _ (InF _ Hp)).
      * destruct (fchain_succ _ HF _ _ Hin) as [Hh|(A & B & C)].
        -- cbn in Hh. injection Hh as <- <-.
           destruct Hends as [(E1 & E2 & _)|(_ & E2 & _)].
           ++ right. rewrite E2. apply (InD ld rd). apply InF. now apply fchain_base.
           ++ left. exact E2.
        -- right. apply (InD _ _ (InF _ C)).
Qed.

End Walk.

(** ** the call *)
Lemma three_link_shape E n ld rd c w0 cnt w' cnt' :
  wf3 n w0 -> okd3p n w0 ld -> okd3p n w0 rd -> ld <> rd ->
  run E (three_link n ld rd) c w0 cnt = (Done tt, w', cnt') ->
  exists hl hr rest bl,
    fchain w0 ld rd ((hl, hr) :: rest) /\ bchain w0 ld rd bl /\ Good n w0 (bl ++ (hl, hr) :: rest) /\
    ends_ok w0 ld rd hl hr bl /\ w' = links w0 (bl ++ (hl, hr) :: rest).
Proof.
  intros W (Hl0 & Hln & Hlu) (Hr0 & Hrn & Hru) Hne Hr. unfold three_link in Hr.
  rewrite run_bind in Hr.
  destruct (run E (three_link_core ld rd) c w0 cnt) as [[o1 w1] cnt1] eqn:Hc.
  apply run_three_link_core in Hc. destruct o1 as [[]|e| |q]; try discriminate.
  destruct Hc as (Fl & Fr & -> & ->).
  change (link3 w0 (ld, rd)) with (links w0 [(ld, rd)]) in Hr.
  cbn [run bind rdB] in Hr.
  destruct (e_dom E (XBeta 1 ld)); [|discriminate].
  destruct (e_dom E (XBeta 0 rd)); [|discriminate].
  fold (beta (links w0 [(ld, rd)]) 1 ld) in Hr. fold (beta (links w0 [(ld, rd)]) 0 rd) in Hr.
  rewrite !links_other in Hr by lia.
  rewrite run_bind in Hr.
  destruct (run E (link3_fwd (fuel_of n) ld (beta w0 1 ld) (beta w0 0 rd)) c (links w0 [(ld, rd)]) cnt) as [[o2 w2] cnt2] eqn:Hf.
  destruct o2 as [[lf rf]|e| |q]; try discriminate.
  assert (G0 : Good n w0 [(ld, rd)]).
  { split.
    - cbn. constructor; [intros [->|[]]; congruence|]. constructor; [intros []|constructor].
    - intros x. cbn. intros [<-|[<-|[]]]; repeat split; auto. }
  apply (fwd_done n w0 ld rd E W) in Hf; [|constructor|exact G0].
  destruct Hf as (hl & hr & rest & HF & HG & -> & -> & -> & Hend).
  destruct Hend as [El|Ez].
  - (* the left face is closed *)
    rewrite El, N.eqb_refl in Hr. cbn [andb] in Hr.
    destruct (N.eqb_spec (beta w0 0 hr) rd) as [Er|]; cbn [negb] in Hr; [|discriminate].
    destruct (N.eqb_spec ld 0); [contradiction|]. cbn [run] in Hr. injection Hr as <- <-.
    exists hl, hr, rest, []. split; [exact HF|]. split; [apply bc0|]. split; [exact HG|].
    split; [left; auto|reflexivity].
  - (* the left face is open *)
    rewrite Ez in Hr. destruct (N.eqb_spec 0 ld); [congruence|]. cbn [andb] in Hr. rewrite N.eqb_refl in Hr.
    destruct (N.eqb_spec (beta w0 0 hr) 0) as [Erz|]; cbn [negb] in Hr; [|discriminate].
    cbn [run bind rdB] in Hr.
    destruct (e_dom E (XBeta 0 ld)); [|discriminate].
    destruct (e_dom E (XBeta 1 rd)); [|discriminate].
    fold (beta (links w0 ((hl, hr) :: rest)) 0 ld) in Hr. fold (beta (links w0 ((hl, hr) :: rest)) 1 rd) in Hr.
    rewrite !links_other in Hr by lia.
    pose proof (bwd_done n w0 ld rd E W (fuel_of n) [] ((hl, hr) :: rest) c cnt2 w' cnt'
                  (bc0 _ _ _) HG (fchain_base _ _ _ _ HF) Hr) as (bl & HB & HG' & -> & E3 & E4).
    exists hl, hr, rest, bl. split; [exact HF|]. split; [exact HB|]. split; [exact HG'|].
    split; [right; auto|reflexivity].
Qed.

Theorem three_link_done E n ld rd c w0 cnt w' cnt' :
  wf3 n w0 -> okd3p n w0 ld -> okd3p n w0 rd -> ld <> rd ->
  run E (three_link n ld rd) c w0 cnt = (Done tt, w', cnt') -> wf3 n w'.
Proof.
  intros W Ol Or Hne Hr.
  destruct (three_link_shape E n ld rd c w0 cnt w' cnt' W Ol Or Hne Hr) as (hl & hr & rest & bl & HF & HB & HG & He & ->).
  destruct (closure n w0 ld rd W hl hr rest bl HF HB HG He) as (C1 & C2 & C3).
  apply (wf3_links n w0 (bl ++ (hl, hr) :: rest) W); [apply HG|apply HG|exact C1|exact C2|exact C3].
Qed.

End Link3.
