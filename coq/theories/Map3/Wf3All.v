(** * C02, completed: every public editing call of a 3-map keeps wf3, hence every history does.

    wf3 = wf2 (clauses on beta0, beta1, beta2 and the removal flags) + the clauses on beta3 and the mirror
    clause.  1-links and 1-unlinks go through the 2-map lemmas for the first half and need the mirror clause
    only; the 3-unlink keeps wf3 at every step of its walks; the 3-link is [Wf3Link3.three_link_done]; sews are
    a link between data-only programs. *)
From Coq Require Import List NArith Bool Lia.
From HC Require Import Base.Closure Stm.Prog Stm.ProgFacts Stm.Atomic Map2.Ops2 Map2.State2 Map2.Wf2 Map2.Wf2Proofs
  Map3.Ops3 Map3.Wf3 Map3.Wf3Dec Map3.Wf3Proofs Map3.Wf3Links Map3.Wf3Link3.
Import ListNotations.
Open Scope N_scope.
Arguments N.add : simpl never. Arguments N.mul : simpl never. Arguments N.min : simpl never.
Arguments N.eqb : simpl never. Arguments N.ltb : simpl never. Arguments N.leb : simpl never.

Section All3.
Context `{Sig}.

(** ** wf3 = wf2 + the clauses about beta3 *)
Record extra3 (n : N) (s : store) : Prop := {
  x_null   : beta s 3 0 = 0;
  x_range  : forall d, d < n -> beta s 3 d < n;
  x_invol  : forall d, d < n -> beta s 3 d <> 0 -> beta s 3 (beta s 3 d) = d /\ beta s 3 d <> d;
  x_mirror : forall d, d < n -> let t := beta s 1 d in
               t <> 0 -> beta s 3 d <> 0 -> beta s 3 t <> 0 -> beta s 1 (beta s 3 t) = beta s 3 d;
  x_unused : forall d, d < n -> unused s d = true -> beta s 3 d = 0
}.

Lemma wf3_split n s : wf3 n s <-> wf2 n s /\ extra3 n s.
Proof.
  split.
  - intros [W1 W2 W3 W4 W5 W6 W7 W8]. split; constructor; auto.
    + intros i Hi. apply W1. lia.
    + intros i d Hi Hd. apply W2; [lia|exact Hd].
    + intros d Hd Hu i Hi. apply W8; auto. lia.
    + apply W1. lia.
    + intros d Hd. apply W2; [lia|exact Hd].
    + intros d Hd Hu. apply W8; auto. lia.
  - intros [[V1 V2 V3 V4 V5 V6] [X1 X2 X3 X4 X5]]. constructor; auto.
    + intros i Hi. destruct (N.eq_dec i 3) as [->|]; [exact X1|apply V1; lia].
    + intros i d Hi Hd. destruct (N.eq_dec i 3) as [->|]; [now apply X2|apply V2; [lia|exact Hd]].
    + intros d Hd Hu i Hi. destruct (N.eq_dec i 3) as [->|]; [now apply X5|apply V6; auto; lia].
Qed.

Ltac run_step Hr :=
  match type of Hr with
  | context [e_dom ?E ?v] => destruct (e_dom E v) eqn:?
  | context [if negb (?a =? ?b) then _ else _] => destruct (N.eqb_spec a b); cbn [negb] in Hr
  | context [if (?a =? ?b) then _ else _] => destruct (N.eqb_spec a b)
  end; cbn [run bind rdB wrB] in Hr.
Ltac run_all Hr := cbn [run bind rdB wrB] in Hr; repeat run_step Hr.
Ltac bsimp := repeat (rewrite ?beta_upd_beta, ?unused_upd_other in * by (intros; discriminate)).

(** ** the two 1-cores, as store transformers *)
Definition set1 (w : store) (l r : N) : store := upd (upd w (XBeta 1 l) (VN r)) (XBeta 0 r) (VN l).

Lemma run_one_link_core E l r c w cnt o w' cnt' :
  run E (one_link_core l r) c w cnt = (o, w', cnt') ->
  match o with
  | Done _ => beta w 1 l = 0 /\ beta w 0 r = 0 /\ w' = set1 w l r /\ cnt' = cnt
  | _ => True
  end.
Proof.
  intros Hr. unfold one_link_core in Hr. run_all Hr; injection Hr as <- <- <-; auto.
Qed.

Lemma set1_b1 w l r d : beta (set1 w l r) 1 d = if d =? l then r else beta w 1 d.
Proof. unfold set1. rewrite !beta_upd_beta. cbn [N.eqb andb]. destruct (d =? l); reflexivity. Qed.
Lemma set1_b0 w l r d : beta (set1 w l r) 0 d = if d =? r then l else beta w 0 d.
Proof. unfold set1. rewrite !beta_upd_beta. cbn [N.eqb andb]. destruct (d =? r); reflexivity. Qed.
Lemma set1_other w l r i d : 2 <= i -> beta (set1 w l r) i d = beta w i d.
Proof.
  intros Hi. unfold set1. rewrite !beta_upd_beta.
  destruct (N.eqb_spec i 0); [lia|]. destruct (N.eqb_spec i 1); [lia|]. reflexivity.
Qed.
Lemma set1_unused w l r d : unused (set1 w l r) d = unused w d.
Proof. unfold set1. rewrite !unused_upd_other by (intros; discriminate). reflexivity. Qed.

(* the beta3 clauses other than the mirror only look at beta3 and the flags *)
Lemma extra3_frame n w w' :
  extra3 n w -> (forall d, beta w' 3 d = beta w 3 d) -> (forall d, unused w' d = unused w d) ->
  (forall d, d < n -> let t := beta w' 1 d in
     t <> 0 -> beta w 3 d <> 0 -> beta w 3 t <> 0 -> beta w' 1 (beta w 3 t) = beta w 3 d) ->
  extra3 n w'.
Proof.
  intros [X1 X2 X3 X4 X5] H3 Hu Hm. constructor.
  - rewrite H3. exact X1.
  - intros d Hd. rewrite H3. auto.
  - intros d Hd. rewrite !H3. auto.
  - intros d Hd. cbv zeta. rewrite !H3. apply (Hm d Hd).
  - intros d Hd. rewrite H3, Hu. auto.
Qed.

(** a 1-link whose mirror image is not made (one of the two darts is 3-free) *)
Lemma extra3_set1_half n w l r :
  wf3 n w -> l < n -> beta w 1 l = 0 -> (beta w 3 l = 0 \/ beta w 3 r = 0) -> extra3 n (set1 w l r).
Proof.
  intros W Hl Fl Hfree. pose proof W as [W1 W2 W3 W4 W5 W6 W7 W8].
  apply wf3_split in W as [_ X].
  apply (extra3_frame n w _ X).
  - intros d. apply set1_other. lia.
  - intros d. apply set1_unused.
  - intros d Hd. cbv zeta. rewrite !set1_b1. intros Ht H3d H3t.
    destruct (N.eqb_spec d l) as [->|Hdl].
    + exfalso. destruct Hfree; congruence.
    + destruct (N.eqb_spec (beta w 3 (beta w 1 d)) l) as [Eu|Nu].
      * exfalso. pose proof (W7 d Hd Ht H3d H3t) as Hm. cbv zeta in Hm. rewrite Eu, Fl in Hm. congruence.
      * apply (W7 d Hd Ht H3d H3t).
Qed.

(** a 1-link together with its mirror image *)
Lemma extra3_set1_full n w l r :
  wf3 n w -> l < n -> r < n -> beta w 1 l = 0 -> beta w 3 l <> 0 -> beta w 3 r <> 0 ->
  beta (set1 w l r) 1 (beta w 3 r) = 0 ->
  extra3 n (set1 (set1 w l r) (beta w 3 r) (beta w 3 l)).
Proof.
  intros W Hl Hr Fl Nl Nr FR. pose proof W as [W1 W2 W3 W4 W5 W6 W7 W8].
  apply wf3_split in W as [_ X].
  set (L := beta w 3 l) in *. set (R := beta w 3 r) in *.
  destruct (W6 l Hl Nl) as [IL _]. destruct (W6 r Hr Nr) as [IR _]. fold L in IL. fold R in IR.
  rewrite set1_b1 in FR. destruct (N.eqb_spec R l) as [ERl|NRl].
  { exfalso. apply Nr. unfold R. rewrite FR. apply W1. lia. }
  apply (extra3_frame n w _ X).
  - intros d. rewrite !set1_other by lia. reflexivity.
  - intros d. rewrite !set1_unused. reflexivity.
  - intros d Hd. cbv zeta. rewrite !set1_b1. intros Ht H3d H3t.
    destruct (N.eqb_spec d R) as [->|HdR].
    + (* d = R: t = L, beta3 t = l, beta1' l = r = beta3 R *)
      rewrite IL. destruct (N.eqb_spec l R) as [E|_]; [congruence|]. rewrite N.eqb_refl. symmetry. exact IR.
    + destruct (N.eqb_spec d l) as [->|Hdl].
      * (* d = l: t = r, beta3 t = R, beta1' R = L *)
        fold R. rewrite N.eqb_refl. reflexivity.
      * pose proof (W7 d Hd Ht H3d H3t) as Hm. cbv zeta in Hm.
        destruct (N.eqb_spec (beta w 3 (beta w 1 d)) R) as [Eu|NuR].
        -- exfalso. rewrite Eu, FR in Hm. congruence.
        -- destruct (N.eqb_spec (beta w 3 (beta w 1 d)) l) as [Eu|Nul].
           ++ exfalso. rewrite Eu, Fl in Hm. congruence.
           ++ exact Hm.
Qed.

Lemma okd_b3 n w d : wf3 n w -> d < n -> beta w 3 d <> 0 -> okd n w (beta w 3 d).
Proof.
  intros [W1 W2 W3 W4 W5 W6 W7 W8] Hd Hnz.
  assert (Hlt : beta w 3 d < n) by (apply W2; [lia|exact Hd]).
  repeat split; auto.
  destruct (unused w (beta w 3 d)) eqn:Hu; [|reflexivity]. exfalso.
  pose proof (W8 _ Hlt Hu 3 ltac:(lia)) as Hz. destruct (W6 d Hd Hnz) as [E _]. rewrite E in Hz. subst d.
  apply Hnz. apply W1. lia.
Qed.

Theorem one_link3_done E n l r c w cnt w' cnt' :
  wf3 n w -> okd n w l -> okd n w r ->
  run E (one_link3 l r) c w cnt = (Done tt, w', cnt') -> wf3 n w'.
Proof.
  intros W Ol Or Hr. pose proof W as W'. apply wf3_split in W' as [V X].
  unfold one_link3 in Hr. rewrite run_bind in Hr.
  destruct (run E (one_link_core l r) c w cnt) as [[o1 w1] cnt1] eqn:Hc.
  pose proof (triple_one_link_core E n l r c w cnt _ _ _ (conj V (conj Ol Or)) Hc) as V1.
  apply run_one_link_core in Hc. destruct o1 as [[]|e| |q]; try discriminate.
  destruct Hc as (Fl & Fr & -> & ->).
  cbn [run bind rdB] in Hr.
  destruct (e_dom E (XBeta 3 l)); [|discriminate]. destruct (e_dom E (XBeta 3 r)); [|discriminate].
  fold (beta (set1 w l r) 3 l) in Hr. fold (beta (set1 w l r) 3 r) in Hr.
  rewrite !set1_other in Hr by lia.
  destruct Ol as (Hl0 & Hln & Hlu). destruct Or as (Hr0 & Hrn & Hru).
  destruct (N.eqb_spec (beta w 3 l) 0) as [Zl|Nl]; cbn [negb andb] in Hr.
  { injection Hr as <- <-. apply (proj2 (wf3_split _ _)). split; [exact V1|]. apply extra3_set1_half; auto. }
  destruct (N.eqb_spec (beta w 3 r) 0) as [Zr|Nr]; cbn [negb andb] in Hr.
  { injection Hr as <- <-. apply (proj2 (wf3_split _ _)). split; [exact V1|]. apply extra3_set1_half; auto. }
  destruct (run E (one_link_core (beta w 3 r) (beta w 3 l)) c (set1 w l r) cnt) as [[o2 w2] cnt2] eqn:Hc2.
  assert (OR : okd n (set1 w l r) (beta w 3 r)).
  { destruct (okd_b3 n w r W Hrn Nr) as (A & B & C). repeat split; auto. }
  assert (OL : okd n (set1 w l r) (beta w 3 l)).
  { destruct (okd_b3 n w l W Hln Nl) as (A & B & C). repeat split; auto. }
  pose proof (triple_one_link_core E n _ _ c _ cnt _ _ _ (conj V1 (conj OR OL)) Hc2) as V2.
  apply run_one_link_core in Hc2. destruct o2 as [[]|e| |q]; try discriminate.
  destruct Hc2 as (FR & FL & -> & ->). injection Hr as <- <-.
  apply (proj2 (wf3_split _ _)). split; [exact V2|]. apply extra3_set1_full; auto.
Qed.

(** ** 1-unlink *)
Definition clr1 (w : store) (l r : N) : store := upd (upd w (XBeta 1 l) (VN 0)) (XBeta 0 r) (VN 0).

Lemma run_one_unlink_core E l c w cnt o w' cnt' :
  run E (one_unlink_core l) c w cnt = (o, w', cnt') ->
  match o with
  | Done _ => beta w 1 l <> 0 /\ w' = clr1 w l (beta w 1 l) /\ cnt' = cnt
  | _ => True
  end.
Proof.
  intros Hr. unfold one_unlink_core in Hr. run_all Hr; injection Hr as <- <- <-; auto.
Qed.
Lemma clr1_b1 w l r d : beta (clr1 w l r) 1 d = if d =? l then 0 else beta w 1 d.
Proof. unfold clr1. rewrite !beta_upd_beta. cbn [N.eqb andb]. destruct (d =? l); reflexivity. Qed.
Lemma clr1_other w l r i d : 2 <= i -> beta (clr1 w l r) i d = beta w i d.
Proof.
  intros Hi. unfold clr1. rewrite !beta_upd_beta.
  destruct (N.eqb_spec i 0); [lia|]. destruct (N.eqb_spec i 1); [lia|]. reflexivity.
Qed.
Lemma clr1_unused w l r d : unused (clr1 w l r) d = unused w d.
Proof. unfold clr1. rewrite !unused_upd_other by (intros; discriminate). reflexivity. Qed.

Lemma extra3_clr1_half n w l :
  wf3 n w -> l < n -> (beta w 3 l = 0 \/ beta w 3 (beta w 1 l) = 0) -> extra3 n (clr1 w l (beta w 1 l)).
Proof.
  intros W Hl Hfree. pose proof W as [W1 W2 W3 W4 W5 W6 W7 W8].
  apply wf3_split in W as [_ X].
  apply (extra3_frame n w _ X).
  - intros d. apply clr1_other. lia.
  - intros d. apply clr1_unused.
  - intros d Hd. cbv zeta. rewrite !clr1_b1. intros Ht H3d H3t.
    destruct (N.eqb_spec d l) as [->|Hdl]; [congruence|].
    pose proof (W7 d Hd Ht H3d H3t) as Hm. cbv zeta in Hm.
    destruct (N.eqb_spec (beta w 3 (beta w 1 d)) l) as [Eu|Nu]; [|exact Hm].
    exfalso. rewrite Eu in Hm.
    assert (Htn : beta w 1 d < n) by (apply W2; [lia|exact Hd]).
    destruct (W6 _ Htn H3t) as [It _]. rewrite Eu in It.
    destruct (W6 d Hd H3d) as [Id _]. rewrite <- Hm in Id.
    assert (Hd0 : d <> 0) by (intros ->; apply H3d; apply W1; lia).
    destruct Hfree as [Z|Z]; [rewrite It in Z; congruence|rewrite Id in Z; congruence].
Qed.

Lemma extra3_clr1_full n w l :
  wf3 n w -> l < n -> beta w 3 l <> 0 -> beta w 3 (beta w 1 l) <> 0 ->
  extra3 n (clr1 (clr1 w l (beta w 1 l)) (beta w 3 (beta w 1 l))
                 (beta (clr1 w l (beta w 1 l)) 1 (beta w 3 (beta w 1 l)))).
Proof.
  intros W Hl Nl Nr. pose proof W as [W1 W2 W3 W4 W5 W6 W7 W8].
  apply wf3_split in W as [_ X].
  set (r := beta w 1 l) in *. set (R := beta w 3 r) in *.
  apply (extra3_frame n w _ X).
  - intros d. rewrite !clr1_other by lia. reflexivity.
  - intros d. rewrite !clr1_unused. reflexivity.
  - intros d Hd. cbv zeta. rewrite !clr1_b1. intros Ht H3d H3t.
    destruct (N.eqb_spec d R) as [->|HdR]; [congruence|].
    destruct (N.eqb_spec d l) as [->|Hdl]; [congruence|].
    pose proof (W7 d Hd Ht H3d H3t) as Hm. cbv zeta in Hm.
    assert (Htn : beta w 1 d < n) by (apply W2; [lia|exact Hd]).
    destruct (W6 _ Htn H3t) as [It _]. destruct (W6 d Hd H3d) as [Id _].
    destruct (N.eqb_spec (beta w 3 (beta w 1 d)) R) as [Eu|NuR].
    + (* the image of t is R: t = r, so d = l *)
      exfalso. rewrite Eu in It. apply Hdl.
      assert (Hrn : r < n) by (apply W2; [lia|exact Hl]).
      destruct (W6 r Hrn Nr) as [Ir _]. fold R in Ir. rewrite Ir in It.
      assert (Hr0 : r <> 0) by (intros E0; apply Nr; unfold R; rewrite E0; apply W1; lia).
      pose proof (W3 l Hl Hr0) as B1. fold r in B1. pose proof (W3 d Hd Ht) as B2. rewrite <- It in B2. congruence.
    + destruct (N.eqb_spec (beta w 3 (beta w 1 d)) l) as [Eu|Nul]; [|exact Hm].
      (* the image of t is l: beta3 d = r, so d = R *)
      exfalso. rewrite Eu in Hm. fold r in Hm. rewrite <- Hm in Id. fold R in Id. congruence.
Qed.

Theorem one_unlink3_done E n l c w cnt w' cnt' :
  wf3 n w -> okd n w l ->
  run E (one_unlink3 l) c w cnt = (Done tt, w', cnt') -> wf3 n w'.
Proof.
  intros W Ol Hr. pose proof W as W'. apply wf3_split in W' as [V X].
  pose proof W as [W1 W2 W3 W4 W5 W6 W7 W8].
  unfold one_unlink3 in Hr. cbn [run bind rdB] in Hr.
  destruct (e_dom E (XBeta 1 l)); [|discriminate]. fold (beta w 1 l) in Hr.
  rewrite run_bind in Hr.
  destruct (run E (one_unlink_core l) c w cnt) as [[o1 w1] cnt1] eqn:Hc.
  pose proof (triple_one_unlink_core E n l c w cnt _ _ _ (conj V Ol) Hc) as V1.
  apply run_one_unlink_core in Hc. destruct o1 as [[]|e| |q]; try discriminate.
  destruct Hc as (Nr0 & -> & ->).
  destruct Ol as (Hl0 & Hln & Hlu).
  set (r := beta w 1 l) in *.
  cbn [run bind rdB] in Hr.
  destruct (e_dom E (XBeta 3 l)); [|discriminate]. destruct (e_dom E (XBeta 3 r)); [|discriminate].
  fold (beta (clr1 w l r) 3 l) in Hr. fold (beta (clr1 w l r) 3 r) in Hr.
  rewrite !clr1_other in Hr by lia.
  destruct (N.eqb_spec (beta w 3 l) 0) as [Zl|Nl]; cbn [negb andb] in Hr.
  { injection Hr as <- <-. apply (proj2 (wf3_split _ _)). split; [exact V1|]. apply extra3_clr1_half; auto. }
  destruct (N.eqb_spec (beta w 3 r) 0) as [Zr|Nr]; cbn [negb andb] in Hr.
  { injection Hr as <- <-. apply (proj2 (wf3_split _ _)). split; [exact V1|]. apply extra3_clr1_half; auto. }
  cbn [run bind rdB] in Hr.
  destruct (e_dom E (XBeta 1 (beta w 3 r))); [|discriminate].
  fold (beta (clr1 w l r) 1 (beta w 3 r)) in Hr.
  destruct (N.eqb_spec (beta (clr1 w l r) 1 (beta w 3 r)) (beta w 3 l)) as [Ex|]; cbn [negb] in Hr; [|discriminate].
  destruct (run E (one_unlink_core (beta w 3 r)) c (clr1 w l r) cnt) as [[o2 w2] cnt2] eqn:Hc2.
  assert (Hrn : r < n) by (apply W2; [lia|exact Hln]).
  assert (OR : okd n (clr1 w l r) (beta w 3 r)).
  { destruct (okd_b3 n w r W Hrn Nr) as (A & B & C). repeat split; auto. }
  pose proof (triple_one_unlink_core E n _ c _ cnt _ _ _ (conj V1 OR) Hc2) as V2.
  apply run_one_unlink_core in Hc2. destruct o2 as [[]|e| |q]; try discriminate.
  destruct Hc2 as (_ & -> & ->). injection Hr as <- <-.
  apply (proj2 (wf3_split _ _)). split; [exact V2|]. apply (extra3_clr1_full n w l W Hln Nl Nr).
Qed.

(** ** 3-unlink: every step of the walks keeps wf3 *)
Definition clr3 (w : store) (l r : N) : store := upd (upd w (XBeta 3 l) (VN 0)) (XBeta 3 r) (VN 0).

Lemma run_three_unlink_core E l c w cnt o w' cnt' :
  run E (three_unlink_core l) c w cnt = (o, w', cnt') ->
  match o with
  | Done _ => beta w 3 l <> 0 /\ w' = clr3 w l (beta w 3 l) /\ cnt' = cnt
  | _ => True
  end.
Proof.
  intros Hr. unfold three_unlink_core in Hr. run_all Hr; injection Hr as <- <- <-; auto.
Qed.

Lemma clr3_b3 w l r d : beta (clr3 w l r) 3 d = if (d =? r) || (d =? l) then 0 else beta w 3 d.
Proof.
  unfold clr3. rewrite !beta_upd_beta. cbn [N.eqb andb]. destruct (d =? r), (d =? l); reflexivity.
Qed.
Lemma clr3_other w l r i d : i <> 3 -> beta (clr3 w l r) i d = beta w i d.
Proof.
  intros Hi. unfold clr3. rewrite !beta_upd_beta. destruct (N.eqb_spec i 3); [contradiction|]. reflexivity.
Qed.
Lemma clr3_unused w l r d : unused (clr3 w l r) d = unused w d.
Proof. unfold clr3. rewrite !unused_upd_other by (intros; discriminate). reflexivity. Qed.

Lemma wf3_clr3 n w l : wf3 n w -> l < n -> beta w 3 l <> 0 -> wf3 n (clr3 w l (beta w 3 l)).
Proof.
  intros W Hl Nz. pose proof W as [W1 W2 W3 W4 W5 W6 W7 W8].
  set (r := beta w 3 l) in *. destruct (W6 l Hl Nz) as [Il _]. fold r in Il.
  constructor.
  - intros i Hi. destruct (N.eq_dec i 3) as [->|Hne]; [|rewrite clr3_other by exact Hne; auto].
    rewrite clr3_b3. destruct ((0 =? r) || (0 =? l)); [reflexivity|apply W1; lia].
  - intros i d Hi Hd. destruct (N.eq_dec i 3) as [->|Hne]; [|rewrite clr3_other by exact Hne; auto].
    rewrite clr3_b3. destruct ((d =? r) || (d =? l)); [lia|apply W2; [lia|exact Hd]].
  - intros d Hd. rewrite !clr3_other by lia. auto.
  - intros d Hd. rewrite !clr3_other by lia. auto.
  - intros d Hd. rewrite !clr3_other by lia. auto.
  - intros d Hd. rewrite clr3_b3.
    destruct (N.eqb_spec d r) as [->|Ndr]; cbn [orb]; [congruence|].
    destruct (N.eqb_spec d l) as [->|Ndl]; [congruence|]. intros Hnz.
    destruct (W6 d Hd Hnz) as [Id Nd]. rewrite clr3_b3.
    destruct (N.eqb_spec (beta w 3 d) r) as [Eu|_]; cbn [orb].
    { exfalso. rewrite Eu, Il in Id. congruence. }
    destruct (N.eqb_spec (beta w 3 d) l) as [Eu|_].
    { exfalso. rewrite Eu in Id. fold r in Id. congruence. }
    auto.
  - intros d Hd. cbv zeta. rewrite !clr3_other by lia. rewrite !clr3_b3.
    destruct ((d =? r) || (d =? l)); [congruence|].
    destruct ((beta w 1 d =? r) || (beta w 1 d =? l)); [congruence|].
    apply (W7 d Hd).
  - intros d Hd Hu i Hi. rewrite clr3_unused in Hu.
    destruct (N.eq_dec i 3) as [->|Hne]; [|rewrite clr3_other by exact Hne; auto].
    rewrite clr3_b3. destruct ((d =? r) || (d =? l)); [reflexivity|apply W8; auto].
Qed.

Lemma unlink3_fwd_wf E n ld fuel : forall lside rside c w cnt o w' cnt',
  wf3 n w -> lside < n ->
  run E (unlink3_fwd fuel ld lside rside) c w cnt = (o, w', cnt') ->
  match o with Done _ => wf3 n w' | _ => True end.
Proof.
  induction fuel as [|f IH]; intros lside rside c w cnt o w' cnt' W Hl Hr.
  { cbn in Hr. injection Hr as <- <- <-. exact I. }
  cbn [unlink3_fwd] in Hr.
  destruct ((lside =? ld) || (lside =? 0)).
  { cbn in Hr. injection Hr as <- <- <-. exact W. }
  cbn [run bind rdB] in Hr.
  destruct (e_dom E (XBeta 3 rside)); [|injection Hr as <- <- <-; exact I].
  destruct (N.eqb_spec lside (asN (w (XBeta 3 rside)))); cbn [negb] in Hr; [|injection Hr as <- <- <-; exact I].
  rewrite run_bind in Hr.
  destruct (run E (three_unlink_core lside) c w cnt) as [[o1 w1] cnt1] eqn:Hc.
  apply run_three_unlink_core in Hc.
  destruct o1 as [[]|e1| |q]; try (injection Hr as <- <- <-; exact I).
  destruct Hc as (Nz & -> & ->).
  pose proof (wf3_clr3 n w lside W Hl Nz) as W'.
  cbn [run bind rdB] in Hr.
  destruct (e_dom E (XBeta 1 lside)); [|injection Hr as <- <- <-; exact I].
  destruct (e_dom E (XBeta 0 rside)); [|injection Hr as <- <- <-; exact I].
  eapply IH; [exact W'| |exact Hr].
  fold (beta (clr3 w lside (beta w 3 lside)) 1 lside). apply W'; [lia|exact Hl].
Qed.

Lemma unlink3_bwd_wf E n fuel : forall lside rside c w cnt o w' cnt',
  wf3 n w -> lside < n ->
  run E (unlink3_bwd fuel lside rside) c w cnt = (o, w', cnt') ->
  match o with Done _ => wf3 n w' | _ => True end.
Proof.
  induction fuel as [|f IH]; intros lside rside c w cnt o w' cnt' W Hl Hr.
  { cbn in Hr. injection Hr as <- <- <-. exact I. }
  cbn [unlink3_bwd] in Hr.
  destruct (lside =? 0).
  { cbn in Hr. injection Hr as <- <- <-. exact W. }
  cbn [run bind rdB] in Hr.
  destruct (e_dom E (XBeta 3 rside)) eqn:Ed3; [|injection Hr as <- <- <-; exact I].
  destruct (N.eqb_spec lside (asN (w (XBeta 3 rside)))) as [Ex|]; cbn [negb] in Hr; [|injection Hr as <- <- <-; exact I].
  cbn [run bind rdB] in Hr. rewrite Ed3 in Hr.
  destruct (N.eqb_spec lside (asN (w (XBeta 3 rside)))); cbn [negb] in Hr; [|contradiction].
  rewrite run_bind in Hr.
  destruct (run E (three_unlink_core lside) c w cnt) as [[o1 w1] cnt1] eqn:Hc.
  apply run_three_unlink_core in Hc.
  destruct o1 as [[]|e1| |q]; try (injection Hr as <- <- <-; exact I).
  destruct Hc as (Nz & -> & ->).
  pose proof (wf3_clr3 n w lside W Hl Nz) as W'.
  cbn [run bind rdB] in Hr.
  destruct (e_dom E (XBeta 0 lside)); [|injection Hr as <- <- <-; exact I].
  destruct (e_dom E (XBeta 1 rside)); [|injection Hr as <- <- <-; exact I].
  eapply IH; [exact W'| |exact Hr].
  fold (beta (clr3 w lside (beta w 3 lside)) 0 lside). apply W'; [lia|exact Hl].
Qed.

Theorem three_unlink_done E n ld c w cnt w' cnt' :
  wf3 n w -> ld < n ->
  run E (three_unlink n ld) c w cnt = (Done tt, w', cnt') -> wf3 n w'.
Proof.
  intros W Hl Hr. unfold three_unlink in Hr. cbn [run bind rdB] in Hr.
  destruct (e_dom E (XBeta 3 ld)); [|discriminate]. fold (beta w 3 ld) in Hr.
  rewrite run_bind in Hr.
  destruct (run E (three_unlink_core ld) c w cnt) as [[o1 w1] cnt1] eqn:Hc.
  apply run_three_unlink_core in Hc. destruct o1 as [[]|e1| |q]; try discriminate.
  destruct Hc as (Nz & -> & ->).
  pose proof (wf3_clr3 n w ld W Hl Nz) as W1.
  cbn [run bind rdB] in Hr.
  destruct (e_dom E (XBeta 1 ld)); [|discriminate]. destruct (e_dom E (XBeta 0 (beta w 3 ld))); [|discriminate].
  rewrite run_bind in Hr.
  match type of Hr with context [run E (unlink3_fwd ?f ?a ?x ?y) ?c ?ww ?k] =>
    destruct (run E (unlink3_fwd f a x y) c ww k) as [[o2 w2] cnt2] eqn:Hf end.
  destruct o2 as [[lf rf]|e2| |q]; try discriminate.
  apply unlink3_fwd_wf with (n := n) in Hf; [|exact W1|].
  2:{ fold (beta (clr3 w ld (beta w 3 ld)) 1 ld). apply W1; [lia|exact Hl]. }
  cbn beta iota in Hr.
  destruct (lf =? 0); [|cbn in Hr; injection Hr as <- <-; exact Hf].
  destruct (negb (rf =? 0)); [discriminate|].
  cbn [run bind rdB] in Hr.
  destruct (e_dom E (XBeta 0 ld)); [|discriminate]. destruct (e_dom E (XBeta 1 (beta w 3 ld))); [|discriminate].
  apply unlink3_bwd_wf with (n := n) in Hr; [exact Hr|exact Hf|].
  fold (beta w2 0 ld). apply Hf; [lia|exact Hl].
Qed.

(** ** the data-only routines of the 3D sews *)
Ltac wi3 := repeat (match goal with
  | |- writes_in _ (bind _ _) => apply writes_in_bind; [|intros ?; cbv beta]
  | |- writes_in _ (rdB _ _) => cbn; intros ?; exact I
  | |- writes_in _ (rdV _) => cbn; intros ?; exact I
  | |- writes_in _ (Ret _) => exact I
  | |- writes_in _ (Fail _) => exact I
  | |- writes_in _ (Panic _) => exact I
  | |- writes_in _ (if ?b then _ else _) => destruct b
  end).

Lemma wi_id3_loop S succs : (forall d, writes_in S (succs d)) ->
  forall f p m mn, writes_in S (id3_loop succs f p m mn).
Proof.
  intros Hs. induction f as [|f IH]; intros p m mn; cbn [id3_loop]; [exact I|].
  destruct p as [|d rest]; [exact I|]. destruct (mem_N d m); [apply IH|].
  apply writes_in_bind; [apply Hs|]. intros ims. apply IH.
Qed.
Lemma wi_vertex_id3 S n d : writes_in S (vertex_id3 n d).
Proof. apply wi_id3_loop. intros x. unfold vsucc3. wi3. Qed.
Lemma wi_edge_id3 S n d : writes_in S (edge_id3 n d).
Proof. apply wi_id3_loop. intros x. unfold esucc3. wi3. Qed.
Lemma wi_orbit_tx3_loop S idx f : forall q m out, writes_in S (orbit_tx3_loop f idx q m out).
Proof.
  induction f as [|f IH]; intros q m out; cbn [orbit_tx3_loop]; [exact I|].
  destruct q as [|d q']; [exact I|].
  apply writes_in_bind.
  - clear IH. induction idx as [|i r IHr]; [exact I|]. wi3. exact IHr.
  - intros ims. destruct (fold_left check ims (q', m)) as [q2 m2]. apply IH.
Qed.
Lemma wi_orbit_tx3 S n idx d : writes_in S (orbit_tx3 n idx d).
Proof. apply wi_orbit_tx3_loop. Qed.
Lemma wi_next_or_b2 S x : writes_in S (next_or_b2 x).
Proof. unfold next_or_b2. wi3. Qed.
Lemma wi_sew3_pairs S n : forall ls rs, writes_in S (sew3_pairs n ls rs).
Proof.
  induction ls as [|l ls IH]; intros rs; cbn [sew3_pairs]; [exact I|].
  destruct rs as [|r rs]; [exact I|].
  repeat (apply writes_in_bind; [first [apply wi_edge_id3 | apply wi_vertex_id3 | apply wi_next_or_b2 | (cbn; intros ?; exact I)]|intros ?]).
  apply writes_in_bind.
  - match goal with |- writes_in _ (if ?b then _ else _) => destruct b end; [|exact I].
    repeat (apply writes_in_bind; [first [apply wi_vertex_id3 | apply wi_next_or_b2]|intros ?]). exact I.
  - intros extra. apply writes_in_bind; [apply IH|]. intros rest. exact I.
Qed.
Lemma wi_merge_pairs ks c wv : forall ps, writes_in Sdata (merge_pairs ks c wv ps).
Proof.
  induction ps as [|[a b] ps IH]; cbn [merge_pairs]; [exact I|].
  apply writes_in_bind; [|intros ?; apply IH].
  destruct (negb (a =? b) && negb (a =? 0) && negb (b =? 0)); [|exact I].
  apply writes_in_bind; [|intros ?; apply wi_merge_attributes].
  destruct wv; [apply wi_vertices_merge|exact I].
Qed.
Lemma wi_unsew3_pairs n ks : forall ls rs, writes_in Sdata (unsew3_pairs n ks ls rs).
Proof.
  induction ls as [|l ls IH]; intros rs; cbn [unsew3_pairs]; [exact I|].
  destruct rs as [|r rs]; [exact I|].
  repeat (apply writes_in_bind;
    [first [apply wi_edge_id3 | apply wi_vertex_id3 | apply wi_next_or_b2
           | apply wi_split_attributes | apply wi_vertices_split | (cbn; intros ?; exact I)]|intros ?]).
  apply writes_in_bind.
  - match goal with |- writes_in _ (if ?b then _ else _) => destruct b end; [|exact I].
    repeat (apply writes_in_bind;
      [first [apply wi_vertex_id3 | apply wi_next_or_b2 | apply wi_vertices_split]|intros ?]).
    apply wi_split_attributes.
  - intros ?. apply IH.
Qed.

(** ** triples: a call that terminates normally keeps wf3 (a failed attempt is dropped by [atomically]) *)
Definition anyf : store -> Prop := fun _ => True.

Lemma triple_of_done E (P : store -> Prop) (p : prog unit) n :
  (forall c w cnt w' cnt', P w -> run E p c w cnt = (Done tt, w', cnt') -> wf3 n w') ->
  triple E P p (fun _ => wf3 n) anyf.
Proof.
  intros Hd c w cnt o w' cnt' HP Hr. destruct o as [[]|e| |q]; try exact I. eapply Hd; eauto.
Qed.

Definition P2 n l r (w : store) := wf3 n w /\ okd n w l /\ okd n w r.
Definition P2d n l r (w : store) := wf3 n w /\ okd n w l /\ okd n w r /\ l <> r.
Definition P1 n l (w : store) := wf3 n w /\ okd n w l.

Lemma triple_one_link3 E n l r : triple E (P2 n l r) (one_link3 l r) (fun _ => wf3 n) anyf.
Proof. apply triple_of_done. intros c w cnt w' cnt' (W & A & B). now apply one_link3_done. Qed.
Lemma triple_one_unlink3 E n l : triple E (P1 n l) (one_unlink3 l) (fun _ => wf3 n) anyf.
Proof. apply triple_of_done. intros c w cnt w' cnt' (W & A). now apply one_unlink3_done. Qed.
Lemma triple_three_link3 E n l r : triple E (P2d n l r) (three_link n l r) (fun _ => wf3 n) anyf.
Proof. apply triple_of_done. intros c w cnt w' cnt' (W & A & B & C). now apply three_link_done. Qed.
Lemma triple_three_unlink3 E n l : triple E (P1 n l) (three_unlink n l) (fun _ => wf3 n) anyf.
Proof. apply triple_of_done. intros c w cnt w' cnt' (W & (_ & A & _)). now apply three_unlink_done. Qed.
Lemma triple_two_link3 E n l r : triple E (P2d n l r) (two_link_core l r) (fun _ => wf3 n) anyf.
Proof.
  eapply triple_conseq; [| | |apply (triple_two_link_core3 E n l r)]; unfold P2d, okd, okd3p, anyf; cbn; auto.
Qed.
Lemma triple_two_unlink3 E n l : triple E (P1 n l) (two_unlink_core l) (fun _ => wf3 n) anyf.
Proof.
  eapply triple_conseq; [| | |apply (triple_two_unlink_core3 E n l)]; unfold P1, okd, okd3p, anyf; cbn; auto.
Qed.

Lemma topo_wf3 n : topo (wf3 n).
Proof. intros w w' W T. eapply wf3_ext; eauto. Qed.

Ltac topo_solve3 := unfold P2, P2d, P1;
  repeat first [ apply topo_okd | apply topo_wf3 | apply topo_const | apply topo_and ].
Ltac wi_solve3 := first
  [ apply wi_vertex_id3 | apply wi_edge_id3 | apply wi_orbit_tx3 | apply wi_next_or_b2 | apply wi_sew3_pairs
  | apply wi_merge_pairs | apply wi_unsew3_pairs | apply wi_vertices_merge | apply wi_vertices_split
  | apply wi_merge_attributes | apply wi_split_attributes | (cbn; intros; exact I)
  | (wi3; first [ apply wi_vertex_id3 | apply wi_edge_id3 | exact I ]) ].
Tactic Notation "tdata3" ident(x) := eapply triple_bind;
  [ apply triple_data'; [ wi_solve3 | topo_solve3 | unfold anyf; cbn; tauto ] | intros x; cbn beta ].
Tactic Notation "tdata3" := eapply triple_bind;
  [ apply triple_data'; [ wi_solve3 | topo_solve3 | unfold anyf; cbn; tauto ] | intros ?; cbn beta ].
Tactic Notation "tcore3" constr(L) := eapply triple_bind; [ apply L | intros ?; cbn beta ].
Ltac tlast3 := apply triple_data'; [ wi_solve3 | topo_solve3 | unfold anyf; cbn; tauto ].
Ltac tret3 := apply triple_ret'; unfold anyf; cbn; tauto.

Lemma triple_one_sew3 E n ks l r : triple E (P2 n l r) (one_sew3 n ks l r) (fun _ => wf3 n) anyf.
Proof.
  unfold one_sew3. tdata3 b3. tdata3 b2. tdata3 v1. tdata3 v2. tcore3 triple_one_link3.
  destruct (negb (v1 =? 0)); [|tret3]. tdata3. tlast3.
Qed.

Lemma triple_one_unsew3 E n ks l : triple E (P1 n l) (one_unsew3 n ks l) (fun _ => wf3 n) anyf.
Proof.
  unfold one_unsew3. tdata3 r. tdata3 v. tcore3 triple_one_unlink3. tdata3 b2. tdata3 b3.
  destruct ((b2 =? 0) && (b3 =? 0)); [tret3|]. tdata3 v1. tdata3 v2.
  destruct (negb (v1 =? v2)); [|tret3]. tdata3. tlast3.
Qed.

Lemma triple_two_sew3 E n ks l r : triple E (P2d n l r) (two_sew3 n ks l r) (fun _ => wf3 n) anyf.
Proof.
  unfold two_sew3. tdata3 b1l. tdata3 b1r. destruct (b1l =? 0), (b1r =? 0).
  - tdata3 el. tdata3 er. tcore3 triple_two_link3. tdata3 e. tlast3.
  - tdata3 el. tdata3 er. tdata3 v1. tdata3 v2. tcore3 triple_two_link3. tdata3 v3. tdata3 e. tdata3. tdata3. tlast3.
  - tdata3 el. tdata3 er. tdata3 v1. tdata3 v2. tcore3 triple_two_link3. tdata3 v3. tdata3 e. tdata3. tdata3. tlast3.
  - tdata3 el. tdata3 er. tdata3 v1. tdata3 v2. tdata3 v3. tdata3 v4. tdata3 c1. tdata3 c2. tdata3 c3. tdata3 c4.
    eapply triple_bind.
    { instantiate (1 := fun _ => P2d n l r).
      destruct c1 as [a|], c2 as [b|], c3 as [c0|], c4 as [d|]; try (apply triple_ret'; unfold anyf; cbn; tauto).
      destruct (bad_orient a b c0 d).
      - apply triple_fail'; unfold anyf; cbn; tauto.
      - apply triple_ret'; unfold anyf; cbn; tauto. }
    intros ?. cbn beta.
    tcore3 triple_two_link3. tdata3 v5. tdata3 v6. tdata3 e. tdata3. tdata3. tdata3. tdata3. tlast3.
Qed.

Lemma triple_two_unsew3 E n ks l : triple E (P1 n l) (two_unsew3 n ks l) (fun _ => wf3 n) anyf.
Proof.
  unfold two_unsew3. tdata3 r. tdata3 b1l. tdata3 b1r. destruct (b1l =? 0), (b1r =? 0).
  - tdata3 e. tcore3 triple_two_unlink3. tdata3 e1. tdata3 e2. tlast3.
  - tdata3 e. tdata3 v1. tcore3 triple_two_unlink3. tdata3 e1. tdata3 e2. tdata3. tdata3 a. tdata3 b. tdata3. tlast3.
  - tdata3 e. tdata3 v1. tcore3 triple_two_unlink3. tdata3 e1. tdata3 e2. tdata3. tdata3 a. tdata3 b. tdata3. tlast3.
  - tdata3 e. tdata3 v1. tdata3 v2. tcore3 triple_two_unlink3. tdata3 e1. tdata3 e2. tdata3.
    tdata3 a. tdata3 b. tdata3 c0. tdata3 d. tdata3. tdata3. tdata3. tlast3.
Qed.

Lemma triple_three_sew3 E n ks l r : triple E (P2d n l r) (three_sew3 n ks l r) (fun _ => wf3 n) anyf.
Proof.
  unfold three_sew3. tdata3 lo. tdata3 ro.
  destruct (lmin3 lo) as [lf|]; [|intros c w cnt o w' cnt' _ Hr; cbn in Hr; injection Hr as <- <- <-; exact I].
  destruct (lmin3 ro) as [rf|]; [|intros c w cnt o w' cnt' _ Hr; cbn in Hr; injection Hr as <- <- <-; exact I].
  tdata3 pr. destruct pr as [edges vertices].
  tdata3 xl. tdata3 xr. tdata3 v1. tdata3 v2. tdata3 v3. tdata3 v4. tdata3 c1. tdata3 c2. tdata3 c3. tdata3 c4.
  eapply triple_bind.
  { instantiate (1 := fun _ => P2d n l r).
    destruct c1 as [a|], c2 as [b|], c3 as [c0|], c4 as [d|]; try (apply triple_ret'; unfold anyf; cbn; tauto).
    destruct (bad_orient a b c0 d).
    - apply triple_fail'; unfold anyf; cbn; tauto.
    - apply triple_ret'; unfold anyf; cbn; tauto. }
  intros ?. cbn beta.
  tcore3 triple_three_link3. tdata3. tdata3. tlast3.
Qed.

Lemma triple_three_unsew3 E n ks l : triple E (P1 n l) (three_unsew3 n ks l) (fun _ => wf3 n) anyf.
Proof.
  unfold three_unsew3. tdata3 r. tcore3 triple_three_unlink3. tdata3 lo. tdata3 ro.
  destruct (lmin3 lo) as [lf|]; [|intros c w cnt o w' cnt' _ Hr; cbn in Hr; injection Hr as <- <- <-; exact I].
  destruct (lmin3 ro) as [rf|]; [|intros c w cnt o w' cnt' _ Hr; cbn in Hr; injection Hr as <- <- <-; exact I].
  tdata3. tlast3.
Qed.

(** ** every public call *)
Lemma okd3_okd n s d : okd3 n s d = true -> okd n s d.
Proof. intros Hb. apply okd3_spec in Hb. exact Hb. Qed.

Lemma triple_call3 E n ks c :
  triple E (fun w => wf3 n w /\ pre_call3b n w c = true) (call3_prog n ks c) (fun _ => wf3 n) anyf.
Proof.
  destruct c; cbn [call3_prog pre_call3b].
  - eapply triple_conseq; [| | |apply (triple_one_link3 E n l r)]; auto.
    intros w (W & Hb). apply andb_prop in Hb as [A B].
    exact (conj W (conj (okd3_okd _ _ _ A) (okd3_okd _ _ _ B))).
  - eapply triple_conseq; [| | |apply (triple_two_link3 E n l r)]; auto.
    intros w (W & Hb). apply andb_prop in Hb as [Hb C]. apply andb_prop in Hb as [A B].
    apply negb_true_iff, N.eqb_neq in C.
    exact (conj W (conj (okd3_okd _ _ _ A) (conj (okd3_okd _ _ _ B) C))).
  - eapply triple_conseq; [| | |apply (triple_three_link3 E n l r)]; auto.
    intros w (W & Hb). apply andb_prop in Hb as [Hb C]. apply andb_prop in Hb as [A B].
    apply negb_true_iff, N.eqb_neq in C.
    exact (conj W (conj (okd3_okd _ _ _ A) (conj (okd3_okd _ _ _ B) C))).
  - eapply triple_conseq; [| | |apply (triple_one_unlink3 E n l)]; auto.
    intros w (W & Hb). exact (conj W (okd3_okd _ _ _ Hb)).
  - eapply triple_conseq; [| | |apply (triple_two_unlink3 E n l)]; auto.
    intros w (W & Hb). exact (conj W (okd3_okd _ _ _ Hb)).
  - eapply triple_conseq; [| | |apply (triple_three_unlink3 E n l)]; auto.
    intros w (W & Hb). exact (conj W (okd3_okd _ _ _ Hb)).
  - eapply triple_conseq; [| | |apply (triple_one_sew3 E n ks l r)]; auto.
    intros w (W & Hb). apply andb_prop in Hb as [A B].
    exact (conj W (conj (okd3_okd _ _ _ A) (okd3_okd _ _ _ B))).
  - eapply triple_conseq; [| | |apply (triple_two_sew3 E n ks l r)]; auto.
    intros w (W & Hb). apply andb_prop in Hb as [Hb C]. apply andb_prop in Hb as [A B].
    apply negb_true_iff, N.eqb_neq in C.
    exact (conj W (conj (okd3_okd _ _ _ A) (conj (okd3_okd _ _ _ B) C))).
  - eapply triple_conseq; [| | |apply (triple_three_sew3 E n ks l r)]; auto.
    intros w (W & Hb). apply andb_prop in Hb as [Hb C]. apply andb_prop in Hb as [A B].
    apply negb_true_iff, N.eqb_neq in C.
    exact (conj W (conj (okd3_okd _ _ _ A) (conj (okd3_okd _ _ _ B) C))).
  - eapply triple_conseq; [| | |apply (triple_one_unsew3 E n ks l)]; auto.
    intros w (W & Hb). exact (conj W (okd3_okd _ _ _ Hb)).
  - eapply triple_conseq; [| | |apply (triple_two_unsew3 E n ks l)]; auto.
    intros w (W & Hb). exact (conj W (okd3_okd _ _ _ Hb)).
  - eapply triple_conseq; [| | |apply (triple_three_unsew3 E n ks l)]; auto.
    intros w (W & Hb). exact (conj W (okd3_okd _ _ _ Hb)).
  - eapply triple_conseq; [| | |apply (triple_data' E (wf3 n) anyf); [cbn; intros; repeat split; exact I|apply topo_wf3|unfold anyf; auto]]; cbn; tauto.
  - eapply triple_conseq; [| | |apply (triple_data' E (wf3 n) anyf); [cbn; intros; repeat split; exact I|apply topo_wf3|unfold anyf; auto]]; cbn; tauto.
  - eapply triple_conseq; [| | |apply (triple_data' E (wf3 n) anyf); [cbn; intros; repeat split; exact I|apply topo_wf3|unfold anyf; auto]]; cbn; tauto.
  - eapply triple_conseq; [| | |apply (triple_data' E (wf3 n) anyf); [cbn; intros; repeat split; exact I|apply topo_wf3|unfold anyf; auto]]; cbn; tauto.
  - intros c w cnt o w' cnt' (W & Hb) Hr.
    apply andb_prop in Hb as [Hb Hfree]. apply andb_prop in Hb as [Hd0 Hdn].
    cbn [run bind rdU wrU] in Hr. destruct (e_dom E (XUnused d)); cbn [run] in Hr; injection Hr as <- <- <-; [|exact I].
    apply wf3_set_unused; auto.
Qed.

(** the precondition threaded through the views a block actually reaches *)
Fixpoint block_pre3 (E : env) (n : N) (ks : kinds) (cs : list call3) (c w : store) (cnt : N) : Prop :=
  match cs with
  | [] => True
  | call :: rest =>
    pre_call3b n w call = true /\
    match run E (call3_prog n ks call) c w cnt with
    | (Done _, w', cnt') => block_pre3 E n ks rest c w' cnt'
    | _ => True
    end
  end.

Lemma block_wf3 E n ks : forall cs c w cnt o w' cnt',
  wf3 n w -> block_pre3 E n ks cs c w cnt ->
  run E (block3_prog n ks cs) c w cnt = (o, w', cnt') ->
  match o with Done _ => wf3 n w' | _ => True end.
Proof.
  induction cs as [|call rest IH]; intros c w cnt o w' cnt' W Hpre Hr.
  - cbn in Hr. injection Hr as <- <- <-. exact W.
  - cbn [block3_prog] in Hr. rewrite run_bind in Hr. destruct Hpre as [Hp Hrest].
    destruct (run E (call3_prog n ks call) c w cnt) as [[[x|e| |q] w1] cnt1] eqn:Ec;
      pose proof (triple_call3 E n ks call c w cnt _ _ _ (conj W Hp) Ec) as W1; cbn in W1.
    + eapply IH; eauto.
    + injection Hr as <- <- <-. exact I.
    + injection Hr as <- <- <-. exact I.
    + injection Hr as <- <- <-. exact I.
Qed.

Definition pre_op3 (fail_at : option N) (st : state2) (o : op3) : Prop :=
  match o with
  | AddDart3 | AddDarts3 _ | InsertDart3 | RemoveDart3 _ => True
  | Force3 c => pre_call3b (nd st) (mem st) c = true
  | Block3 cs => block_pre3 (env3 st fail_at) (nd st) (aks st) cs (mem st) (mem st) 0
  end.

Lemma inv3_tx0 fa st (p : prog unit) : inv3 st ->
  (forall o w' cnt', run (env3 st fa) p (mem st) (mem st) 0 = (o, w', cnt') ->
     match o with Done _ => wf3 (nd st) w' | _ => True end) ->
  inv3 (snd (tx3 fa st p)).
Proof.
  intros (Hpos & W & Hf) Hp. unfold tx3, atomically.
  destruct (run (env3 st fa) p (mem st) (mem st) 0) as [[[x|e| |q] w1] cnt1] eqn:Er; cbn [snd];
    try (split; [exact Hpos|]; split; [exact W|exact Hf]).
  split; [exact Hpos|]. split.
  - exact (Hp _ _ _ eq_refl).
  - intros v Hv. cbn in *. rewrite (run_dom _ _ _ _ _ _ _ _ Er v Hv). auto.
Qed.

Theorem inv3_step fail_at st o : inv3 st -> pre_op3 fail_at st o -> inv3 (snd (step3 fail_at st o)).
Proof.
  intros Hinv Hpre. destruct o as [|k| |d|c|cs]; cbn [step3 pre_op3] in *.
  - pose proof (inv3_add st 1 Hinv). destruct (add_free_darts st 1); auto.
  - pose proof (inv3_add st k Hinv). destruct (add_free_darts st k); auto.
  - pose proof (inv3_insert st Hinv). destruct (insert_free_dart st); auto.
  - pose proof (inv3_remove st d Hinv). destruct (remove_free_dart3 st d) as [[x|e| |q] st']; auto.
  - apply inv3_tx0; [exact Hinv|]. intros o w' cnt' Hr. destruct Hinv as (_ & W & _).
    pose proof (triple_call3 _ _ _ _ _ _ _ _ _ _ (conj W Hpre) Hr) as Hq. destruct o; auto.
  - apply inv3_tx0; [exact Hinv|]. intros o w' cnt' Hr. destruct Hinv as (_ & W & _).
    eapply block_wf3; eauto.
Qed.

Fixpoint exec3 (fail_at : option N) (st : state2) (ops : list op3) : state2 :=
  match ops with [] => st | o :: rest => exec3 fail_at (snd (step3 fail_at st o)) rest end.
Fixpoint hist_pre3 (fail_at : option N) (st : state2) (ops : list op3) : Prop :=
  match ops with
  | [] => True
  | o :: rest => pre_op3 fail_at st o /\ hist_pre3 fail_at (snd (step3 fail_at st o)) rest
  end.

Theorem history_inv3 fail_at : forall ops st,
  inv3 st -> hist_pre3 fail_at st ops -> inv3 (exec3 fail_at st ops).
Proof.
  induction ops as [|o rest IH]; intros st Hinv Hpre; cbn [exec3]; [exact Hinv|].
  destruct Hpre as [Ho Hrest]. apply IH; [now apply inv3_step | exact Hrest].
Qed.

End All3.
