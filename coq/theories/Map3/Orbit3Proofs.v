(** * C03 on 3-maps: orbits are the reachability closure; vertex / edge / volume identifiers are the
    smallest dart of the closure of their own generators (the identifier worklist pushes every image and
    filters when popping: a different algorithm from the orbit worklist, with its own invariant). *)
From Coq Require Import List NArith Bool Lia Arith.
From HC Require Import Base.Closure Stm.Prog Stm.ProgFacts Map2.Ops2 Map2.State2 Map2.Wf2 Map2.Orbit2
  Map2.Orbit2Proofs Map3.Ops3 Map3.Wf3.
Import ListNotations.
Open Scope N_scope.
Arguments N.add : simpl never. Arguments N.mul : simpl never. Arguments N.min : simpl never.
Arguments N.eqb : simpl never. Arguments N.ltb : simpl never. Arguments N.leb : simpl never.

(** ** the pop-filter worklist, purely *)
Section Pop.
Variable succ : N -> list N.
Variable n : N.
Variable k : nat.                                    (* number of images pushed per dart *)
Hypothesis succ_rng : forall x y, x < n -> In y (succ x) -> y < n.
Hypothesis succ_len : forall x, length (succ x) = k.

Fixpoint pop_loop (fuel : nat) (pending marked : list N) (mn : N) : option N :=
  match fuel with
  | O => None
  | S f =>
    match pending with
    | [] => Some mn
    | d :: rest =>
      if mem_N d marked then pop_loop f rest marked mn
      else pop_loop f (rest ++ succ d) (d :: marked) (N.min mn d)
    end
  end.

Lemma mem_N_spec x l : mem_N x l = true <-> In x l.
Proof.
  induction l as [|y r IH]; cbn; [split; [discriminate|tauto]|].
  destruct (N.eqb_spec x y) as [->|Hne]; cbn; [tauto|]. rewrite IH. split; [auto|intros [E|H]; [congruence|auto]].
Qed.

(** invariant: marked = 0 + visited darts; visited and pending darts are reachable; the images of a visited
    dart are marked or pending; the start dart is visited or pending; mn is the smallest of start + visited *)
Record PInv (d : N) (p m : list N) (mn : N) : Prop := {
  p_zero : In 0 m;
  p_reach_m : forall x, In x m -> x = 0 \/ reach succ d x;
  p_reach_p : forall x, In x p -> x = 0 \/ reach succ d x;
  p_closed : forall x y, In x m -> x <> 0 -> In y (succ x) -> In y m \/ In y p;
  p_start : In d m \/ In d p;
  p_min_in : mn = d \/ (In mn m /\ mn <> 0);
  p_min_le : mn <= d /\ forall x, In x m -> x <> 0 -> mn <= x;
  p_lt_m : forall x, In x m -> x < n;
  p_lt_p : forall x, In x p -> x < n;
  p_nodup : NoDup m
}.

Lemma pinv_step d x rest m mn : d <> 0 -> PInv d (x :: rest) m mn ->
  if mem_N x m then PInv d rest m mn else PInv d (rest ++ succ x) (x :: m) (N.min mn x).
Proof.
  intros Hd I. destruct (mem_N x m) eqn:Ex.
  - apply mem_N_spec in Ex. destruct I. constructor; auto.
    + intros y Hy. apply p_reach_p0. now right.
    + intros a c Ha Ha0 Hc. destruct (p_closed0 a c Ha Ha0 Hc) as [H|[<-|H]]; auto.
    + destruct p_start0 as [H|[<-|H]]; auto.
    + intros y Hy. apply p_lt_p0. now right.
  - assert (Hx : ~ In x m) by (intros Hin; apply mem_N_spec in Hin; congruence).
    destruct I.
    assert (Hx0 : x <> 0) by (intros ->; contradiction).
    assert (Rx : reach succ d x) by (destruct (p_reach_p0 x (or_introl eq_refl)); [congruence|auto]).
    assert (Hxn : x < n) by (apply p_lt_p0; now left).
    constructor.
    + now right.
    + intros y [<-|Hy]; auto.
    + intros y Hy. apply in_app_iff in Hy as [Hy|Hy]; [apply p_reach_p0; now right|].
      destruct (N.eq_dec y 0) as [->|Hy0]; [now left|]. right. eapply reach_step; eauto.
    + intros a c [<-|Ha] Ha0 Hc.
      * right. apply in_app_iff. now right.
      * destruct (p_closed0 a c Ha Ha0 Hc) as [H|[<-|H]]; [left; now right|left; now left|right; apply in_app_iff; now left].
    + destruct p_start0 as [H|[<-|H]]; [left; now right|left; now left|right; apply in_app_iff; now left].
    + destruct (N.min_spec mn x) as [[_ ->]|[_ ->]].
      * destruct p_min_in0 as [->|[H H0]]; [now left|right; split; [now right|auto]].
      * right. split; [now left|auto].
    + destruct p_min_le0 as [L1 L2]. split; [lia|].
      intros y [<-|Hy] Hy0; [lia|]. specialize (L2 y Hy Hy0). lia.
    + intros y [<-|Hy]; auto.
    + intros y Hy. apply in_app_iff in Hy as [Hy|Hy]; [apply p_lt_p0; now right|eapply succ_rng; eauto].
    + constructor; auto.
Qed.

(** at the end the visited darts are exactly the reachable ones, and mn is their minimum *)
Lemma pinv_done d m mn : d <> 0 -> PInv d [] m mn ->
  (forall x, reach succ d x -> In x m) /\ In mn m /\ mn <> 0 /\ forall x, reach succ d x -> mn <= x.
Proof.
  intros Hd I. destruct I.
  assert (Hdm : In d m) by (destruct p_start0 as [H|[]]; auto).
  assert (Hall : forall x, reach succ d x -> In x m).
  { intros x R. induction R as [|a c R IH Hc Hc0]; [exact Hdm|].
    assert (Ha0 : a <> 0) by exact (reach_nonnull succ d a Hd R).
    destruct (p_closed0 a c IH Ha0 Hc) as [H|[]]; auto. }
  split; [exact Hall|].
  assert (Hmn : In mn m /\ mn <> 0) by (destruct p_min_in0 as [->|H]; auto).
  destruct Hmn as [H1 H2]. repeat split; auto.
  intros x R. apply (proj2 p_min_le0 x (Hall x R)). exact (reach_nonnull succ d x Hd R).
Qed.

(** fuel: every pop either discards one pending dart or marks a new one and pushes k *)
Lemma NoDup_bound (m : list N) : NoDup m -> (forall x, In x m -> x < n) -> (length m <= N.to_nat n)%nat.
Proof.
  intros ND Hlt.
  assert (Hincl : incl m (map N.of_nat (seq 0 (N.to_nat n)))).
  { intros x Hx. apply in_map_iff. exists (N.to_nat x). split; [lia|]. apply in_seq. specialize (Hlt x Hx). lia. }
  pose proof (NoDup_incl_length ND Hincl) as Hl. rewrite map_length, seq_length in Hl. exact Hl.
Qed.

Lemma pop_loop_total d : d <> 0 -> forall fuel p m mn, PInv d p m mn ->
  ((N.to_nat n - length m) * (S k) + length p < fuel)%nat ->
  exists r, pop_loop fuel p m mn = Some r /\
            (forall x, reach succ d x -> r <= x) /\ reach succ d r.
Proof.
  intros Hd. induction fuel as [|f IH]; intros p m mn I Hf; [exfalso; exact (Nat.nlt_0_r _ Hf)|]. cbn [pop_loop].
  destruct p as [|x rest].
  - exists mn. split; [reflexivity|]. destruct (pinv_done d m mn Hd I) as (Hall & Hin & H0 & Hle).
    split; [exact Hle|]. destruct (p_reach_m _ _ _ _ I mn Hin); [congruence|auto].
  - pose proof (pinv_step d x rest m mn Hd I) as Hs. destruct (mem_N x m) eqn:Ex.
    + apply IH; [exact Hs|]. cbn [length] in Hf.
      remember ((N.to_nat n - length m) * S k)%nat as t. lia.
    + apply IH; [exact Hs|].
      pose proof (NoDup_bound (x :: m) (p_nodup _ _ _ _ Hs) (p_lt_m _ _ _ _ Hs)) as Hb.
      cbn [length] in *. rewrite app_length, succ_len.
      replace (N.to_nat n - length m)%nat with (S (N.to_nat n - S (length m))) in Hf by lia.
      cbn [Nat.mul] in Hf.
      remember ((N.to_nat n - S (length m)) * S k)%nat as t. lia.
Qed.

Theorem pop_loop_min d : d <> 0 -> d < n -> forall fuel, ((N.to_nat n) * (S k) + 1 < fuel)%nat ->
  exists r, pop_loop fuel [d] [0] d = Some r /\ reach succ d r /\ forall x, reach succ d x -> r <= x.
Proof.
  intros Hd Hdn fuel Hf.
  assert (I0 : PInv d [d] [0] d).
  { constructor; cbn.
    - now left.
    - intros x [<-|[]]. now left.
    - intros x [<-|[]]. right. constructor.
    - intros x y [<-|[]] H0. congruence.
    - right. now left.
    - now left.
    - split; [lia|]. intros x [<-|[]] H0. congruence.
    - intros x [<-|[]]. lia.
    - intros x [<-|[]]. exact Hdn.
    - repeat constructor. intros []. }
  destruct (pop_loop_total d Hd fuel [d] [0] d I0) as (r & Er & Hle & Rr).
  { cbn [length]. assert (Hm : ((N.to_nat n - 1) * S k <= N.to_nat n * S k)%nat) by (apply Nat.mul_le_mono_r; lia). lia. }
  exists r. auto.
Qed.
End Pop.

Section Proofs3.
Context `{Sig}.

Definition rng3 (n : N) (s : store) : Prop :=
  (forall i, i < 4 -> beta s i 0 = 0) /\ forall i d, i < 4 -> d < n -> beta s i d < n.
Lemma wf3_rng3 n s : wf3 n s -> rng3 n s.
Proof. intros W. split; [apply (null_inert3 n s W)|apply (in_range3 n s W)]. Qed.

Lemma succ3_rng n s p : rng3 n s -> policy3_ok p = true ->
  forall x y, x < n -> In y (succ3 s p x) -> y < n.
Proof.
  intros [_ R] Hp x y Hx Hy.
  destruct p; cbn [succ3 In] in Hy;
    try (repeat (destruct Hy as [<-|Hy]; [repeat (apply R; try lia)|]); contradiction).
  apply in_map_iff in Hy as (i & <- & Hi). cbn [policy3_ok] in Hp.
  rewrite forallb_forall in Hp. specialize (Hp i Hi). apply N.ltb_lt in Hp. apply R; lia.
Qed.

(** the orbit of a dart of a 3-map: the dart first, then every dart reachable through the policy's
    images, each exactly once, never the null dart *)
Theorem orbit3_spec n s p d : rng3 n s -> policy3_ok p = true -> d <> 0 -> d < n ->
  exists l, orbit3 n s p d = Some l /\ hd_error l = Some d /\ NoDup l /\ ~ In 0 l /\
            forall e, In e l <-> reach (succ3 s p) d e.
Proof.
  intros W Hp Hd Hdn. unfold orbit3. rewrite Hp. cbn [andb].
  destruct (N.ltb_spec d n); [|lia]. unfold bfs_fuel.
  apply (orbit_spec (succ3 s p) n (succ3_rng n s p W Hp) d Hd Hdn).
Qed.

(** ** identifiers *)
Definition dom3_ok (E : env) (n : N) : Prop := forall i d, i < 4 -> d < n -> e_dom E (XBeta i d) = true.

Definition vsucc_pure (s : store) (d : N) : list N :=
  let b i x := beta s i x in
  [b 1 (b 3 d); b 3 (b 2 d); b 1 (b 2 d); b 3 (b 0 d); b 2 (b 0 d)].
Definition esucc_pure (s : store) (d : N) : list N := [beta s 2 d; beta s 3 d].
Definition volsucc_pure (s : store) (d : N) : list N := [beta s 1 d; beta s 0 d; beta s 2 d].

Lemma run_rdB3 {X} E c w cnt i d (k : N -> prog X) :
  e_dom E (XBeta i d) = true -> run E (x <- rdB i d ;; k x) c w cnt = run E (k (beta w i d)) c w cnt.
Proof. intros Hd. cbn. rewrite Hd. reflexivity. Qed.

Lemma id3_loop_run E n c w succs pure :
  (forall X d cnt (k : list N -> prog X), d < n -> run E (x <- succs d ;; k x) c w cnt = run E (k (pure d)) c w cnt) ->
  (forall x y, x < n -> In y (pure x) -> y < n) ->
  forall fuel q m mn cnt, (forall x, In x q -> x < n) ->
  run E (id3_loop succs fuel q m mn) c w cnt =
  match pop_loop pure fuel q m mn with
  | Some r => (Done r, w, cnt)
  | None => (Panicked OutOfFuel, w, cnt)
  end.
Proof.
  intros Hs Hr. induction fuel as [|f IH]; intros q m mn cnt Hq; cbn [id3_loop pop_loop]; [reflexivity|].
  destruct q as [|d rest]; [reflexivity|].
  assert (Hd : d < n) by (apply Hq; now left).
  destruct (mem_N d m).
  - apply IH. intros x Hx. apply Hq. now right.
  - rewrite Hs by exact Hd. apply IH.
    intros x Hx. apply in_app_iff in Hx as [Hx|Hx]; [apply Hq; now right|eapply Hr; eauto].
Qed.

Lemma vsucc3_run E n c w : dom3_ok E n -> rng3 n w ->
  forall X d cnt (k : list N -> prog X), d < n ->
  run E (x <- vsucc3 d ;; k x) c w cnt = run E (k (vsucc_pure w d)) c w cnt.
Proof.
  intros Hdom [_ R] X d cnt k Hd. unfold vsucc3. rewrite !bind_assoc.
  rewrite run_rdB3 by (apply Hdom; lia). rewrite !bind_assoc.
  rewrite run_rdB3 by (apply Hdom; lia). rewrite !bind_assoc.
  rewrite run_rdB3 by (apply Hdom; lia). rewrite !bind_assoc.
  rewrite run_rdB3 by (apply Hdom; [lia|apply R; lia]). rewrite !bind_assoc.
  rewrite run_rdB3 by (apply Hdom; [lia|apply R; lia]). rewrite !bind_assoc.
  rewrite run_rdB3 by (apply Hdom; [lia|apply R; lia]). rewrite !bind_assoc.
  rewrite run_rdB3 by (apply Hdom; [lia|apply R; lia]). rewrite !bind_assoc.
  rewrite run_rdB3 by (apply Hdom; [lia|apply R; lia]). reflexivity.
Qed.
Lemma esucc3_run E n c w : dom3_ok E n ->
  forall X d cnt (k : list N -> prog X), d < n ->
  run E (x <- esucc3 d ;; k x) c w cnt = run E (k (esucc_pure w d)) c w cnt.
Proof.
  intros Hdom X d cnt k Hd. unfold esucc3. rewrite !bind_assoc.
  rewrite run_rdB3 by (apply Hdom; lia). rewrite !bind_assoc.
  rewrite run_rdB3 by (apply Hdom; lia). reflexivity.
Qed.
Lemma volsucc3_run E n c w : dom3_ok E n ->
  forall X d cnt (k : list N -> prog X), d < n ->
  run E (x <- volsucc3 d ;; k x) c w cnt = run E (k (volsucc_pure w d)) c w cnt.
Proof.
  intros Hdom X d cnt k Hd. unfold volsucc3. rewrite !bind_assoc.
  rewrite run_rdB3 by (apply Hdom; lia). rewrite !bind_assoc.
  rewrite run_rdB3 by (apply Hdom; lia). rewrite !bind_assoc.
  rewrite run_rdB3 by (apply Hdom; lia). reflexivity.
Qed.

Lemma vsucc_rng n w : rng3 n w -> forall x y, x < n -> In y (vsucc_pure w x) -> y < n.
Proof.
  intros [_ R] x y Hx Hy. unfold vsucc_pure in Hy. cbn [In] in Hy.
  repeat (destruct Hy as [<-|Hy]; [repeat (apply R; try lia)|]). contradiction.
Qed.
Lemma esucc_rng n w : rng3 n w -> forall x y, x < n -> In y (esucc_pure w x) -> y < n.
Proof.
  intros [_ R] x y Hx Hy. unfold esucc_pure in Hy. cbn [In] in Hy.
  repeat (destruct Hy as [<-|Hy]; [repeat (apply R; try lia)|]). contradiction.
Qed.
Lemma volsucc_rng n w : rng3 n w -> forall x y, x < n -> In y (volsucc_pure w x) -> y < n.
Proof.
  intros [_ R] x y Hx Hy. unfold volsucc_pure in Hy. cbn [In] in Hy.
  repeat (destruct Hy as [<-|Hy]; [repeat (apply R; try lia)|]). contradiction.
Qed.

Lemma fuel3_enough n (k : nat) : (k <= 5)%nat -> (N.to_nat n * S k + 1 < fuel3 n)%nat.
Proof. intros Hk. unfold fuel3. nia. Qed.

(** the vertex / edge / volume identifier of a dart is the smallest dart reachable from it through the
    images the identifier function follows; it never panics and never runs out of fuel, on ANY store
    whose images are in range (in particular on torn snapshots) *)
Theorem vertex_id3_min E n c w d cnt : dom3_ok E n -> rng3 n w -> d <> 0 -> d < n ->
  exists r, run E (vertex_id3 n d) c w cnt = (Done r, w, cnt) /\
            reach (vsucc_pure w) d r /\ forall x, reach (vsucc_pure w) d x -> r <= x.
Proof.
  intros Hdom W Hd Hdn.
  destruct (pop_loop_min (vsucc_pure w) n 5 (vsucc_rng n w W) (fun _ => eq_refl) d Hd Hdn (fuel3 n) (fuel3_enough n 5 (le_n _)))
    as (r & Er & Rr & Hle).
  exists r. split; [|auto]. unfold vertex_id3.
  rewrite (id3_loop_run E n c w vsucc3 (vsucc_pure w) (vsucc3_run E n c w Hdom W) (vsucc_rng n w W))
    by (intros x [<-|[]]; exact Hdn).
  now rewrite Er.
Qed.

Theorem edge_id3_min E n c w d cnt : dom3_ok E n -> rng3 n w -> d <> 0 -> d < n ->
  exists r, run E (edge_id3 n d) c w cnt = (Done r, w, cnt) /\
            reach (esucc_pure w) d r /\ forall x, reach (esucc_pure w) d x -> r <= x.
Proof.
  intros Hdom W Hd Hdn.
  destruct (pop_loop_min (esucc_pure w) n 2 (esucc_rng n w W) (fun _ => eq_refl) d Hd Hdn (fuel3 n)) as (r & Er & Rr & Hle).
  { apply fuel3_enough. lia. }
  exists r. split; [|auto]. unfold edge_id3.
  rewrite (id3_loop_run E n c w esucc3 (esucc_pure w) (esucc3_run E n c w Hdom) (esucc_rng n w W))
    by (intros x [<-|[]]; exact Hdn).
  now rewrite Er.
Qed.

Theorem volume_id3_min E n c w d cnt : dom3_ok E n -> rng3 n w -> d <> 0 -> d < n ->
  exists r, run E (volume_id3 n d) c w cnt = (Done r, w, cnt) /\
            reach (volsucc_pure w) d r /\ forall x, reach (volsucc_pure w) d x -> r <= x.
Proof.
  intros Hdom W Hd Hdn.
  destruct (pop_loop_min (volsucc_pure w) n 3 (volsucc_rng n w W) (fun _ => eq_refl) d Hd Hdn (fuel3 n)) as (r & Er & Rr & Hle).
  { apply fuel3_enough. lia. }
  exists r. split; [|auto]. unfold volume_id3.
  rewrite (id3_loop_run E n c w volsucc3 (volsucc_pure w) (volsucc3_run E n c w Hdom) (volsucc_rng n w W))
    by (intros x [<-|[]]; exact Hdn).
  now rewrite Er.
Qed.

(** the images followed by the identifier functions are the images of the corresponding orbit policy
    (the vertex identifier pushes them in another order) *)
Lemma reach_ext (s1 s2 : N -> list N) : (forall x y, In y (s1 x) <-> In y (s2 x)) ->
  forall a b, reach s1 a b -> reach s2 a b.
Proof.
  intros He a b R. induction R as [|x y R IH Hy Hy0]; [constructor|].
  eapply reach_step; [exact IH|now apply He|exact Hy0].
Qed.
Lemma vsucc_is_policy w x y : In y (vsucc_pure w x) <-> In y (succ3 w QVertex x).
Proof. unfold vsucc_pure. cbn [succ3 In]. tauto. Qed.
Lemma esucc_is_policy w d : esucc_pure w d = succ3 w QEdge d.
Proof. reflexivity. Qed.
Lemma volsucc_is_policy w d : volsucc_pure w d = succ3 w QVolume d.
Proof. reflexivity. Qed.

(** hence: the identifiers are the minima of the orbits computed by [orbit3] *)
Theorem vertex_id3_orbit_min E n c w d cnt l : dom3_ok E n -> rng3 n w -> d <> 0 -> d < n ->
  orbit3 n w QVertex d = Some l ->
  exists r, run E (vertex_id3 n d) c w cnt = (Done r, w, cnt) /\ minof r l.
Proof.
  intros Hdom W Hd Hdn Eo.
  destruct (orbit3_spec n w QVertex d W eq_refl Hd Hdn) as (l' & El & _ & _ & _ & Hl). rewrite Eo in El. injection El as <-.
  destruct (vertex_id3_min E n c w d cnt Hdom W Hd Hdn) as (r & Er & Rr & Hle).
  exists r. split; [exact Er|]. split.
  - apply Hl. apply (reach_ext (vsucc_pure w) (succ3 w QVertex)); [apply vsucc_is_policy|exact Rr].
  - intros x Hx. apply Hle. apply (reach_ext (succ3 w QVertex) (vsucc_pure w)); [intros a y; symmetry; apply vsucc_is_policy|now apply Hl].
Qed.

Theorem edge_id3_orbit_min E n c w d cnt l : dom3_ok E n -> rng3 n w -> d <> 0 -> d < n ->
  orbit3 n w QEdge d = Some l ->
  exists r, run E (edge_id3 n d) c w cnt = (Done r, w, cnt) /\ minof r l.
Proof.
  intros Hdom W Hd Hdn Eo.
  destruct (orbit3_spec n w QEdge d W eq_refl Hd Hdn) as (l' & El & _ & _ & _ & Hl). rewrite Eo in El. injection El as <-.
  destruct (edge_id3_min E n c w d cnt Hdom W Hd Hdn) as (r & Er & Rr & Hle).
  exists r. split; [exact Er|]. split; [now apply Hl|]. intros x Hx. apply Hle. now apply Hl.
Qed.

Theorem volume_id3_orbit_min E n c w d cnt l : dom3_ok E n -> rng3 n w -> d <> 0 -> d < n ->
  orbit3 n w QVolume d = Some l ->
  exists r, run E (volume_id3 n d) c w cnt = (Done r, w, cnt) /\ minof r l.
Proof.
  intros Hdom W Hd Hdn Eo.
  destruct (orbit3_spec n w QVolume d W eq_refl Hd Hdn) as (l' & El & _ & _ & _ & Hl). rewrite Eo in El. injection El as <-.
  destruct (volume_id3_min E n c w d cnt Hdom W Hd Hdn) as (r & Er & Rr & Hle).
  exists r. split; [exact Er|]. split; [now apply Hl|]. intros x Hx. apply Hle. now apply Hl.
Qed.

End Proofs3.
