(** * C06 / C08 for the 3-map calls: errors change nothing; no call reads outside its transaction;
    a block acts like the sequence. *)
From Coq Require Import List NArith Bool Lia.
From HC Require Import Base.Closure Stm.Prog Stm.ProgFacts Stm.Atomic Map2.Ops2 Map2.State2 Map2.Tx2Proofs Map3.Ops3.
Import ListNotations.
Open Scope N_scope.

Section Tx3.
Context `{Sig}.

Theorem step3_err_noop fa st o e : fst (step3 fa st o) = RErr e -> snd (step3 fa st o) = st.
Proof.
  destruct o as [| k | | d | c | cs]; cbn [step3].
  - unfold add_free_darts. cbn. discriminate.
  - unfold add_free_darts. cbn. discriminate.
  - destruct (insert_free_dart st). cbn. discriminate.
  - unfold remove_free_dart3.
    destruct (negb (d <? nd st)); [cbn; discriminate|].
    destruct (negb (is_free3 (mem st) d)); [cbn; discriminate|].
    destruct (unused (mem st) d); cbn; discriminate.
  - unfold tx3. destruct (atomically (env3 st fa) (call3_prog (nd st) (aks st) c) (mem st)) as [[x|e'| |q] m]; cbn; congruence.
  - unfold tx3. destruct (atomically (env3 st fa) (block3_prog (nd st) (aks st) cs) (mem st)) as [[x|e'| |q] m]; cbn; congruence.
Qed.

Ltac na :=
  repeat match goal with
  | |- no_atomic (bind _ _) => apply no_atomic_bind; [|intros ?; cbv beta]
  | |- no_atomic (rdB _ _) => apply na_rdB
  | |- no_atomic (wrB _ _ _) => apply na_wrB
  | |- no_atomic (rdV _) => apply na_rdV
  | |- no_atomic (wrV _ _) => apply na_wrV
  | |- no_atomic (rdA _ _) => apply na_rdA
  | |- no_atomic (wrA _ _ _) => apply na_wrA
  | |- no_atomic (rdU _) => apply na_rdU
  | |- no_atomic (wrU _ _) => apply na_wrU
  | |- no_atomic (one_link_core _ _) => apply na_one_link
  | |- no_atomic (two_link_core _ _) => apply na_two_link
  | |- no_atomic (one_unlink_core _) => apply na_one_unlink
  | |- no_atomic (two_unlink_core _) => apply na_two_unlink
  | |- no_atomic (vertices_merge _ _ _) => apply na_vertices_merge
  | |- no_atomic (vertices_split _ _ _) => apply na_vertices_split
  | |- no_atomic (merge_attributes _ _ _ _ _) => apply na_merge_attributes
  | |- no_atomic (split_attributes _ _ _ _ _) => apply na_split_attributes
  | |- no_atomic (if ?b then _ else _) => destruct b
  | |- no_atomic (match ?x with _ => _ end) => destruct x
  | |- no_atomic (Ret _) => exact I
  | |- no_atomic (Fail _) => exact I
  | |- no_atomic (Panic _) => exact I
  | |- no_atomic (Tick _) => intros ?; cbv beta
  | |- no_atomic (match ?x with _ => _ end _ _ _) => destruct x; cbv beta
  | |- no_atomic (match ?x with _ => _ end _ _) => destruct x; cbv beta
  | |- no_atomic (match ?x with _ => _ end _) => destruct x; cbv beta
  end.

Lemma na_three_link_core l r : no_atomic (three_link_core l r). Proof. unfold three_link_core. na. Qed.
Lemma na_three_unlink_core l : no_atomic (three_unlink_core l). Proof. unfold three_unlink_core. na. Qed.
Lemma na_one_link3 l r : no_atomic (one_link3 l r). Proof. unfold one_link3. na. Qed.
Lemma na_one_unlink3 l : no_atomic (one_unlink3 l). Proof. unfold one_unlink3. na. Qed.

Lemma na_link3_fwd f : forall ld l r, no_atomic (link3_fwd f ld l r).
Proof.
  induction f as [|f IH]; intros ld l r; cbn [link3_fwd]; [exact I|].
  na; try apply na_three_link_core. apply IH.
Qed.
Lemma na_link3_bwd f : forall l r, no_atomic (link3_bwd f l r).
Proof.
  induction f as [|f IH]; intros l r; cbn [link3_bwd]; [exact I|].
  na; try apply na_three_link_core. apply IH.
Qed.
Lemma na_three_link n ld rd : no_atomic (three_link n ld rd).
Proof. unfold three_link. na; try apply na_three_link_core; try apply na_link3_fwd; try apply na_link3_bwd. Qed.

Lemma na_unlink3_fwd f : forall ld l r, no_atomic (unlink3_fwd f ld l r).
Proof.
  induction f as [|f IH]; intros ld l r; cbn [unlink3_fwd]; [exact I|].
  na; try apply na_three_unlink_core. apply IH.
Qed.
Lemma na_unlink3_bwd f : forall l r, no_atomic (unlink3_bwd f l r).
Proof.
  induction f as [|f IH]; intros l r; cbn [unlink3_bwd]; [exact I|].
  na; try apply na_three_unlink_core. apply IH.
Qed.
Lemma na_three_unlink n ld : no_atomic (three_unlink n ld).
Proof. unfold three_unlink. na; try apply na_three_unlink_core; try apply na_unlink3_fwd; try apply na_unlink3_bwd. Qed.

Lemma na_id3_loop succs : (forall d, no_atomic (succs d)) ->
  forall f p m mn, no_atomic (id3_loop succs f p m mn).
Proof.
  intros Hs. induction f as [|f IH]; intros p m mn; cbn [id3_loop]; [exact I|].
  destruct p as [|d rest]; [exact I|]. destruct (mem_N d m); [apply IH|].
  apply no_atomic_bind; [apply Hs|]. intros ims. apply IH.
Qed.
Lemma na_vertex_id3 n d : no_atomic (vertex_id3 n d).
Proof. apply na_id3_loop. intros x. unfold vsucc3. na. Qed.
Lemma na_edge_id3 n d : no_atomic (edge_id3 n d).
Proof. apply na_id3_loop. intros x. unfold esucc3. na. Qed.
Lemma na_volume_id3 n d : no_atomic (volume_id3 n d).
Proof. apply na_id3_loop. intros x. unfold volsucc3. na. Qed.

Lemma na_face_walk f : forall il ir lb rb m mn, no_atomic (face_walk f il ir lb rb m mn).
Proof.
  induction f as [|f IH]; intros il ir lb rb m mn; cbn [face_walk]; [exact I|].
  destruct (ins lb m) as [a m1]. destruct (if a then (true, m1) else ins rb m1) as [go m2].
  destruct go; [|exact I]. na. apply IH.
Qed.
Lemma na_face_id3 n d : no_atomic (face_id3 n d).
Proof.
  unfold face_id3. apply no_atomic_bind; [apply na_rdB|]. intros b3.
  apply no_atomic_bind; [apply na_face_walk|]. intros [[[lb rb] m] mn].
  destruct ((lb =? 0) || (rb =? 0)); [|exact I].
  apply no_atomic_bind; [apply na_rdB|]. intros lb0. apply no_atomic_bind; [apply na_rdB|]. intros rb0.
  apply no_atomic_bind; [apply na_face_walk|]. intros [[[? ?] ?] ?]. exact I.
Qed.

Lemma na_orbit_tx3_loop idx f : forall q m out, no_atomic (orbit_tx3_loop f idx q m out).
Proof.
  induction f as [|f IH]; intros q m out; cbn [orbit_tx3_loop]; [exact I|].
  destruct q as [|d q']; [exact I|].
  apply no_atomic_bind.
  - clear IH. induction idx as [|i r IHr]; [exact I|]. na. exact IHr.
  - intros ims. destruct (fold_left check ims (q', m)) as [q2 m2]. apply IH.
Qed.
Lemma na_orbit_tx3 n idx d : no_atomic (orbit_tx3 n idx d).
Proof. apply na_orbit_tx3_loop. Qed.

Lemma na_next_or_b2 x : no_atomic (next_or_b2 x). Proof. unfold next_or_b2. na. Qed.

Lemma na_sew3_pairs n : forall ls rs, no_atomic (sew3_pairs n ls rs).
Proof.
  induction ls as [|l ls IH]; intros rs; cbn [sew3_pairs]; [exact I|].
  destruct rs as [|r rs]; [exact I|].
  repeat (apply no_atomic_bind; [first [apply na_edge_id3 | apply na_vertex_id3 | apply na_next_or_b2 | apply na_rdB]|intros ?]).
  apply no_atomic_bind.
  - match goal with |- no_atomic (if ?b then _ else _) => destruct b end; [|exact I].
    repeat (apply no_atomic_bind; [first [apply na_vertex_id3 | apply na_next_or_b2]|intros ?]). exact I.
  - intros extra. apply no_atomic_bind; [apply IH|]. intros rest. exact I.
Qed.

Lemma na_merge_pairs ks c wv : forall ps, no_atomic (merge_pairs ks c wv ps).
Proof.
  induction ps as [|[a b] ps IH]; cbn [merge_pairs]; [exact I|].
  apply no_atomic_bind; [|intros ?; apply IH]. na.
Qed.

Lemma na_unsew3_pairs n ks : forall ls rs, no_atomic (unsew3_pairs n ks ls rs).
Proof.
  induction ls as [|l ls IH]; intros rs; cbn [unsew3_pairs]; [exact I|].
  destruct rs as [|r rs]; [exact I|].
  repeat (apply no_atomic_bind;
    [first [apply na_edge_id3 | apply na_vertex_id3 | apply na_next_or_b2 | apply na_rdB
           | apply na_split_attributes | apply na_vertices_split]|intros ?]).
  apply no_atomic_bind.
  - match goal with |- no_atomic (if ?b then _ else _) => destruct b end; [|exact I].
    repeat (apply no_atomic_bind;
      [first [apply na_vertex_id3 | apply na_next_or_b2 | apply na_vertices_split]|intros ?]).
    apply na_split_attributes.
  - intros ?. apply IH.
Qed.

Ltac na3 :=
  repeat match goal with
  | |- no_atomic (one_link3 _ _) => apply na_one_link3
  | |- no_atomic (one_unlink3 _) => apply na_one_unlink3
  | |- no_atomic (three_link _ _ _) => apply na_three_link
  | |- no_atomic (three_unlink _ _) => apply na_three_unlink
  | |- no_atomic (vertex_id3 _ _) => apply na_vertex_id3
  | |- no_atomic (edge_id3 _ _) => apply na_edge_id3
  | |- no_atomic (orbit_tx3 _ _ _) => apply na_orbit_tx3
  | |- no_atomic (next_or_b2 _) => apply na_next_or_b2
  | |- no_atomic (sew3_pairs _ _ _) => apply na_sew3_pairs
  | |- no_atomic (merge_pairs _ _ _ _) => apply na_merge_pairs
  | |- no_atomic (unsew3_pairs _ _ _ _) => apply na_unsew3_pairs
  | _ => progress na
  end.

Lemma na_one_sew3 n ks l r : no_atomic (one_sew3 n ks l r). Proof. unfold one_sew3. na3. Qed.
Lemma na_one_unsew3 n ks l : no_atomic (one_unsew3 n ks l). Proof. unfold one_unsew3. na3. Qed.
Lemma na_two_sew3 n ks l r : no_atomic (two_sew3 n ks l r). Proof. unfold two_sew3. na3. Qed.
Lemma na_two_unsew3 n ks l : no_atomic (two_unsew3 n ks l). Proof. unfold two_unsew3. na3. Qed.
Lemma na_three_sew3 n ks l r : no_atomic (three_sew3 n ks l r). Proof. unfold three_sew3. na3. Qed.
Lemma na_three_unsew3 n ks l : no_atomic (three_unsew3 n ks l). Proof. unfold three_unsew3. na3. Qed.

(** every public 3-map call reads and writes through its transaction only *)
Theorem na_call3 n ks c : no_atomic (call3_prog n ks c).
Proof.
  destruct c; cbn [call3_prog];
    first [apply na_one_link3 | apply na_two_link | apply na_three_link | apply na_one_unlink3 | apply na_two_unlink
          | apply na_three_unlink | apply na_one_sew3 | apply na_two_sew3 | apply na_three_sew3
          | apply na_one_unsew3 | apply na_two_unsew3 | apply na_three_unsew3 | na].
Qed.

Lemma block3_prog_block n ks cs : block3_prog n ks cs = block (map (call3_prog n ks) cs).
Proof. induction cs as [|c cs IH]; cbn; [reflexivity|]. now rewrite IH. Qed.

Fixpoint seq_force3 (st : state2) (cs : list call3) : option state2 :=
  match cs with
  | [] => Some st
  | c :: rest =>
    match step3 None st (Force3 c) with
    | (ROk _, st1) => seq_force3 st1 rest
    | _ => None
    end
  end.

Lemma seq_force3_seq_run st cs st' : seq_force3 st cs = Some st' ->
  nd st' = nd st /\ aks st' = aks st /\
  seq_run (env3 st None) (map (call3_prog (nd st) (aks st)) cs) (mem st) = Some (mem st').
Proof.
  revert st. induction cs as [|c cs IH]; intros st Hs; cbn [seq_force3 map seq_run] in *.
  - injection Hs as <-. auto.
  - cbn [step3] in Hs. unfold tx3 in Hs.
    destruct (atomically (env3 st None) (call3_prog (nd st) (aks st) c) (mem st)) as [[x|e| |q] m] eqn:Ea;
      try discriminate Hs.
    apply IH in Hs. cbn [with_mem nd aks mem] in Hs. destruct Hs as (Hn & Hk & Hr).
    repeat split; auto.
Qed.

(** C08 on 3-maps: calls that succeed one after the other, each in its own transaction, give the
    same map when run as one atomic block *)
Theorem compose3 st cs st' : seq_force3 st cs = Some st' ->
  step3 None st (Block3 cs) = (ROk 0, st').
Proof.
  intros Hs. destruct (seq_force3_seq_run st cs st' Hs) as (Hn & Hk & Hr).
  cbn [step3]. unfold tx3. rewrite block3_prog_block.
  rewrite (compose_block (env3 st None) _ (mem st) (mem st') eq_refl); [|apply Forall_forall|exact Hr].
  - f_equal. destruct st'. cbn in *. subst. reflexivity.
  - intros p Hp. apply in_map_iff in Hp as (c & <- & _). apply na_call3.
Qed.

End Tx3.
