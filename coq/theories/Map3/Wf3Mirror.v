(** * C02, the refusal clause: a 3-link that terminates normally was asked to glue two faces that can be
    mirrored onto each other -- both closed with as many sides, or both open with equally long chains after
    and before the two darts.  Contrapositive: on faces that cannot be mirrored the call does not succeed. *)
From Coq Require Import List NArith Bool Lia.
From HC Require Import Base.Closure Stm.Prog Stm.ProgFacts Stm.Atomic Map2.Ops2 Map2.State2 Map2.Wf2 Map2.Wf2Proofs Map2.Wf2Dec
  Map3.Ops3 Map3.Wf3 Map3.Wf3Dec Map3.Wf3Proofs Map3.Wf3Links Map3.Wf3Link3 Map3.Wf3All.
Import ListNotations.
Open Scope N_scope.
Arguments N.add : simpl never. Arguments N.mul : simpl never. Arguments N.min : simpl never.
Arguments N.eqb : simpl never. Arguments N.ltb : simpl never. Arguments N.leb : simpl never.

Section Mirror.
Context `{Sig}.
Variables (n : N) (w0 : store) (ld rd : N).
Hypothesis W0 : wf3 n w0.
Notation B1 := (beta w0 1).
Notation B0 := (beta w0 0).

Lemma good_tail p acc : Good n w0 (p :: acc) -> Good n w0 acc.
Proof.
  intros [Hnd Hg]. rewrite darts_cons in Hnd. inversion Hnd as [|x lx Hx Hnd1]; subst. inversion Hnd1; subst.
  split; [assumption|]. intros x Hx'. apply Hg. rewrite darts_cons. cbn. auto.
Qed.
Lemma head_fresh p acc q : Good n w0 (p :: acc) -> In q acc -> fst p <> fst q /\ snd p <> snd q /\ fst p <> snd q /\ snd p <> fst q.
Proof.
  intros [Hnd _] Hq. rewrite darts_cons in Hnd. inversion Hnd as [|x lx Hx Hnd1]; subst. inversion Hnd1 as [|x' lx' Hx' _]; subst.
  assert (In (fst q) (darts acc) /\ In (snd q) (darts acc)) as [A B].
  { split; apply in_darts; exists q; auto. }
  repeat split; intros E; first [apply Hx; cbn; right; congruence | apply Hx'; congruence].
Qed.

(* how far the walks have come *)
Lemma walk_step s i f start d a : beta s i d <> 0 -> beta s i d <> start ->
  walk_len s i (S f) start d a = walk_len s i f start (beta s i d) (a + 1).
Proof.
  intros H1 H2. cbn [walk_len]. destruct (N.eqb_spec (beta s i d) 0); [contradiction|].
  destruct (N.eqb_spec (beta s i d) start); [contradiction|]. reflexivity.
Qed.

Lemma fwd_prefix_l pl pr rest : fchain w0 ld rd ((pl, pr) :: rest) ->
  forall f a, walk_len w0 1 (length rest + f) ld ld a = walk_len w0 1 f ld pl (a + N.of_nat (length rest)).
Proof.
  remember ((pl, pr) :: rest) as acc eqn:Ea. intros Hch. revert pl pr rest Ea.
  induction Hch as [|ql qr rest' Hch IH Hl Hr Hld]; intros pl pr rest Ea f a.
  - injection Ea as <- <- <-. cbn. f_equal. lia.
  - injection Ea as <- <- <-. cbn [length].
    replace (S (length rest') + f)%nat with (length rest' + S f)%nat by lia.
    rewrite (IH ql qr rest' eq_refl). rewrite walk_step by assumption. f_equal. lia.
Qed.
Lemma fwd_prefix_r pl pr rest : fchain w0 ld rd ((pl, pr) :: rest) -> Good n w0 ((pl, pr) :: rest) ->
  forall f a, walk_len w0 0 (length rest + f) rd rd a = walk_len w0 0 f rd pr (a + N.of_nat (length rest)).
Proof.
  remember ((pl, pr) :: rest) as acc eqn:Ea. intros Hch. revert pl pr rest Ea.
  induction Hch as [|ql qr rest' Hch IH Hl Hr Hld]; intros pl pr rest Ea Hg f a.
  - injection Ea as <- <- <-. cbn. f_equal. lia.
  - injection Ea as <- <- <-. cbn [length].
    replace (S (length rest') + f)%nat with (length rest' + S f)%nat by lia.
    rewrite (IH ql qr rest' eq_refl (good_tail _ _ Hg)).
    rewrite walk_step; [f_equal; lia|assumption|].
    apply (head_fresh _ _ (ld, rd) Hg). now apply (fchain_base w0 ld rd).
Qed.

Lemma bwd_prefix_l bl accF : bchain w0 ld rd bl -> Good n w0 (bl ++ accF) -> In (ld, rd) accF ->
  forall f a, walk_len w0 0 (length bl + f) ld ld a = walk_len w0 0 f ld (fst (prevB ld rd bl)) (a + N.of_nat (length bl)).
Proof.
  induction 1 as [|bl Hch IH Hl Hr]; intros Hg Hbase f a.
  - cbn. f_equal. lia.
  - cbn [length].
    replace (S (length bl) + f)%nat with (length bl + S f)%nat by lia.
    cbn [app] in Hg. rewrite (IH (good_tail _ _ Hg) Hbase).
    rewrite walk_step; [cbn [prevB fst]; f_equal; lia|assumption|].
    apply (head_fresh _ _ (ld, rd) Hg). apply in_or_app. auto.
Qed.
Lemma bwd_prefix_r bl accF : bchain w0 ld rd bl -> Good n w0 (bl ++ accF) -> In (ld, rd) accF ->
  forall f a, walk_len w0 1 (length bl + f) rd rd a = walk_len w0 1 f rd (snd (prevB ld rd bl)) (a + N.of_nat (length bl)).
Proof.
  induction 1 as [|bl Hch IH Hl Hr]; intros Hg Hbase f a.
  - cbn. f_equal. lia.
  - cbn [length].
    replace (S (length bl) + f)%nat with (length bl + S f)%nat by lia.
    cbn [app] in Hg. rewrite (IH (good_tail _ _ Hg) Hbase).
    rewrite walk_step; [cbn [prevB snd]; f_equal; lia|assumption|].
    apply (head_fresh _ _ (ld, rd) Hg). apply in_or_app. auto.
Qed.

(* the glued darts are distinct darts below n: fewer pairs than n *)
Lemma good_short ps : Good n w0 ps -> (2 * length ps <= N.to_nat n)%nat.
Proof.
  intros [Hnd Hg].
  assert (Hlen : length (darts ps) = (2 * length ps)%nat).
  { clear. induction ps as [|p ps IH]; [reflexivity|]. rewrite darts_cons. cbn [length]. lia. }
  rewrite <- Hlen.
  replace (N.to_nat n) with (length (nrange n)) by (unfold nrange; now rewrite map_length, seq_length).
  apply NoDup_incl_length; [exact Hnd|]. intros x Hx. apply in_nrange. apply Hg in Hx. apply Hx.
Qed.

End Mirror.

Section Main.
Context `{Sig}.

Theorem three_link_mirrorable E n ld rd c w0 cnt w' cnt' :
  wf3 n w0 -> okd3p n w0 ld -> okd3p n w0 rd -> ld <> rd ->
  run E (three_link n ld rd) c w0 cnt = (Done tt, w', cnt') -> mirrorable n w0 ld rd = true.
Proof.
  intros W Ol Or Hne Hr.
  destruct (three_link_shape E n ld rd c w0 cnt w' cnt' W Ol Or Hne Hr) as (hl & hr & rest & bl & HF & HB & HG & He & _).
  assert (HGF : Good n w0 ((hl, hr) :: rest)).
  { clear - HG. induction bl as [|p bl IH]; [exact HG|]. apply IH. eapply good_tail. exact HG. }
  pose proof (good_short n w0 _ HG) as Hshort. rewrite app_length in Hshort. cbn [length] in Hshort.
  pose proof (fchain_base _ _ _ _ HF) as Hbase.
  destruct Ol as (Hl0 & _). destruct Or as (Hr0 & _).
  unfold mirrorable.
  set (k := length rest) in *. set (m := length bl) in *.
  assert (Ef : exists f, N.to_nat n = (k + S f)%nat) by (exists (N.to_nat n - k - 1)%nat; lia).
  destruct Ef as (f & Ef).
  assert (Eb : exists g, N.to_nat n = (m + S g)%nat) by (exists (N.to_nat n - m - 1)%nat; lia).
  destruct Eb as (g & Eb).
  assert (WL : walk_len w0 1 (N.to_nat n) ld ld 0 = walk_len w0 1 (S f) ld hl (0 + N.of_nat k)).
  { rewrite Ef. apply (fwd_prefix_l w0 ld rd hl hr rest HF). }
  assert (WR : walk_len w0 0 (N.to_nat n) rd rd 0 = walk_len w0 0 (S f) rd hr (0 + N.of_nat k)).
  { rewrite Ef. apply (fwd_prefix_r n w0 ld rd hl hr rest HF HGF). }
  assert (VL : walk_len w0 0 (N.to_nat n) ld ld 0 = walk_len w0 0 (S g) ld (fst (prevB ld rd bl)) (0 + N.of_nat m)).
  { rewrite Eb. apply (bwd_prefix_l n w0 ld rd bl _ HB HG Hbase). }
  assert (VR : walk_len w0 1 (N.to_nat n) rd rd 0 = walk_len w0 1 (S g) rd (snd (prevB ld rd bl)) (0 + N.of_nat m)).
  { rewrite Eb. apply (bwd_prefix_r n w0 ld rd bl _ HB HG Hbase). }
  cbv zeta. rewrite WL, WR, VL, VR. cbn [walk_len].
  destruct He as [(E1 & E2 & Ebl)|(E1 & E2 & E3 & E4)].
  - rewrite E1, E2. destruct (N.eqb_spec ld 0); [contradiction|]. destruct (N.eqb_spec rd 0); [contradiction|].
    rewrite ?N.eqb_refl. reflexivity.
  - rewrite E1, E2, E3, E4. cbn [N.eqb]. rewrite ?N.eqb_refl. reflexivity.
Qed.

(** *** the refusal, at the level of the public calls *)
Lemma walk_len_ext s s' i : (forall d, beta s' i d = beta s i d) ->
  forall f start d a, walk_len s' i f start d a = walk_len s i f start d a.
Proof.
  intros Hb. induction f as [|f IH]; intros start d a; cbn [walk_len]; [reflexivity|].
  rewrite Hb. destruct (beta s i d =? 0); [reflexivity|]. destruct (beta s i d =? start); [reflexivity|]. apply IH.
Qed.
Lemma mirrorable_ext n s s' l r : topo_eq s s' -> mirrorable n s' l r = mirrorable n s l r.
Proof.
  intros [Hb _]. unfold mirrorable. cbv zeta.
  rewrite !(walk_len_ext s s' 1), !(walk_len_ext s s' 0) by (intros; apply Hb). reflexivity.
Qed.

Definition Pno n l r (w : store) : Prop :=
  wf3 n w /\ okd n w l /\ okd n w r /\ l <> r /\ mirrorable n w l r = false.
Definition never : unit -> store -> Prop := fun _ _ => False.

Lemma topo_Pno n l r : topo (Pno n l r).
Proof.
  intros w w' (W & A & B & C & D) T.
  split; [eapply wf3_ext; eauto|]. split; [eapply okd_ext; eauto|]. split; [eapply okd_ext; eauto|].
  split; [exact C|]. rewrite (mirrorable_ext n w w' l r T). exact D.
Qed.

Lemma triple_three_link_no E n l r : triple E (Pno n l r) (three_link n l r) never anyf.
Proof.
  intros c w cnt o w' cnt' (W & A & B & C & D) Hr. destruct o as [[]|e| |q]; try exact I.
  pose proof (three_link_mirrorable E n l r c w cnt w' cnt' W A B C Hr) as M. unfold never. congruence.
Qed.

Lemma triple_false {X} E (p : prog X) (Qd : X -> store -> Prop) : triple E (fun _ => False) p Qd anyf.
Proof. intros c w cnt o w' cnt' []. Qed.

Ltac wi_ro := first
  [ apply wi_vertex_id3 | apply wi_edge_id3 | apply wi_orbit_tx3 | apply wi_next_or_b2 | apply wi_sew3_pairs
  | (cbn; intros; exact I) ].
Tactic Notation "tdno" ident(x) := eapply triple_bind;
  [ apply triple_data'; [ wi_ro | apply topo_Pno | unfold anyf; auto ] | intros x; cbn beta ].

Lemma triple_three_sew_no E n ks l r : triple E (Pno n l r) (three_sew3 n ks l r) never anyf.
Proof.
  unfold three_sew3. tdno lo. tdno ro.
  destruct (lmin3 lo) as [lf|]; [|intros c w cnt o w' cnt' _ Hr; cbn in Hr; injection Hr as <- <- <-; exact I].
  destruct (lmin3 ro) as [rf|]; [|intros c w cnt o w' cnt' _ Hr; cbn in Hr; injection Hr as <- <- <-; exact I].
  tdno pr. destruct pr as [edges vertices].
  tdno xl. tdno xr. tdno v1. tdno v2. tdno v3. tdno v4. tdno c1. tdno c2. tdno c3. tdno c4.
  eapply triple_bind.
  { instantiate (1 := fun _ => Pno n l r).
    destruct c1 as [a|], c2 as [b|], c3 as [c0|], c4 as [d|]; try (apply triple_ret'; unfold anyf; cbn; tauto).
    destruct (bad_orient a b c0 d).
    - apply triple_fail'; unfold anyf; cbn; tauto.
    - apply triple_ret'; unfold anyf; cbn; tauto. }
  intros ?. cbn beta.
  eapply triple_bind; [apply triple_three_link_no|]. intros ?. cbn beta. unfold never. apply triple_false.
Qed.

Theorem refuses_non_mirrorable fa st l r (sew : bool) :
  let c := if sew then S3 l r else L3 l r in
  inv3 st -> pre_call3b (nd st) (mem st) c = true -> mirrorable (nd st) (mem st) l r = false ->
  (forall x, fst (step3 fa st (Force3 c)) <> ROk x) /\ snd (step3 fa st (Force3 c)) = st.
Proof.
  intros c (_ & W & _) Hpre Hno.
  assert (HP : Pno (nd st) l r (mem st)).
  { destruct sew; cbn [c pre_call3b] in Hpre; apply andb_prop in Hpre as [Hb C]; apply andb_prop in Hb as [A B];
      apply negb_true_iff, N.eqb_neq in C;
      exact (conj W (conj (okd3_okd _ _ _ A) (conj (okd3_okd _ _ _ B) (conj C Hno)))). }
  assert (Hnd : forall o w' cnt', run (env3 st fa) (call3_prog (nd st) (aks st) c) (mem st) (mem st) 0 = (o, w', cnt') ->
                  match o with Done _ => False | _ => True end).
  { intros o w' cnt' Hr. destruct sew; cbn [c call3_prog] in Hr.
    - pose proof (triple_three_sew_no _ _ _ _ _ _ _ _ _ _ _ HP Hr) as Hq. destruct o; auto.
    - pose proof (triple_three_link_no _ _ _ _ _ _ _ _ _ _ HP Hr) as Hq. destruct o; auto. }
  cbn [step3]. unfold tx3, atomically.
  destruct (run (env3 st fa) (call3_prog (nd st) (aks st) c) (mem st) (mem st) 0) as [[[x|e| |q] w1] cnt1] eqn:Er;
    cbn [fst snd]; try (split; [intros y; discriminate|reflexivity]).
  exfalso. exact (Hnd _ _ _ eq_refl).
Qed.

End Main.
