(** * C02, continued: the 2-link / 2-unlink of a 3-map keep wf3 (the mirror clause only speaks of beta1 and
    beta3, which these cores do not write). *)
From Coq Require Import List NArith Bool Lia.
From HC Require Import Stm.Prog Stm.ProgFacts Stm.Atomic Map2.Ops2 Map2.State2 Map2.Wf2 Map2.Wf2Proofs
  Map3.Ops3 Map3.Wf3 Map3.Wf3Dec Map3.Wf3Proofs.
Import ListNotations.
Open Scope N_scope.
Arguments N.add : simpl never. Arguments N.mul : simpl never. Arguments N.min : simpl never.
Arguments N.eqb : simpl never. Arguments N.ltb : simpl never. Arguments N.leb : simpl never.

Section Links3.
Context `{Sig}.

Ltac run_step Hr :=
  match type of Hr with
  | context [e_dom ?E ?v] => destruct (e_dom E v) eqn:?
  | context [if negb (?a =? ?b) then _ else _] => destruct (N.eqb_spec a b); cbn [negb] in Hr
  | context [if (?a =? ?b) then _ else _] => destruct (N.eqb_spec a b)
  end; cbn [run bind rdB wrB] in Hr.
Ltac run_all Hr := cbn [run bind rdB wrB] in Hr; repeat run_step Hr; try (injection Hr as <- <- <-).
Ltac bsimp := repeat (rewrite ?beta_upd_beta, ?unused_upd_other in * by (intros; discriminate)).
Ltac eqb_consts :=
  repeat match goal with
  | |- context [?a =? ?b] =>
      let v := eval vm_compute in (a =? b) in
      match v with true => idtac | false => idtac end;
      change (a =? b) with v
  | H : context [?a =? ?b] |- _ =>
      let v := eval vm_compute in (a =? b) in
      match v with true => idtac | false => idtac end;
      change (a =? b) with v in H
  end; cbn [andb orb negb] in *.
Ltac case_eqb :=
  repeat (match goal with
  | |- context [?a =? ?b] => destruct (N.eqb_spec a b)
  | H : context [?a =? ?b] |- _ => destruct (N.eqb_spec a b)
  end; cbn [andb orb negb] in *).
Ltac four_cases i Hi :=
  let H0 := fresh in
  assert (H0 : i = 0 \/ i = 1 \/ i = 2 \/ i = 3) by lia; destruct H0 as [->|[->|[->| ->]]].
Ltac fwd := repeat (match goal with
  | H : _ /\ _ |- _ => destruct H
  | H : ?P -> ?Q |- _ =>
      match type of P with Prop => idtac end;
      let HP := fresh in assert (HP : P) by congruence; specialize (H HP); clear HP
  end).
Ltac fin := intros; subst; try assumption; try congruence; fwd; try congruence; try (split; congruence).

Lemma wf3_at n w : wf3 n w -> forall d, d < n ->
  beta w 2 d < n /\
  (beta w 2 d <> 0 -> beta w 2 (beta w 2 d) = d /\ beta w 2 d <> d) /\
  (unused w d = true -> beta w 0 d = 0 /\ beta w 1 d = 0 /\ beta w 2 d = 0 /\ beta w 3 d = 0).
Proof.
  intros [W1 W2 W3 W4 W5 W6 W7 W8] d Hd. repeat split; try (apply W2; lia); try (apply W5; auto); apply W8; auto; lia.
Qed.
Lemma wf3_null n w : wf3 n w -> beta w 0 0 = 0 /\ beta w 1 0 = 0 /\ beta w 2 0 = 0 /\ beta w 3 0 = 0.
Proof. intros [W1 _ _ _ _ _ _ _]. repeat split; apply W1; lia. Qed.

Definition okd3p (n : N) (s : store) (d : N) : Prop := d <> 0 /\ d < n /\ unused s d = false.

(** a store that differs from [w] only at beta2 of two darts: every clause that does not mention beta2 is inherited *)
Lemma wf3_beta2_frame n w w' :
  wf3 n w ->
  (forall i d, i <> 2 -> beta w' i d = beta w i d) -> (forall d, unused w' d = unused w d) ->
  beta w' 2 0 = 0 -> (forall d, d < n -> beta w' 2 d < n) ->
  (forall d, d < n -> beta w' 2 d <> 0 -> beta w' 2 (beta w' 2 d) = d /\ beta w' 2 d <> d) ->
  (forall d, d < n -> unused w d = true -> beta w' 2 d = 0) ->
  wf3 n w'.
Proof.
  intros [W1 W2 W3 W4 W5 W6 W7 W8] Hb Hu Z2 R2 I2 U2. constructor.
  - intros i Hi. destruct (N.eq_dec i 2) as [->|Hne]; [exact Z2|]. rewrite Hb by exact Hne. auto.
  - intros i d Hi Hd. destruct (N.eq_dec i 2) as [->|Hne]; [auto|]. rewrite Hb by exact Hne. auto.
  - intros d Hd. rewrite !Hb by lia. auto.
  - intros d Hd. rewrite !Hb by lia. auto.
  - exact I2.
  - intros d Hd. rewrite !Hb by lia. auto.
  - intros d Hd. cbv zeta. rewrite !Hb by lia. apply (W7 d Hd).
  - intros d Hd Hun i Hi. rewrite Hu in Hun. destruct (N.eq_dec i 2) as [->|Hne]; [auto|]. rewrite Hb by exact Hne. auto.
Qed.

Lemma triple_two_link_core3 E n l r :
  triple E (fun w => wf3 n w /\ okd3p n w l /\ okd3p n w r /\ l <> r) (two_link_core l r)
         (fun _ => wf3 n) (wf3 n).
Proof.
  intros c w cnt o w' cnt' (W & (Hl0 & Hln & Hlu) & (Hr0 & Hrn & Hru) & Hlr) Hr.
  unfold two_link_core in Hr. run_all Hr; auto.
  fold (beta w 2 l) in *. fold (beta w 2 r) in *.
  pose proof (wf3_null n w W) as (_ & _ & N2 & _).
  apply (wf3_beta2_frame n w _ W).
  - intros i d Hi. bsimp. case_eqb; fin.
  - intros d. bsimp. reflexivity.
  - bsimp. case_eqb; fin.
  - intros d Hd. pose proof (wf3_at n w W d Hd) as (R & _). bsimp. case_eqb; fin.
  - intros d Hd. pose proof (wf3_at n w W d Hd) as (_ & I & _).
    pose proof (wf3_at n w W l Hln) as (_ & Il & _). pose proof (wf3_at n w W r Hrn) as (_ & Ir & _).
    bsimp. case_eqb; fin.
  - intros d Hd Hun. pose proof (wf3_at n w W d Hd) as (_ & _ & U). bsimp. case_eqb; fin.
Qed.

Lemma triple_two_unlink_core3 E n l :
  triple E (fun w => wf3 n w /\ okd3p n w l) (two_unlink_core l) (fun _ => wf3 n) (wf3 n).
Proof.
  intros c w cnt o w' cnt' (W & (Hl0 & Hln & Hlu)) Hr.
  unfold two_unlink_core in Hr. run_all Hr; auto.
  - fold (beta w 2 l) in *. eapply wf3_ext; [exact W|]. split; intros; bsimp; [case_eqb; subst; auto|reflexivity].
  - fold (beta w 2 l) in *.
    pose proof (wf3_null n w W) as (_ & _ & N2 & _).
    pose proof (wf3_at n w W l Hln) as (Rl & Il & _).
    assert (Hrn : beta w 2 l < n) by exact Rl.
    pose proof (wf3_at n w W (beta w 2 l) Hrn) as (_ & Ir & _).
    apply (wf3_beta2_frame n w _ W).
    + intros i d Hi. bsimp. case_eqb; fin; try lia.
    + intros d. bsimp. reflexivity.
    + bsimp. case_eqb; fin; try lia.
    + intros d Hd. pose proof (wf3_at n w W d Hd) as (R & _). bsimp. case_eqb; fin; try lia.
    + intros d Hd. pose proof (wf3_at n w W d Hd) as (_ & I & _). bsimp. case_eqb; fin; try lia.
    + intros d Hd Hun. pose proof (wf3_at n w W d Hd) as (_ & _ & U). bsimp. case_eqb; fin; try lia.
Qed.

Lemma okd3_spec n s d : okd3 n s d = true <-> okd3p n s d.
Proof. unfold okd3, okd3p. rewrite !andb_true_iff, !negb_true_iff, N.eqb_neq, N.ltb_lt. tauto. Qed.

Lemma inv3_tx fa st (p : prog unit) : inv3 st ->
  (forall c w cnt o w' cnt', w = mem st ->
     run (env3 st fa) p c w cnt = (o, w', cnt') ->
     match o with Done _ => wf3 (nd st) w' | _ => True end) ->
  inv3 (snd (tx3 fa st p)).
Proof.
  intros (Hpos & W & Hf) Hp. unfold tx3, atomically.
  destruct (run (env3 st fa) p (mem st) (mem st) 0) as [[[x|e| |q] w1] cnt1] eqn:Er; cbn [snd];
    try (split; [exact Hpos|]; split; [exact W|exact Hf]).
  split; [exact Hpos|]. split.
  - exact (Hp _ _ _ _ _ _ eq_refl Er).
  - intros v Hv. cbn in *. rewrite (run_dom _ _ _ _ _ _ _ _ Er v Hv). auto.
Qed.

(** 2-links and 2-unlinks of in-use darts keep the 3-map invariant, whatever their outcome *)
Theorem inv3_step_link2 fa st c : inv3 st ->
  match c with L2 _ _ | U2 _ => True | _ => False end ->
  pre_call3b (nd st) (mem st) c = true ->
  inv3 (snd (step3 fa st (Force3 c))).
Proof.
  intros Hinv Hc Hpre. cbn [step3]. destruct c; try contradiction; cbn [call3_prog pre_call3b] in *.
  - apply inv3_tx; [exact Hinv|]. intros c0 w cnt o w' cnt' -> Hr.
    rewrite !andb_true_iff, !okd3_spec, negb_true_iff, N.eqb_neq in Hpre. destruct Hpre as ((Hl & Hr') & Hne).
    destruct Hinv as (_ & W & _).
    pose proof (triple_two_link_core3 (env3 st fa) (nd st) l r c0 (mem st) cnt o w' cnt' (conj W (conj Hl (conj Hr' Hne))) Hr) as Hq.
    destruct o; auto.
  - apply inv3_tx; [exact Hinv|]. intros c0 w cnt o w' cnt' -> Hr.
    rewrite okd3_spec in Hpre. destruct Hinv as (_ & W & _).
    pose proof (triple_two_unlink_core3 (env3 st fa) (nd st) l c0 (mem st) cnt o w' cnt' (conj W Hpre) Hr) as Hq.
    destruct o; auto.
Qed.

End Links3.
