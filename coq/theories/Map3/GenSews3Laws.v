(** * The 3D 2-sew / 2-unsew programs of the model are, verbatim, the programs that tools/tr_sews.py generates
    from dim3/sews/two.rs on every run (hand-written file, not generated). *)
From Coq Require Import List NArith Bool.
From HC Require Import Stm.Prog Map2.Ops2 Map3.Ops3 Map3.GenSews3.
Open Scope N_scope.

(* syntactic comparison first (fast, also when it fails): after unfolding the two constants the programs must be the
   same term up to the names of bound variables; [reflexivity] then only re-checks identical terms *)
Ltac syn_eq := lazymatch goal with |- ?a = ?b => first [constr_eq a b | fail 1 "the generated program differs from the model"] end.

Section Laws.
Context `{Sig}.
Theorem sews3_are_the_source :
  (forall n ks l r, gen_two_sew3 n ks l r = two_sew3 n ks l r) /\ (forall n ks l, gen_two_unsew3 n ks l = two_unsew3 n ks l).
Proof.
  split; intros; [cbv beta zeta delta [gen_two_sew3 two_sew3] | cbv beta zeta delta [gen_two_unsew3 two_unsew3]]; syn_eq; reflexivity.
Qed.
End Laws.
