(** * C05, data clause for coordinates through the 3D 2-sew and 2-unsew (the programs regenerated from
    dim3/sews/two.rs): the vertex identified by the orbit minimum of the linked map carries the lawful merge of the
    former values, the former identifiers are emptied, every other coordinate slot is untouched; mirror image with
    the split law.  Holds on every store whose images are in range (in particular on every well-formed 3-map). *)
From Coq Require Import List NArith Bool Lia.
From HC Require Import Base.Closure Stm.Prog Stm.ProgFacts Stm.Atomic Map2.Ops2 Map2.State2 Map2.Wf2 Map2.Wf2Proofs
  Map2.Orbit2 Map2.Orbit2Proofs Map2.SewData Map2.SewAttr Map3.Ops3 Map3.Orbit3Proofs.
Import ListNotations.
Open Scope N_scope.
Arguments N.eqb : simpl never.

Section SewData3.
Context `{Sig}.

Definition is_vid3 (n : N) (s : store) (d i : N) : Prop :=
  exists L, orbit3 n s QVertex d = Some L /\ minof i L.

Lemma beta_set2 w l r i d :
  beta (set2 w l r) i d = if (i =? 2) && (d =? r) then l else if (i =? 2) && (d =? l) then r else beta w i d.
Proof. unfold set2. rewrite !beta_upd_beta. reflexivity. Qed.
Lemma beta_clr2 w l r i d :
  beta (clr2 w l r) i d = if (i =? 2) && (d =? r) then 0 else if (i =? 2) && (d =? l) then 0 else beta w i d.
Proof. unfold clr2. rewrite !beta_upd_beta. reflexivity. Qed.

Lemma rng3_set2 n w l r : rng3 n w -> l <> 0 -> r <> 0 -> l < n -> r < n -> rng3 n (set2 w l r).
Proof.
  intros [R0 R] Hl0 Hr0 Hl Hr. split.
  - intros i Hi. rewrite beta_set2.
    destruct (N.eqb_spec 0 r) as [Z|_]; [congruence|]. destruct (N.eqb_spec 0 l) as [Z|_]; [congruence|].
    rewrite !andb_false_r. apply R0, Hi.
  - intros i d Hi Hd. rewrite beta_set2.
    destruct ((i =? 2) && (d =? r)); [exact Hl|]. destruct ((i =? 2) && (d =? l)); [exact Hr|]. apply R; assumption.
Qed.
Lemma rng3_clr2 n w l r : rng3 n w -> 0 < n -> rng3 n (clr2 w l r).
Proof.
  intros [R0 R] Hn. split.
  - intros i Hi. rewrite beta_clr2.
    destruct ((i =? 2) && (0 =? r)); [reflexivity|]. destruct ((i =? 2) && (0 =? l)); [reflexivity|]. apply R0, Hi.
  - intros i d Hi Hd. rewrite beta_clr2.
    destruct ((i =? 2) && (d =? r)); [exact Hn|]. destruct ((i =? 2) && (d =? l)); [exact Hn|]. apply R; assumption.
Qed.
Lemma rng3_topo n w w' : rng3 n w -> topo_eq w w' -> rng3 n w'.
Proof. intros [R0 R] [Hb _]. split; intros; rewrite Hb; auto. Qed.

Lemma orbit3_topo n w w' p d : topo_eq w w' -> orbit3 n w' p d = orbit3 n w p d.
Proof.
  intros [Hb _]. unfold orbit3. destruct (policy3_ok p && (d <? n)); [|reflexivity]. unfold orbit. apply bfs_ext.
  intros x. unfold succ3. destruct p; rewrite ?Hb; try reflexivity. apply map_ext. intros i. apply Hb.
Qed.
Lemma is_vid3_topo n w w' d i : topo_eq w w' -> is_vid3 n w' d i -> is_vid3 n w d i.
Proof. intros Ht (L & EL & ML). exists L. rewrite <- (orbit3_topo n w w' QVertex d Ht). auto. Qed.

(* identifiers as the programs compute them, packaged *)
Lemma vid3_run E n c w d cnt : dom3_ok E n -> rng3 n w -> d <> 0 -> d < n ->
  exists i, run E (vertex_id3 n d) c w cnt = (Done i, w, cnt) /\ is_vid3 n w d i.
Proof.
  intros Hdom W Hd Hdn. destruct (orbit3_spec n w QVertex d W eq_refl Hd Hdn) as (L & EL & _).
  destruct (vertex_id3_orbit_min E n c w d cnt L Hdom W Hd Hdn EL) as (i & Ri & Mi).
  exists i. split; [exact Ri|exists L; auto].
Qed.
Lemma eid3_run E n c w d cnt : dom3_ok E n -> rng3 n w -> d <> 0 -> d < n ->
  exists i, run E (edge_id3 n d) c w cnt = (Done i, w, cnt).
Proof.
  intros Hdom W Hd Hdn. destruct (orbit3_spec n w QEdge d W eq_refl Hd Hdn) as (L & EL & _).
  destruct (edge_id3_orbit_min E n c w d cnt L Hdom W Hd Hdn EL) as (i & Ri & _). exists i. exact Ri.
Qed.

(** ** two_sew3 *)
Theorem two_sew3_vertex_data_left E n ks l r c w cnt w' cnt' :
  dom3_ok E n -> rng3 n w -> l <> 0 -> l < n -> r <> 0 -> r < n -> beta w 1 l = 0 -> beta w 1 r <> 0 ->
  run E (two_sew3 n ks l r) c w cnt = (Done tt, w', cnt') ->
  exists i1 i2 i',
    is_vid3 n w l i1 /\ is_vid3 n w (beta w 1 r) i2 /\ is_vid3 n (set2 w l r) l i' /\ merge_effect w w' i1 i2 i'.
Proof.
  intros Hdom W Hl0 Hln Hr0 Hrn Zl Nr Hr.
  assert (Hbn : beta w 1 r < n) by (apply W; [lia|exact Hrn]).
  unfold two_sew3 in Hr. rewrite !run_rdB3 in Hr by (apply Hdom; [lia|assumption]).
  rewrite Zl in Hr. change (0 =? 0) with true in Hr.
  destruct (N.eqb_spec (beta w 1 r) 0) as [Z|_]; [contradiction|].
  destruct (eid3_run E n c w l cnt Hdom W Hl0 Hln) as (el & Rel). rewrite run_bind, Rel in Hr.
  destruct (eid3_run E n c w r cnt Hdom W Hr0 Hrn) as (er & Rer). rewrite run_bind, Rer in Hr.
  destruct (vid3_run E n c w l cnt Hdom W Hl0 Hln) as (i1 & R1 & V1). rewrite run_bind, R1 in Hr.
  destruct (vid3_run E n c w (beta w 1 r) cnt Hdom W Nr Hbn) as (i2 & R2 & V2). rewrite run_bind, R2 in Hr.
  rewrite run_bind in Hr.
  destruct (run E (two_link_core l r) c w cnt) as [[o1 w1] cnt1] eqn:Hc.
  apply run_two_link_core in Hc. destruct o1 as [[]|e| |q]; try discriminate Hr.
  destruct Hc as (-> & ->).
  pose proof (rng3_set2 n w l r W Hl0 Hr0 Hln Hrn) as W1.
  destruct (vid3_run E n c (set2 w l r) l cnt Hdom W1 Hl0 Hln) as (i' & R' & V'). rewrite run_bind, R' in Hr.
  destruct (eid3_run E n c (set2 w l r) l cnt Hdom W1 Hl0 Hln) as (en & Ren). rewrite run_bind, Ren in Hr.
  rewrite run_bind in Hr.
  destruct (run E (vertices_merge i' i1 i2) c (set2 w l r) cnt) as [[o2 w2] cnt2] eqn:Hm.
  destruct o2 as [[]|e| |q]; try discriminate Hr.
  apply run_vertices_merge in Hm as (Hoth & Hne & Heq).
  assert (Hv : forall d, vertex w' d = vertex w2 d).
  { eapply (attrs_keep_vertices E); [|exact Hr]. apply writes_in_bind; [apply wi_merge_attributes_a|intros ?; apply wi_merge_attributes_a]. }
  exists i1, i2, i'. split; [exact V1|]. split; [exact V2|]. split; [exact V'|].
  split; [|split].
  - intros d D1 D2 D3. rewrite Hv, (Hoth d D1 D2 D3). apply vertex_set2.
  - intros Hd. destruct (Hne Hd) as (A & B & C & D). rewrite !vertex_set2 in *. rewrite !Hv. auto.
  - intros Hd. destruct (Heq Hd) as (A & B). rewrite !vertex_set2 in *. rewrite !Hv. auto.
Qed.

Theorem two_sew3_vertex_data_right E n ks l r c w cnt w' cnt' :
  dom3_ok E n -> rng3 n w -> l <> 0 -> l < n -> r <> 0 -> r < n -> beta w 1 l <> 0 -> beta w 1 r = 0 ->
  run E (two_sew3 n ks l r) c w cnt = (Done tt, w', cnt') ->
  exists i1 i2 i',
    is_vid3 n w (beta w 1 l) i1 /\ is_vid3 n w r i2 /\ is_vid3 n (set2 w l r) r i' /\ merge_effect w w' i1 i2 i'.
Proof.
  intros Hdom W Hl0 Hln Hr0 Hrn Nl Zr Hr.
  assert (Hbn : beta w 1 l < n) by (apply W; [lia|exact Hln]).
  unfold two_sew3 in Hr. rewrite !run_rdB3 in Hr by (apply Hdom; [lia|assumption]).
  rewrite Zr in Hr. change (0 =? 0) with true in Hr.
  destruct (N.eqb_spec (beta w 1 l) 0) as [Z|_]; [contradiction|].
  destruct (eid3_run E n c w l cnt Hdom W Hl0 Hln) as (el & Rel). rewrite run_bind, Rel in Hr.
  destruct (eid3_run E n c w r cnt Hdom W Hr0 Hrn) as (er & Rer). rewrite run_bind, Rer in Hr.
  destruct (vid3_run E n c w (beta w 1 l) cnt Hdom W Nl Hbn) as (i1 & R1 & V1). rewrite run_bind, R1 in Hr.
  destruct (vid3_run E n c w r cnt Hdom W Hr0 Hrn) as (i2 & R2 & V2). rewrite run_bind, R2 in Hr.
  rewrite run_bind in Hr.
  destruct (run E (two_link_core l r) c w cnt) as [[o1 w1] cnt1] eqn:Hc.
  apply run_two_link_core in Hc. destruct o1 as [[]|e| |q]; try discriminate Hr.
  destruct Hc as (-> & ->).
  pose proof (rng3_set2 n w l r W Hl0 Hr0 Hln Hrn) as W1.
  destruct (vid3_run E n c (set2 w l r) r cnt Hdom W1 Hr0 Hrn) as (i' & R' & V'). rewrite run_bind, R' in Hr.
  destruct (eid3_run E n c (set2 w l r) l cnt Hdom W1 Hl0 Hln) as (en & Ren). rewrite run_bind, Ren in Hr.
  rewrite run_bind in Hr.
  destruct (run E (vertices_merge i' i1 i2) c (set2 w l r) cnt) as [[o2 w2] cnt2] eqn:Hm.
  destruct o2 as [[]|e| |q]; try discriminate Hr.
  apply run_vertices_merge in Hm as (Hoth & Hne & Heq).
  assert (Hv : forall d, vertex w' d = vertex w2 d).
  { eapply (attrs_keep_vertices E); [|exact Hr]. apply writes_in_bind; [apply wi_merge_attributes_a|intros ?; apply wi_merge_attributes_a]. }
  exists i1, i2, i'. split; [exact V1|]. split; [exact V2|]. split; [exact V'|].
  split; [|split].
  - intros d D1 D2 D3. rewrite Hv, (Hoth d D1 D2 D3). apply vertex_set2.
  - intros Hd. destruct (Hne Hd) as (A & B & C & D). rewrite !vertex_set2 in *. rewrite !Hv. auto.
  - intros Hd. destruct (Heq Hd) as (A & B). rewrite !vertex_set2 in *. rewrite !Hv. auto.
Qed.

Theorem two_sew3_vertex_data_both E n ks l r c w cnt w' cnt' :
  dom3_ok E n -> rng3 n w -> l <> 0 -> l < n -> r <> 0 -> r < n -> beta w 1 l <> 0 -> beta w 1 r <> 0 ->
  run E (two_sew3 n ks l r) c w cnt = (Done tt, w', cnt') ->
  exists i1 i2 i3 i4 iL iR,
    is_vid3 n w l i1 /\ is_vid3 n w (beta w 1 r) i2 /\ is_vid3 n w (beta w 1 l) i3 /\ is_vid3 n w r i4 /\
    is_vid3 n (set2 w l r) l iL /\ is_vid3 n (set2 w l r) r iR /\
    exists wm, merge_effect w wm i1 i2 iL /\ merge_effect wm w' i3 i4 iR.
Proof.
  intros Hdom W Hl0 Hln Hr0 Hrn Nl Nr Hr.
  assert (Hbln : beta w 1 l < n) by (apply W; [lia|exact Hln]).
  assert (Hbrn : beta w 1 r < n) by (apply W; [lia|exact Hrn]).
  unfold two_sew3 in Hr. rewrite !run_rdB3 in Hr by (apply Hdom; [lia|assumption]).
  destruct (N.eqb_spec (beta w 1 l) 0) as [Z|_]; [contradiction|].
  destruct (N.eqb_spec (beta w 1 r) 0) as [Z|_]; [contradiction|].
  destruct (eid3_run E n c w l cnt Hdom W Hl0 Hln) as (el & Rel). rewrite run_bind, Rel in Hr.
  destruct (eid3_run E n c w r cnt Hdom W Hr0 Hrn) as (er & Rer). rewrite run_bind, Rer in Hr.
  destruct (vid3_run E n c w l cnt Hdom W Hl0 Hln) as (i1 & R1 & V1). rewrite run_bind, R1 in Hr.
  destruct (vid3_run E n c w (beta w 1 r) cnt Hdom W Nr Hbrn) as (i2 & R2 & V2). rewrite run_bind, R2 in Hr.
  destruct (vid3_run E n c w (beta w 1 l) cnt Hdom W Nl Hbln) as (i3 & R3 & V3). rewrite run_bind, R3 in Hr.
  destruct (vid3_run E n c w r cnt Hdom W Hr0 Hrn) as (i4 & R4 & V4). rewrite run_bind, R4 in Hr.
  rewrite run_bind in Hr. destruct (run E (rdV i1) c w cnt) as [[oa sa] ka] eqn:Ea.
  apply run_rdV_plain in Ea as (-> & ->). destruct oa as [lv|e| |q]; try discriminate Hr.
  rewrite run_bind in Hr. destruct (run E (rdV i2) c w cnt) as [[ob sb] kb] eqn:Eb.
  apply run_rdV_plain in Eb as (-> & ->). destruct ob as [b1rv|e| |q]; try discriminate Hr.
  rewrite run_bind in Hr. destruct (run E (rdV i3) c w cnt) as [[oc sc] kc] eqn:Ec.
  apply run_rdV_plain in Ec as (-> & ->). destruct oc as [b1lv|e| |q]; try discriminate Hr.
  rewrite run_bind in Hr. destruct (run E (rdV i4) c w cnt) as [[od sd] kd] eqn:Ed.
  apply run_rdV_plain in Ed as (-> & ->). destruct od as [rv|e| |q]; try discriminate Hr.
  rewrite run_bind in Hr.
  match type of Hr with context [run E ?p c w cnt] =>
    assert (Ho : run E p c w cnt = (Done tt, w, cnt) \/ exists e, run E p c w cnt = (Failed e, w, cnt)) end.
  { destruct lv as [a|], b1rv as [b|], b1lv as [c0|], rv as [d0|]; try (left; reflexivity).
    destruct (bad_orient a b c0 d0); [right; eexists; reflexivity|left; reflexivity]. }
  destruct Ho as [Ho|[e Ho]]; rewrite Ho in Hr; [|discriminate Hr].
  rewrite run_bind in Hr.
  destruct (run E (two_link_core l r) c w cnt) as [[o1 w1] cnt1] eqn:Hc.
  apply run_two_link_core in Hc. destruct o1 as [[]|e| |q]; try discriminate Hr.
  destruct Hc as (-> & ->).
  pose proof (rng3_set2 n w l r W Hl0 Hr0 Hln Hrn) as W1.
  destruct (vid3_run E n c (set2 w l r) l cnt Hdom W1 Hl0 Hln) as (iL & RL & VL). rewrite run_bind, RL in Hr.
  destruct (vid3_run E n c (set2 w l r) r cnt Hdom W1 Hr0 Hrn) as (iR & RR & VR). rewrite run_bind, RR in Hr.
  destruct (eid3_run E n c (set2 w l r) l cnt Hdom W1 Hl0 Hln) as (en & Ren). rewrite run_bind, Ren in Hr.
  rewrite run_bind in Hr.
  destruct (run E (vertices_merge iL i1 i2) c (set2 w l r) cnt) as [[o2 w2] cnt2] eqn:Hm1.
  destruct o2 as [[]|e| |q]; try discriminate Hr.
  apply run_vertices_merge in Hm1 as (Hoth1 & Hne1 & Heq1).
  rewrite run_bind in Hr.
  destruct (run E (vertices_merge iR i3 i4) c w2 cnt2) as [[o3 w3] cnt3] eqn:Hm2.
  destruct o3 as [[]|e| |q]; try discriminate Hr.
  apply run_vertices_merge in Hm2 as (Hoth2 & Hne2 & Heq2).
  assert (Hv : forall d, vertex w' d = vertex w3 d).
  { eapply (attrs_keep_vertices E); [|exact Hr].
    apply writes_in_bind; [apply wi_merge_attributes_a|intros ?].
    apply writes_in_bind; [apply wi_merge_attributes_a|intros ?; apply wi_merge_attributes_a]. }
  exists i1, i2, i3, i4, iL, iR.
  split; [exact V1|]. split; [exact V2|]. split; [exact V3|]. split; [exact V4|]. split; [exact VL|]. split; [exact VR|].
  exists w2. split.
  - split; [|split].
    + intros d D1 D2 D3. rewrite (Hoth1 d D1 D2 D3). apply vertex_set2.
    + intros Hd. destruct (Hne1 Hd) as (A & B & C & D). rewrite !vertex_set2 in *. auto.
    + intros Hd. destruct (Heq1 Hd) as (A & B). rewrite !vertex_set2 in *. auto.
  - split; [|split].
    + intros d D1 D2 D3. rewrite Hv. apply Hoth2; assumption.
    + intros Hd. destruct (Hne2 Hd) as (A & B & C & D). rewrite !Hv. auto.
    + intros Hd. destruct (Heq2 Hd) as (A & B). rewrite !Hv. auto.
Qed.

(** ** two_unsew3 *)
Theorem two_unsew3_vertex_data_left E n ks l c w cnt w' cnt' :
  dom3_ok E n -> rng3 n w -> l <> 0 -> l < n -> beta w 2 l <> 0 -> beta w 1 l = 0 -> beta w 1 (beta w 2 l) <> 0 ->
  run E (two_unsew3 n ks l) c w cnt = (Done tt, w', cnt') ->
  let r := beta w 2 l in let w1 := clr2 w l r in
  exists i0 il ir,
    is_vid3 n w l i0 /\ is_vid3 n w1 l il /\ is_vid3 n w1 (beta w 1 r) ir /\ split_effect w w' i0 il ir.
Proof.
  intros Hdom W Hl0 Hln N2 A1 A2 Hr r w1.
  assert (Hrn : r < n) by (apply W; [lia|exact Hln]).
  assert (Hbln : beta w 1 l < n) by (apply W; [lia|exact Hln]).
  assert (Hbrn : beta w 1 r < n) by (apply W; [lia|exact Hrn]).
  change (beta w 1 r <> 0) in A2.
  unfold two_unsew3 in Hr. rewrite run_rdB3 in Hr by (apply Hdom; [lia|exact Hln]). fold r in Hr.
  rewrite run_rdB3 in Hr by (apply Hdom; [lia|exact Hln]). rewrite run_rdB3 in Hr by (apply Hdom; [lia|exact Hrn]).
  rewrite A1 in Hr. change (0 =? 0) with true in Hr.
  destruct (N.eqb_spec (beta w 1 r) 0) as [Z|_]; [contradiction|].
  destruct (eid3_run E n c w l cnt Hdom W Hl0 Hln) as (eo & Reo). rewrite run_bind, Reo in Hr.
  destruct (vid3_run E n c w l cnt Hdom W Hl0 Hln) as (i0 & R0 & V0). rewrite run_bind, R0 in Hr.
  rewrite run_bind in Hr.
  destruct (run E (two_unlink_core l) c w cnt) as [[o1 w1'] cnt1] eqn:Hc.
  apply run_two_unlink_core in Hc. destruct o1 as [[]|e| |q]; try discriminate Hr.
  destruct Hc as (-> & ->). fold r in Hr. fold w1 in Hr.
  assert (W1 : rng3 n w1) by (apply rng3_clr2; [exact W|lia]).
  destruct (eid3_run E n c w1 l cnt Hdom W1 Hl0 Hln) as (enl & Renl). rewrite run_bind, Renl in Hr.
  destruct (eid3_run E n c w1 r cnt Hdom W1 N2 Hrn) as (enr & Renr). rewrite run_bind, Renr in Hr.
  rewrite run_bind in Hr.
  destruct (run E (split_attributes ks KEdge enl enr eo) c w1 cnt) as [[oa wa] cnta] eqn:Ha.
  destruct oa as [[]|e| |q]; try discriminate Hr.
  destruct (attrs_step E _ _ _ _ _ _ (wi_split_attributes_a ks KEdge enl enr eo) Ha) as (Hva & Hta).
  pose proof (rng3_topo n w1 wa W1 Hta) as Wa.
  assert (Hw : forall d, vertex wa d = vertex w d) by (intros d; rewrite Hva; apply vertex_clr2).
  destruct (vid3_run E n c wa l cnta Hdom Wa Hl0 Hln) as (il & Rl & Vl). rewrite run_bind, Rl in Hr.
  destruct (vid3_run E n c wa (beta w 1 r) cnta Hdom Wa A2 Hbrn) as (ir & Rr & Vr). rewrite run_bind, Rr in Hr.
  rewrite run_bind in Hr.
  destruct (run E (vertices_split il ir i0) c wa cnta) as [[o2 w2] cnt2] eqn:Hs.
  destruct o2 as [[]|e| |q]; try discriminate Hr.
  apply run_vertices_split in Hs as (Hoth & Hne & Heq).
  destruct (attrs_step E _ _ _ _ _ _ (wi_split_attributes_a ks KVertex il ir i0) Hr) as (Hv & _).
  exists i0, il, ir. split; [exact V0|].
  split; [apply (is_vid3_topo n w1 wa l il Hta); exact Vl|].
  split; [apply (is_vid3_topo n w1 wa _ ir Hta); exact Vr|].
  split; [|split].
  - intros d D1 D2 D3. rewrite Hv, (Hoth d D1 D2 D3). apply Hw.
  - intros Hd. destruct (Hne Hd) as (lv & rv & A & B & C & D). rewrite Hw in A. exists lv, rv. rewrite !Hv. auto.
  - intros Hd. destruct (Heq Hd) as (A & B). rewrite Hw in A. rewrite !Hv. auto.
Qed.

Theorem two_unsew3_vertex_data_right E n ks l c w cnt w' cnt' :
  dom3_ok E n -> rng3 n w -> l <> 0 -> l < n -> beta w 2 l <> 0 -> beta w 1 l <> 0 -> beta w 1 (beta w 2 l) = 0 ->
  run E (two_unsew3 n ks l) c w cnt = (Done tt, w', cnt') ->
  let r := beta w 2 l in let w1 := clr2 w l r in
  exists i0 il ir,
    is_vid3 n w r i0 /\ is_vid3 n w1 (beta w 1 l) il /\ is_vid3 n w1 r ir /\ split_effect w w' i0 il ir.
Proof.
  intros Hdom W Hl0 Hln N2 A1 A2 Hr r w1.
  assert (Hrn : r < n) by (apply W; [lia|exact Hln]).
  assert (Hbln : beta w 1 l < n) by (apply W; [lia|exact Hln]).
  assert (Hbrn : beta w 1 r < n) by (apply W; [lia|exact Hrn]).
  change (beta w 1 r = 0) in A2.
  unfold two_unsew3 in Hr. rewrite run_rdB3 in Hr by (apply Hdom; [lia|exact Hln]). fold r in Hr.
  rewrite run_rdB3 in Hr by (apply Hdom; [lia|exact Hln]). rewrite run_rdB3 in Hr by (apply Hdom; [lia|exact Hrn]).
  rewrite A2 in Hr. change (0 =? 0) with true in Hr.
  destruct (N.eqb_spec (beta w 1 l) 0) as [Z|_]; [contradiction|].
  destruct (eid3_run E n c w l cnt Hdom W Hl0 Hln) as (eo & Reo). rewrite run_bind, Reo in Hr.
  destruct (vid3_run E n c w r cnt Hdom W N2 Hrn) as (i0 & R0 & V0). rewrite run_bind, R0 in Hr.
  rewrite run_bind in Hr.
  destruct (run E (two_unlink_core l) c w cnt) as [[o1 w1'] cnt1] eqn:Hc.
  apply run_two_unlink_core in Hc. destruct o1 as [[]|e| |q]; try discriminate Hr.
  destruct Hc as (-> & ->). fold r in Hr. fold w1 in Hr.
  assert (W1 : rng3 n w1) by (apply rng3_clr2; [exact W|lia]).
  destruct (eid3_run E n c w1 l cnt Hdom W1 Hl0 Hln) as (enl & Renl). rewrite run_bind, Renl in Hr.
  destruct (eid3_run E n c w1 r cnt Hdom W1 N2 Hrn) as (enr & Renr). rewrite run_bind, Renr in Hr.
  rewrite run_bind in Hr.
  destruct (run E (split_attributes ks KEdge enl enr eo) c w1 cnt) as [[oa wa] cnta] eqn:Ha.
  destruct oa as [[]|e| |q]; try discriminate Hr.
  destruct (attrs_step E _ _ _ _ _ _ (wi_split_attributes_a ks KEdge enl enr eo) Ha) as (Hva & Hta).
  pose proof (rng3_topo n w1 wa W1 Hta) as Wa.
  assert (Hw : forall d, vertex wa d = vertex w d) by (intros d; rewrite Hva; apply vertex_clr2).
  destruct (vid3_run E n c wa (beta w 1 l) cnta Hdom Wa A1 Hbln) as (il & Rl & Vl). rewrite run_bind, Rl in Hr.
  destruct (vid3_run E n c wa r cnta Hdom Wa N2 Hrn) as (ir & Rr & Vr). rewrite run_bind, Rr in Hr.
  rewrite run_bind in Hr.
  destruct (run E (vertices_split il ir i0) c wa cnta) as [[o2 w2] cnt2] eqn:Hs.
  destruct o2 as [[]|e| |q]; try discriminate Hr.
  apply run_vertices_split in Hs as (Hoth & Hne & Heq).
  destruct (attrs_step E _ _ _ _ _ _ (wi_split_attributes_a ks KVertex il ir i0) Hr) as (Hv & _).
  exists i0, il, ir. split; [exact V0|].
  split; [apply (is_vid3_topo n w1 wa _ il Hta); exact Vl|].
  split; [apply (is_vid3_topo n w1 wa r ir Hta); exact Vr|].
  split; [|split].
  - intros d D1 D2 D3. rewrite Hv, (Hoth d D1 D2 D3). apply Hw.
  - intros Hd. destruct (Hne Hd) as (lv & rv & A & B & C & D). rewrite Hw in A. exists lv, rv. rewrite !Hv. auto.
  - intros Hd. destruct (Heq Hd) as (A & B). rewrite Hw in A. rewrite !Hv. auto.
Qed.

Theorem two_unsew3_vertex_data_both E n ks l c w cnt w' cnt' :
  dom3_ok E n -> rng3 n w -> l <> 0 -> l < n -> beta w 2 l <> 0 -> beta w 1 l <> 0 -> beta w 1 (beta w 2 l) <> 0 ->
  run E (two_unsew3 n ks l) c w cnt = (Done tt, w', cnt') ->
  let r := beta w 2 l in let w1 := clr2 w l r in
  exists j0 jl jr k0 kl kr,
    is_vid3 n w l j0 /\ is_vid3 n w r k0 /\
    is_vid3 n w1 l jl /\ is_vid3 n w1 (beta w 1 r) jr /\ is_vid3 n w1 (beta w 1 l) kl /\ is_vid3 n w1 r kr /\
    exists wm, split_effect w wm j0 jl jr /\ split_effect wm w' k0 kl kr.
Proof.
  intros Hdom W Hl0 Hln N2 A1 A2 Hr r w1.
  assert (Hrn : r < n) by (apply W; [lia|exact Hln]).
  assert (Hbln : beta w 1 l < n) by (apply W; [lia|exact Hln]).
  assert (Hbrn : beta w 1 r < n) by (apply W; [lia|exact Hrn]).
  change (beta w 1 r <> 0) in A2.
  unfold two_unsew3 in Hr. rewrite run_rdB3 in Hr by (apply Hdom; [lia|exact Hln]). fold r in Hr.
  rewrite run_rdB3 in Hr by (apply Hdom; [lia|exact Hln]). rewrite run_rdB3 in Hr by (apply Hdom; [lia|exact Hrn]).
  destruct (N.eqb_spec (beta w 1 l) 0) as [Z|_]; [contradiction|].
  destruct (N.eqb_spec (beta w 1 r) 0) as [Z|_]; [contradiction|].
  destruct (eid3_run E n c w l cnt Hdom W Hl0 Hln) as (eo & Reo). rewrite run_bind, Reo in Hr.
  destruct (vid3_run E n c w l cnt Hdom W Hl0 Hln) as (j0 & RJ0 & VJ0). rewrite run_bind, RJ0 in Hr.
  destruct (vid3_run E n c w r cnt Hdom W N2 Hrn) as (k0 & RK0 & VK0). rewrite run_bind, RK0 in Hr.
  rewrite run_bind in Hr.
  destruct (run E (two_unlink_core l) c w cnt) as [[o1 w1'] cnt1] eqn:Hc.
  apply run_two_unlink_core in Hc. destruct o1 as [[]|e| |q]; try discriminate Hr.
  destruct Hc as (-> & ->). fold r in Hr. fold w1 in Hr.
  assert (W1 : rng3 n w1) by (apply rng3_clr2; [exact W|lia]).
  destruct (eid3_run E n c w1 l cnt Hdom W1 Hl0 Hln) as (enl & Renl). rewrite run_bind, Renl in Hr.
  destruct (eid3_run E n c w1 r cnt Hdom W1 N2 Hrn) as (enr & Renr). rewrite run_bind, Renr in Hr.
  rewrite run_bind in Hr.
  destruct (run E (split_attributes ks KEdge enl enr eo) c w1 cnt) as [[oa wa] cnta] eqn:Ha.
  destruct oa as [[]|e| |q]; try discriminate Hr.
  destruct (attrs_step E _ _ _ _ _ _ (wi_split_attributes_a ks KEdge enl enr eo) Ha) as (Hva & Hta).
  pose proof (rng3_topo n w1 wa W1 Hta) as Wa.
  assert (Hw : forall d, vertex wa d = vertex w d) by (intros d; rewrite Hva; apply vertex_clr2).
  destruct (vid3_run E n c wa l cnta Hdom Wa Hl0 Hln) as (jl & RJL & VJL). rewrite run_bind, RJL in Hr.
  destruct (vid3_run E n c wa (beta w 1 r) cnta Hdom Wa A2 Hbrn) as (jr & RJR & VJR). rewrite run_bind, RJR in Hr.
  destruct (vid3_run E n c wa (beta w 1 l) cnta Hdom Wa A1 Hbln) as (kl & RKL & VKL). rewrite run_bind, RKL in Hr.
  destruct (vid3_run E n c wa r cnta Hdom Wa N2 Hrn) as (kr & RKR & VKR). rewrite run_bind, RKR in Hr.
  rewrite run_bind in Hr.
  destruct (run E (vertices_split jl jr j0) c wa cnta) as [[o2 w2] cnt2] eqn:Hs1.
  destruct o2 as [[]|e| |q]; try discriminate Hr.
  apply run_vertices_split in Hs1 as (Hoth1 & Hne1 & Heq1).
  rewrite run_bind in Hr.
  destruct (run E (vertices_split kl kr k0) c w2 cnt2) as [[o3 w3] cnt3] eqn:Hs2.
  destruct o3 as [[]|e| |q]; try discriminate Hr.
  apply run_vertices_split in Hs2 as (Hoth2 & Hne2 & Heq2).
  assert (Hv : forall d, vertex w' d = vertex w3 d).
  { eapply (attrs_keep_vertices E); [|exact Hr].
    apply writes_in_bind; [apply wi_split_attributes_a|intros ?; apply wi_split_attributes_a]. }
  exists j0, jl, jr, k0, kl, kr.
  split; [exact VJ0|]. split; [exact VK0|].
  split; [apply (is_vid3_topo n w1 wa l jl Hta); exact VJL|].
  split; [apply (is_vid3_topo n w1 wa _ jr Hta); exact VJR|].
  split; [apply (is_vid3_topo n w1 wa _ kl Hta); exact VKL|].
  split; [apply (is_vid3_topo n w1 wa r kr Hta); exact VKR|].
  exists w2. split.
  - split; [|split].
    + intros d D1 D2 D3. rewrite (Hoth1 d D1 D2 D3). apply Hw.
    + intros Hd. destruct (Hne1 Hd) as (lv & rv & A & B & C & D). rewrite Hw in A. exists lv, rv. auto.
    + intros Hd. destruct (Heq1 Hd) as (A & B). rewrite Hw in A. auto.
  - split; [|split].
    + intros d D1 D2 D3. rewrite Hv. apply Hoth2; assumption.
    + intros Hd. destruct (Hne2 Hd) as (lv & rv & A & B & C & D). exists lv, rv. rewrite !Hv. auto.
    + intros Hd. destruct (Heq2 Hd) as (A & B). rewrite !Hv. auto.
Qed.

(** ** the other attribute kinds (the lemmas of Map2/SewAttr.v are dimension-independent) *)
Definition is_eid3 (n : N) (s : store) (d i : N) : Prop :=
  exists L, orbit3 n s QEdge d = Some L /\ minof i L.
Lemma eid3_run' E n c w d cnt : dom3_ok E n -> rng3 n w -> d <> 0 -> d < n ->
  exists i, run E (edge_id3 n d) c w cnt = (Done i, w, cnt) /\ is_eid3 n w d i.
Proof.
  intros Hdom W Hd Hdn. destruct (orbit3_spec n w QEdge d W eq_refl Hd Hdn) as (L & EL & _).
  destruct (edge_id3_orbit_min E n c w d cnt L Hdom W Hd Hdn EL) as (i & Ri & Mi). exists i. split; [exact Ri|exists L; auto].
Qed.

Theorem two_sew3_attr_data_none E n ks l r c w cnt w' cnt' :
  dom3_ok E n -> rng3 n w -> l <> 0 -> l < n -> r <> 0 -> r < n -> beta w 1 l = 0 -> beta w 1 r = 0 -> NoDup (map fst ks) ->
  run E (two_sew3 n ks l r) c w cnt = (Done tt, w', cnt') ->
  exists el er en, is_eid3 n w l el /\ is_eid3 n w r er /\ is_eid3 n (set2 w l r) l en /\ attrs_effect ks KEdge w w' el er en.
Proof.
  intros Hdom W Hl0 Hln Hr0 Hrn A1 A2 Hks Hr.
  assert (Hbln : beta w 1 l < n) by (apply W; [lia|exact Hln]).
  assert (Hbrn : beta w 1 r < n) by (apply W; [lia|exact Hrn]).
  unfold two_sew3 in Hr. rewrite !run_rdB3 in Hr by (apply Hdom; [lia|assumption]).
  rewrite A1, A2 in Hr. change (0 =? 0) with true in Hr. cbv iota in Hr.
  destruct (eid3_run' E n c w l cnt Hdom W Hl0 Hln) as (el & Rel & Vel). rewrite run_bind, Rel in Hr.
  destruct (eid3_run' E n c w r cnt Hdom W Hr0 Hrn) as (er & Rer & Ver). rewrite run_bind, Rer in Hr.
  
  rewrite run_bind in Hr.
  destruct (run E (two_link_core l r) c w cnt) as [[o1 w1] cnt1] eqn:Hc.
  apply run_two_link_core in Hc. destruct o1 as [[]|e| |q]; try discriminate Hr.
  destruct Hc as (-> & ->).
  pose proof (rng3_set2 n w l r W Hl0 Hr0 Hln Hrn) as W1.
  destruct (eid3_run' E n c (set2 w l r) l cnt Hdom W1 Hl0 Hln) as (en & Ren & Ven). rewrite run_bind, Ren in Hr.
  exists el, er, en. split; [exact Vel|]. split; [exact Ver|]. split; [exact Ven|].
  exact (run_merge_attributes E KEdge en el er ks c (set2 w l r) cnt w' cnt' Hks Hr).
Qed.

Theorem two_sew3_attr_data_left E n ks l r c w cnt w' cnt' :
  dom3_ok E n -> rng3 n w -> l <> 0 -> l < n -> r <> 0 -> r < n -> beta w 1 l = 0 -> beta w 1 r <> 0 -> NoDup (map fst ks) ->
  run E (two_sew3 n ks l r) c w cnt = (Done tt, w', cnt') ->
  exists i1 i2 i' el er en wa,
    is_vid3 n w l i1 /\ is_vid3 n w (beta w 1 r) i2 /\ is_vid3 n (set2 w l r) l i' /\ is_eid3 n w l el /\ is_eid3 n w r er /\ is_eid3 n (set2 w l r) l en /\
    attrs_effect ks KVertex w wa i1 i2 i' /\ attrs_effect ks KEdge wa w' el er en.
Proof.
  intros Hdom W Hl0 Hln Hr0 Hrn A1 A2 Hks Hr.
  assert (Hbln : beta w 1 l < n) by (apply W; [lia|exact Hln]).
  assert (Hbrn : beta w 1 r < n) by (apply W; [lia|exact Hrn]).
  unfold two_sew3 in Hr. rewrite !run_rdB3 in Hr by (apply Hdom; [lia|assumption]).
  rewrite A1 in Hr. change (0 =? 0) with true in Hr.
  destruct (N.eqb_spec (beta w 1 r) 0) as [Z|_]; [contradiction|].
  destruct (eid3_run' E n c w l cnt Hdom W Hl0 Hln) as (el & Rel & Vel). rewrite run_bind, Rel in Hr.
  destruct (eid3_run' E n c w r cnt Hdom W Hr0 Hrn) as (er & Rer & Ver). rewrite run_bind, Rer in Hr.
  destruct (vid3_run E n c w l cnt Hdom W Hl0 Hln) as (i1 & R1 & V1). rewrite run_bind, R1 in Hr.
  destruct (vid3_run E n c w (beta w 1 r) cnt Hdom W A2 Hbrn) as (i2 & R2 & V2). rewrite run_bind, R2 in Hr.
  rewrite run_bind in Hr.
  destruct (run E (two_link_core l r) c w cnt) as [[o1 w1] cnt1] eqn:Hc.
  apply run_two_link_core in Hc. destruct o1 as [[]|e| |q]; try discriminate Hr.
  destruct Hc as (-> & ->).
  pose proof (rng3_set2 n w l r W Hl0 Hr0 Hln Hrn) as W1.
  destruct (vid3_run E n c (set2 w l r) l cnt Hdom W1 Hl0 Hln) as (i' & R' & V'). rewrite run_bind, R' in Hr.
  destruct (eid3_run' E n c (set2 w l r) l cnt Hdom W1 Hl0 Hln) as (en & Ren & Ven). rewrite run_bind, Ren in Hr.
  rewrite run_bind in Hr.
  destruct (run E (vertices_merge i' i1 i2) c (set2 w l r) cnt) as [[o2 w2] cnt2] eqn:Hm.
  destruct o2 as [[]|e| |q]; try discriminate Hr.
  pose proof (vstep_attrs E _ _ _ _ _ _ (wi_vertices_merge_v i' i1 i2) Hm) as Ha.
  rewrite run_bind in Hr.
  destruct (run E (merge_attributes ks KVertex i' i1 i2) c w2 cnt2) as [[o3 wa] cnta] eqn:Hma.
  destruct o3 as [[]|e| |q]; try discriminate Hr.
  exists i1, i2, i', el, er, en, wa. split; [exact V1|]. split; [exact V2|]. split; [exact V'|].
  split; [exact Vel|]. split; [exact Ver|]. split; [exact Ven|]. split.
  - eapply attrs_effect_ext; [|reflexivity|exact (run_merge_attributes E KVertex i' i1 i2 ks c w2 cnt2 wa cnta Hks Hma)].
    intros k d. symmetry. apply Ha.
  - exact (run_merge_attributes E KEdge en el er ks c wa cnta w' cnt' Hks Hr).
Qed.

Theorem two_sew3_attr_data_right E n ks l r c w cnt w' cnt' :
  dom3_ok E n -> rng3 n w -> l <> 0 -> l < n -> r <> 0 -> r < n -> beta w 1 l <> 0 -> beta w 1 r = 0 -> NoDup (map fst ks) ->
  run E (two_sew3 n ks l r) c w cnt = (Done tt, w', cnt') ->
  exists i1 i2 i' el er en wa,
    is_vid3 n w (beta w 1 l) i1 /\ is_vid3 n w r i2 /\ is_vid3 n (set2 w l r) r i' /\ is_eid3 n w l el /\ is_eid3 n w r er /\ is_eid3 n (set2 w l r) l en /\
    attrs_effect ks KVertex w wa i1 i2 i' /\ attrs_effect ks KEdge wa w' el er en.
Proof.
  intros Hdom W Hl0 Hln Hr0 Hrn A1 A2 Hks Hr.
  assert (Hbln : beta w 1 l < n) by (apply W; [lia|exact Hln]).
  assert (Hbrn : beta w 1 r < n) by (apply W; [lia|exact Hrn]).
  unfold two_sew3 in Hr. rewrite !run_rdB3 in Hr by (apply Hdom; [lia|assumption]).
  rewrite A2 in Hr. change (0 =? 0) with true in Hr.
  destruct (N.eqb_spec (beta w 1 l) 0) as [Z|_]; [contradiction|].
  destruct (eid3_run' E n c w l cnt Hdom W Hl0 Hln) as (el & Rel & Vel). rewrite run_bind, Rel in Hr.
  destruct (eid3_run' E n c w r cnt Hdom W Hr0 Hrn) as (er & Rer & Ver). rewrite run_bind, Rer in Hr.
  destruct (vid3_run E n c w (beta w 1 l) cnt Hdom W A1 Hbln) as (i1 & R1 & V1). rewrite run_bind, R1 in Hr.
  destruct (vid3_run E n c w r cnt Hdom W Hr0 Hrn) as (i2 & R2 & V2). rewrite run_bind, R2 in Hr.
  rewrite run_bind in Hr.
  destruct (run E (two_link_core l r) c w cnt) as [[o1 w1] cnt1] eqn:Hc.
  apply run_two_link_core in Hc. destruct o1 as [[]|e| |q]; try discriminate Hr.
  destruct Hc as (-> & ->).
  pose proof (rng3_set2 n w l r W Hl0 Hr0 Hln Hrn) as W1.
  destruct (vid3_run E n c (set2 w l r) r cnt Hdom W1 Hr0 Hrn) as (i' & R' & V'). rewrite run_bind, R' in Hr.
  destruct (eid3_run' E n c (set2 w l r) l cnt Hdom W1 Hl0 Hln) as (en & Ren & Ven). rewrite run_bind, Ren in Hr.
  rewrite run_bind in Hr.
  destruct (run E (vertices_merge i' i1 i2) c (set2 w l r) cnt) as [[o2 w2] cnt2] eqn:Hm.
  destruct o2 as [[]|e| |q]; try discriminate Hr.
  pose proof (vstep_attrs E _ _ _ _ _ _ (wi_vertices_merge_v i' i1 i2) Hm) as Ha.
  rewrite run_bind in Hr.
  destruct (run E (merge_attributes ks KVertex i' i1 i2) c w2 cnt2) as [[o3 wa] cnta] eqn:Hma.
  destruct o3 as [[]|e| |q]; try discriminate Hr.
  exists i1, i2, i', el, er, en, wa. split; [exact V1|]. split; [exact V2|]. split; [exact V'|].
  split; [exact Vel|]. split; [exact Ver|]. split; [exact Ven|]. split.
  - eapply attrs_effect_ext; [|reflexivity|exact (run_merge_attributes E KVertex i' i1 i2 ks c w2 cnt2 wa cnta Hks Hma)].
    intros k d. symmetry. apply Ha.
  - exact (run_merge_attributes E KEdge en el er ks c wa cnta w' cnt' Hks Hr).
Qed.

Theorem two_sew3_attr_data_both E n ks l r c w cnt w' cnt' :
  dom3_ok E n -> rng3 n w -> l <> 0 -> l < n -> r <> 0 -> r < n -> beta w 1 l <> 0 -> beta w 1 r <> 0 -> NoDup (map fst ks) ->
  run E (two_sew3 n ks l r) c w cnt = (Done tt, w', cnt') ->
  exists i1 i2 i3 i4 iL iR el er en wa wb,
    is_vid3 n w l i1 /\ is_vid3 n w (beta w 1 r) i2 /\ is_vid3 n w (beta w 1 l) i3 /\ is_vid3 n w r i4 /\
    is_vid3 n (set2 w l r) l iL /\ is_vid3 n (set2 w l r) r iR /\ is_eid3 n w l el /\ is_eid3 n w r er /\ is_eid3 n (set2 w l r) l en /\
    attrs_effect ks KVertex w wa i1 i2 iL /\ attrs_effect ks KVertex wa wb i3 i4 iR /\ attrs_effect ks KEdge wb w' el er en.
Proof.
  intros Hdom W Hl0 Hln Hr0 Hrn A1 A2 Hks Hr.
  assert (Hbln : beta w 1 l < n) by (apply W; [lia|exact Hln]).
  assert (Hbrn : beta w 1 r < n) by (apply W; [lia|exact Hrn]).
  unfold two_sew3 in Hr. rewrite !run_rdB3 in Hr by (apply Hdom; [lia|assumption]).
  destruct (N.eqb_spec (beta w 1 l) 0) as [Z|_]; [contradiction|].
  destruct (N.eqb_spec (beta w 1 r) 0) as [Z|_]; [contradiction|].
  destruct (eid3_run' E n c w l cnt Hdom W Hl0 Hln) as (el & Rel & Vel). rewrite run_bind, Rel in Hr.
  destruct (eid3_run' E n c w r cnt Hdom W Hr0 Hrn) as (er & Rer & Ver). rewrite run_bind, Rer in Hr.
  destruct (vid3_run E n c w l cnt Hdom W Hl0 Hln) as (i1 & R1 & V1). rewrite run_bind, R1 in Hr.
  destruct (vid3_run E n c w (beta w 1 r) cnt Hdom W A2 Hbrn) as (i2 & R2 & V2). rewrite run_bind, R2 in Hr.
  destruct (vid3_run E n c w (beta w 1 l) cnt Hdom W A1 Hbln) as (i3 & R3 & V3). rewrite run_bind, R3 in Hr.
  destruct (vid3_run E n c w r cnt Hdom W Hr0 Hrn) as (i4 & R4 & V4). rewrite run_bind, R4 in Hr.
  rewrite run_bind in Hr. destruct (run E (rdV i1) c w cnt) as [[oa sa] ka] eqn:Ea.
  apply run_rdV_plain in Ea as (-> & ->). destruct oa as [lv|e| |q]; try discriminate Hr.
  rewrite run_bind in Hr. destruct (run E (rdV i2) c w cnt) as [[ob sb] kb] eqn:Eb.
  apply run_rdV_plain in Eb as (-> & ->). destruct ob as [b1rv|e| |q]; try discriminate Hr.
  rewrite run_bind in Hr. destruct (run E (rdV i3) c w cnt) as [[oc sc] kc] eqn:Ec.
  apply run_rdV_plain in Ec as (-> & ->). destruct oc as [b1lv|e| |q]; try discriminate Hr.
  rewrite run_bind in Hr. destruct (run E (rdV i4) c w cnt) as [[od sd] kd] eqn:Ed.
  apply run_rdV_plain in Ed as (-> & ->). destruct od as [rv|e| |q]; try discriminate Hr.
  rewrite run_bind in Hr.
  match type of Hr with context [run E ?p c w cnt] =>
    assert (Ho : run E p c w cnt = (Done tt, w, cnt) \/ exists e, run E p c w cnt = (Failed e, w, cnt)) end.
  { destruct lv as [a|], b1rv as [b|], b1lv as [c0|], rv as [d0|]; try (left; reflexivity).
    destruct (bad_orient a b c0 d0); [right; eexists; reflexivity|left; reflexivity]. }
  destruct Ho as [Ho|[e Ho]]; rewrite Ho in Hr; [|discriminate Hr].
  rewrite run_bind in Hr.
  destruct (run E (two_link_core l r) c w cnt) as [[o1 w1] cnt1] eqn:Hc.
  apply run_two_link_core in Hc. destruct o1 as [[]|e| |q]; try discriminate Hr.
  destruct Hc as (-> & ->).
  pose proof (rng3_set2 n w l r W Hl0 Hr0 Hln Hrn) as W1.
  destruct (vid3_run E n c (set2 w l r) l cnt Hdom W1 Hl0 Hln) as (iL & RL & VL). rewrite run_bind, RL in Hr.
  destruct (vid3_run E n c (set2 w l r) r cnt Hdom W1 Hr0 Hrn) as (iR & RR & VR). rewrite run_bind, RR in Hr.
  destruct (eid3_run' E n c (set2 w l r) l cnt Hdom W1 Hl0 Hln) as (en & Ren & Ven). rewrite run_bind, Ren in Hr.
  rewrite run_bind in Hr.
  destruct (run E (vertices_merge iL i1 i2) c (set2 w l r) cnt) as [[o2 w2] cnt2] eqn:Hm1.
  destruct o2 as [[]|e| |q]; try discriminate Hr.
  pose proof (vstep_attrs E _ _ _ _ _ _ (wi_vertices_merge_v iL i1 i2) Hm1) as Ha1.
  rewrite run_bind in Hr.
  destruct (run E (vertices_merge iR i3 i4) c w2 cnt2) as [[o3 w3] cnt3] eqn:Hm2.
  destruct o3 as [[]|e| |q]; try discriminate Hr.
  pose proof (vstep_attrs E _ _ _ _ _ _ (wi_vertices_merge_v iR i3 i4) Hm2) as Ha2.
  rewrite run_bind in Hr.
  destruct (run E (merge_attributes ks KVertex iL i1 i2) c w3 cnt3) as [[o4 wa] cnta] eqn:Hma.
  destruct o4 as [[]|e| |q]; try discriminate Hr.
  rewrite run_bind in Hr.
  destruct (run E (merge_attributes ks KVertex iR i3 i4) c wa cnta) as [[o5 wb] cntb] eqn:Hmb.
  destruct o5 as [[]|e| |q]; try discriminate Hr.
  exists i1, i2, i3, i4, iL, iR, el, er, en, wa, wb.
  split; [exact V1|]. split; [exact V2|]. split; [exact V3|]. split; [exact V4|]. split; [exact VL|]. split; [exact VR|].
  split; [exact Vel|]. split; [exact Ver|]. split; [exact Ven|].
  split; [|split].
  - eapply attrs_effect_ext; [|reflexivity|exact (run_merge_attributes E KVertex iL i1 i2 ks c w3 cnt3 wa cnta Hks Hma)].
    intros k d. symmetry. rewrite Ha2, Ha1. reflexivity.
  - exact (run_merge_attributes E KVertex iR i3 i4 ks c wa cnta wb cntb Hks Hmb).
  - exact (run_merge_attributes E KEdge en el er ks c wb cntb w' cnt' Hks Hr).
Qed.

Theorem two_unsew3_attr_data_none E n ks l c w cnt w' cnt' :
  dom3_ok E n -> rng3 n w -> l <> 0 -> l < n -> beta w 2 l <> 0 -> beta w 1 l = 0 -> beta w 1 (beta w 2 l) = 0 -> NoDup (map fst ks) ->
  run E (two_unsew3 n ks l) c w cnt = (Done tt, w', cnt') ->
  let r := beta w 2 l in let w1 := clr2 w l r in
  exists eo enl enr, is_eid3 n w l eo /\ is_eid3 n w1 l enl /\ is_eid3 n w1 r enr /\ attrs_split_effect ks KEdge w w' enl enr eo.
Proof.
  intros Hdom W Hl0 Hln N2 A1 A2 Hks Hr r w1.
  assert (Hrn : r < n) by (apply W; [lia|exact Hln]).
  assert (Hbln : beta w 1 l < n) by (apply W; [lia|exact Hln]).
  assert (Hbrn : beta w 1 r < n) by (apply W; [lia|exact Hrn]).
  change (beta w 1 r = 0) in A2.
  unfold two_unsew3 in Hr. rewrite run_rdB3 in Hr by (apply Hdom; [lia|exact Hln]). fold r in Hr.
  rewrite run_rdB3 in Hr by (apply Hdom; [lia|exact Hln]). rewrite run_rdB3 in Hr by (apply Hdom; [lia|exact Hrn]).
  rewrite A1, A2 in Hr. change (0 =? 0) with true in Hr. cbv iota in Hr.
  destruct (eid3_run' E n c w l cnt Hdom W Hl0 Hln) as (eo & Reo & Veo). rewrite run_bind, Reo in Hr.
  
  rewrite run_bind in Hr.
  destruct (run E (two_unlink_core l) c w cnt) as [[o1 w1'] cnt1] eqn:Hc.
  apply run_two_unlink_core in Hc. destruct o1 as [[]|e| |q]; try discriminate Hr.
  destruct Hc as (-> & ->). fold r in Hr. fold w1 in Hr.
  assert (W1 : rng3 n w1) by (apply rng3_clr2; [exact W|lia]).
  destruct (eid3_run' E n c w1 l cnt Hdom W1 Hl0 Hln) as (enl & Renl & Venl). rewrite run_bind, Renl in Hr.
  destruct (eid3_run' E n c w1 r cnt Hdom W1 N2 Hrn) as (enr & Renr & Venr). rewrite run_bind, Renr in Hr.
  exists eo, enl, enr. split; [exact Veo|]. split; [exact Venl|]. split; [exact Venr|].
  exact (run_split_attributes E KEdge enl enr eo ks c w1 cnt w' cnt' Hks Hr).
Qed.

Theorem two_unsew3_attr_data_left E n ks l c w cnt w' cnt' :
  dom3_ok E n -> rng3 n w -> l <> 0 -> l < n -> beta w 2 l <> 0 -> beta w 1 l = 0 -> beta w 1 (beta w 2 l) <> 0 -> NoDup (map fst ks) ->
  run E (two_unsew3 n ks l) c w cnt = (Done tt, w', cnt') ->
  let r := beta w 2 l in let w1 := clr2 w l r in
  exists eo enl enr i0 il ir wa,
    is_eid3 n w l eo /\ is_eid3 n w1 l enl /\ is_eid3 n w1 r enr /\ is_vid3 n w l i0 /\ is_vid3 n w1 l il /\ is_vid3 n w1 (beta w 1 r) ir /\
    attrs_split_effect ks KEdge w wa enl enr eo /\ attrs_split_effect ks KVertex wa w' il ir i0.
Proof.
  intros Hdom W Hl0 Hln N2 A1 A2 Hks Hr r w1.
  assert (Hrn : r < n) by (apply W; [lia|exact Hln]).
  assert (Hbln : beta w 1 l < n) by (apply W; [lia|exact Hln]).
  assert (Hbrn : beta w 1 r < n) by (apply W; [lia|exact Hrn]).
  change (beta w 1 r <> 0) in A2.
  unfold two_unsew3 in Hr. rewrite run_rdB3 in Hr by (apply Hdom; [lia|exact Hln]). fold r in Hr.
  rewrite run_rdB3 in Hr by (apply Hdom; [lia|exact Hln]). rewrite run_rdB3 in Hr by (apply Hdom; [lia|exact Hrn]).
  rewrite A1 in Hr. change (0 =? 0) with true in Hr.
  destruct (N.eqb_spec (beta w 1 r) 0) as [Z|_]; [contradiction|].
  destruct (eid3_run' E n c w l cnt Hdom W Hl0 Hln) as (eo & Reo & Veo). rewrite run_bind, Reo in Hr.
  destruct (vid3_run E n c w l cnt Hdom W Hl0 Hln) as (i0 & R0 & V0). rewrite run_bind, R0 in Hr.
  rewrite run_bind in Hr.
  destruct (run E (two_unlink_core l) c w cnt) as [[o1 w1'] cnt1] eqn:Hc.
  apply run_two_unlink_core in Hc. destruct o1 as [[]|e| |q]; try discriminate Hr.
  destruct Hc as (-> & ->). fold r in Hr. fold w1 in Hr.
  assert (W1 : rng3 n w1) by (apply rng3_clr2; [exact W|lia]).
  destruct (eid3_run' E n c w1 l cnt Hdom W1 Hl0 Hln) as (enl & Renl & Venl). rewrite run_bind, Renl in Hr.
  destruct (eid3_run' E n c w1 r cnt Hdom W1 N2 Hrn) as (enr & Renr & Venr). rewrite run_bind, Renr in Hr.
  rewrite run_bind in Hr.
  destruct (run E (split_attributes ks KEdge enl enr eo) c w1 cnt) as [[oa wa] cnta] eqn:Ha.
  destruct oa as [[]|e| |q]; try discriminate Hr.
  destruct (attrs_step E _ _ _ _ _ _ (wi_split_attributes_a ks KEdge enl enr eo) Ha) as (_ & Hta).
  pose proof (rng3_topo n w1 wa W1 Hta) as Wa.
  pose proof (run_split_attributes E KEdge enl enr eo ks c w1 cnt wa cnta Hks Ha) as EffE.
  destruct (vid3_run E n c wa l cnta Hdom Wa Hl0 Hln) as (il & Rl & Vl). rewrite run_bind, Rl in Hr.
  destruct (vid3_run E n c wa (beta w 1 r) cnta Hdom Wa A2 Hbrn) as (ir & Rr & Vr). rewrite run_bind, Rr in Hr.
  rewrite run_bind in Hr.
  destruct (run E (vertices_split il ir i0) c wa cnta) as [[o2 w2] cnt2] eqn:Hs.
  destruct o2 as [[]|e| |q]; try discriminate Hr.
  pose proof (vstep_attrs E _ _ _ _ _ _ (wi_vertices_split_v il ir i0) Hs) as Hav.
  exists eo, enl, enr, i0, il, ir, wa. split; [exact Veo|]. split; [exact Venl|]. split; [exact Venr|]. split; [exact V0|].
  split; [apply (is_vid3_topo n w1 wa _ il Hta); exact Vl|].
  split; [apply (is_vid3_topo n w1 wa _ ir Hta); exact Vr|].
  split; [exact EffE|].
  eapply attrs_split_effect_ext; [|reflexivity|exact (run_split_attributes E KVertex il ir i0 ks c w2 cnt2 w' cnt' Hks Hr)].
  intros k d. symmetry. apply Hav.
Qed.

Theorem two_unsew3_attr_data_right E n ks l c w cnt w' cnt' :
  dom3_ok E n -> rng3 n w -> l <> 0 -> l < n -> beta w 2 l <> 0 -> beta w 1 l <> 0 -> beta w 1 (beta w 2 l) = 0 -> NoDup (map fst ks) ->
  run E (two_unsew3 n ks l) c w cnt = (Done tt, w', cnt') ->
  let r := beta w 2 l in let w1 := clr2 w l r in
  exists eo enl enr i0 il ir wa,
    is_eid3 n w l eo /\ is_eid3 n w1 l enl /\ is_eid3 n w1 r enr /\ is_vid3 n w r i0 /\ is_vid3 n w1 (beta w 1 l) il /\ is_vid3 n w1 r ir /\
    attrs_split_effect ks KEdge w wa enl enr eo /\ attrs_split_effect ks KVertex wa w' il ir i0.
Proof.
  intros Hdom W Hl0 Hln N2 A1 A2 Hks Hr r w1.
  assert (Hrn : r < n) by (apply W; [lia|exact Hln]).
  assert (Hbln : beta w 1 l < n) by (apply W; [lia|exact Hln]).
  assert (Hbrn : beta w 1 r < n) by (apply W; [lia|exact Hrn]).
  change (beta w 1 r = 0) in A2.
  unfold two_unsew3 in Hr. rewrite run_rdB3 in Hr by (apply Hdom; [lia|exact Hln]). fold r in Hr.
  rewrite run_rdB3 in Hr by (apply Hdom; [lia|exact Hln]). rewrite run_rdB3 in Hr by (apply Hdom; [lia|exact Hrn]).
  rewrite A2 in Hr. change (0 =? 0) with true in Hr.
  destruct (N.eqb_spec (beta w 1 l) 0) as [Z|_]; [contradiction|].
  destruct (eid3_run' E n c w l cnt Hdom W Hl0 Hln) as (eo & Reo & Veo). rewrite run_bind, Reo in Hr.
  destruct (vid3_run E n c w r cnt Hdom W N2 Hrn) as (i0 & R0 & V0). rewrite run_bind, R0 in Hr.
  rewrite run_bind in Hr.
  destruct (run E (two_unlink_core l) c w cnt) as [[o1 w1'] cnt1] eqn:Hc.
  apply run_two_unlink_core in Hc. destruct o1 as [[]|e| |q]; try discriminate Hr.
  destruct Hc as (-> & ->). fold r in Hr. fold w1 in Hr.
  assert (W1 : rng3 n w1) by (apply rng3_clr2; [exact W|lia]).
  destruct (eid3_run' E n c w1 l cnt Hdom W1 Hl0 Hln) as (enl & Renl & Venl). rewrite run_bind, Renl in Hr.
  destruct (eid3_run' E n c w1 r cnt Hdom W1 N2 Hrn) as (enr & Renr & Venr). rewrite run_bind, Renr in Hr.
  rewrite run_bind in Hr.
  destruct (run E (split_attributes ks KEdge enl enr eo) c w1 cnt) as [[oa wa] cnta] eqn:Ha.
  destruct oa as [[]|e| |q]; try discriminate Hr.
  destruct (attrs_step E _ _ _ _ _ _ (wi_split_attributes_a ks KEdge enl enr eo) Ha) as (_ & Hta).
  pose proof (rng3_topo n w1 wa W1 Hta) as Wa.
  pose proof (run_split_attributes E KEdge enl enr eo ks c w1 cnt wa cnta Hks Ha) as EffE.
  destruct (vid3_run E n c wa (beta w 1 l) cnta Hdom Wa A1 Hbln) as (il & Rl & Vl). rewrite run_bind, Rl in Hr.
  destruct (vid3_run E n c wa r cnta Hdom Wa N2 Hrn) as (ir & Rr & Vr). rewrite run_bind, Rr in Hr.
  rewrite run_bind in Hr.
  destruct (run E (vertices_split il ir i0) c wa cnta) as [[o2 w2] cnt2] eqn:Hs.
  destruct o2 as [[]|e| |q]; try discriminate Hr.
  pose proof (vstep_attrs E _ _ _ _ _ _ (wi_vertices_split_v il ir i0) Hs) as Hav.
  exists eo, enl, enr, i0, il, ir, wa. split; [exact Veo|]. split; [exact Venl|]. split; [exact Venr|]. split; [exact V0|].
  split; [apply (is_vid3_topo n w1 wa _ il Hta); exact Vl|].
  split; [apply (is_vid3_topo n w1 wa _ ir Hta); exact Vr|].
  split; [exact EffE|].
  eapply attrs_split_effect_ext; [|reflexivity|exact (run_split_attributes E KVertex il ir i0 ks c w2 cnt2 w' cnt' Hks Hr)].
  intros k d. symmetry. apply Hav.
Qed.

Theorem two_unsew3_attr_data_both E n ks l c w cnt w' cnt' :
  dom3_ok E n -> rng3 n w -> l <> 0 -> l < n -> beta w 2 l <> 0 -> beta w 1 l <> 0 -> beta w 1 (beta w 2 l) <> 0 -> NoDup (map fst ks) ->
  run E (two_unsew3 n ks l) c w cnt = (Done tt, w', cnt') ->
  let r := beta w 2 l in let w1 := clr2 w l r in
  exists eo enl enr j0 jl jr k0 kl kr wa wb,
    is_eid3 n w l eo /\ is_eid3 n w1 l enl /\ is_eid3 n w1 r enr /\ is_vid3 n w l j0 /\ is_vid3 n w r k0 /\
    is_vid3 n w1 l jl /\ is_vid3 n w1 (beta w 1 r) jr /\ is_vid3 n w1 (beta w 1 l) kl /\ is_vid3 n w1 r kr /\
    attrs_split_effect ks KEdge w wa enl enr eo /\ attrs_split_effect ks KVertex wa wb jl jr j0 /\ attrs_split_effect ks KVertex wb w' kl kr k0.
Proof.
  intros Hdom W Hl0 Hln N2 A1 A2 Hks Hr r w1.
  assert (Hrn : r < n) by (apply W; [lia|exact Hln]).
  assert (Hbln : beta w 1 l < n) by (apply W; [lia|exact Hln]).
  assert (Hbrn : beta w 1 r < n) by (apply W; [lia|exact Hrn]).
  change (beta w 1 r <> 0) in A2.
  unfold two_unsew3 in Hr. rewrite run_rdB3 in Hr by (apply Hdom; [lia|exact Hln]). fold r in Hr.
  rewrite run_rdB3 in Hr by (apply Hdom; [lia|exact Hln]). rewrite run_rdB3 in Hr by (apply Hdom; [lia|exact Hrn]).
  destruct (N.eqb_spec (beta w 1 l) 0) as [Z|_]; [contradiction|].
  destruct (N.eqb_spec (beta w 1 r) 0) as [Z|_]; [contradiction|].
  destruct (eid3_run' E n c w l cnt Hdom W Hl0 Hln) as (eo & Reo & Veo). rewrite run_bind, Reo in Hr.
  destruct (vid3_run E n c w l cnt Hdom W Hl0 Hln) as (j0 & RJ0 & VJ0). rewrite run_bind, RJ0 in Hr.
  destruct (vid3_run E n c w r cnt Hdom W N2 Hrn) as (k0 & RK0 & VK0). rewrite run_bind, RK0 in Hr.
  rewrite run_bind in Hr.
  destruct (run E (two_unlink_core l) c w cnt) as [[o1 w1'] cnt1] eqn:Hc.
  apply run_two_unlink_core in Hc. destruct o1 as [[]|e| |q]; try discriminate Hr.
  destruct Hc as (-> & ->). fold r in Hr. fold w1 in Hr.
  assert (W1 : rng3 n w1) by (apply rng3_clr2; [exact W|lia]).
  destruct (eid3_run' E n c w1 l cnt Hdom W1 Hl0 Hln) as (enl & Renl & Venl). rewrite run_bind, Renl in Hr.
  destruct (eid3_run' E n c w1 r cnt Hdom W1 N2 Hrn) as (enr & Renr & Venr). rewrite run_bind, Renr in Hr.
  rewrite run_bind in Hr.
  destruct (run E (split_attributes ks KEdge enl enr eo) c w1 cnt) as [[oa wa] cnta] eqn:Ha.
  destruct oa as [[]|e| |q]; try discriminate Hr.
  destruct (attrs_step E _ _ _ _ _ _ (wi_split_attributes_a ks KEdge enl enr eo) Ha) as (_ & Hta).
  pose proof (rng3_topo n w1 wa W1 Hta) as Wa.
  pose proof (run_split_attributes E KEdge enl enr eo ks c w1 cnt wa cnta Hks Ha) as EffE.
  destruct (vid3_run E n c wa l cnta Hdom Wa Hl0 Hln) as (jl & RJL & VJL). rewrite run_bind, RJL in Hr.
  destruct (vid3_run E n c wa (beta w 1 r) cnta Hdom Wa A2 Hbrn) as (jr & RJR & VJR). rewrite run_bind, RJR in Hr.
  destruct (vid3_run E n c wa (beta w 1 l) cnta Hdom Wa A1 Hbln) as (kl & RKL & VKL). rewrite run_bind, RKL in Hr.
  destruct (vid3_run E n c wa r cnta Hdom Wa N2 Hrn) as (kr & RKR & VKR). rewrite run_bind, RKR in Hr.
  rewrite run_bind in Hr.
  destruct (run E (vertices_split jl jr j0) c wa cnta) as [[o2 w2] cnt2] eqn:Hs1.
  destruct o2 as [[]|e| |q]; try discriminate Hr.
  pose proof (vstep_attrs E _ _ _ _ _ _ (wi_vertices_split_v jl jr j0) Hs1) as Hav1.
  rewrite run_bind in Hr.
  destruct (run E (vertices_split kl kr k0) c w2 cnt2) as [[o3 w3] cnt3] eqn:Hs2.
  destruct o3 as [[]|e| |q]; try discriminate Hr.
  pose proof (vstep_attrs E _ _ _ _ _ _ (wi_vertices_split_v kl kr k0) Hs2) as Hav2.
  rewrite run_bind in Hr.
  destruct (run E (split_attributes ks KVertex jl jr j0) c w3 cnt3) as [[ob wb] cntb] eqn:Hb.
  destruct ob as [[]|e| |q]; try discriminate Hr.
  exists eo, enl, enr, j0, jl, jr, k0, kl, kr, wa, wb.
  split; [exact Veo|]. split; [exact Venl|]. split; [exact Venr|]. split; [exact VJ0|]. split; [exact VK0|].
  split; [apply (is_vid3_topo n w1 wa l jl Hta); exact VJL|].
  split; [apply (is_vid3_topo n w1 wa _ jr Hta); exact VJR|].
  split; [apply (is_vid3_topo n w1 wa _ kl Hta); exact VKL|].
  split; [apply (is_vid3_topo n w1 wa r kr Hta); exact VKR|].
  split; [exact EffE|]. split.
  - eapply attrs_split_effect_ext; [|reflexivity|exact (run_split_attributes E KVertex jl jr j0 ks c w3 cnt3 wb cntb Hks Hb)].
    intros k d. symmetry. rewrite Hav2, Hav1. reflexivity.
  - exact (run_split_attributes E KVertex kl kr k0 ks c wb cntb w' cnt' Hks Hr).
Qed.

End SewData3.
