(** * Well-formedness of 3-maps (property C02) and its boolean twin. Definitions only. *)
From Coq Require Import List NArith Bool.
From HC Require Import Stm.Prog Map2.Ops2 Map2.State2 Map2.Wf2 Map3.Ops3.
Import ListNotations.
Open Scope N_scope.

Section Wf3.
Context `{Sig}.

Record wf3 (n : N) (s : store) : Prop := {
  null_inert3  : forall i, i < 4 -> beta s i 0 = 0;
  in_range3    : forall i d, i < 4 -> d < n -> beta s i d < n;
  b1_then_b0_3 : forall d, d < n -> beta s 1 d <> 0 -> beta s 0 (beta s 1 d) = d;
  b0_then_b1_3 : forall d, d < n -> beta s 0 d <> 0 -> beta s 1 (beta s 0 d) = d;
  b2_invol3    : forall d, d < n -> beta s 2 d <> 0 -> beta s 2 (beta s 2 d) = d /\ beta s 2 d <> d;
  b3_invol3    : forall d, d < n -> beta s 3 d <> 0 -> beta s 3 (beta s 3 d) = d /\ beta s 3 d <> d;
  (* faces glued through beta3 mirror each other *)
  mirror3      : forall d, d < n -> let t := beta s 1 d in
                   t <> 0 -> beta s 3 d <> 0 -> beta s 3 t <> 0 -> beta s 1 (beta s 3 t) = beta s 3 d;
  unused_free3 : forall d, d < n -> unused s d = true -> forall i, i < 4 -> beta s i d = 0
}.

Definition wf3b (n : N) (s : store) : bool :=
  (0 <? n) &&
  forallb (fun i => beta s i 0 =? 0) [0; 1; 2; 3] &&
  forallb (fun d =>
    forallb (fun i => beta s i d <? n) [0; 1; 2; 3] &&
    ((beta s 1 d =? 0) || (beta s 0 (beta s 1 d) =? d)) &&
    ((beta s 0 d =? 0) || (beta s 1 (beta s 0 d) =? d)) &&
    ((beta s 2 d =? 0) || ((beta s 2 (beta s 2 d) =? d) && negb (beta s 2 d =? d))) &&
    ((beta s 3 d =? 0) || ((beta s 3 (beta s 3 d) =? d) && negb (beta s 3 d =? d))) &&
    (let t := beta s 1 d in
     (t =? 0) || (beta s 3 d =? 0) || (beta s 3 t =? 0) || (beta s 1 (beta s 3 t) =? beta s 3 d)) &&
    (negb (unused s d) || forallb (fun i => beta s i d =? 0) [0; 1; 2; 3]))
  (nrange n).

Definition okd3 (n : N) (s : store) (d : N) : bool := negb (d =? 0) && (d <? n) && negb (unused s d).

Definition pre_call3b (n : N) (s : store) (c : call3) : bool :=
  match c with
  | L1 l r | S1 l r => okd3 n s l && okd3 n s r
  | L2 l r | S2 l r | L3 l r | S3 l r => okd3 n s l && okd3 n s r && negb (l =? r)
  | U1 l | U2 l | U3 l | X1 l | X2 l | X3 l => okd3 n s l
  | WV _ _ | RV _ | WA _ _ _ | RA _ _ => true
  | RD d => negb (d =? 0) && (d <? n) && is_free3 s d
  end.

(** the faces of [l] and [r] can be mirrored onto each other: both closed with as many sides,
    or both open with equally long chains before and after the darts *)
Fixpoint walk_len (s : store) (i : N) (fuel : nat) (start d : N) (acc : N) : option N * N :=
  (* Some k: came back to [start] after k steps (closed); (None, k): reached the null dart after k steps *)
  match fuel with
  | O => (None, acc)
  | S f =>
    let x := beta s i d in
    if x =? 0 then (None, acc)
    else if x =? start then (Some (acc + 1), acc + 1)
    else walk_len s i f start x (acc + 1)
  end.

Definition mirrorable (n : N) (s : store) (l r : N) : bool :=
  let fuel := N.to_nat n in
  match walk_len s 1 fuel l l 0, walk_len s 0 fuel r r 0 with
  | (Some kl, _), (Some kr, _) => kl =? kr
  | (None, fl), (None, fr) =>
    (fl =? fr) &&
    (match walk_len s 0 fuel l l 0, walk_len s 1 fuel r r 0 with
     | (None, bl), (None, br) => bl =? br
     | _, _ => false
     end)
  | _, _ => false
  end.

End Wf3.
