(** * The boolean twin [wf3b] decides [wf3] (it is the oracle applied to implementation dumps of 3-maps). *)
From Coq Require Import List NArith Bool Lia.
From HC Require Import Stm.Prog Stm.ProgFacts Map2.Ops2 Map2.State2 Map2.Wf2 Map2.Wf2Dec Map3.Ops3 Map3.Wf3.
Import ListNotations.
Open Scope N_scope.

Section Dec3.
Context `{Sig}.

Lemma forall_lt4 (P : N -> Prop) : (forall i, i < 4 -> P i) <-> P 0 /\ P 1 /\ P 2 /\ P 3.
Proof.
  split; [intros HP; repeat split; apply HP; lia|].
  intros (P0 & P1 & P2 & P3) i Hi. assert (Hc : i = 0 \/ i = 1 \/ i = 2 \/ i = 3) by lia.
  destruct Hc as [->|[->|[->| ->]]]; assumption.
Qed.

Theorem wf3b_spec n s : wf3b n s = true <-> 0 < n /\ wf3 n s.
Proof.
  unfold wf3b. cbn [forallb]. rewrite !andb_true_iff, N.ltb_lt, forallb_forall, !N.eqb_eq. split.
  - intros ((Hn & (Z0 & Z1 & Z2 & Z3 & _)) & Hall). split; [exact Hn|].
    assert (Hd : forall d, d < n ->
      (beta s 0 d < n /\ beta s 1 d < n /\ beta s 2 d < n /\ beta s 3 d < n) /\
      (beta s 1 d <> 0 -> beta s 0 (beta s 1 d) = d) /\
      (beta s 0 d <> 0 -> beta s 1 (beta s 0 d) = d) /\
      (beta s 2 d <> 0 -> beta s 2 (beta s 2 d) = d /\ beta s 2 d <> d) /\
      (beta s 3 d <> 0 -> beta s 3 (beta s 3 d) = d /\ beta s 3 d <> d) /\
      (beta s 1 d <> 0 -> beta s 3 d <> 0 -> beta s 3 (beta s 1 d) <> 0 -> beta s 1 (beta s 3 (beta s 1 d)) = beta s 3 d) /\
      (unused s d = true -> beta s 0 d = 0 /\ beta s 1 d = 0 /\ beta s 2 d = 0 /\ beta s 3 d = 0)).
    { intros d Hd. apply in_nrange in Hd. specialize (Hall d Hd).
      cbn [forallb] in Hall.
      rewrite !andb_true_iff, !orb_true_iff, !andb_true_iff, !N.ltb_lt, !N.eqb_eq,
        !negb_true_iff, !N.eqb_neq in Hall.
      destruct Hall as (((((((R0 & R1 & R2 & R3 & _) & A) & B) & C) & D) & M) & U).
      repeat split; try assumption.
      - intros Hne. destruct A; [contradiction|assumption].
      - intros Hne. destruct B; [contradiction|assumption].
      - destruct C as [C|C]; [contradiction|tauto].
      - destruct C as [C|C]; [contradiction|tauto].
      - destruct D as [D|D]; [contradiction|tauto].
      - destruct D as [D|D]; [contradiction|tauto].
      - intros H1 H3 H31. destruct M as [[[M|M]|M]|M]; [contradiction|contradiction|contradiction|exact M].
      - destruct U as [U|U]; [congruence|tauto].
      - destruct U as [U|U]; [congruence|tauto].
      - destruct U as [U|U]; [congruence|tauto].
      - destruct U as [U|U]; [congruence|tauto]. }
    constructor.
    + apply forall_lt4. auto.
    + intros i d Hi Hdn. destruct (Hd d Hdn) as ((R0 & R1 & R2 & R3) & _).
      revert i Hi. apply forall_lt4. auto.
    + intros d Hdn. apply (Hd d Hdn).
    + intros d Hdn. apply (Hd d Hdn).
    + intros d Hdn. apply (Hd d Hdn).
    + intros d Hdn. apply (Hd d Hdn).
    + intros d Hdn t Ht H3 H3t. apply (Hd d Hdn); assumption.
    + intros d Hdn Hu. destruct (Hd d Hdn) as (_ & _ & _ & _ & _ & _ & U). specialize (U Hu).
      apply forall_lt4. tauto.
  - intros (Hn & [W1 W2 W3 W4 W5 W5' W6 W7]). split.
    + split; [exact Hn|]. repeat split; apply W1; lia.
    + intros d Hd. apply in_nrange in Hd. cbn [forallb].
      rewrite !andb_true_iff, !orb_true_iff, !andb_true_iff, !N.ltb_lt, !N.eqb_eq,
        !negb_true_iff, !N.eqb_neq.
      repeat split; try (apply W2; lia).
      * destruct (N.eq_dec (beta s 1 d) 0); [left; assumption | right; apply W3; assumption].
      * destruct (N.eq_dec (beta s 0 d) 0); [left; assumption | right; apply W4; assumption].
      * destruct (N.eq_dec (beta s 2 d) 0); [left; assumption | right; apply W5; assumption].
      * destruct (N.eq_dec (beta s 3 d) 0); [left; assumption | right; apply W5'; assumption].
      * destruct (N.eq_dec (beta s 1 d) 0) as [E1|E1]; [left; left; left; exact E1|].
        destruct (N.eq_dec (beta s 3 d) 0) as [E3|E3]; [left; left; right; exact E3|].
        destruct (N.eq_dec (beta s 3 (beta s 1 d)) 0) as [E31|E31]; [left; right; exact E31|].
        right. apply (W6 d Hd); assumption.
      * destruct (unused s d) eqn:Eu; [right | left; reflexivity].
        repeat split; apply W7; auto; lia.
Qed.

End Dec3.
