(** * C02, the part that is proved: the 3-map invariant is preserved by allocation, slot reuse, removal, every
    transaction whose program only writes data (coordinates, attributes), and by EVERY public step that does not
    report success (a refused or crashed request publishes nothing).  Preservation by successful links / sews
    (the lock-step face walks of the 3-link in particular) is not proved: it is decided per observation by the
    oracle wf3b, which [Wf3Dec.wf3b_spec] shows to be exactly wf3. *)
From Coq Require Import List NArith Bool Lia.
From HC Require Import Stm.Prog Stm.ProgFacts Stm.Atomic Map2.Ops2 Map2.State2 Map2.Wf2 Map2.Wf2Proofs
  Map3.Ops3 Map3.Wf3.
Import ListNotations.
Open Scope N_scope.
Arguments N.add : simpl never. Arguments N.eqb : simpl never. Arguments N.ltb : simpl never. Arguments N.leb : simpl never.

Section Proofs3.
Context `{Sig}.

Definition fresh_above3 (st : state2) : Prop :=
  forall v, dom3 (nd st) (aks st) v = false -> mem st v = blank v.
Definition inv3 (st : state2) : Prop := 0 < nd st /\ wf3 (nd st) (mem st) /\ fresh_above3 st.

Lemma wf3_ext n w w' : wf3 n w -> topo_eq w w' -> wf3 n w'.
Proof.
  intros [W1 W2 W3 W4 W5 W6 W7 W8] [Hb Hu].
  constructor.
  - intros; rewrite Hb; auto.
  - intros; rewrite Hb; auto.
  - intros d Hd; rewrite !Hb; auto.
  - intros d Hd; rewrite !Hb; auto.
  - intros d Hd; rewrite !Hb; auto.
  - intros d Hd; rewrite !Hb; auto.
  - intros d Hd; cbv zeta; rewrite !Hb; apply (W7 d Hd).
  - intros d Hd Hun i Hi; rewrite Hb; rewrite Hu in Hun; auto.
Qed.

Lemma dom3_mono n k ks v : dom3 n ks v = true -> dom3 (n + k) ks v = true.
Proof. destruct v; cbn; rewrite ?andb_true_iff, ?N.ltb_lt, ?N.leb_le; intuition lia. Qed.

Lemma fresh_beta3 st i d : fresh_above3 st -> nd st <= d -> beta (mem st) i d = 0.
Proof.
  intros Hf Hd. unfold beta. rewrite Hf; [reflexivity|]. cbn.
  apply andb_false_iff. right. apply N.ltb_ge. exact Hd.
Qed.
Lemma fresh_unused3 st d : fresh_above3 st -> nd st <= d -> unused (mem st) d = false.
Proof. intros Hf Hd. unfold unused. rewrite Hf; [reflexivity|]. cbn. apply N.ltb_ge. exact Hd. Qed.

Lemma inv3_add st k : inv3 st -> inv3 (snd (add_free_darts st k)).
Proof.
  intros (Hpos & [W1 W2 W3 W4 W5 W6 W7 W8] & Hf). unfold add_free_darts; cbn [snd]. unfold inv3; cbn [nd mem aks].
  split; [lia|]. split.
  - assert (B : forall i d, nd st <= d -> beta (mem st) i d = 0) by (intros; now apply fresh_beta3).
    assert (U : forall d, nd st <= d -> unused (mem st) d = false) by (intros; now apply fresh_unused3).
    constructor; auto.
    + intros i d Hi Hd. destruct (N.lt_ge_cases d (nd st)) as [Hlt|Hge].
      * specialize (W2 i d Hi Hlt). lia.
      * rewrite B by exact Hge. lia.
    + intros d Hd Hne. destruct (N.lt_ge_cases d (nd st)); [auto|]. rewrite B in Hne by auto. congruence.
    + intros d Hd Hne. destruct (N.lt_ge_cases d (nd st)); [auto|]. rewrite B in Hne by auto. congruence.
    + intros d Hd Hne. destruct (N.lt_ge_cases d (nd st)); [auto|]. rewrite B in Hne by auto. congruence.
    + intros d Hd Hne. destruct (N.lt_ge_cases d (nd st)); [auto|]. rewrite B in Hne by auto. congruence.
    + intros d Hd. cbv zeta. intros Ht H3 H3t. destruct (N.lt_ge_cases d (nd st)); [apply (W7 d); auto|].
      rewrite B in Ht by auto. congruence.
    + intros d Hd Hu. destruct (N.lt_ge_cases d (nd st)); [auto|]. rewrite U in Hu by auto. discriminate.
  - intros v Hv. apply Hf. destruct (dom3 (nd st) (aks st) v) eqn:Ed; [|reflexivity].
    apply dom3_mono with (k := k) in Ed. cbn in Hv. congruence.
Qed.

Lemma wf3_set_unused n w d b :
  wf3 n w -> (b = true -> is_free3 w d = true) -> wf3 n (upd w (XUnused d) (VB b)).
Proof.
  intros [W1 W2 W3 W4 W5 W6 W7 W8] Hb.
  assert (Hbeta : forall i e, beta (upd w (XUnused d) (VB b)) i e = beta w i e)
    by (intros; apply beta_upd_other; intros; discriminate).
  constructor.
  1-6: intros; rewrite ?Hbeta in *; auto.
  - intros d0 Hd0. cbv zeta. rewrite !Hbeta. apply (W7 d0 Hd0).
  - intros d0 H0 H1 i H2. rewrite Hbeta.
    rewrite unused_upd_unused in *. destruct (N.eqb_spec d0 d) as [->|Hne]; [|eauto].
    specialize (Hb H1). unfold is_free3 in Hb.
    apply andb_prop in Hb as [Hb H3']. apply andb_prop in Hb as [Hb H2']. apply andb_prop in Hb as [H0' H1'].
    apply N.eqb_eq in H0', H1', H2', H3'.
    assert (Hi : i = 0 \/ i = 1 \/ i = 2 \/ i = 3) by lia. destruct Hi as [->|[->|[->| ->]]]; auto.
Qed.

Lemma fresh_upd3 st v x :
  fresh_above3 st -> dom3 (nd st) (aks st) v = true -> fresh_above3 (with_mem st (upd (mem st) v x)).
Proof. intros Hf Hv u Hu. cbn in *. rewrite upd_other; [auto|]. intros ->. congruence. Qed.

Lemma inv3_insert st : inv3 st -> inv3 (snd (insert_free_dart st)).
Proof.
  intros Hinv. unfold insert_free_dart.
  destruct (find_unused (mem st) 0 (N.to_nat (nd st))) as [d|] eqn:Ef; [|now apply inv3_add].
  apply find_unused_lt in Ef as [Hd Hu]. rewrite N2Nat.id in Hd. cbn in Hd.
  destruct Hinv as (Hpos & W & Hf). cbn [snd]. split; [exact Hpos|]. split.
  - cbn [nd mem with_mem]. apply wf3_set_unused; auto. discriminate.
  - apply fresh_upd3; auto. cbn. now apply N.ltb_lt.
Qed.

Lemma inv3_remove st d : inv3 st -> inv3 (snd (remove_free_dart3 st d)).
Proof.
  intros Hinv. unfold remove_free_dart3.
  destruct (N.ltb_spec d (nd st)) as [Hd|Hd]; cbn [negb]; [|exact Hinv].
  destruct (is_free3 (mem st) d) eqn:Efree; cbn [negb]; [|exact Hinv].
  assert (Hinv' : inv3 (with_mem st (upd (mem st) (XUnused d) (VB true)))).
  { destruct Hinv as (Hpos & W & Hf). split; [exact Hpos|]. split.
    - cbn [nd mem with_mem]. apply wf3_set_unused; auto.
    - apply fresh_upd3; auto. cbn. now apply N.ltb_lt. }
  destruct (unused (mem st) d); exact Hinv'.
Qed.

(** a transaction that does not succeed publishes nothing *)
Lemma tx3_not_ok fa st p r st' : tx3 fa st p = (r, st') -> (forall x, r <> ROk x) -> st' = st.
Proof.
  unfold tx3. destruct (atomically (env3 st fa) p (mem st)) as [[x|e| |q] m]; intros [= <- <-] Hr;
    try reflexivity. exfalso. eapply Hr. reflexivity.
Qed.

(** a transaction whose program only writes coordinates / attribute values keeps the invariant *)
Lemma tx3_data fa st p r st' : inv3 st -> writes_in Sdata p -> tx3 fa st p = (r, st') -> inv3 st'.
Proof.
  intros (Hpos & W & Hf) Hw. unfold tx3, atomically.
  destruct (run (env3 st fa) p (mem st) (mem st) 0) as [[[x|e| |q] w1] cnt1] eqn:Er;
    intros [= <- <-]; try (split; [exact Hpos|]; split; [exact W|exact Hf]).
  split; [exact Hpos|]. split.
  - cbn [nd mem with_mem]. eapply wf3_ext; [exact W|]. apply Sdata_topo.
    intros v Hv. eapply writes_in_run; eauto.
  - intros v Hv. cbn in *. rewrite (run_dom _ _ _ _ _ _ _ _ Er v Hv). auto.
Qed.

Definition data_call3 (c : call3) : bool :=
  match c with WV _ _ | RV _ | WA _ _ _ | RA _ _ => true | _ => false end.

Lemma wi_data_call3 n ks c : data_call3 c = true -> writes_in Sdata (call3_prog n ks c).
Proof. destruct c; cbn; try discriminate; intros _; repeat split; auto. Qed.

Lemma wi_data_block3 n ks cs : forallb data_call3 cs = true -> writes_in Sdata (block3_prog n ks cs).
Proof.
  induction cs as [|c cs IH]; cbn [forallb block3_prog]; [intros _; exact I|].
  intros Hb. apply andb_prop in Hb as [Hc Hcs]. apply writes_in_bind; [now apply wi_data_call3|]. intros _. now apply IH.
Qed.

(** the steps covered by the proof *)
Definition proved_step3 (o : op3) : bool :=
  match o with
  | AddDart3 | AddDarts3 _ | InsertDart3 | RemoveDart3 _ => true
  | Force3 c => data_call3 c
  | Block3 cs => forallb data_call3 cs
  end.

Theorem inv3_step_partial fa st o : inv3 st ->
  proved_step3 o = true \/ (forall x, fst (step3 fa st o) <> ROk x) ->
  inv3 (snd (step3 fa st o)).
Proof.
  intros Hinv Hcase. destruct o as [|k| |d|c|cs]; cbn [step3 proved_step3] in *.
  - pose proof (inv3_add st 1 Hinv). destruct (add_free_darts st 1); auto.
  - pose proof (inv3_add st k Hinv). destruct (add_free_darts st k); auto.
  - pose proof (inv3_insert st Hinv). destruct (insert_free_dart st); auto.
  - pose proof (inv3_remove st d Hinv). destruct (remove_free_dart3 st d) as [[x|e| |q] st']; auto.
  - destruct (tx3 fa st (call3_prog (nd st) (aks st) c)) as [r st'] eqn:Et. cbn [fst snd] in *.
    destruct Hcase as [Hd|Hno].
    + eapply tx3_data; eauto. now apply wi_data_call3.
    + rewrite (tx3_not_ok _ _ _ _ _ Et Hno). exact Hinv.
  - destruct (tx3 fa st (block3_prog (nd st) (aks st) cs)) as [r st'] eqn:Et. cbn [fst snd] in *.
    destruct Hcase as [Hd|Hno].
    + eapply tx3_data; eauto. now apply wi_data_block3.
    + rewrite (tx3_not_ok _ _ _ _ _ Et Hno). exact Hinv.
Qed.

Lemma inv3_empty n ks : inv3 {| nd := n + 1; mem := blank; aks := ks |}.
Proof.
  unfold inv3; cbn [nd mem aks]. split; [lia|]. split.
  - constructor; try (intros; unfold beta, unused, blank in *; cbn in *; try reflexivity; try lia; congruence).
  - intros v _. reflexivity.
Qed.

End Proofs3.
