(** * CMap3 operations, transcribed from honeycomb-core.
    Sources: cmap/components/betas.rs, cmap/dim3/{links,sews,basic_ops,orbits}.rs.
    Model only, no proofs.  The store, the attribute merge/split and the program monad are
    those of the 2-map model; beta index 3 is added. *)
From Coq Require Import List NArith Bool.
From HC Require Import Base.Closure Stm.Prog Map2.Ops2 Map2.State2 Map2.Wf2 Map2.Orbit2.
Import ListNotations.
Open Scope N_scope.

Section Ops3.
Context `{Sig}.

(** ** components/betas.rs, dimension 3 *)
Definition three_link_core (l r : N) : prog unit :=
  bl <- rdB 3 l ;;
  if negb (bl =? 0) then Fail (ENonFreeBase 3) else
  br <- rdB 3 r ;;
  if negb (br =? 0) then Fail (ENonFreeImage 3) else
  wrB 3 l r ;;; wrB 3 r l.

Definition three_unlink_core (l : N) : prog unit :=
  r <- rdB 3 l ;;
  wrB 3 l 0 ;;;
  if r =? 0 then Fail (EAlreadyFree 3) else
  wrB 3 r 0.

(** ** dim3/links *)
Definition one_link3 (l r : N) : prog unit :=
  one_link_core l r ;;;
  b3l <- rdB 3 l ;;
  b3r <- rdB 3 r ;;
  if negb (b3l =? 0) && negb (b3r =? 0) then one_link_core b3r b3l else Ret tt.

Definition one_unlink3 (l : N) : prog unit :=
  r <- rdB 1 l ;;
  one_unlink_core l ;;;
  b3l <- rdB 3 l ;;
  b3r <- rdB 3 r ;;
  if negb (b3l =? 0) && negb (b3r =? 0) then
    x <- rdB 1 b3r ;;
    if negb (x =? b3l) then Fail EAsymmetrical else one_unlink_core b3r
  else Ret tt.

(* the two lock-step walks of three_link; fuel bounds the number of darts of a face *)
Fixpoint link3_fwd (fuel : nat) (ld : N) (lside rside : N) : prog (N * N) :=
  match fuel with
  | O => Panic OutOfFuel
  | S f =>
    if (lside =? ld) || (lside =? 0) then Ret (lside, rside) else
    if rside =? 0 then Fail EAsymmetrical else
    three_link_core lside rside ;;;
    l' <- rdB 1 lside ;;
    r' <- rdB 0 rside ;;
    link3_fwd f ld l' r'
  end.

Fixpoint link3_bwd (fuel : nat) (lside rside : N) : prog unit :=
  match fuel with
  | O => Panic OutOfFuel
  | S f =>
    (* the left chain is exhausted: so must be the right one *)
    if lside =? 0 then (if negb (rside =? 0) then Fail EAsymmetrical else Ret tt) else
    if rside =? 0 then Fail EAsymmetrical else
    three_link_core lside rside ;;;
    l' <- rdB 0 lside ;;
    r' <- rdB 1 rside ;;
    link3_bwd f l' r'
  end.

Definition three_link (n : N) (ld rd : N) : prog unit :=
  three_link_core ld rd ;;;
  l0 <- rdB 1 ld ;;
  r0 <- rdB 0 rd ;;
  lr <- link3_fwd (fuel_of n) ld l0 r0 ;;
  let '(lside, rside) := lr in
  (* the left face is closed: the right one must close after as many sides *)
  if (lside =? ld) && negb (rside =? rd) then Fail EAsymmetrical else
  if lside =? 0 then
    if negb (rside =? 0) then Fail EAsymmetrical else
    l1 <- rdB 0 ld ;;
    r1 <- rdB 1 rd ;;
    link3_bwd (fuel_of n) l1 r1
  else Ret tt.

Fixpoint unlink3_fwd (fuel : nat) (ld : N) (lside rside : N) : prog (N * N) :=
  match fuel with
  | O => Panic OutOfFuel
  | S f =>
    if (lside =? ld) || (lside =? 0) then Ret (lside, rside) else
    x <- rdB 3 rside ;;
    if negb (lside =? x) then Fail EAsymmetrical else
    three_unlink_core lside ;;;
    l' <- rdB 1 lside ;;
    r' <- rdB 0 rside ;;
    unlink3_fwd f ld l' r'
  end.

Fixpoint unlink3_bwd (fuel : nat) (lside rside : N) : prog unit :=
  match fuel with
  | O => Panic OutOfFuel
  | S f =>
    if lside =? 0 then Ret tt else
    x <- rdB 3 rside ;;
    if negb (lside =? x) then Fail EAsymmetrical else
    y <- rdB 3 rside ;;
    if negb (lside =? y) then Panic AssertFailed else
    three_unlink_core lside ;;;
    l' <- rdB 0 lside ;;
    r' <- rdB 1 rside ;;
    unlink3_bwd f l' r'
  end.

Definition three_unlink (n : N) (ld : N) : prog unit :=
  rd <- rdB 3 ld ;;
  three_unlink_core ld ;;;
  l0 <- rdB 1 ld ;;
  r0 <- rdB 0 rd ;;
  lr <- unlink3_fwd (fuel_of n) ld l0 r0 ;;
  let '(lside, rside) := lr in
  if lside =? 0 then
    if negb (rside =? 0) then Fail EAsymmetrical else
    l1 <- rdB 0 ld ;;
    r1 <- rdB 1 rd ;;
    unlink3_bwd (fuel_of n) l1 r1
  else Ret tt.

(** ** dim3/basic_ops.rs : identifiers.  The worklist pushes every image and filters on pop. *)
Fixpoint id3_loop (succs : N -> prog (list N)) (fuel : nat) (pending marked : list N) (mn : N) : prog N :=
  match fuel with
  | O => Panic OutOfFuel
  | S f =>
    match pending with
    | [] => Ret mn
    | d :: rest =>
      if mem_N d marked then id3_loop succs f rest marked mn
      else
        ims <- succs d ;;
        id3_loop succs f (rest ++ ims) (d :: marked) (N.min mn d)
    end
  end.

(* every dart is pushed at most 5 times per marked dart: 6n + 6 pops at most *)
Definition fuel3 (n : N) : nat := N.to_nat (6 * n + 8).

Definition vsucc3 (d : N) : prog (list N) :=
  b0 <- rdB 0 d ;; b2 <- rdB 2 d ;; b3 <- rdB 3 d ;;
  i1 <- rdB 1 b3 ;; i2 <- rdB 3 b2 ;; i3 <- rdB 1 b2 ;; i4 <- rdB 3 b0 ;; i5 <- rdB 2 b0 ;;
  Ret [i1; i2; i3; i4; i5].
Definition vertex_id3 (n d : N) : prog N := id3_loop vsucc3 (fuel3 n) [d] [0] d.

Definition esucc3 (d : N) : prog (list N) := b2 <- rdB 2 d ;; b3 <- rdB 3 d ;; Ret [b2; b3].
Definition edge_id3 (n d : N) : prog N := id3_loop esucc3 (fuel3 n) [d] [0] d.

Definition volsucc3 (d : N) : prog (list N) := b1 <- rdB 1 d ;; b0 <- rdB 0 d ;; b2 <- rdB 2 d ;; Ret [b1; b0; b2].
Definition volume_id3 (n d : N) : prog N := id3_loop volsucc3 (fuel3 n) [d] [0] d.

(* face_id_transac: `while marked.insert(lb) || marked.insert(rb)` -- the second insert is only
   evaluated when the first returns false *)
Definition ins (x : N) (m : list N) : bool * list N := if mem_N x m then (false, m) else (true, x :: m).
Definition min_nz (mn x : N) : N := if x =? 0 then mn else N.min mn x.

Fixpoint face_walk (fuel : nat) (i_l i_r : N) (lb rb : N) (m : list N) (mn : N) : prog (N * N * list N * N) :=
  match fuel with
  | O => Panic OutOfFuel
  | S f =>
    let '(a, m1) := ins lb m in
    let '(go, m2) := if a then (true, m1) else ins rb m1 in
    if go then
      lb' <- rdB i_l lb ;;
      rb' <- rdB i_r rb ;;
      face_walk f i_l i_r lb' rb' m2 (min_nz (min_nz mn lb') rb')
    else Ret (lb, rb, m2, mn)
  end.

Definition face_id3 (n d : N) : prog N :=
  b3 <- rdB 3 d ;;
  let mn0 := if b3 =? 0 then d else N.min d b3 in
  r1 <- face_walk (fuel3 n) 1 0 d b3 [0] mn0 ;;
  let '(lb, rb, m, mn) := r1 in
  if (lb =? 0) || (rb =? 0) then
    lb0 <- rdB 0 d ;;
    rb0 <- rdB 1 b3 ;;
    r2 <- face_walk (fuel3 n) 0 1 lb0 rb0 m (min_nz (min_nz mn lb0) rb0) ;;
    let '(_, _, _, mn') := r2 in Ret mn'
  else Ret mn.

(** ** dim3/orbits.rs *)
Inductive policy3 :=
| QVertex | QVertexLinear | QEdge | QFace | QFaceLinear | QVolume | QVolumeLinear | QCustom (l : list N).

Definition succ3 (s : store) (p : policy3) (d : N) : list N :=
  let b i x := beta s i x in
  match p with
  | QVertex => [b 3 (b 2 d); b 1 (b 3 d); b 1 (b 2 d); b 3 (b 0 d); b 2 (b 0 d)]
  | QVertexLinear => [b 3 (b 2 d); b 1 (b 3 d); b 1 (b 2 d)]
  | QEdge => [b 2 d; b 3 d]
  | QFace => [b 1 d; b 0 d; b 3 d]
  | QFaceLinear => [b 1 d; b 3 d]
  | QVolume => [b 1 d; b 0 d; b 2 d]
  | QVolumeLinear => [b 1 d; b 2 d]
  | QCustom l => map (fun i => b i d) l
  end.
Definition policy3_ok (p : policy3) : bool :=
  match p with QCustom l => forallb (fun i => i <? 4) l | _ => true end.
Definition orbit3 (n : N) (s : store) (p : policy3) (d : N) : option (list N) :=
  if policy3_ok p && (d <? n) then orbit (succ3 s p) (bfs_fuel n) d else None.

(* orbit_transac restricted to Custom policies, as used inside three_sew / three_unsew (face_sides_transac) *)
Fixpoint orbit_tx3_loop (fuel : nat) (idx : list N) (q m out : list N) : prog (list N) :=
  match fuel with
  | O => Panic OutOfFuel
  | S f =>
    match q with
    | [] => Ret (rev out)
    | d :: q' =>
      ims <- (fix go (l : list N) : prog (list N) :=
                match l with
                | [] => Ret []
                | i :: r => im <- rdB i d ;; ims <- go r ;; Ret (im :: ims)
                end) idx ;;
      let '(q2, m2) := fold_left check ims (q', m) in
      orbit_tx3_loop f idx q2 m2 (d :: out)
    end
  end.
Definition orbit_tx3 (n : N) (idx : list N) (d : N) : prog (list N) :=
  orbit_tx3_loop (bfs_fuel n) idx [d] [d; 0] [].

(** ** dim3/sews *)
Definition one_sew3 (n : N) (ks : kinds) (ld rd : N) : prog unit :=
  b3ld <- rdB 3 ld ;;
  b2ld <- rdB 2 ld ;;
  vid_l_old <- (if negb (b3ld =? 0) then vertex_id3 n b3ld
                else if negb (b2ld =? 0) then vertex_id3 n b2ld else Ret 0) ;;
  vid_r_old <- vertex_id3 n rd ;;
  one_link3 ld rd ;;;
  if negb (vid_l_old =? 0) then
    let new_vid := N.min vid_r_old vid_l_old in
    vertices_merge new_vid vid_l_old vid_r_old ;;;
    merge_attributes ks KVertex new_vid vid_l_old vid_r_old
  else Ret tt.

Definition one_unsew3 (n : N) (ks : kinds) (ld : N) : prog unit :=
  rd <- rdB 1 ld ;;
  vid_old <- vertex_id3 n rd ;;
  one_unlink3 ld ;;;
  b2ld <- rdB 2 ld ;;
  b3ld <- rdB 3 ld ;;
  if (b2ld =? 0) && (b3ld =? 0) then Ret tt else
  vid_l_new <- vertex_id3 n (if negb (b2ld =? 0) then b2ld else b3ld) ;;
  vid_r_new <- vertex_id3 n rd ;;
  if negb (vid_l_new =? vid_r_new) then
    vertices_split vid_l_new vid_r_new vid_old ;;;
    split_attributes ks KVertex vid_l_new vid_r_new vid_old
  else Ret tt.

Definition two_sew3 (n : N) (ks : kinds) (ld rd : N) : prog unit :=
  b1ld <- rdB 1 ld ;;
  b1rd <- rdB 1 rd ;;
  match b1ld =? 0, b1rd =? 0 with
  | true, true =>
    eid_l <- edge_id3 n ld ;;
    eid_r <- edge_id3 n rd ;;
    two_link_core ld rd ;;;
    eid_new <- edge_id3 n ld ;;
    merge_attributes ks KEdge eid_new eid_l eid_r
  | true, false =>
    eid_l <- edge_id3 n ld ;;
    eid_r <- edge_id3 n rd ;;
    vid_l <- vertex_id3 n ld ;;
    vid_b1r <- vertex_id3 n b1rd ;;
    two_link_core ld rd ;;;
    vid_l_new <- vertex_id3 n ld ;;
    eid_new <- edge_id3 n ld ;;
    vertices_merge vid_l_new vid_l vid_b1r ;;;
    merge_attributes ks KVertex vid_l_new vid_l vid_b1r ;;;
    merge_attributes ks KEdge eid_new eid_l eid_r
  | false, true =>
    eid_l <- edge_id3 n ld ;;
    eid_r <- edge_id3 n rd ;;
    vid_b1l <- vertex_id3 n b1ld ;;
    vid_r <- vertex_id3 n rd ;;
    two_link_core ld rd ;;;
    vid_r_new <- vertex_id3 n rd ;;
    eid_new <- edge_id3 n ld ;;
    vertices_merge vid_r_new vid_b1l vid_r ;;;
    merge_attributes ks KVertex vid_r_new vid_b1l vid_r ;;;
    merge_attributes ks KEdge eid_new eid_l eid_r
  | false, false =>
    eid_l <- edge_id3 n ld ;;
    eid_r <- edge_id3 n rd ;;
    vid_l <- vertex_id3 n ld ;;
    vid_b1r <- vertex_id3 n b1rd ;;
    vid_b1l <- vertex_id3 n b1ld ;;
    vid_r <- vertex_id3 n rd ;;
    lv <- rdV vid_l ;; b1rv <- rdV vid_b1r ;; b1lv <- rdV vid_b1l ;; rv <- rdV vid_r ;;
    (match lv, b1rv, b1lv, rv with
     | Some a, Some b, Some c, Some d => if bad_orient a b c d then Fail (EBadGeometry 2) else Ret tt
     | _, _, _, _ => Ret tt
     end) ;;;
    two_link_core ld rd ;;;
    vid_l_new <- vertex_id3 n ld ;;
    vid_r_new <- vertex_id3 n rd ;;
    eid_new <- edge_id3 n ld ;;
    vertices_merge vid_l_new vid_l vid_b1r ;;;
    vertices_merge vid_r_new vid_b1l vid_r ;;;
    merge_attributes ks KVertex vid_l_new vid_l vid_b1r ;;;
    merge_attributes ks KVertex vid_r_new vid_b1l vid_r ;;;
    merge_attributes ks KEdge eid_new eid_l eid_r
  end.

Definition two_unsew3 (n : N) (ks : kinds) (ld : N) : prog unit :=
  rd <- rdB 2 ld ;;
  b1ld <- rdB 1 ld ;;
  b1rd <- rdB 1 rd ;;
  match b1ld =? 0, b1rd =? 0 with
  | true, true =>
    eid_old <- edge_id3 n ld ;;
    two_unlink_core ld ;;;
    eid_newl <- edge_id3 n ld ;; eid_newr <- edge_id3 n rd ;;
    split_attributes ks KEdge eid_newl eid_newr eid_old
  | true, false =>
    eid_old <- edge_id3 n ld ;;
    vid_l <- vertex_id3 n ld ;;
    two_unlink_core ld ;;;
    eid_newl <- edge_id3 n ld ;; eid_newr <- edge_id3 n rd ;;
    split_attributes ks KEdge eid_newl eid_newr eid_old ;;;
    a <- vertex_id3 n ld ;; b <- vertex_id3 n b1rd ;;
    vertices_split a b vid_l ;;;
    split_attributes ks KVertex a b vid_l
  | false, true =>
    eid_old <- edge_id3 n ld ;;
    vid_r <- vertex_id3 n rd ;;
    two_unlink_core ld ;;;
    eid_newl <- edge_id3 n ld ;; eid_newr <- edge_id3 n rd ;;
    split_attributes ks KEdge eid_newl eid_newr eid_old ;;;
    a <- vertex_id3 n b1ld ;; b <- vertex_id3 n rd ;;
    vertices_split a b vid_r ;;;
    split_attributes ks KVertex a b vid_r
  | false, false =>
    eid_old <- edge_id3 n ld ;;
    vid_l <- vertex_id3 n ld ;;
    vid_r <- vertex_id3 n rd ;;
    two_unlink_core ld ;;;
    eid_newl <- edge_id3 n ld ;; eid_newr <- edge_id3 n rd ;;
    split_attributes ks KEdge eid_newl eid_newr eid_old ;;;
    a <- vertex_id3 n ld ;; b <- vertex_id3 n b1rd ;;
    c <- vertex_id3 n b1ld ;; d <- vertex_id3 n rd ;;
    vertices_split a b vid_l ;;;
    vertices_split c d vid_r ;;;
    split_attributes ks KVertex a b vid_l ;;;
    split_attributes ks KVertex c d vid_r
  end.

(* `if b1 == NULL { b2 } else { b1 }` *)
Definition next_or_b2 (x : N) : prog N :=
  b1 <- rdB 1 x ;; b2 <- rdB 2 x ;; Ret (if b1 =? 0 then b2 else b1).

Fixpoint sew3_pairs (n : N) (ls rs : list N) : prog (list (N * N) * list (N * N)) :=
  match ls, rs with
  | l :: ls', r :: rs' =>
    el <- edge_id3 n l ;; er <- edge_id3 n r ;;
    x <- next_or_b2 l ;;
    v1 <- vertex_id3 n x ;; v2 <- vertex_id3 n r ;;
    b0l <- rdB 0 l ;;
    extra <- (if b0l =? 0 then
                y <- next_or_b2 r ;;
                w1 <- vertex_id3 n l ;; w2 <- vertex_id3 n y ;; Ret [(w1, w2)]
              else Ret []) ;;
    rest <- sew3_pairs n ls' rs' ;;
    Ret ((el, er) :: fst rest, (v1, v2) :: extra ++ snd rest)
  | _, _ => Ret ([], [])
  end.

Definition lmin3 (l : list N) : option N :=
  match l with [] => None | x :: r => Some (fold_left N.min r x) end.

Fixpoint merge_pairs (ks : kinds) (c : cellkind) (with_vertices : bool) (ps : list (N * N)) : prog unit :=
  match ps with
  | [] => Ret tt
  | (a, b) :: r =>
    (if negb (a =? b) && negb (a =? 0) && negb (b =? 0) then
       (if with_vertices then vertices_merge (N.min a b) a b else Ret tt) ;;;
       merge_attributes ks c (N.min a b) a b
     else Ret tt) ;;;
    merge_pairs ks c with_vertices r
  end.

Definition three_sew3 (n : N) (ks : kinds) (ld rd : N) : prog unit :=
  lo <- orbit_tx3 n [1; 0] ld ;;
  ro <- orbit_tx3 n [0; 1] rd ;;
  match lmin3 lo, lmin3 ro with
  | Some l_face, Some r_face =>
    pr <- sew3_pairs n lo ro ;;
    let '(edges, vertices) := pr in
    xl <- next_or_b2 ld ;; xr <- next_or_b2 rd ;;
    vid_l <- vertex_id3 n ld ;; vid_r <- vertex_id3 n rd ;;
    vid_b1l <- vertex_id3 n xl ;; vid_b1r <- vertex_id3 n xr ;;
    lv <- rdV vid_l ;; b1rv <- rdV vid_b1r ;; b1lv <- rdV vid_b1l ;; rv <- rdV vid_r ;;
    (match lv, b1rv, b1lv, rv with
     | Some a, Some b, Some c, Some d => if bad_orient a b c d then Fail (EBadGeometry 3) else Ret tt
     | _, _, _, _ => Ret tt
     end) ;;;
    three_link n ld rd ;;;
    merge_attributes ks KFace (N.min l_face r_face) l_face r_face ;;;
    merge_pairs ks KEdge false edges ;;;
    merge_pairs ks KVertex true vertices
  | _, _ => Panic UnwrapNone
  end.

Fixpoint unsew3_pairs (n : N) (ks : kinds) (ls rs : list N) : prog unit :=
  match ls, rs with
  | l :: ls', r :: rs' =>
    el <- edge_id3 n l ;; er <- edge_id3 n r ;;
    split_attributes ks KEdge el er (N.min el er) ;;;
    x <- next_or_b2 l ;;
    v1 <- vertex_id3 n x ;; v2 <- vertex_id3 n r ;;
    vertices_split v1 v2 (N.min v1 v2) ;;;
    split_attributes ks KVertex v1 v2 (N.min v1 v2) ;;;
    b0l <- rdB 0 l ;;
    (if b0l =? 0 then
       y <- next_or_b2 r ;;
       w1 <- vertex_id3 n l ;; w2 <- vertex_id3 n y ;;
       vertices_split w1 w2 (N.min w1 w2) ;;;
       split_attributes ks KVertex w1 w2 (N.min w1 w2)
     else Ret tt) ;;;
    unsew3_pairs n ks ls' rs'
  | _, _ => Ret tt
  end.

Definition three_unsew3 (n : N) (ks : kinds) (ld : N) : prog unit :=
  rd <- rdB 3 ld ;;
  three_unlink n ld ;;;
  lo <- orbit_tx3 n [1; 0] ld ;;
  ro <- orbit_tx3 n [0; 1] rd ;;
  match lmin3 lo, lmin3 ro with
  | Some l_face, Some r_face =>
    split_attributes ks KFace l_face r_face (N.min l_face r_face) ;;;
    unsew3_pairs n ks lo ro
  | _, _ => Panic UnwrapNone
  end.

(** ** the public calls *)
Inductive call3 :=
| L1 (l r : N) | L2 (l r : N) | L3 (l r : N) | U1 (l : N) | U2 (l : N) | U3 (l : N)
| S1 (l r : N) | S2 (l r : N) | S3 (l r : N) | X1 (l : N) | X2 (l : N) | X3 (l : N)
| WV (d : N) (v : V) | RV (d : N) | WA (k d : N) (a : A) | RA (k d : N) | RD (d : N).

Definition call3_prog (n : N) (ks : kinds) (c : call3) : prog unit :=
  match c with
  | L1 l r => one_link3 l r
  | L2 l r => two_link_core l r
  | L3 l r => three_link n l r
  | U1 l => one_unlink3 l
  | U2 l => two_unlink_core l
  | U3 l => three_unlink n l
  | S1 l r => one_sew3 n ks l r
  | S2 l r => two_sew3 n ks l r
  | S3 l r => three_sew3 n ks l r
  | X1 l => one_unsew3 n ks l
  | X2 l => two_unsew3 n ks l
  | X3 l => three_unsew3 n ks l
  | WV d v => _ <- rdV d ;; wrV d (Some v)
  | RV d => _ <- rdV d ;; wrV d None
  | WA k d a => _ <- rdA k d ;; wrA k d (Some a)
  | RA k d => _ <- rdA k d ;; wrA k d None
  | RD d => _ <- rdU d ;; wrU d true
  end.

Fixpoint block3_prog (n : N) (ks : kinds) (cs : list call3) : prog unit :=
  match cs with
  | [] => Ret tt
  | c :: rest => call3_prog n ks c ;;; block3_prog n ks rest
  end.

(** ** the map as a whole *)
Definition dom3 (n : N) (ks : kinds) (v : var) : bool :=
  match v with
  | XBeta i d => (i <? 4) && (d <? n)
  | XUnused d => d <? n
  | XVertex d => d <? n
  | XAttr k d => existsb (fun kc => fst kc =? k) ks && (d <=? n)
  end.
Definition env3 (st : state2) (fail_at : option N) : env :=
  {| e_dom := dom3 (nd st) (aks st); e_fail_at := fail_at |}.

Definition is_free3 (s : store) (d : N) : bool :=
  (beta s 0 d =? 0) && (beta s 1 d =? 0) && (beta s 2 d =? 0) && (beta s 3 d =? 0).

Definition remove_free_dart3 (st : state2) (d : N) : result unit * state2 :=
  if negb (d <? nd st) then (RPanic OOB, st) else
  if negb (is_free3 (mem st) d) then (RPanic AssertFailed, st) else
  let was := unused (mem st) d in
  let st' := with_mem st (upd (mem st) (XUnused d) (VB true)) in
  if was then (RPanic AssertFailed, st') else (ROk tt, st').

Inductive op3 :=
| AddDart3 | AddDarts3 (k : N) | InsertDart3 | RemoveDart3 (d : N)
| Force3 (c : call3) | Block3 (cs : list call3).

Definition tx3 (fail_at : option N) (st : state2) (p : prog unit) : result N * state2 :=
  match atomically (env3 st fail_at) p (mem st) with
  | (ROk _, m) => (ROk 0, with_mem st m)
  | (RErr e, _) => (RErr e, st)
  | (RHang, _) => (RHang, st)
  | (RPanic q, _) => (RPanic q, st)
  end.

Definition step3 (fail_at : option N) (st : state2) (o : op3) : result N * state2 :=
  match o with
  | AddDart3 => let '(d, st') := add_free_darts st 1 in (ROk d, st')
  | AddDarts3 k => let '(d, st') := add_free_darts st k in (ROk d, st')
  | InsertDart3 => let '(d, st') := insert_free_dart st in (ROk d, st')
  | RemoveDart3 d =>
      match remove_free_dart3 st d with
      | (ROk _, st') => (ROk 0, st')
      | (RErr e, st') => (RErr e, st')
      | (RHang, st') => (RHang, st')
      | (RPanic p, st') => (RPanic p, st')
      end
  | Force3 c => tx3 fail_at st (call3_prog (nd st) (aks st) c)
  | Block3 cs => tx3 fail_at st (block3_prog (nd st) (aks st) cs)
  end.

End Ops3.
