(** * C09 -- cmap text (work in progress: the statements proved so far). *)
From Coq Require Import List NArith Bool.
From HC Require Import Stm.Prog Map2.Ops2 Map2.State2 Map2.Wf2 Map2.Wf2Dec.
Open Scope N_scope.
(** the oracle applied to every rebuilt map decides exactly well-formedness *)
Theorem C09_oracle_wf `{Sig} : forall n s, wf2b n s = true <-> 0 < n /\ wf2 n s.
Proof. exact wf2b_spec. Qed.
Print Assumptions C09_oracle_wf.
