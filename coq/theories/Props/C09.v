(** * C09 -- cmap text (work in progress: the statements proved so far). *)
From Coq Require Import List NArith Bool.
From HC Require Import Stm.Prog Map2.Ops2 Map2.State2 Map2.Wf2 Map2.Wf2Dec.
Open Scope N_scope.
(** the oracle applied to every rebuilt map decides exactly well-formedness *)
Theorem C09_oracle_wf `{Sig} : forall n s, wf2b n s = true <-> 0 < n /\ wf2 n s.
Proof. exact wf2b_spec. Qed.
Print Assumptions C09_oracle_wf.

(** The round trip at the level of lexed items, for EVERY well-formed 2-map with fewer than 2^32 slots, any set of
    removed darts, vertices defined or not: building from what [serialize] writes succeeds and gives back the
    same images, the same removal flags and the same coordinates at every vertex.  The two premises about the
    lexical layer (a printed coordinate reads back as itself; a vertex is rebuilt from its coordinates) are
    hypotheses of the statement, exercised by the correspondence runs; the layout of the text (columns,
    comments, blank lines) is below this model. *)
From Coq Require Import ZArith.
From HC Require Import Map2.Orbit2 IO.CMapText IO.CMapRound.
Theorem C09_roundtrip_items `{Sig} :
  forall (mk_vertex : Sc -> Sc -> V) (sc_of_int : BinNums.Z -> Sc) (v_x v_y : V -> Sc) (tok_of_sc : Sc -> ctok),
  (forall v, f64_of sc_of_int (tok_of_sc v) = Some v) -> (forall p, mk_vertex (v_x p) (v_y p) = p) ->
  forall st, wf2 (nd st) (mem st) -> 0 < nd st -> nd st <= 4294967296 -> unused (mem st) 0 = false ->
  exists st', build_from_items mk_vertex sc_of_int (ser_items v_x v_y tok_of_sc st) = IOk st' /\
    nd st' = nd st /\
    (forall i d, i < 3 -> d < nd st -> beta (mem st') i d = beta (mem st) i d) /\
    (forall d, d < nd st -> unused (mem st') d = unused (mem st) d) /\
    (forall v, In v (iter_vertices2 (env2 st None) (nd st) (mem st)) -> vertex (mem st') v = vertex (mem st) v).
Proof. intros mk sc vx vy tk H1 H2. exact (roundtrip_items mk sc vx vy tk H1 H2). Qed.
Print Assumptions C09_roundtrip_items.
