(** * C11 -- VTK export / import.  The property is decided per explored mesh by the Coq predicates of
    Extract/VtkOracle.v applied to the implementation's own observations (no model of the exporter and
    importer is claimed).  What is proved here is that the validator's positive answer means what it
    says: "same multiset up to the equivalence" exhibits a permutation with related elements. *)
From Coq Require Import List Bool Permutation.
From HC Require Import Extract.VtkOracle IO.VtkSound.

Theorem C11_validator_multiset_sound : forall (X : Type) (eqv : X -> X -> bool) (Rel : X -> X -> Prop),
  (forall x y, eqv x y = true -> Rel x y) ->
  forall a b, mset_eqb eqv a b = true -> exists b', Permutation b b' /\ Forall2 Rel a b'.
Proof. exact mset_eqb_sound. Qed.
Print Assumptions C11_validator_multiset_sound.
