(** * C10 -- building from cmap text yields a well-formed map or an error, never a panic.
    The text is taken after the lexical layer (items: section headers and lines of tokens);
    [build_from_items] is the Gallina transcription of CMapFile::try_from followed by
    build_2d_from_cmap_file, with every Vec index and assert as an explicit panic. *)
From Coq Require Import List NArith Bool.
From HC Require Import Stm.Prog Map2.Ops2 Map2.State2 Map2.Wf2 Map2.Wf2Dec IO.CMapText IO.CMapSafe.
Open Scope N_scope.

Theorem C10_total `{Sig} : forall (mk_vertex : Sc -> Sc -> V) (sc_of_int : BinNums.Z -> Sc) its,
  match build_from_items mk_vertex sc_of_int its with
  | IPanic => False
  | IErr _ => True
  | IOk st => 0 < nd st /\ wf2 (nd st) (mem st)
  end.
Proof. exact build_from_items_safe. Qed.
Print Assumptions C10_total.

(** the oracle applied to every map the implementation returns decides exactly well-formedness *)
Theorem C10_oracle_wf `{Sig} : forall n s, wf2b n s = true <-> 0 < n /\ wf2 n s.
Proof. exact wf2b_spec. Qed.
Print Assumptions C10_oracle_wf.
