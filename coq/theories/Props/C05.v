(** * C05 -- 3D sew/unsew and embedded data.  Proved: atomicity of refusals and the topology clause (a sew is the
    link on images and flags); the data clauses are decided by the executable specification
    Extract/Sew3Oracle.v applied to implementation observations. *)
From Coq Require Import List NArith Bool.
From HC Require Import Stm.Prog Stm.Atomic Map2.Ops2 Map2.State2 Map3.Ops3.
Open Scope N_scope.
(** a refused sew/unsew changes nothing, wherever the refusal arises *)
Theorem C05_refusal_is_atomic `{Sig} : forall E n ks c st e st',
  atomically E (call3_prog n ks c) st = (RErr e, st') -> st' = st.
Proof. intros E n ks c. exact (atomically_err_noop E (call3_prog n ks c)). Qed.
Print Assumptions C05_refusal_is_atomic.

(** Topology clause: on EVERY store, a 3D sew / unsew (dimension 1, 2 or 3) that terminates normally changes the
    images and the removal flags of every dart exactly as the corresponding link / unlink does -- the lock-step
    walks of the 3-link included (the link run from the same store terminates normally too, and the two results
    agree on all images and flags). *)
From HC Require Import Stm.ProgFacts Map2.Wf2Proofs Map3.SewTopo3.
Theorem C05_one_sew_topology `{Sig} : forall E n ks l r c w cnt w1 cnt1,
  run E (one_sew3 n ks l r) c w cnt = (Done tt, w1, cnt1) ->
  exists w2, run E (one_link3 l r) c w cnt = (Done tt, w2, cnt) /\ topo_eq w2 w1.
Proof. exact one_sew3_topology. Qed.
Print Assumptions C05_one_sew_topology.
Theorem C05_one_unsew_topology `{Sig} : forall E n ks l c w cnt w1 cnt1,
  run E (one_unsew3 n ks l) c w cnt = (Done tt, w1, cnt1) ->
  exists w2, run E (one_unlink3 l) c w cnt = (Done tt, w2, cnt) /\ topo_eq w2 w1.
Proof. exact one_unsew3_topology. Qed.
Print Assumptions C05_one_unsew_topology.
Theorem C05_two_sew_topology `{Sig} : forall E n ks l r c w cnt w1 cnt1,
  run E (two_sew3 n ks l r) c w cnt = (Done tt, w1, cnt1) ->
  exists w2, run E (two_link_core l r) c w cnt = (Done tt, w2, cnt) /\ topo_eq w2 w1.
Proof. exact two_sew3_topology. Qed.
Print Assumptions C05_two_sew_topology.
Theorem C05_two_unsew_topology `{Sig} : forall E n ks l c w cnt w1 cnt1,
  run E (two_unsew3 n ks l) c w cnt = (Done tt, w1, cnt1) ->
  exists w2, run E (two_unlink_core l) c w cnt = (Done tt, w2, cnt) /\ topo_eq w2 w1.
Proof. exact two_unsew3_topology. Qed.
Print Assumptions C05_two_unsew_topology.
Theorem C05_three_sew_topology `{Sig} : forall E n ks l r c w cnt w1 cnt1,
  run E (three_sew3 n ks l r) c w cnt = (Done tt, w1, cnt1) ->
  exists w2, run E (three_link n l r) c w cnt = (Done tt, w2, cnt) /\ topo_eq w2 w1.
Proof. exact three_sew3_topology. Qed.
Print Assumptions C05_three_sew_topology.
Theorem C05_three_unsew_topology `{Sig} : forall E n ks l c w cnt w1 cnt1,
  run E (three_unsew3 n ks l) c w cnt = (Done tt, w1, cnt1) ->
  exists w2, run E (three_unlink n l) c w cnt = (Done tt, w2, cnt) /\ topo_eq w2 w1.
Proof. exact three_unsew3_topology. Qed.
Print Assumptions C05_three_unsew_topology.

(** Tie to the source: [two_sew3] / [two_unsew3] are, verbatim, the programs that tools/tr_sews.py regenerates from
    dim3/sews/two.rs on every run (Map3/GenSews3.v). *)
From HC Require Import Map3.GenSews3 Map3.GenSews3Laws.
Theorem C05_two_sews_are_the_source `{Sig} :
  (forall n ks l r, gen_two_sew3 n ks l r = two_sew3 n ks l r) /\ (forall n ks l, gen_two_unsew3 n ks l = two_unsew3 n ks l).
Proof. exact sews3_are_the_source. Qed.
Print Assumptions C05_two_sews_are_the_source.
