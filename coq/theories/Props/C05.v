(** * C05 -- 3D sew/unsew and embedded data (statements proved so far; the data clauses are decided by
    the executable specification Extract/Sew3Oracle.v applied to implementation observations). *)
From Coq Require Import List NArith Bool.
From HC Require Import Stm.Prog Stm.Atomic Map2.Ops2 Map2.State2 Map3.Ops3.
Open Scope N_scope.
(** a refused sew/unsew changes nothing, wherever the refusal arises *)
Theorem C05_refusal_is_atomic `{Sig} : forall E n ks c st e st',
  atomically E (call3_prog n ks c) st = (RErr e, st') -> st' = st.
Proof. intros E n ks c. exact (atomically_err_noop E (call3_prog n ks c)). Qed.
Print Assumptions C05_refusal_is_atomic.
