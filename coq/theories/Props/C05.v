(** * C05 -- 3D sew/unsew and embedded data.  Proved: atomicity of refusals and the topology clause (a sew is the
    link on images and flags); the data clauses are decided by the executable specification
    Extract/Sew3Oracle.v applied to implementation observations. *)
From Coq Require Import List NArith Bool.
From HC Require Import Stm.Prog Stm.Atomic Map2.Ops2 Map2.State2 Map3.Ops3.
Open Scope N_scope.
(** a refused sew/unsew changes nothing, wherever the refusal arises *)
Theorem C05_refusal_is_atomic `{Sig} : forall E n ks c st e st',
  atomically E (call3_prog n ks c) st = (RErr e, st') -> st' = st.
Proof. intros E n ks c. exact (atomically_err_noop E (call3_prog n ks c)). Qed.
Print Assumptions C05_refusal_is_atomic.

(** Topology clause: on EVERY store, a 3D sew / unsew (dimension 1, 2 or 3) that terminates normally changes the
    images and the removal flags of every dart exactly as the corresponding link / unlink does -- the lock-step
    walks of the 3-link included (the link run from the same store terminates normally too, and the two results
    agree on all images and flags). *)
From HC Require Import Stm.ProgFacts Map2.Wf2Proofs Map3.SewTopo3.
Theorem C05_one_sew_topology `{Sig} : forall E n ks l r c w cnt w1 cnt1,
  run E (one_sew3 n ks l r) c w cnt = (Done tt, w1, cnt1) ->
  exists w2, run E (one_link3 l r) c w cnt = (Done tt, w2, cnt) /\ topo_eq w2 w1.
Proof. exact one_sew3_topology. Qed.
Print Assumptions C05_one_sew_topology.
Theorem C05_one_unsew_topology `{Sig} : forall E n ks l c w cnt w1 cnt1,
  run E (one_unsew3 n ks l) c w cnt = (Done tt, w1, cnt1) ->
  exists w2, run E (one_unlink3 l) c w cnt = (Done tt, w2, cnt) /\ topo_eq w2 w1.
Proof. exact one_unsew3_topology. Qed.
Print Assumptions C05_one_unsew_topology.
Theorem C05_two_sew_topology `{Sig} : forall E n ks l r c w cnt w1 cnt1,
  run E (two_sew3 n ks l r) c w cnt = (Done tt, w1, cnt1) ->
  exists w2, run E (two_link_core l r) c w cnt = (Done tt, w2, cnt) /\ topo_eq w2 w1.
Proof. exact two_sew3_topology. Qed.
Print Assumptions C05_two_sew_topology.
Theorem C05_two_unsew_topology `{Sig} : forall E n ks l c w cnt w1 cnt1,
  run E (two_unsew3 n ks l) c w cnt = (Done tt, w1, cnt1) ->
  exists w2, run E (two_unlink_core l) c w cnt = (Done tt, w2, cnt) /\ topo_eq w2 w1.
Proof. exact two_unsew3_topology. Qed.
Print Assumptions C05_two_unsew_topology.
Theorem C05_three_sew_topology `{Sig} : forall E n ks l r c w cnt w1 cnt1,
  run E (three_sew3 n ks l r) c w cnt = (Done tt, w1, cnt1) ->
  exists w2, run E (three_link n l r) c w cnt = (Done tt, w2, cnt) /\ topo_eq w2 w1.
Proof. exact three_sew3_topology. Qed.
Print Assumptions C05_three_sew_topology.
Theorem C05_three_unsew_topology `{Sig} : forall E n ks l c w cnt w1 cnt1,
  run E (three_unsew3 n ks l) c w cnt = (Done tt, w1, cnt1) ->
  exists w2, run E (three_unlink n l) c w cnt = (Done tt, w2, cnt) /\ topo_eq w2 w1.
Proof. exact three_unsew3_topology. Qed.
Print Assumptions C05_three_unsew_topology.

(** Data clause for coordinates through the 3D 2-sew and 2-unsew (programs regenerated from dim3/sews/two.rs), on every
    store whose images are in range ([rng3], implied by [wf3]): the vertex identified by the orbit minimum ([is_vid3],
    over the 3D vertex orbit) of the map after the link carries the lawful merge of the former values, the former
    identifiers are emptied, every other coordinate slot is untouched ([merge_effect]); both ends = two merges in
    sequence; the 2-unsew is the mirror image with the split law ([split_effect]). *)
From Coq Require Import Lia.
From HC Require Import Stm.ProgFacts Map2.Wf2 Map2.Wf2Proofs Map2.Orbit2Proofs Map2.SewData Map3.Orbit3Proofs Map3.SewData3.
Theorem C05_two_sew_vertex_data_left `{Sig} : forall E n ks l r c w cnt w' cnt',
  dom3_ok E n -> rng3 n w -> l <> 0 -> l < n -> r <> 0 -> r < n -> beta w 1 l = 0 -> beta w 1 r <> 0 ->
  run E (two_sew3 n ks l r) c w cnt = (Done tt, w', cnt') ->
  exists i1 i2 i',
    is_vid3 n w l i1 /\ is_vid3 n w (beta w 1 r) i2 /\ is_vid3 n (set2 w l r) l i' /\ merge_effect w w' i1 i2 i'.
Proof. exact two_sew3_vertex_data_left. Qed.
Print Assumptions C05_two_sew_vertex_data_left.

Theorem C05_two_sew_vertex_data_right `{Sig} : forall E n ks l r c w cnt w' cnt',
  dom3_ok E n -> rng3 n w -> l <> 0 -> l < n -> r <> 0 -> r < n -> beta w 1 l <> 0 -> beta w 1 r = 0 ->
  run E (two_sew3 n ks l r) c w cnt = (Done tt, w', cnt') ->
  exists i1 i2 i',
    is_vid3 n w (beta w 1 l) i1 /\ is_vid3 n w r i2 /\ is_vid3 n (set2 w l r) r i' /\ merge_effect w w' i1 i2 i'.
Proof. exact two_sew3_vertex_data_right. Qed.
Print Assumptions C05_two_sew_vertex_data_right.

Theorem C05_two_sew_vertex_data_both `{Sig} : forall E n ks l r c w cnt w' cnt',
  dom3_ok E n -> rng3 n w -> l <> 0 -> l < n -> r <> 0 -> r < n -> beta w 1 l <> 0 -> beta w 1 r <> 0 ->
  run E (two_sew3 n ks l r) c w cnt = (Done tt, w', cnt') ->
  exists i1 i2 i3 i4 iL iR,
    is_vid3 n w l i1 /\ is_vid3 n w (beta w 1 r) i2 /\ is_vid3 n w (beta w 1 l) i3 /\ is_vid3 n w r i4 /\
    is_vid3 n (set2 w l r) l iL /\ is_vid3 n (set2 w l r) r iR /\
    exists wm, merge_effect w wm i1 i2 iL /\ merge_effect wm w' i3 i4 iR.
Proof. exact two_sew3_vertex_data_both. Qed.
Print Assumptions C05_two_sew_vertex_data_both.

Theorem C05_two_unsew_vertex_data_left `{Sig} : forall E n ks l c w cnt w' cnt',
  dom3_ok E n -> rng3 n w -> l <> 0 -> l < n -> beta w 2 l <> 0 -> beta w 1 l = 0 -> beta w 1 (beta w 2 l) <> 0 ->
  run E (two_unsew3 n ks l) c w cnt = (Done tt, w', cnt') ->
  let r := beta w 2 l in let w1 := clr2 w l r in
  exists i0 il ir,
    is_vid3 n w l i0 /\ is_vid3 n w1 l il /\ is_vid3 n w1 (beta w 1 r) ir /\ split_effect w w' i0 il ir.
Proof. exact two_unsew3_vertex_data_left. Qed.
Print Assumptions C05_two_unsew_vertex_data_left.

Theorem C05_two_unsew_vertex_data_right `{Sig} : forall E n ks l c w cnt w' cnt',
  dom3_ok E n -> rng3 n w -> l <> 0 -> l < n -> beta w 2 l <> 0 -> beta w 1 l <> 0 -> beta w 1 (beta w 2 l) = 0 ->
  run E (two_unsew3 n ks l) c w cnt = (Done tt, w', cnt') ->
  let r := beta w 2 l in let w1 := clr2 w l r in
  exists i0 il ir,
    is_vid3 n w r i0 /\ is_vid3 n w1 (beta w 1 l) il /\ is_vid3 n w1 r ir /\ split_effect w w' i0 il ir.
Proof. exact two_unsew3_vertex_data_right. Qed.
Print Assumptions C05_two_unsew_vertex_data_right.

Theorem C05_two_unsew_vertex_data_both `{Sig} : forall E n ks l c w cnt w' cnt',
  dom3_ok E n -> rng3 n w -> l <> 0 -> l < n -> beta w 2 l <> 0 -> beta w 1 l <> 0 -> beta w 1 (beta w 2 l) <> 0 ->
  run E (two_unsew3 n ks l) c w cnt = (Done tt, w', cnt') ->
  let r := beta w 2 l in let w1 := clr2 w l r in
  exists j0 jl jr k0 kl kr,
    is_vid3 n w l j0 /\ is_vid3 n w r k0 /\
    is_vid3 n w1 l jl /\ is_vid3 n w1 (beta w 1 r) jr /\ is_vid3 n w1 (beta w 1 l) kl /\ is_vid3 n w1 r kr /\
    exists wm, split_effect w wm j0 jl jr /\ split_effect wm w' k0 kl kr.
Proof. exact two_unsew3_vertex_data_both. Qed.
Print Assumptions C05_two_unsew_vertex_data_both.


(** The same for every other registered attribute kind (its own merge / split law, injected law failures included):
    edge-bound kinds under the edge identifiers (orbit minima [is_eid3] before / after the link), vertex-bound kinds at
    the ends that meet, as successive effects through intermediate stores; kinds bound to other cells untouched. *)
From HC Require Import Map2.SewAttr.
Theorem C05_two_sew_attr_data_none `{Sig} : forall E n ks l r c w cnt w' cnt',
  dom3_ok E n -> rng3 n w -> l <> 0 -> l < n -> r <> 0 -> r < n -> beta w 1 l = 0 -> beta w 1 r = 0 -> NoDup (map fst ks) ->
  run E (two_sew3 n ks l r) c w cnt = (Done tt, w', cnt') ->
  exists el er en, is_eid3 n w l el /\ is_eid3 n w r er /\ is_eid3 n (set2 w l r) l en /\ attrs_effect ks KEdge w w' el er en.
Proof. exact two_sew3_attr_data_none. Qed.
Print Assumptions C05_two_sew_attr_data_none.

Theorem C05_two_sew_attr_data_left `{Sig} : forall E n ks l r c w cnt w' cnt',
  dom3_ok E n -> rng3 n w -> l <> 0 -> l < n -> r <> 0 -> r < n -> beta w 1 l = 0 -> beta w 1 r <> 0 -> NoDup (map fst ks) ->
  run E (two_sew3 n ks l r) c w cnt = (Done tt, w', cnt') ->
  exists i1 i2 i' el er en wa,
    is_vid3 n w l i1 /\ is_vid3 n w (beta w 1 r) i2 /\ is_vid3 n (set2 w l r) l i' /\ is_eid3 n w l el /\ is_eid3 n w r er /\ is_eid3 n (set2 w l r) l en /\
    attrs_effect ks KVertex w wa i1 i2 i' /\ attrs_effect ks KEdge wa w' el er en.
Proof. exact two_sew3_attr_data_left. Qed.
Print Assumptions C05_two_sew_attr_data_left.

Theorem C05_two_sew_attr_data_right `{Sig} : forall E n ks l r c w cnt w' cnt',
  dom3_ok E n -> rng3 n w -> l <> 0 -> l < n -> r <> 0 -> r < n -> beta w 1 l <> 0 -> beta w 1 r = 0 -> NoDup (map fst ks) ->
  run E (two_sew3 n ks l r) c w cnt = (Done tt, w', cnt') ->
  exists i1 i2 i' el er en wa,
    is_vid3 n w (beta w 1 l) i1 /\ is_vid3 n w r i2 /\ is_vid3 n (set2 w l r) r i' /\ is_eid3 n w l el /\ is_eid3 n w r er /\ is_eid3 n (set2 w l r) l en /\
    attrs_effect ks KVertex w wa i1 i2 i' /\ attrs_effect ks KEdge wa w' el er en.
Proof. exact two_sew3_attr_data_right. Qed.
Print Assumptions C05_two_sew_attr_data_right.

Theorem C05_two_sew_attr_data_both `{Sig} : forall E n ks l r c w cnt w' cnt',
  dom3_ok E n -> rng3 n w -> l <> 0 -> l < n -> r <> 0 -> r < n -> beta w 1 l <> 0 -> beta w 1 r <> 0 -> NoDup (map fst ks) ->
  run E (two_sew3 n ks l r) c w cnt = (Done tt, w', cnt') ->
  exists i1 i2 i3 i4 iL iR el er en wa wb,
    is_vid3 n w l i1 /\ is_vid3 n w (beta w 1 r) i2 /\ is_vid3 n w (beta w 1 l) i3 /\ is_vid3 n w r i4 /\
    is_vid3 n (set2 w l r) l iL /\ is_vid3 n (set2 w l r) r iR /\ is_eid3 n w l el /\ is_eid3 n w r er /\ is_eid3 n (set2 w l r) l en /\
    attrs_effect ks KVertex w wa i1 i2 iL /\ attrs_effect ks KVertex wa wb i3 i4 iR /\ attrs_effect ks KEdge wb w' el er en.
Proof. exact two_sew3_attr_data_both. Qed.
Print Assumptions C05_two_sew_attr_data_both.

Theorem C05_two_unsew_attr_data_none `{Sig} : forall E n ks l c w cnt w' cnt',
  dom3_ok E n -> rng3 n w -> l <> 0 -> l < n -> beta w 2 l <> 0 -> beta w 1 l = 0 -> beta w 1 (beta w 2 l) = 0 -> NoDup (map fst ks) ->
  run E (two_unsew3 n ks l) c w cnt = (Done tt, w', cnt') ->
  let r := beta w 2 l in let w1 := clr2 w l r in
  exists eo enl enr, is_eid3 n w l eo /\ is_eid3 n w1 l enl /\ is_eid3 n w1 r enr /\ attrs_split_effect ks KEdge w w' enl enr eo.
Proof. exact two_unsew3_attr_data_none. Qed.
Print Assumptions C05_two_unsew_attr_data_none.

Theorem C05_two_unsew_attr_data_left `{Sig} : forall E n ks l c w cnt w' cnt',
  dom3_ok E n -> rng3 n w -> l <> 0 -> l < n -> beta w 2 l <> 0 -> beta w 1 l = 0 -> beta w 1 (beta w 2 l) <> 0 -> NoDup (map fst ks) ->
  run E (two_unsew3 n ks l) c w cnt = (Done tt, w', cnt') ->
  let r := beta w 2 l in let w1 := clr2 w l r in
  exists eo enl enr i0 il ir wa,
    is_eid3 n w l eo /\ is_eid3 n w1 l enl /\ is_eid3 n w1 r enr /\ is_vid3 n w l i0 /\ is_vid3 n w1 l il /\ is_vid3 n w1 (beta w 1 r) ir /\
    attrs_split_effect ks KEdge w wa enl enr eo /\ attrs_split_effect ks KVertex wa w' il ir i0.
Proof. exact two_unsew3_attr_data_left. Qed.
Print Assumptions C05_two_unsew_attr_data_left.

Theorem C05_two_unsew_attr_data_right `{Sig} : forall E n ks l c w cnt w' cnt',
  dom3_ok E n -> rng3 n w -> l <> 0 -> l < n -> beta w 2 l <> 0 -> beta w 1 l <> 0 -> beta w 1 (beta w 2 l) = 0 -> NoDup (map fst ks) ->
  run E (two_unsew3 n ks l) c w cnt = (Done tt, w', cnt') ->
  let r := beta w 2 l in let w1 := clr2 w l r in
  exists eo enl enr i0 il ir wa,
    is_eid3 n w l eo /\ is_eid3 n w1 l enl /\ is_eid3 n w1 r enr /\ is_vid3 n w r i0 /\ is_vid3 n w1 (beta w 1 l) il /\ is_vid3 n w1 r ir /\
    attrs_split_effect ks KEdge w wa enl enr eo /\ attrs_split_effect ks KVertex wa w' il ir i0.
Proof. exact two_unsew3_attr_data_right. Qed.
Print Assumptions C05_two_unsew_attr_data_right.

Theorem C05_two_unsew_attr_data_both `{Sig} : forall E n ks l c w cnt w' cnt',
  dom3_ok E n -> rng3 n w -> l <> 0 -> l < n -> beta w 2 l <> 0 -> beta w 1 l <> 0 -> beta w 1 (beta w 2 l) <> 0 -> NoDup (map fst ks) ->
  run E (two_unsew3 n ks l) c w cnt = (Done tt, w', cnt') ->
  let r := beta w 2 l in let w1 := clr2 w l r in
  exists eo enl enr j0 jl jr k0 kl kr wa wb,
    is_eid3 n w l eo /\ is_eid3 n w1 l enl /\ is_eid3 n w1 r enr /\ is_vid3 n w l j0 /\ is_vid3 n w r k0 /\
    is_vid3 n w1 l jl /\ is_vid3 n w1 (beta w 1 r) jr /\ is_vid3 n w1 (beta w 1 l) kl /\ is_vid3 n w1 r kr /\
    attrs_split_effect ks KEdge w wa enl enr eo /\ attrs_split_effect ks KVertex wa wb jl jr j0 /\ attrs_split_effect ks KVertex wb w' kl kr k0.
Proof. exact two_unsew3_attr_data_both. Qed.
Print Assumptions C05_two_unsew_attr_data_both.


(** Tie to the source: [two_sew3] / [two_unsew3] are, verbatim, the programs that tools/tr_sews.py regenerates from
    dim3/sews/two.rs on every run (Map3/GenSews3.v). *)
From HC Require Import Map3.GenSews3 Map3.GenSews3Laws.
Theorem C05_two_sews_are_the_source `{Sig} :
  (forall n ks l r, gen_two_sew3 n ks l r = two_sew3 n ks l r) /\ (forall n ks l, gen_two_unsew3 n ks l = two_unsew3 n ks l).
Proof. exact sews3_are_the_source. Qed.
Print Assumptions C05_two_sews_are_the_source.
