(** * C07 -- concurrent transactions on one map are serializable; a torn snapshot is never published.
    Protocol level (fast-stm: first reads logged with the identity of the value read, validation of
    every logged read at commit, all writes published in one step, abort/panic publish nothing).
    Not modelled: the lock acquisition order inside commit, parking_lot, Arc reclamation, memory
    ordering -- commit is one atomic step here (see DESIGN.md, C07: partial w.r.t. the runtime). *)
From Coq Require Import List NArith Bool.
From HC Require Import Stm.Prog Stm.Atomic Stm.Serial Map2.Ops2 Map2.State2 Map2.Tx2Proofs
  Map2.Orbit2 Map2.Kern2 Map2.KOps2 Map2.KTx2Proofs Map3.Ops3 Map3.Tx3Proofs.
Import ListNotations.

(** For every workload (any number of threads, any number of transactions each) of programs that
    read shared state only through their transaction, and EVERY schedule [s]: the shared store is
    what running the committed transactions one at a time, in commit order, produces from the initial
    store, each returning the value it returned concurrently. *)
Theorem C07_serializable `{Sig} : forall (R : Type) (E : env), e_fail_at E = None ->
  forall g0 (wl : list (list (prog R))) (s : list nat), Forall (Forall no_atomic) wl ->
  let c := run_sched R E (init R g0 wl) s in
  exists g', serial R E g0 (hist R c) g' /\ forall v, g' v = vals (G R c) v.
Proof. intros R E He g0 wl s Hwl. exact (proj2 (serializable R E He g0 wl s Hwl)). Qed.
Print Assumptions C07_serializable.

(** Only a validated commit changes the shared store: every other step of every thread (reads,
    writes into the log, failed validation, abort, retry, panic) leaves it untouched. *)
Theorem C07_only_commit_publishes `{Sig} : forall R E (c : cfg R) i c', cstep R E c i = Some c' ->
  (G R c' = G R c /\ hist R c' = hist R c) \/
  (exists t t' p r w, nth_error (ths R c) i = Some t /\ tstep R E (G R c) t = Some (t', ECommit R p r w) /\
                      G R c' = gapply w (S (clock R c)) (G R c) /\ hist R c' = hist R c ++ [(p, r)]).
Proof. intros R E. exact (only_commit_publishes R E). Qed.
Print Assumptions C07_only_commit_publishes.

(** ... and a commit fires only when every variable the attempt has read still carries the version
    it was read at: an attempt that saw a torn snapshot restarts or aborts. *)
Theorem C07_commit_only_if_valid `{Sig} : forall R E g t t' p r w, tstep R E g t = Some (t', ECommit R p r w) ->
  exists a, att R t = Some a /\ cur R a = Ret r /\ validb g (rs R a) = true /\ origin R a = p /\ ws R a = w.
Proof. intros R E. exact (commit_only_if_valid R E). Qed.
Print Assumptions C07_commit_only_if_valid.

(** The premise holds for every public transactional entry point of the maps and kernels. *)
Theorem C07_premise_calls2 `{Sig} : forall n ks (wl : list (list call2)),
  Forall (Forall no_atomic) (map (map (call2_prog n ks)) wl).
Proof.
  intros n ks wl. apply Forall_forall. intros ps Hps. apply in_map_iff in Hps as (cs & <- & _).
  apply Forall_forall. intros p Hp. apply in_map_iff in Hp as (c & <- & _). apply na_call2.
Qed.
Print Assumptions C07_premise_calls2.

Theorem C07_premise_kernels `{Sig} : forall n ks (wl : list (list kcall)),
  Forall (Forall no_atomic) (map (map (kcall_prog n ks)) wl).
Proof.
  intros n ks wl. apply Forall_forall. intros ps Hps. apply in_map_iff in Hps as (cs & <- & _).
  apply Forall_forall. intros p Hp. apply in_map_iff in Hp as (c & <- & _). apply na_kcall.
Qed.
Print Assumptions C07_premise_kernels.

Theorem C07_premise_calls3 `{Sig} : forall n ks (wl : list (list call3)),
  Forall (Forall no_atomic) (map (map (call3_prog n ks)) wl).
Proof.
  intros n ks wl. apply Forall_forall. intros ps Hps. apply in_map_iff in Hps as (cs & <- & _).
  apply Forall_forall. intros p Hp. apply in_map_iff in Hp as (c & <- & _). apply na_call3.
Qed.
Print Assumptions C07_premise_calls3.

(** Non-vacuity: two threads write the same vertex; under the schedule below thread 0 reads, thread 1
    runs to its commit, thread 0's validation then fails, it starts again and commits. Both transactions
    are in the history, and the store is the one-at-a-time outcome "thread 1, then thread 0". *)
From Coq Require Import Floats Uint63.
From HC Require Import Extract.Run2.
Definition c07_st : state2 := empty2 2 [].
Definition c07_wl : list (list (prog unit)) :=
  [[call2_prog (nd c07_st) [] (WriteVertex 1 (PrimFloat.of_uint63 1, PrimFloat.of_uint63 1))];
   [call2_prog (nd c07_st) [] (WriteVertex 1 (PrimFloat.of_uint63 2, PrimFloat.of_uint63 2))]].
Definition c07_sched : list nat := [0; 0; 1; 1; 1; 1; 0; 0; 0; 0; 0]%nat.
Definition c07_cfg (s : list nat) := run_sched unit (env2 c07_st None) (init unit (mem c07_st) c07_wl) s.
Example C07_conflict_and_restart :
  (* after thread 0's first commit attempt: only thread 1 has committed, thread 0 is running a fresh attempt *)
  length (hist unit (c07_cfg (firstn 8 c07_sched))) = 1%nat /\
  (match nth_error (ths unit (c07_cfg (firstn 8 c07_sched))) 0 with
   | Some t => match att unit t with Some a => rs unit a | None => [(XVertex 0, (VB true, 0%nat))] end
   | None => [(XVertex 0, (VB true, 0%nat))] end) = [] /\
  (* at the end both have committed and the value is thread 0's *)
  length (hist unit (c07_cfg c07_sched)) = 2%nat /\
  map (outs unit) (ths unit (c07_cfg c07_sched)) = [[ROk tt]; [ROk tt]] /\
  asV (vals (G unit (c07_cfg c07_sched)) (XVertex 1)) = Some (PrimFloat.of_uint63 1, PrimFloat.of_uint63 1).
Proof.
  (* each side is a first-order value: conversion is checked by the virtual machine, without normalising the
     (instance-dependent) types of the goal *)
  repeat split; lazymatch goal with |- _ = ?v => vm_cast_no_check (@eq_refl _ v) end.
Qed.

(** The premise "no non-transactional read" is checked on the cores regenerated from the source: a
    read_atomic in betas.rs is outside the translator's grammar (broken tie), and these equalities tie the
    generated programs to the ones [C07_premise_*] speak about. *)
From HC Require Import Map2.GenBetas Map2.GenBetasLaws.
Theorem C07_cores_are_the_source `{Sig} :
  (forall l r, gen_one_link_core l r = one_link_core l r) /\ (forall l r, gen_two_link_core l r = two_link_core l r) /\
  (forall l r, gen_three_link_core l r = three_link_core l r) /\ (forall l, gen_one_unlink_core l = one_unlink_core l) /\
  (forall l, gen_two_unlink_core l = two_unlink_core l) /\ (forall l, gen_three_unlink_core l = three_unlink_core l).
Proof. exact cores_are_the_source. Qed.
Print Assumptions C07_cores_are_the_source.
