(** * C01 -- 2-map structural integrity survives every editing history.
    Statements only; every proof is [exact] of a lemma proved elsewhere. *)
From Coq Require Import List NArith Bool.
From HC Require Import Stm.Prog Map2.Ops2 Map2.State2 Map2.Wf2 Map2.Wf2Proofs Map2.Wf2Dec.
Open Scope N_scope.

(** Every history of public editing calls (own-transaction [Force] form or user [Block]
    form, any attribute laws, any injected law failure, succeeding or failing) made with
    non-null in-use darts (distinct darts for 2-links) keeps the map well-formed. *)
Theorem C01_history `{Sig} : forall fail_at ops st,
  inv2 st -> hist_pre fail_at st ops -> inv2 (exec2 fail_at st ops).
Proof. exact history_inv2. Qed.
Print Assumptions C01_history.

(** One step, as applied by the oracle to implementation observations. *)
Theorem C01_step `{Sig} : forall fail_at st o,
  inv2 st -> pre_op fail_at st o -> wf2 (nd (snd (step2 fail_at st o))) (mem (snd (step2 fail_at st o))).
Proof. intros fa st o Hi Hp. exact (proj1 (proj2 (inv2_step fa st o Hi Hp))). Qed.
Print Assumptions C01_step.

(** The executable oracle decides exactly the stated well-formedness and preconditions. *)
Theorem C01_oracle_wf `{Sig} : forall n s, wf2b n s = true <-> 0 < n /\ wf2 n s.
Proof. exact wf2b_spec. Qed.
Print Assumptions C01_oracle_wf.

Theorem C01_oracle_pre `{Sig} : forall fa st o, pre_opb fa st o = true <-> pre_op fa st o.
Proof. exact pre_opb_spec. Qed.
Print Assumptions C01_oracle_pre.

(** The freshly built map satisfies the invariant (the premise is satisfiable). *)
Theorem C01_init `{Sig} : forall n ks, inv2 (empty2 n ks).
Proof. exact inv2_empty. Qed.
Print Assumptions C01_init.

(** Non-vacuity: a concrete history of public calls meets the premises of [C01_history] and really edits
    the map (executed on the f64 instance of the model). *)
From Coq Require Import Floats Uint63. Import ListNotations.
From HC Require Import Extract.Run2.
Fixpoint hist_preb (fa : option N) (st : state2) (ops : list op2) : bool :=
  match ops with
  | [] => true
  | o :: rest => pre_opb fa st o && hist_preb fa (snd (step2 fa st o)) rest
  end.
Lemma hist_preb_sound : forall fa ops st, hist_preb fa st ops = true -> hist_pre fa st ops.
Proof.
  intros fa. induction ops as [|o rest IH]; intros st Hb; cbn in *; [exact I|].
  apply andb_prop in Hb as [Ho Hr]. split; [now apply C01_oracle_pre | now apply IH].
Qed.
Definition c01_ops : list op2 :=
  [Force (Link1 1 2); Force (Link1 2 1); Force (Link1 3 4); Force (Link1 4 3);
   Force (WriteVertex 1 (PrimFloat.of_uint63 0, PrimFloat.of_uint63 0)); Force (Sew2 1 3);
   AddDart; Force (Unsew2 3); RemoveDart 5; Block [Link2 2 4; Unlink1 1]].
Example C01_history_nonvacuous :
  hist_pre None (empty2 4 []) c01_ops /\
  let st := exec2 None (empty2 4 []) c01_ops in
  beta (mem st) 1 2 = 1 /\ beta (mem st) 2 2 = 4 /\ beta (mem st) 1 1 = 0 /\ unused (mem st) 5 = true /\ nd st = 6.
Proof. split; [apply hist_preb_sound; vm_compute; reflexivity | vm_compute; repeat split; reflexivity]. Qed.

(** The link / unlink cores all of this is about are the programs regenerated from components/betas.rs by
    tools/tr_betas.py on every run. *)
From HC Require Import Map2.GenBetas Map2.GenBetasLaws.
Theorem C01_cores_are_the_source `{Sig} :
  (forall l r, gen_one_link_core l r = one_link_core l r) /\ (forall l r, gen_two_link_core l r = two_link_core l r) /\
  (forall l, gen_one_unlink_core l = one_unlink_core l) /\ (forall l, gen_two_unlink_core l = two_unlink_core l).
Proof.
  destruct cores_are_the_source as (A & B & _ & C & D & _). repeat split; assumption.
Qed.
Print Assumptions C01_cores_are_the_source.

(** A core that FAILS leaves the transaction's view as it found it -- the links exactly (they test before they write),
    the unlinks up to a null dart written over a null image.  A transactional link / unlink may therefore fail inside
    a larger transaction whose body handles the error and commits: nothing of the failed call is published.  The 2D
    harness runs half of the link / unlink argument pairs in that form against the model's answer for the force_ form
    (seeded change C01-3 fuses the reads and writes of one_link_core and is caught there with a concrete history). *)
From HC Require Import Map2.LinkFail.
Theorem C01_failed_core_leaves_view `{Sig} : forall E c w cnt e w' cnt',
  (forall l r, run E (one_link_core l r) c w cnt = (Failed e, w', cnt') -> w' = w) /\
  (forall l r, run E (two_link_core l r) c w cnt = (Failed e, w', cnt') -> w' = w) /\
  (forall l, run E (one_unlink_core l) c w cnt = (Failed e, w', cnt') -> view_same w w') /\
  (forall l, run E (two_unlink_core l) c w cnt = (Failed e, w', cnt') -> view_same w w').
Proof.
  intros E c w cnt e w' cnt'. split; [|split; [|split]].
  - intros l r. apply one_link_core_fail.
  - intros l r. apply two_link_core_fail.
  - intros l. apply one_unlink_core_fail.
  - intros l. apply two_unlink_core_fail.
Qed.
Print Assumptions C01_failed_core_leaves_view.
