(** * C12 -- the grid builders produce the advertised regular mesh for every size (2D part).
    [gen_square_rows] / [gen_tris_rows] are TRANSLATED from grid.rs on every run;
    [table_beta rows K nx ny i d] is beta_i(d) as the builder writes it from those rows. *)
From Coq Require Import ZArith List Bool.
From HC Require Import Build.GenGrid Build.Grid2 Build.Grid2Gen Build.Grid3Laws.
Import ListNotations.
Open Scope Z_scope.

(** For all positive sizes the map written from the generated tables is well-formed: the null
    dart is inert, images are existing darts, beta0 inverts beta1 (no dart is 0- or 1-free: all
    faces are closed), beta2 is a fixed-point-free involution on its domain. *)
Theorem C12_square_grid_wf : forall nx ny, 0 < nx -> 0 < ny ->
  wfZ (4 * nx * ny + 1) (table_beta gen_square_rows 4 nx ny).
Proof. exact square_grid_wf. Qed.
Print Assumptions C12_square_grid_wf.

Theorem C12_split_grid_wf : forall nx ny, 0 < nx -> 0 < ny ->
  wfZ (6 * nx * ny + 1) (table_beta gen_tris_rows 6 nx ny).
Proof. exact tris_grid_wf. Qed.
Print Assumptions C12_split_grid_wf.

(** The generated tables ARE the advertised mesh: cell (ix, iy) owns darts 1 + K (ix + nx iy) + k,
    its faces are the local beta1 cycles (one quadrilateral, resp. two triangles), and side k is
    glued to side k' of the neighbour (ix + dx, iy + dy) given by the specification table, or free
    when that neighbour does not exist -- for all sizes and all cells. *)
Theorem C12_square_is_spec : forall nx ny i d, 0 < nx -> 0 < ny ->
  table_beta gen_square_rows 4 nx ny i d = gbeta sq_spec nx ny i d.
Proof. exact square_table_is_spec. Qed.
Print Assumptions C12_square_is_spec.

Theorem C12_split_is_spec : forall nx ny i d, 0 < nx -> 0 < ny ->
  table_beta gen_tris_rows 6 nx ny i d = gbeta tri_spec nx ny i d.
Proof. exact tris_table_is_spec. Qed.
Print Assumptions C12_split_is_spec.

Theorem C12_glued_along_shared_sides : forall S nx ny, spec_ok S = true -> 0 < nx -> 0 < ny ->
  forall d, 1 <= d < ndarts S nx ny ->
  let '(dx, dy, k') := cnb S (dk S d) in
  if in_grid nx ny (dix S nx d + dx) (diy S nx d + dy)
  then gbeta S nx ny 2 d = did (cK S) nx (dix S nx d + dx) (diy S nx d + dy) k'
  else gbeta S nx ny 2 d = 0.
Proof. exact grid_b2_neighbour. Qed.
Print Assumptions C12_glued_along_shared_sides.

Theorem C12_faces_stay_in_cell : forall S nx ny, spec_ok S = true -> 0 < nx -> 0 < ny ->
  forall d, 1 <= d < ndarts S nx ny ->
  dix S nx (gbeta S nx ny 1 d) = dix S nx d /\ diy S nx (gbeta S nx ny 1 d) = diy S nx d.
Proof. exact grid_b1_same_cell. Qed.
Print Assumptions C12_faces_stay_in_cell.

(** 3D (partial): the translated corner table of the hexahedral builder places every local dart
    at a lattice corner of its cell, with the length of its own axis. *)
Theorem C12_hex_corner_table :
  forallb hex_corner_ok (map Z.of_nat (seq 0 24)) = true /\
  forallb (fun c => Nat.eqb (length (filter (fun p => hex_corner_code p =? c) (map Z.of_nat (seq 0 24)))) 3)
          (map Z.of_nat (seq 0 8)) = true.
Proof. exact hex_corner_table_ok. Qed.
Print Assumptions C12_hex_corner_table.

(** 3D, for ALL sizes: what the hexahedral builder writes -- the table regenerated from grid.rs on every run -- is a
    well-formed 3-map: null dart inert, images in range, beta0 / beta1 inverse, beta2 an involution without fixed
    point that never leaves the cell (closed hexahedra), beta3 an involution without fixed point between
    neighbouring cells and null exactly on the rim, and faces glued through beta3 mirror each other. *)
From HC Require Import Build.Grid3.
Theorem C12_hex_grid_wf : forall nx ny nz, 0 < nx -> 0 < ny -> 0 < nz ->
  wfZ3 (24 * nx * ny * nz + 1) (table_beta3 nx ny nz).
Proof. exact hex_grid_wf. Qed.
Print Assumptions C12_hex_grid_wf.

(** ... and it is the regular hexahedral mesh: the generated table is the closed-form specification (local face
    cycles, neighbour cell and local dart of every beta3 image) for every size and every cell. *)
Theorem C12_hex_table_is_spec : forall nx ny nz i d, 0 < nx -> 0 < ny -> 0 < nz ->
  table_beta3 nx ny nz i d = gbeta3 hex_spec nx ny nz i d.
Proof. exact hex_table_is_spec. Qed.
Print Assumptions C12_hex_table_is_spec.
Theorem C12_hex_faces_are_quads :
  forallb (fun k => c3l1 hex_spec (c3l1 hex_spec (c3l1 hex_spec (c3l1 hex_spec k))) =? k) (ks3 hex_spec) = true /\
  forallb (fun k => negb (c3l1 hex_spec (c3l1 hex_spec k) =? k)) (ks3 hex_spec) = true.
Proof. exact hex_faces_are_quads. Qed.
Print Assumptions C12_hex_faces_are_quads.
