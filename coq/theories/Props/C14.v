(** * C14 -- inserting vertices on an edge subdivides it and nothing else.  Proved: failures are atomic; a
    successful insertion keeps the map well formed.  The geometric and adjacency clauses are decided by the
    executable specification Extract/KernOracle.v on implementation observations. *)
From Coq Require Import List NArith Bool.
From HC Require Import Stm.Prog Stm.Atomic Map2.Ops2 Map2.State2 Map2.Orbit2 Map2.Kern2 Map2.KOps2.
Open Scope N_scope.

(** error clauses leave the map untouched: any kernel, any failure point *)
Theorem C14_failure_is_atomic `{Sig} : forall E n ks k st e st',
  atomically E (kcall_prog n ks k) st = (RErr e, st') -> st' = st.
Proof. intros E n ks k. exact (atomically_err_noop E (kcall_prog n ks k)). Qed.
Print Assumptions C14_failure_is_atomic.

(** Well-formedness clause: on EVERY well-formed 2-map, for every edge dart in use, every list of pairwise distinct
    in-use spare darts not containing the edge's dart, and every list of positions, an insertion that terminates
    normally leaves a well-formed 2-map (null dart untouched, images in range, beta0 / beta1 inverse, beta2 an
    involution without fixed point, removed darts free) -- interior, boundary and dangling edges alike. *)
From Coq Require Import List.
From HC Require Import Stm.ProgFacts Map2.Wf2 Map2.KernWf.
Theorem C14_insertion_keeps_wf2 `{Sig} : forall E n ks e nds ts c w cnt w' cnt',
  wf2 n w -> okd n w e -> Forall (okd n w) nds -> NoDup nds -> ~ In e nds ->
  run E (insert_vertices_on_edge n ks e nds ts) c w cnt = (Done tt, w', cnt') -> wf2 n w'.
Proof. intros E n ks e nds ts c w cnt w' cnt'. exact (insert_vertices_wf E n w ks e nds ts c cnt w' cnt'). Qed.
Print Assumptions C14_insertion_keeps_wf2.

(** The single-vertex entry point [insert_vertex_on_edge] (its own code path, spare darts given as a pair): on every
    well-formed 2-map, for every in-use edge dart that has an end point on each side (not both 1-free and 2-free),
    every in-use first spare dart and, when the edge has two darts, every in-use second spare dart, an insertion that
    terminates normally leaves a well-formed 2-map.  No distinctness premise: the kernel's own freeness test of the
    spare darts (part of the program) is what separates them from the edge's darts in the proof. *)
Theorem C14_single_insertion_keeps_wf2 `{Sig} : forall E n ks e nd1 nd2 t c w cnt w' cnt',
  wf2 n w -> okd n w e -> okd n w nd1 -> (beta w 2 e <> 0 -> okd n w nd2) ->
  ~ (beta w 1 e = 0 /\ beta w 2 e = 0) ->
  run E (insert_vertex_on_edge n ks e nd1 nd2 t) c w cnt = (Done tt, w', cnt') -> wf2 n w'.
Proof. intros E n ks e nd1 nd2 t c w cnt w' cnt'. exact (insert_vertex_wf E n w ks e nd1 nd2 t c cnt w' cnt'). Qed.
Print Assumptions C14_single_insertion_keeps_wf2.

(** Exact images after the insertion of one vertex (k = 1), on every store: the edge is replaced by two consecutive
    segments -- on both sides, glued segment by segment, when it has two darts -- and the 0- / 1- / 2-images of every
    other dart are untouched (face adjacency, other edges, end darts).  Boundary edge e -> b1: e -> nd1 -> b1.
    Two-dart edge (e | d2), e -> b1, d2 -> c1: e -> nd1 -> b1, d2 -> nd2 -> c1, e | nd2, d2 | nd1. *)
From HC Require Import Map2.SwapTopo Map2.InsertTopo.
Import ListNotations.
Theorem C14_single_insertion_boundary_images `{Sig} : forall E n ks e nd1 nd2 t c w cnt w' cnt',
  let b1 := beta w 1 e in
  beta w 2 e = 0 -> NoDup [e; b1; nd1] -> ~ In 0 [e; b1; nd1] ->
  run E (insert_vertex_on_edge n ks e nd1 nd2 t) c w cnt = (Done tt, w', cnt') ->
  forall i x, beta w' i x =
    if i =? 1 then (if x =? e then nd1 else if x =? nd1 then b1 else beta w 1 x)
    else if i =? 0 then (if x =? nd1 then e else if x =? b1 then nd1 else beta w 0 x)
    else beta w i x.
Proof. exact insert_vertex_topology_boundary. Qed.
Print Assumptions C14_single_insertion_boundary_images.

Theorem C14_single_insertion_inner_images `{Sig} : forall E n ks e nd1 nd2 t c w cnt w' cnt',
  let d2 := beta w 2 e in let b1 := beta w 1 e in let c1 := beta w 1 d2 in
  NoDup [e; d2; b1; c1; nd1; nd2] -> ~ In 0 [e; d2; b1; c1; nd1; nd2] ->
  run E (insert_vertex_on_edge n ks e nd1 nd2 t) c w cnt = (Done tt, w', cnt') ->
  forall i x, beta w' i x =
    if i =? 1 then (if x =? e then nd1 else if x =? nd1 then b1 else if x =? d2 then nd2 else if x =? nd2 then c1 else beta w 1 x)
    else if i =? 0 then (if x =? nd1 then e else if x =? b1 then nd1 else if x =? nd2 then d2 else if x =? c1 then nd2 else beta w 0 x)
    else if i =? 2 then (if x =? e then nd2 else if x =? nd2 then e else if x =? d2 then nd1 else if x =? nd1 then d2 else beta w 2 x)
    else beta w i x.
Proof. exact insert_vertex_topology_inner. Qed.
Print Assumptions C14_single_insertion_inner_images.

(** The new vertex lies at the requested position, under its identifier, and nothing else moves: after a successful
    single insertion the vertex identified by the orbit minimum of the first spare dart in the resulting map carries
    [new_vertex v1 v2 t] -- the point at relative position t on the segment, the midpoint when no position is given --
    where v1, v2 are the coordinates found under the identifiers of the two end points of the edge, and every other
    coordinate slot is as it was. *)
From HC Require Import Map2.Orbit2Proofs Map2.SewData.
Theorem C14_single_insertion_position `{Sig} : forall E n ks e nd1 nd2 t c w cnt w' cnt',
  dom_ok E n -> wf2 n w -> okd n w e -> okd n w nd1 -> (beta w 2 e <> 0 -> okd n w nd2) ->
  ~ (beta w 1 e = 0 /\ beta w 2 e = 0) ->
  run E (insert_vertex_on_edge n ks e nd1 nd2 t) c w cnt = (Done tt, w', cnt') ->
  exists i1 i2 i' v1 v2,
    is_vid n w e i1 /\ is_vid n w (if beta w 2 e =? 0 then beta w 1 e else beta w 2 e) i2 /\
    vertex w i1 = Some v1 /\ vertex w i2 = Some v2 /\
    is_vid n w' nd1 i' /\ vertex w' i' = Some (new_vertex v1 v2 t) /\ forall d, d <> i' -> vertex w' d = vertex w d.
Proof. exact insert_vertex_position. Qed.
Print Assumptions C14_single_insertion_position.

(** Any number of vertices.  [insert_vertices_on_edge] refines a pure function on images ([insert_pure]: unlink the
    edge, chain the first half of the spare darts from it, reconnect the old successor; on a two-dart edge do the same
    from the opposite dart with the second half, gluing each new dart to the matching dart of the first side), on every
    store; and on an interior two-dart edge (e | d2), e -> b1, d2 -> c1, with k positions and 2k pairwise distinct spare
    darts fh ++ sh, the result is: e -> fh_1 -> ... -> fh_k -> b1 and d2 -> sh_1 -> ... -> sh_k -> c1 (k + 1 consecutive
    segments on each side), glued segment by segment d2 | fh_k, sh_1 | fh_(k-1), ..., sh_(k-1) | fh_1, sh_k | e, and every
    image of every other dart as it was. *)
From HC Require Import Map2.FanTopo Map2.InsertManyTopo.
Theorem C14_insertion_refines_pure `{Sig} : forall E n ks e nds ts c w cnt w' cnt',
  run E (insert_vertices_on_edge n ks e nds ts) c w cnt = (Done tt, w', cnt') ->
  forall i d, beta w' i d = insert_pure (beta w) e (firstn (length ts) nds) (skipn (length ts) nds) i d.
Proof. exact insert_vertices_refines. Qed.
Print Assumptions C14_insertion_refines_pure.

Theorem C14_insertion_inner_segments `{Sig} : forall E n ks e nds ts c w cnt w' cnt',
  let d2 := beta w 2 e in let b1 := beta w 1 e in let c1 := beta w 1 d2 in
  let fh := firstn (length ts) nds in let sh := skipn (length ts) nds in
  ts <> [] -> length nds = (2 * length ts)%nat ->
  NoDup (e :: d2 :: b1 :: c1 :: nds) -> b1 <> 0 -> d2 <> 0 -> c1 <> 0 ->
  run E (insert_vertices_on_edge n ks e nds ts) c w cnt = (Done tt, w', cnt') ->
  chain (beta w') e (fh ++ [b1]) /\ chain (beta w') d2 (sh ++ [c1]) /\
  glued (beta w') d2 (combine (rev fh) sh) /\ beta w' 2 (last sh d2) = e /\ beta w' 2 e = last sh d2 /\
  (forall i d, ~ In d (e :: d2 :: b1 :: c1 :: nds) -> beta w' i d = beta w i d).
Proof. exact insert_vertices_inner. Qed.
Print Assumptions C14_insertion_inner_segments.

(** ... and on a boundary (one-dart) edge e -> b1: e -> fh_1 -> ... -> fh_k -> b1 (the second half of the spare darts is not
    used), the 0-image of b1 is the last new dart, nothing else changes. *)
Theorem C14_insertion_boundary_segments `{Sig} : forall E n ks e nds ts c w cnt w' cnt',
  let b1 := beta w 1 e in let fh := firstn (length ts) nds in
  beta w 2 e = 0 -> ts <> [] -> length nds = (2 * length ts)%nat ->
  NoDup (e :: b1 :: fh) -> b1 <> 0 ->
  run E (insert_vertices_on_edge n ks e nds ts) c w cnt = (Done tt, w', cnt') ->
  chain (beta w') e (fh ++ [b1]) /\ beta w' 0 b1 = last fh e /\
  (forall i d, ~ In d (e :: b1 :: fh) -> beta w' i d = beta w i d).
Proof. exact insert_vertices_boundary. Qed.
Print Assumptions C14_insertion_boundary_segments.

(** Non-vacuity: the two-dart edge (1 | 2) with 1 -> 3 and 2 -> 4, two positions and the spare darts 5 6 | 7 8 meet the
    premises of the pure specification, and the pure function gives 1 -> 5 -> 6 -> 3, 2 -> 7 -> 8 -> 4, glued
    2 | 6, 7 | 5, 8 | 1. *)
Definition c14_edge : img := fun i d =>
  if i =? 1 then (if d =? 1 then 3 else if d =? 2 then 4 else 0)
  else if i =? 0 then (if d =? 3 then 1 else if d =? 4 then 2 else 0)
  else if i =? 2 then (if d =? 1 then 2 else if d =? 2 then 1 else 0)
  else 0.
Example C14_inner_premises :
  [5; 6] <> [] /\ length [5; 6] = length [7; 8] /\
  NoDup (1 :: c14_edge 2 1 :: c14_edge 1 1 :: c14_edge 1 (c14_edge 2 1) :: [5; 6] ++ [7; 8]) /\
  c14_edge 1 1 <> 0 /\ c14_edge 2 1 <> 0 /\ c14_edge 1 (c14_edge 2 1) <> 0.
Proof.
  repeat split; try discriminate; try reflexivity.
  cbn. repeat (constructor; [cbn; intros Q; repeat (destruct Q as [Q|Q]; [discriminate Q|]); exact Q|]). constructor.
Qed.
Example C14_inner_result :
  let f' := insert_pure c14_edge 1 [5; 6] [7; 8] in
  (f' 1 1, f' 1 5, f' 1 6) = (5, 6, 3) /\ (f' 1 2, f' 1 7, f' 1 8) = (7, 8, 4) /\
  (f' 2 2, f' 2 6, f' 2 7, f' 2 5, f' 2 8, f' 2 1) = (6, 2, 5, 7, 1, 8).
Proof. vm_compute. repeat split. Qed.

(** Tie to the source: [insert_vertex_on_edge] -- the program of the four theorems above -- is, verbatim, the program that
    tools/tr_kern.py regenerates from cell_insertion/vertices.rs on every run (Map2/GenKern.v). *)
From HC Require Import Map2.GenKern Map2.GenKernLaws.
Theorem C14_single_insertion_is_the_source `{Sig} : forall n ks e nd1 nd2 t,
  gen_insert_vertex_on_edge n ks e nd1 nd2 t = insert_vertex_on_edge n ks e nd1 nd2 t.
Proof. exact gen_insert_vertex_on_edge_ok. Qed.
Print Assumptions C14_single_insertion_is_the_source.
