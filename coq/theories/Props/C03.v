(** * C03 -- cell ids, orbits and cell iterators agree with the orbit definition (2-maps).
    Statements only; every proof is [exact] of a lemma proved elsewhere.
    [reach (succ2 s p) d e]: e is reachable from d through non-null images of the policy's
    compositions; [wf2 n s]: the map is well-formed (C01). *)
From Coq Require Import List NArith Bool Sorted.
From HC Require Import Base.Closure Stm.Prog Map2.Ops2 Map2.State2 Map2.Wf2 Map2.Orbit2 Map2.Orbit2Proofs.
Open Scope N_scope.

(** The orbit of a dart under any policy (cell policies, linear policies, Custom) yields that
    dart first, then every dart of the forward closure exactly once, never the null dart. *)
Theorem C03_orbit `{Sig} : forall n s p d, wf2 n s -> policy_ok p = true -> d <> 0 -> d < n ->
  exists l, orbit2 n s p d = Some l /\ hd_error l = Some d /\ NoDup l /\ ~ In 0 l /\
            forall e, In e l <-> reach (succ2 s p) d e.
Proof. exact orbit2_spec. Qed.
Print Assumptions C03_orbit.

(** For the Vertex, Edge and Face policies the closure already contains the inverses:
    reachability is symmetric (hence, with reflexivity and transitivity, an equivalence). *)
Theorem C03_inverse_closed `{Sig} : forall n s p a b, wf2 n s -> cell_policy p = true -> a <> 0 -> a < n ->
  reach (succ2 s p) a b -> reach (succ2 s p) b a.
Proof. exact reach2_sym. Qed.
Print Assumptions C03_inverse_closed.

(** Identifiers are the smallest dart of the cell. *)
Theorem C03_vertex_id `{Sig} : forall E n c w d cnt l, dom_ok E n -> wf2 n w -> d <> 0 -> d < n ->
  orbit2 n w PVertex d = Some l ->
  exists r, run E (vertex_id_tx n d) c w cnt = (Done r, w, cnt) /\ minof r l.
Proof. exact vertex_id_min. Qed.
Print Assumptions C03_vertex_id.

Theorem C03_edge_id `{Sig} : forall E n c w d cnt l, dom_ok E n -> wf2 n w -> d <> 0 -> d < n ->
  orbit2 n w PEdge d = Some l ->
  exists r, run E (edge_id_tx d) c w cnt = (Done r, w, cnt) /\ minof r l.
Proof. exact edge_id_min. Qed.
Print Assumptions C03_edge_id.

Theorem C03_face_id `{Sig} : forall E n c w d cnt l, dom_ok E n -> wf2 n w -> d <> 0 -> d < n ->
  orbit2 n w PFace d = Some l ->
  exists r, run E (face_id_tx n d) c w cnt = (Done r, w, cnt) /\ minof r l.
Proof. exact face_id_min. Qed.
Print Assumptions C03_face_id.

(** Two darts get equal identifiers exactly when they lie in the same cell. *)
Theorem C03_same_cell `{Sig} : forall n s p d e ld le rd re, wf2 n s -> cell_policy p = true ->
  d <> 0 -> d < n -> e <> 0 -> e < n ->
  orbit2 n s p d = Some ld -> orbit2 n s p e = Some le -> minof rd ld -> minof re le ->
  (rd = re <-> reach (succ2 s p) d e).
Proof. exact min_same_cell. Qed.
Print Assumptions C03_same_cell.

(** Cell iterators: exactly the in-use darts that are their own identifier, in increasing order. *)
Theorem C03_iter `{Sig} : forall E n s idf v,
  In v (iter_ids E n s idf) <-> v <> 0 /\ v < n /\ unused s v = false /\ eval E (idf v) s = Some v.
Proof. exact iter_ids_spec. Qed.
Print Assumptions C03_iter.

Theorem C03_iter_sorted `{Sig} : forall E n s idf, StronglySorted N.lt (iter_ids E n s idf).
Proof. exact iter_ids_sorted. Qed.
Print Assumptions C03_iter_sorted.

(** Removed darts belong to no orbit of a dart in use. *)
Theorem C03_in_use `{Sig} : forall n s p a b, wf2 n s -> cell_policy p = true -> a <> 0 -> a < n ->
  unused s a = false -> reach (succ2 s p) a b -> unused s b = false.
Proof. exact reach2_in_use. Qed.
Print Assumptions C03_in_use.

(** The transactional orbit returns the same answer as the plain one. *)
Theorem C03_tx_eq_plain `{Sig} : forall E n c w p d cnt, dom_ok E n -> wf2 n w -> policy_ok p = true -> d <> 0 -> d < n ->
  exists l, orbit2 n w p d = Some l /\ run E (orbit2_tx n p d) c w cnt = (Done l, w, cnt).
Proof. exact orbit2_tx_eq_plain. Qed.
Print Assumptions C03_tx_eq_plain.

(** ** 3-maps.  Proved on every store whose images are in range and whose null dart is inert ([rng3], implied
    by well-formedness): the orbit worklist and the vertex / edge / volume identifier worklists. The face
    identifier (two-sided lock-step walk) and the claim that the vertex / face closures are closed under
    inverses on mirrored maps are decided per observation by Extract/Query3Oracle.v, not proved. *)
From HC Require Import Map3.Ops3 Map3.Wf3 Map3.Orbit3Proofs.

Theorem C03_orbit3 `{Sig} : forall n s p d, rng3 n s -> policy3_ok p = true -> d <> 0 -> d < n ->
  exists l, orbit3 n s p d = Some l /\ hd_error l = Some d /\ NoDup l /\ ~ In 0 l /\
            forall e, In e l <-> reach (succ3 s p) d e.
Proof. exact orbit3_spec. Qed.
Print Assumptions C03_orbit3.

Theorem C03_wf3_in_range `{Sig} : forall n s, wf3 n s -> rng3 n s.
Proof. exact wf3_rng3. Qed.
Print Assumptions C03_wf3_in_range.

(** the identifiers are the smallest darts of the orbits; the identifier functions terminate without panic
    on every in-range store *)
Theorem C03_vertex_id3 `{Sig} : forall E n c w d cnt l, dom3_ok E n -> rng3 n w -> d <> 0 -> d < n ->
  orbit3 n w QVertex d = Some l ->
  exists r, run E (vertex_id3 n d) c w cnt = (Done r, w, cnt) /\ minof r l.
Proof. exact vertex_id3_orbit_min. Qed.
Print Assumptions C03_vertex_id3.

Theorem C03_edge_id3 `{Sig} : forall E n c w d cnt l, dom3_ok E n -> rng3 n w -> d <> 0 -> d < n ->
  orbit3 n w QEdge d = Some l ->
  exists r, run E (edge_id3 n d) c w cnt = (Done r, w, cnt) /\ minof r l.
Proof. exact edge_id3_orbit_min. Qed.
Print Assumptions C03_edge_id3.

Theorem C03_volume_id3 `{Sig} : forall E n c w d cnt l, dom3_ok E n -> rng3 n w -> d <> 0 -> d < n ->
  orbit3 n w QVolume d = Some l ->
  exists r, run E (volume_id3 n d) c w cnt = (Done r, w, cnt) /\ minof r l.
Proof. exact volume_id3_orbit_min. Qed.
Print Assumptions C03_volume_id3.
