(** * C06 -- a call that reports an error leaves the map exactly as it was.
    Statements only.  In the model every transactional call is a [prog]; [atomically] is
    [atomically_with_err]; [step2] covers the [force_*] form and user blocks of several calls,
    with the [fail_at]-th user law call (merge/split/...) made to fail, for every [fail_at]. *)
From Coq Require Import List NArith Bool.
From HC Require Import Stm.Prog Stm.Atomic Map2.Ops2 Map2.State2 Map2.Tx2Proofs.
Open Scope N_scope.

(** Any program at all (core call, kernel, user block), any injected failure position:
    an error return publishes nothing. *)
Theorem C06_atomically `{Sig} : forall X E (p : prog X) st e st',
  atomically E p st = (RErr e, st') -> st' = st.
Proof. intros X. exact (@atomically_err_noop _ X). Qed.
Print Assumptions C06_atomically.

(** Same for hangs and panics raised before the commit. *)
Theorem C06_not_ok `{Sig} : forall X E (p : prog X) st r st',
  atomically E p st = (r, st') -> (forall x, r <> ROk x) -> st' = st.
Proof. intros X. exact (@atomically_not_ok_noop _ X). Qed.
Print Assumptions C06_not_ok.

(** There is no handler in the program syntax: an inner failure is the failure of the whole
    sequence, it cannot be swallowed and followed by a commit. *)
Theorem C06_no_catch `{Sig} : forall X Y E (p : prog X) (f : X -> prog Y) c w cnt e w' cnt',
  run E p c w cnt = (Failed e, w', cnt') -> run E (bind p f) c w cnt = (Failed e, w', cnt').
Proof. intros X Y. exact (@run_bind_failed _ X Y). Qed.
Print Assumptions C06_no_catch.

(** Every public 2-map editing step, any fault position. *)
Theorem C06_step2 `{Sig} : forall fa st o e, fst (step2 fa st o) = RErr e -> snd (step2 fa st o) = st.
Proof. exact step2_err_noop. Qed.
Print Assumptions C06_step2.

(** The same for kernels (vertex insertion, fan / ear-clipping triangulation, swap, cut,
    collapse) alone or composed with core calls in one user block. *)
From HC Require Import Map2.Orbit2 Map2.Kern2 Map2.KOps2 Map2.KTx2Proofs.
Theorem C06_stepk `{Sig} : forall fa st o e, fst (stepk fa st o) = RErr e -> snd (stepk fa st o) = st.
Proof. exact stepk_err_noop. Qed.
Print Assumptions C06_stepk.

(** Every public 3-map editing step, any fault position. *)
From HC Require Import Map3.Ops3 Map3.Tx3Proofs.
Theorem C06_step3 `{Sig} : forall fa st o e, fst (step3 fa st o) = RErr e -> snd (step3 fa st o) = st.
Proof. exact step3_err_noop. Qed.
Print Assumptions C06_step3.

(** Non-vacuity: a 2-sew whose second vertex merge is made to fail (fault index 1) after the links and the
    first merge have been written into the log really returns an error, and the dump of the map is unchanged;
    without the fault the same call succeeds and changes the map. *)
From Coq Require Import ZArith Floats Uint63. Import ListNotations.
From HC Require Import Extract.Tok Extract.Run2.
Definition c06_st : state2 :=
  exec2 None (empty2 4 (kinds_of_mask 1))
    [Force (Link1 1 2); Force (Link1 3 4);
     Force (WriteVertex 1 (PrimFloat.of_uint63 0, PrimFloat.of_uint63 0)); Force (WriteVertex 2 (PrimFloat.of_uint63 1, PrimFloat.of_uint63 0));
     Force (WriteVertex 3 (PrimFloat.of_uint63 1, PrimFloat.of_uint63 0)); Force (WriteVertex 4 (PrimFloat.of_uint63 0, PrimFloat.of_uint63 0));
     Force (@WriteAttr sig_f64 0 1 5%Z); Force (@WriteAttr sig_f64 0 2 6%Z); Force (@WriteAttr sig_f64 0 3 7%Z); Force (@WriteAttr sig_f64 0 4 8%Z)].
Example C06_fault_in_the_middle :
  (exists e, fst (step2 (Some 1) c06_st (Force (Sew2 1 3))) = RErr e) /\
  toks_eqb (dump2 (compact2 (snd (step2 (Some 1) c06_st (Force (Sew2 1 3)))))) (dump2 (compact2 c06_st)) = true /\
  fst (step2 None c06_st (Force (Sew2 1 3))) = ROk 0 /\
  toks_eqb (dump2 (compact2 (snd (step2 None c06_st (Force (Sew2 1 3)))))) (dump2 (compact2 c06_st)) = false.
Proof. vm_compute. split; [eexists; reflexivity|]. repeat split; reflexivity. Qed.
