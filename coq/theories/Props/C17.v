(** * C17 -- capture + classification.  Decided per explored input by Extract/GrisOracle.check17 on the
    anchors of the implementation's output; no model of the kernels is claimed.  Proved here: the meaning
    of the validator's anchor-kind test. *)
From Coq Require Import List Bool ZArith.
From HC Require Import Extract.GrisOracle.
Import ListNotations.

Theorem C17_has_dim_spec : forall o ds, has_dim o ds = true <-> exists a, o = Some a /\ In (adim a) ds.
Proof.
  intros o ds. unfold has_dim. destruct o as [a|].
  - rewrite existsb_exists. split.
    + intros (x & Hin & Hx). apply Z.eqb_eq in Hx. exists a. split; [reflexivity|]. now rewrite Hx.
    + intros (a' & [= <-] & Hin). exists (adim a). split; [exact Hin|apply Z.eqb_refl].
  - split; [discriminate|]. intros (a & Ha & _). discriminate.
Qed.
Print Assumptions C17_has_dim_spec.
