(** * C19 -- geometric primitives and the skewness measure obey their contracts.
    Statements only.  [fops F] is any scalar structure; [qops] the rationals (exact reading of the
    formulas generated from the source); [bops prec emax] Flocq's IEEE-754 binary floats of any
    format, rounding to nearest even (covers f32 and f64). *)
From Coq Require Import QArith ZArith.
From Flocq Require Import Core IEEE754.BinarySingleNaN.
From HC Require Import Geom.GenGeom Geom.GenGeomLaws Geom.GeomQ Geom.GeomFlocq.

(** Every compound-assignment operator gives the same result as its binary counterpart --
    for every scalar type, as an identity of the generated definitions. *)
Theorem C19_vector2_add_assign_vector2 : forall (F : Type) (o : fops F) self rhs, vector2_add_assign_vector2 o self rhs = vector2_add_vector2 o self rhs.
Proof. exact vector2_add_assign_vector2_eq. Qed.
Print Assumptions C19_vector2_add_assign_vector2.
Theorem C19_vector2_div_assign_t : forall (F : Type) (o : fops F) self rhs, vector2_div_assign_t o self rhs = vector2_div_t o self rhs.
Proof. exact vector2_div_assign_t_eq. Qed.
Print Assumptions C19_vector2_div_assign_t.
Theorem C19_vector2_mul_assign_t : forall (F : Type) (o : fops F) self rhs, vector2_mul_assign_t o self rhs = vector2_mul_t o self rhs.
Proof. exact vector2_mul_assign_t_eq. Qed.
Print Assumptions C19_vector2_mul_assign_t.
Theorem C19_vector2_sub_assign_vector2 : forall (F : Type) (o : fops F) self rhs, vector2_sub_assign_vector2 o self rhs = vector2_sub_vector2 o self rhs.
Proof. exact vector2_sub_assign_vector2_eq. Qed.
Print Assumptions C19_vector2_sub_assign_vector2.
Theorem C19_vector3_add_assign_vector3 : forall (F : Type) (o : fops F) self rhs, vector3_add_assign_vector3 o self rhs = vector3_add_vector3 o self rhs.
Proof. exact vector3_add_assign_vector3_eq. Qed.
Print Assumptions C19_vector3_add_assign_vector3.
Theorem C19_vector3_div_assign_t : forall (F : Type) (o : fops F) self rhs, vector3_div_assign_t o self rhs = vector3_div_t o self rhs.
Proof. exact vector3_div_assign_t_eq. Qed.
Print Assumptions C19_vector3_div_assign_t.
Theorem C19_vector3_mul_assign_t : forall (F : Type) (o : fops F) self rhs, vector3_mul_assign_t o self rhs = vector3_mul_t o self rhs.
Proof. exact vector3_mul_assign_t_eq. Qed.
Print Assumptions C19_vector3_mul_assign_t.
Theorem C19_vector3_sub_assign_vector3 : forall (F : Type) (o : fops F) self rhs, vector3_sub_assign_vector3 o self rhs = vector3_sub_vector3 o self rhs.
Proof. exact vector3_sub_assign_vector3_eq. Qed.
Print Assumptions C19_vector3_sub_assign_vector3.
Theorem C19_vertex2_add_assign_refvector2 : forall (F : Type) (o : fops F) self rhs, vertex2_add_assign_refvector2 o self rhs = vertex2_add_refvector2 o self rhs.
Proof. exact vertex2_add_assign_refvector2_eq. Qed.
Print Assumptions C19_vertex2_add_assign_refvector2.
Theorem C19_vertex2_add_assign_vector2 : forall (F : Type) (o : fops F) self rhs, vertex2_add_assign_vector2 o self rhs = vertex2_add_vector2 o self rhs.
Proof. exact vertex2_add_assign_vector2_eq. Qed.
Print Assumptions C19_vertex2_add_assign_vector2.
Theorem C19_vertex2_sub_assign_refvector2 : forall (F : Type) (o : fops F) self rhs, vertex2_sub_assign_refvector2 o self rhs = vertex2_sub_refvector2 o self rhs.
Proof. exact vertex2_sub_assign_refvector2_eq. Qed.
Print Assumptions C19_vertex2_sub_assign_refvector2.
Theorem C19_vertex2_sub_assign_vector2 : forall (F : Type) (o : fops F) self rhs, vertex2_sub_assign_vector2 o self rhs = vertex2_sub_vector2 o self rhs.
Proof. exact vertex2_sub_assign_vector2_eq. Qed.
Print Assumptions C19_vertex2_sub_assign_vector2.
Theorem C19_vertex3_add_assign_refvector3 : forall (F : Type) (o : fops F) self rhs, vertex3_add_assign_refvector3 o self rhs = vertex3_add_refvector3 o self rhs.
Proof. exact vertex3_add_assign_refvector3_eq. Qed.
Print Assumptions C19_vertex3_add_assign_refvector3.
Theorem C19_vertex3_add_assign_vector3 : forall (F : Type) (o : fops F) self rhs, vertex3_add_assign_vector3 o self rhs = vertex3_add_vector3 o self rhs.
Proof. exact vertex3_add_assign_vector3_eq. Qed.
Print Assumptions C19_vertex3_add_assign_vector3.
Theorem C19_vertex3_sub_assign_refvector3 : forall (F : Type) (o : fops F) self rhs, vertex3_sub_assign_refvector3 o self rhs = vertex3_sub_refvector3 o self rhs.
Proof. exact vertex3_sub_assign_refvector3_eq. Qed.
Print Assumptions C19_vertex3_sub_assign_refvector3.
Theorem C19_vertex3_sub_assign_vector3 : forall (F : Type) (o : fops F) self rhs, vertex3_sub_assign_vector3 o self rhs = vertex3_sub_vector3 o self rhs.
Proof. exact vertex3_sub_assign_vector3_eq. Qed.
Print Assumptions C19_vertex3_sub_assign_vector3.

(** v - v = 0 exactly, in floating point, for finite coordinates. *)
Theorem C19_vertex2_sub_self : forall prec emax (Hp : Prec_gt_0 prec) (Hm : Prec_lt_emax prec emax) v,
  fin2 prec emax v -> vertex2_sub_vertex2 (bops prec emax Hp Hm) v v = (z prec emax, z prec emax).
Proof. exact vertex2_sub_self. Qed.
Print Assumptions C19_vertex2_sub_self.
Theorem C19_vector2_sub_self : forall prec emax (Hp : Prec_gt_0 prec) (Hm : Prec_lt_emax prec emax) v,
  fin2 prec emax v -> vector2_sub_vector2 (bops prec emax Hp Hm) v v = (z prec emax, z prec emax).
Proof. exact vector2_sub_self. Qed.
Print Assumptions C19_vector2_sub_self.
Theorem C19_vertex3_sub_self : forall prec emax (Hp : Prec_gt_0 prec) (Hm : Prec_lt_emax prec emax) v,
  fin3 prec emax v -> vertex3_sub_vertex3 (bops prec emax Hp Hm) v v = (z prec emax, z prec emax, z prec emax).
Proof. exact vertex3_sub_self. Qed.
Print Assumptions C19_vertex3_sub_self.
Theorem C19_vector3_sub_self : forall prec emax (Hp : Prec_gt_0 prec) (Hm : Prec_lt_emax prec emax) v,
  fin3 prec emax v -> vector3_sub_vector3 (bops prec emax Hp Hm) v v = (z prec emax, z prec emax, z prec emax).
Proof. exact vector3_sub_self. Qed.
Print Assumptions C19_vector3_sub_self.

(** Exact-arithmetic reading of the generated formulas ("up to rounding" = these identities hold
    exactly over the rationals; the floating-point deviation is rounding only -- bounded per run by
    the law checker, not by a theorem: partial). *)
Theorem C19_add_sub_exact : forall v u, eq2 (vertex2_sub_vertex2 qops (vertex2_add_vector2 qops v u) v) u.
Proof. exact vertex2_add_sub. Qed.
Print Assumptions C19_add_sub_exact.
Theorem C19_add_sub_exact3 : forall v u, eq3 (vertex3_sub_vertex3 qops (vertex3_add_vector3 qops v u) v) u.
Proof. exact vertex3_add_sub. Qed.
Print Assumptions C19_add_sub_exact3.
Theorem C19_dot_symmetric2 : forall a b, (vector2_dot qops a b == vector2_dot qops b a)%Q.
Proof. exact vector2_dot_sym. Qed.
Print Assumptions C19_dot_symmetric2.
Theorem C19_dot_symmetric3 : forall a b, (vector3_dot qops a b == vector3_dot qops b a)%Q.
Proof. exact vector3_dot_sym. Qed.
Print Assumptions C19_dot_symmetric3.
Theorem C19_cross_antisymmetric : forall a b, eq3 (vector3_cross qops a b) (vector3_neg qops (vector3_cross qops b a)).
Proof. exact vector3_cross_antisym. Qed.
Print Assumptions C19_cross_antisymmetric.
Theorem C19_cross_orthogonal_l : forall a b, (vector3_dot qops a (vector3_cross qops a b) == 0)%Q.
Proof. exact vector3_cross_orth_l. Qed.
Print Assumptions C19_cross_orthogonal_l.
Theorem C19_cross_orthogonal_r : forall a b, (vector3_dot qops b (vector3_cross qops a b) == 0)%Q.
Proof. exact vector3_cross_orth_r. Qed.
Print Assumptions C19_cross_orthogonal_r.
Theorem C19_orientation_is_determinant : forall v1 v2 v3 : vec2 Q,
  (vertex2_cross_product_from_vertices qops v1 v2 v3 ==
   (fst v2 - fst v1) * (snd v3 - snd v1) - (snd v2 - snd v1) * (fst v3 - fst v1))%Q.
Proof. exact orientation_is_det. Qed.
Print Assumptions C19_orientation_is_determinant.
Theorem C19_orientation_swap : forall v1 v2 v3 : vec2 Q,
  (vertex2_cross_product_from_vertices qops v1 v3 v2 == - vertex2_cross_product_from_vertices qops v1 v2 v3)%Q.
Proof. exact orientation_swap. Qed.
Print Assumptions C19_orientation_swap.
Theorem C19_average_symmetric : forall a b, eq2 (vertex2_average qops a b) (vertex2_average qops b a).
Proof. exact vertex2_average_sym. Qed.
Print Assumptions C19_average_symmetric.
Theorem C19_average_between : forall a b : vec2 Q, (fst a <= fst b)%Q -> (snd a <= snd b)%Q ->
  (fst a <= fst (vertex2_average qops a b) <= fst b)%Q /\ (snd a <= snd (vertex2_average qops a b) <= snd b)%Q.
Proof. exact vertex2_average_between. Qed.
Print Assumptions C19_average_between.

(** unit_dir / normal_dir are tied by text: their source is the expected
    "norm.is_zero() -> Err, else self / norm" (resp. "unit_dir of (-y, x)"). *)
Theorem C19_unit_dir_source : src_vector2_unit_dir = src_vector3_unit_dir.
Proof. rewrite src_vector2_unit_dir_expected, src_vector3_unit_dir_expected. reflexivity. Qed.
Print Assumptions C19_unit_dir_source.
