(** * C13 -- polygon triangulation kernels produce a true triangulation or refuse (work in progress). *)
From Coq Require Import List NArith Bool.
From HC Require Import Stm.Prog Stm.Atomic Map2.Ops2 Map2.State2 Map2.Orbit2 Map2.Kern2 Map2.KOps2.
Open Scope N_scope.

Theorem C13_failure_is_atomic `{Sig} : forall E n ks k st e st',
  atomically E (kcall_prog n ks k) st = (RErr e, st') -> st' = st.
Proof. intros E n ks k. exact (atomically_err_noop E (kcall_prog n ks k)). Qed.
Print Assumptions C13_failure_is_atomic.

(** The identity behind the "areas add up" clause, for every polygon (convex or not): the triangles of the fan
    from the first corner add up to the polygon's signed (shoelace) area. Integer coordinates; binary64 values
    are dyadic, i.e. integers up to a common scaling. *)
From Coq Require Import ZArith.
From HC Require Import Geom.Shoelace.
Theorem C13_fan_tiles_area : forall apex rest, area2 (apex :: rest) = fan apex rest.
Proof. exact fan_tiles_area. Qed.
Print Assumptions C13_fan_tiles_area.
