(** * C13 -- polygon triangulation kernels produce a true triangulation or refuse (work in progress). *)
From Coq Require Import List NArith Bool.
From HC Require Import Stm.Prog Stm.Atomic Map2.Ops2 Map2.State2 Map2.Orbit2 Map2.Kern2 Map2.KOps2.
Open Scope N_scope.

Theorem C13_failure_is_atomic `{Sig} : forall E n ks k st e st',
  atomically E (kcall_prog n ks k) st = (RErr e, st') -> st' = st.
Proof. intros E n ks k. exact (atomically_err_noop E (kcall_prog n ks k)). Qed.
Print Assumptions C13_failure_is_atomic.

(** The identity behind the "areas add up" clause, for every polygon (convex or not): the triangles of the fan
    from the first corner add up to the polygon's signed (shoelace) area. Integer coordinates; binary64 values
    are dyadic, i.e. integers up to a common scaling. *)
From Coq Require Import ZArith.
From HC Require Import Geom.Shoelace.
Theorem C13_fan_tiles_area : forall apex rest, area2 (apex :: rest) = fan apex rest.
Proof. exact fan_tiles_area. Qed.
Print Assumptions C13_fan_tiles_area.

(** The fan triangulation of a polygon leaves n - 2 triangles.  [chain f p0 C]: starting at p0 the 1-images run through
    the list C; the polygon is closed (the last dart of C goes back to p0, which has it as 0-image); C has k + 2 darts
    for k pairs of spare darts; all darts involved are pairwise distinct.  [fan_tri f p0 C pairs]: for each pair (x, y)
    in turn the current dart d, its successor c and x form the triangle d -> c -> x -> d, glued along x | y to the next
    one, which starts at y; the last two darts of C close the last triangle.  Every image of every other dart is as it
    was.  Proved for every store, attribute law and injected failure: first the transactional program (sews with
    their merges) is shown to refine a pure function on images ([fan_from_refines]), then the pure function is
    analysed by induction over the list of pairs ([fan_pure_spec], [fan_from_pure_spec]). *)
From Coq Require Import List.
From HC Require Import Stm.ProgFacts Map2.FanTopo.
Import ListNotations.
Theorem C13_fan_leaves_triangles `{Sig} : forall E n ks p0 nds C c w cnt w' cnt',
  chain (beta w) p0 C -> beta w 0 p0 = last C p0 -> beta w 1 (last C p0) = p0 ->
  length C = (length (chunks2 nds) + 2)%nat -> NoDup (p0 :: C ++ flat (chunks2 nds)) ->
  run E (fan_from n ks p0 nds) c w cnt = (Done tt, w', cnt') ->
  fan_tri (beta w') p0 C (chunks2 nds) /\
  (forall i d, ~ In d (p0 :: C ++ flat (chunks2 nds)) -> beta w' i d = beta w i d).
Proof. exact fan_from_triangulates. Qed.
Print Assumptions C13_fan_leaves_triangles.

(** the refinement itself: the images after a fan are those of the pure function, on every store *)
Theorem C13_fan_refines_pure `{Sig} : forall E n ks sdart nds c w cnt w' cnt',
  run E (fan_from n ks sdart nds) c w cnt = (Done tt, w', cnt') ->
  forall i d, beta w' i d = fan_from_pure (beta w) sdart (chunks2 nds) i d.
Proof. exact fan_from_refines. Qed.
Print Assumptions C13_fan_refines_pure.

(** Non-vacuity: a pentagon 1 -> 2 -> 3 -> 4 -> 5 -> 1 and the spare darts (6, 7), (8, 9) meet the premises, and the pure
    function leaves the three triangles 1 -> 2 -> 6, 7 -> 3 -> 8, 9 -> 4 -> 5. *)
Definition c13_pentagon : img := fun i d =>
  if i =? 1 then (if d =? 1 then 2 else if d =? 2 then 3 else if d =? 3 then 4 else if d =? 4 then 5 else if d =? 5 then 1 else 0)
  else if i =? 0 then (if d =? 1 then 5 else if d =? 2 then 1 else if d =? 3 then 2 else if d =? 4 then 3 else if d =? 5 then 4 else 0)
  else 0.
Example C13_pentagon_premises :
  chain c13_pentagon 1 [2; 3; 4; 5] /\ c13_pentagon 0 1 = last [2; 3; 4; 5] 1 /\ c13_pentagon 1 (last [2; 3; 4; 5] 1) = 1 /\
  length [2; 3; 4; 5] = (length [(6, 7); (8, 9)] + 2)%nat /\ NoDup (1 :: [2; 3; 4; 5] ++ flat [(6, 7); (8, 9)]).
Proof.
  repeat split; try reflexivity.
  cbn. repeat (constructor; [cbn; intros Q; repeat (destruct Q as [Q|Q]; [discriminate Q|]); exact Q|]). constructor.
Qed.
Example C13_pentagon_triangles :
  let f' := fan_from_pure c13_pentagon 1 [(6, 7); (8, 9)] in
  (f' 1 1, f' 1 2, f' 1 6) = (2, 6, 1) /\ (f' 1 7, f' 1 3, f' 1 8) = (3, 8, 7) /\ (f' 1 9, f' 1 4, f' 1 5) = (4, 5, 9) /\
  (f' 2 6, f' 2 7, f' 2 8, f' 2 9) = (7, 6, 9, 8).
Proof. vm_compute. repeat split. Qed.

(** the same for the two public entry points (what precedes the fan only reads): [fan_convex_cell] fans from the face's
    own dart; [fan_cell] from the dart its star search returns *)
Theorem C13_fan_convex_cell_leaves_triangles `{Sig} : forall E n ks p0 nds C c w cnt w' cnt',
  chain (beta w) p0 C -> beta w 0 p0 = last C p0 -> beta w 1 (last C p0) = p0 ->
  length C = (length (chunks2 nds) + 2)%nat -> NoDup (p0 :: C ++ flat (chunks2 nds)) ->
  run E (fan_convex_cell n ks p0 nds) c w cnt = (Done tt, w', cnt') ->
  fan_tri (beta w') p0 C (chunks2 nds) /\
  (forall i d, ~ In d (p0 :: C ++ flat (chunks2 nds)) -> beta w' i d = beta w i d).
Proof. exact fan_convex_cell_triangulates. Qed.
Print Assumptions C13_fan_convex_cell_leaves_triangles.

Theorem C13_fan_cell_leaves_triangles `{Sig} : forall E n ks f nds c w cnt w' cnt',
  run E (fan_cell n ks f nds) c w cnt = (Done tt, w', cnt') ->
  exists p0, forall C,
    chain (beta w) p0 C -> beta w 0 p0 = last C p0 -> beta w 1 (last C p0) = p0 ->
    length C = (length (chunks2 nds) + 2)%nat -> NoDup (p0 :: C ++ flat (chunks2 nds)) ->
    fan_tri (beta w') p0 C (chunks2 nds) /\
    (forall i d, ~ In d (p0 :: C ++ flat (chunks2 nds)) -> beta w' i d = beta w i d).
Proof. exact fan_cell_triangulates. Qed.
Print Assumptions C13_fan_cell_leaves_triangles.

(** Ear clipping.  Whichever ears the geometric test selects, a run of the clipping loop that terminates normally has
    changed the images exactly as the pure function [earclip_pure] does (on every store); and one clipped ear (d1, d2)
    between b0 and b1 is: the triangle d1 -> d2 -> nd1 -> d1 closed, nd2 taking its place between b0 and b1, nd1 | nd2
    glued, every other image untouched. *)
From HC Require Import Map2.EarTopo.
Theorem C13_earclip_refines_pure `{Sig} : forall E n ks ccw pairs ds vs c w cnt k w' cnt',
  run E (earclip_loop n ks ccw ds vs pairs) c w cnt = (Done k, w', cnt') ->
  forall i d, beta w' i d = earclip_pure (beta w) ccw ds vs pairs i d.
Proof. intros E n ks ccw pairs ds vs c w cnt k w' cnt'. exact (earclip_loop_refines E n ks ccw pairs ds vs c w cnt k w' cnt'). Qed.
Print Assumptions C13_earclip_refines_pure.

Theorem C13_one_ear `{Sig} : forall (f : img) d1 d2 nd1 nd2,
  let b0 := f 0 d1 in let b1 := f 1 d2 in
  f 1 b0 = d1 -> f 1 d1 = d2 ->
  NoDup [b0; d1; d2; b1; nd1; nd2] ->
  let f' := ear_iter f d1 d2 nd1 nd2 in
  (f' 1 d1, f' 1 d2, f' 1 nd1) = (d2, nd1, d1) /\ (f' 1 b0, f' 1 nd2) = (nd2, b1) /\ (f' 2 nd1, f' 2 nd2) = (nd2, nd1) /\
  (forall i d, ~ In d [b0; d1; d2; b1; nd1; nd2] -> f' i d = f i d).
Proof. intros f d1 d2 nd1 nd2. exact (ear_iter_spec f d1 d2 nd1 nd2). Qed.
Print Assumptions C13_one_ear.

(** Tie to the source: [fan_convex_cell], with the loop [fan_loop] and the body [fan_from] the theorems above are about,
    is, verbatim, the program (and the recursive function for its loop over the pairs of spare darts) that
    tools/tr_kern.py regenerates from triangulation/fan.rs::process_convex_cell on every run. *)
From HC Require Import Map2.GenKern Map2.GenKernLaws.
Theorem C13_fan_convex_is_the_source `{Sig} : forall n ks f nds, gen_fan_convex_cell n ks f nds = fan_convex_cell n ks f nds.
Proof. exact gen_fan_convex_cell_ok. Qed.
Print Assumptions C13_fan_convex_is_the_source.
