(** * C08 -- operations composed in one transaction act like the same calls in sequence. *)
From Coq Require Import List NArith Bool.
From HC Require Import Stm.Prog Stm.Atomic Map2.Ops2 Map2.State2 Map2.Tx2Proofs.
Open Scope N_scope.

(** For all programs that never read outside their transaction ([no_atomic]) and all initial
    stores: if running them one after the other, each in its own transaction, succeeds with
    final store [st'], then the single atomic block succeeds with exactly [st']. *)
Theorem C08_compose `{Sig} : forall E ps st st', e_fail_at E = None -> Forall no_atomic ps ->
  seq_run E ps st = Some st' -> atomically E (block ps) st = (ROk tt, st').
Proof. exact compose_block. Qed.
Print Assumptions C08_compose.

(** A transactional program never looks at anything but its own view. *)
Theorem C08_own_view `{Sig} : forall X E (p : prog X), no_atomic p ->
  forall c c' w cnt, run E p c w cnt = run E p c' w cnt.
Proof. intros X. exact (@run_no_atomic _ X). Qed.
Print Assumptions C08_own_view.

(** Every public transactional 2-map call satisfies the premise... *)
Theorem C08_calls2_no_atomic `{Sig} : forall n ks c, no_atomic (call2_prog n ks c).
Proof. exact na_call2. Qed.
Print Assumptions C08_calls2_no_atomic.

(** ... hence a block of 2-map calls equals the sequence of [force_*] calls. *)
Theorem C08_block2 `{Sig} : forall st cs st', seq_force st cs = Some st' ->
  step2 None st (Block cs) = (ROk 0, st').
Proof. exact compose2. Qed.
Print Assumptions C08_block2.

(** Kernels: none of them reads outside its transaction (this is what the fix of the
    non-transactional [is_free] in cell_insertion/vertices.rs restored), hence a block
    mixing core calls and kernels equals the one-after-the-other execution. *)
From HC Require Import Map2.Orbit2 Map2.Kern2 Map2.KOps2 Map2.KTx2Proofs.
Theorem C08_kernels_no_atomic `{Sig} : forall n ks k, no_atomic (kcall_prog n ks k).
Proof. exact na_kcall. Qed.
Print Assumptions C08_kernels_no_atomic.

Theorem C08_kblock `{Sig} : forall st bs st', seq_items st bs = Some st' ->
  stepk None st (KBlock bs) = (ROk 0, st').
Proof. exact compose_kblock. Qed.
Print Assumptions C08_kblock.

(** 3-maps: every public call (links, sews with the lock-step face walks, ids) stays inside its
    transaction -- three_sew / three_unsew only since their faces are read with orbit_transac --
    hence a block of 3-map calls equals the sequence of [force_*] calls. *)
From HC Require Import Map3.Ops3 Map3.Tx3Proofs.
Theorem C08_calls3_no_atomic `{Sig} : forall n ks c, no_atomic (call3_prog n ks c).
Proof. exact na_call3. Qed.
Print Assumptions C08_calls3_no_atomic.

Theorem C08_block3 `{Sig} : forall st cs st', seq_force3 st cs = Some st' ->
  step3 None st (Block3 cs) = (ROk 0, st').
Proof. exact compose3. Qed.
Print Assumptions C08_block3.

(** Non-vacuity: calls where each one reads what the previous ones wrote (the face is built, then sewn, inside
    the block) succeed one after the other, so the premise of [C08_block2] holds, and the block really
    changes the map. *)
From Coq Require Import ZArith Floats Uint63. Import ListNotations.
From HC Require Import Extract.Run2.
Definition c08_pt (x y : Z) : V2 := (PrimFloat.of_uint63 (Uint63.of_Z x), PrimFloat.of_uint63 (Uint63.of_Z y)).
Definition c08_calls : list call2 :=
  [Link1 1 2; Link1 2 1; Link1 3 4; Link1 4 3;
   WriteVertex 1 (c08_pt 0 0); WriteVertex 2 (c08_pt 1 0); WriteVertex 3 (c08_pt 1 0); WriteVertex 4 (c08_pt 0 0);
   Sew2 1 3; Unsew1 2].
Definition c08_is_some {X} (o : option X) : bool := match o with Some _ => true | None => false end.
Example C08_block2_nonvacuous :
  exists st', seq_force (empty2 4 []) c08_calls = Some st' /\ beta (mem st') 2 1 = 3 /\ beta (mem st') 1 2 = 0 /\
              step2 None (empty2 4 []) (Block c08_calls) = (ROk 0, st').
Proof.
  (* only first-order values are computed: the stores (functions) are never normalised *)
  assert (Hsome : c08_is_some (seq_force (empty2 4 []) c08_calls) = true) by (vm_compute; reflexivity).
  assert (Hs : option_map (fun s => (beta (mem s) 2 1, beta (mem s) 1 2)) (seq_force (empty2 4 []) c08_calls) = Some (3, 0))
    by (vm_compute; reflexivity).
  destruct (seq_force (empty2 4 []) c08_calls) as [st'|] eqn:Es; [|discriminate Hsome].
  exists st'. cbn [option_map] in Hs. injection Hs as H1 H2.
  split; [reflexivity|]. split; [exact H1|]. split; [exact H2|]. now apply C08_block2.
Qed.
