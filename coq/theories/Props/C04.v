(** * C04 -- 2D sew/unsew keep embedded data attached to the right cells.  Proved: atomicity, the topology clause
    for the four sews, the data clause for coordinates through the 1-sew / 1-unsew; the other data clauses are
    decided by Extract/Sew2Oracle.v on implementation observations. *)
From Coq Require Import List NArith Bool.
From HC Require Import Stm.Prog Stm.Atomic Map2.Ops2 Map2.State2 Map2.Tx2Proofs.
Open Scope N_scope.

(** A merge or split rejected by the attribute makes the whole call fail, and a failed call
    changes nothing: instance of C06. *)
Theorem C04_failure_is_atomic `{Sig} : forall fa st o e, fst (step2 fa st o) = RErr e -> snd (step2 fa st o) = st.
Proof. exact step2_err_noop. Qed.
Print Assumptions C04_failure_is_atomic.

(** Topology clause, for every store, every dart pair, every attribute law and fault position: a sew / unsew
    that terminates normally has exactly the effect of the corresponding link / unlink on the images and removal
    flags of every dart ([topo_eq]: equal images and flags at every identifier), and that link / unlink succeeds. *)
From HC Require Import Map2.Wf2Proofs Map2.SewTopo.
Theorem C04_one_sew_topology `{Sig} : forall E n ks l r c w cnt w1 cnt1,
  run E (one_sew n ks l r) c w cnt = (Done tt, w1, cnt1) ->
  exists w2, run E (one_link_core l r) c w cnt = (Done tt, w2, cnt) /\ topo_eq w2 w1.
Proof. exact one_sew_topology. Qed.
Print Assumptions C04_one_sew_topology.

Theorem C04_two_sew_topology `{Sig} : forall E n ks l r c w cnt w1 cnt1,
  run E (two_sew n ks l r) c w cnt = (Done tt, w1, cnt1) ->
  exists w2, run E (two_link_core l r) c w cnt = (Done tt, w2, cnt) /\ topo_eq w2 w1.
Proof. exact two_sew_topology. Qed.
Print Assumptions C04_two_sew_topology.

Theorem C04_one_unsew_topology `{Sig} : forall E n ks l c w cnt w1 cnt1,
  run E (one_unsew n ks l) c w cnt = (Done tt, w1, cnt1) ->
  exists w2, run E (one_unlink_core l) c w cnt = (Done tt, w2, cnt) /\ topo_eq w2 w1.
Proof. exact one_unsew_topology. Qed.
Print Assumptions C04_one_unsew_topology.

Theorem C04_two_unsew_topology `{Sig} : forall E n ks l c w cnt w1 cnt1,
  run E (two_unsew n ks l) c w cnt = (Done tt, w1, cnt1) ->
  exists w2, run E (two_unlink_core l) c w cnt = (Done tt, w2, cnt) /\ topo_eq w2 w1.
Proof. exact two_unsew_topology. Qed.
Print Assumptions C04_two_unsew_topology.

(** Data clause, proved for the coordinates carried through the 1-sew and the 1-unsew (the attribute kinds and the
    2-sews are decided per observation by Extract/Sew2Oracle.v): when the 1-sew of [l] onto [r] merges two
    vertices, the vertex of the linked map -- identified by the smallest dart of its orbit -- carries the lawful
    merge of the two former values, the former identifiers are emptied and every other slot is untouched (a vertex
    merged with itself keeps its value); the 1-unsew is the mirror image with the split law. *)
From HC Require Import Stm.ProgFacts Map2.Wf2 Map2.Orbit2 Map2.Orbit2Proofs Map2.SewData.
Theorem C04_one_sew_vertex_data `{Sig} : forall E n ks l r c w cnt w' cnt',
  dom_ok E n -> wf2 n w -> okd n w l -> okd n w r -> beta w 2 l <> 0 ->
  run E (one_sew n ks l r) c w cnt = (Done tt, w', cnt') ->
  exists i1 i2 i',
    is_vid n w (beta w 2 l) i1 /\ is_vid n w r i2 /\ is_vid n (set1 w l r) r i' /\
    (forall d, d <> i1 -> d <> i2 -> d <> i' -> vertex w' d = vertex w d) /\
    (i1 <> i2 -> merged (vertex w i1) (vertex w i2) <> None /\ vertex w' i' = merged (vertex w i1) (vertex w i2) /\
                 (i1 <> i' -> vertex w' i1 = None) /\ (i2 <> i' -> vertex w' i2 = None)) /\
    (i1 = i2 -> vertex w' i' = vertex w i1 /\ (i1 <> i' -> vertex w' i1 = None)).
Proof. exact one_sew_vertex_data. Qed.
Print Assumptions C04_one_sew_vertex_data.
Theorem C04_one_unsew_vertex_data `{Sig} : forall E n ks l c w cnt w' cnt',
  dom_ok E n -> wf2 n w -> okd n w l -> beta w 2 l <> 0 -> beta w 1 l <> 0 ->
  run E (one_unsew n ks l) c w cnt = (Done tt, w', cnt') ->
  let r := beta w 1 l in let w1 := clr1 w l r in
  exists i0 il ir,
    is_vid n w r i0 /\ is_vid n w1 (beta w 2 l) il /\ is_vid n w1 r ir /\
    (forall d, d <> il -> d <> ir -> d <> i0 -> vertex w' d = vertex w d) /\
    (il <> ir -> exists lv rv, split_of (vertex w i0) = Some (lv, rv) /\ vertex w' il = Some lv /\ vertex w' ir = Some rv /\
                  (i0 <> il -> i0 <> ir -> vertex w' i0 = None)) /\
    (il = ir -> vertex w' il = vertex w i0 /\ (i0 <> il -> vertex w' i0 = None)).
Proof. exact one_unsew_vertex_data. Qed.
Print Assumptions C04_one_unsew_vertex_data.

(** Data clause for coordinates through the 2-sew and the 2-unsew.  [merge_effect w w' i1 i2 i'] says: slot [i'] of [w']
    carries the lawful merge of slots [i1], [i2] of [w] (which exists), the two former slots are emptied unless one of
    them is [i'], every other slot is untouched (and when [i1 = i2] the value is kept, moved if the identifier changed);
    [split_effect] is the mirror image with the split law.  The identifiers are orbit minima ([is_vid]) of the map
    before / after the link ([set2] / [clr2] = the 2-link / 2-unlink applied to the store).  A 2-sew merges the vertex
    of [l] with the one at the end of [r] and / or the vertex at the end of [l] with the one of [r], depending on which
    of the two darts has a 1-image: three theorems, the last one with the two merges in sequence. *)
Theorem C04_two_sew_vertex_data_left `{Sig} : forall E n ks l r c w cnt w' cnt',
  dom_ok E n -> wf2 n w -> okd n w l -> okd n w r -> l <> r -> beta w 1 l = 0 -> beta w 1 r <> 0 ->
  run E (two_sew n ks l r) c w cnt = (Done tt, w', cnt') ->
  exists i1 i2 i',
    is_vid n w l i1 /\ is_vid n w (beta w 1 r) i2 /\ is_vid n (set2 w l r) l i' /\ merge_effect w w' i1 i2 i'.
Proof. exact two_sew_vertex_data_left. Qed.
Print Assumptions C04_two_sew_vertex_data_left.

Theorem C04_two_sew_vertex_data_right `{Sig} : forall E n ks l r c w cnt w' cnt',
  dom_ok E n -> wf2 n w -> okd n w l -> okd n w r -> l <> r -> beta w 1 l <> 0 -> beta w 1 r = 0 ->
  run E (two_sew n ks l r) c w cnt = (Done tt, w', cnt') ->
  exists i1 i2 i',
    is_vid n w (beta w 1 l) i1 /\ is_vid n w r i2 /\ is_vid n (set2 w l r) r i' /\ merge_effect w w' i1 i2 i'.
Proof. exact two_sew_vertex_data_right. Qed.
Print Assumptions C04_two_sew_vertex_data_right.

Theorem C04_two_sew_vertex_data_both `{Sig} : forall E n ks l r c w cnt w' cnt',
  dom_ok E n -> wf2 n w -> okd n w l -> okd n w r -> l <> r -> beta w 1 l <> 0 -> beta w 1 r <> 0 ->
  run E (two_sew n ks l r) c w cnt = (Done tt, w', cnt') ->
  exists i1 i2 i3 i4 iL iR,
    is_vid n w l i1 /\ is_vid n w (beta w 1 r) i2 /\ is_vid n w (beta w 1 l) i3 /\ is_vid n w r i4 /\
    is_vid n (set2 w l r) l iL /\ is_vid n (set2 w l r) r iR /\
    exists wm, merge_effect w wm i1 i2 iL /\ merge_effect wm w' i3 i4 iR.
Proof. exact two_sew_vertex_data_both. Qed.
Print Assumptions C04_two_sew_vertex_data_both.

Theorem C04_two_unsew_vertex_data_left `{Sig} : forall E n ks l c w cnt w' cnt',
  dom_ok E n -> wf2 n w -> okd n w l -> beta w 2 l <> 0 -> beta w 1 l = 0 -> beta w 1 (beta w 2 l) <> 0 ->
  run E (two_unsew n ks l) c w cnt = (Done tt, w', cnt') ->
  let r := beta w 2 l in let w1 := clr2 w l r in
  exists i0 il ir,
    is_vid n w l i0 /\ is_vid n w1 l il /\ is_vid n w1 (beta w 1 r) ir /\ split_effect w w' i0 il ir.
Proof. exact two_unsew_vertex_data_left. Qed.
Print Assumptions C04_two_unsew_vertex_data_left.

Theorem C04_two_unsew_vertex_data_right `{Sig} : forall E n ks l c w cnt w' cnt',
  dom_ok E n -> wf2 n w -> okd n w l -> beta w 2 l <> 0 -> beta w 1 l <> 0 -> beta w 1 (beta w 2 l) = 0 ->
  run E (two_unsew n ks l) c w cnt = (Done tt, w', cnt') ->
  let r := beta w 2 l in let w1 := clr2 w l r in
  exists i0 il ir,
    is_vid n w r i0 /\ is_vid n w1 (beta w 1 l) il /\ is_vid n w1 r ir /\ split_effect w w' i0 il ir.
Proof. exact two_unsew_vertex_data_right. Qed.
Print Assumptions C04_two_unsew_vertex_data_right.

Theorem C04_two_unsew_vertex_data_both `{Sig} : forall E n ks l c w cnt w' cnt',
  dom_ok E n -> wf2 n w -> okd n w l -> beta w 2 l <> 0 -> beta w 1 l <> 0 -> beta w 1 (beta w 2 l) <> 0 ->
  run E (two_unsew n ks l) c w cnt = (Done tt, w', cnt') ->
  let r := beta w 2 l in let w1 := clr2 w l r in
  exists j0 jl jr k0 kl kr,
    is_vid n w l j0 /\ is_vid n w r k0 /\
    is_vid n w1 l jl /\ is_vid n w1 (beta w 1 r) jr /\ is_vid n w1 (beta w 1 l) kl /\ is_vid n w1 r kr /\
    exists wm, split_effect w wm j0 jl jr /\ split_effect wm w' k0 kl kr.
Proof. exact two_unsew_vertex_data_both. Qed.
Print Assumptions C04_two_unsew_vertex_data_both.

(** Data clause for the other attribute kinds.  [attrs_effect ks c w w' l r out]: for every registered kind bound to the
    cell kind [c], slot [out] of [w'] carries the kind's own lawful merge of slots [l], [r] of [w] (which exists), the
    two former slots are emptied unless one of them is [out], the other slots of the kind are untouched, and every kind
    not bound to [c] is untouched altogether; [attrs_split_effect] is the mirror image.  The kinds are registered once
    each ([NoDup]).  1-sew / 1-unsew: vertex-bound kinds under the same identifiers as the coordinates; 2-sew /
    2-unsew: edge-bound kinds always (new edge identifier = orbit minimum [is_eid]), vertex-bound kinds at the ends
    that meet -- successive effects through intermediate stores, in the order the code applies them. *)
From HC Require Import Map2.SewAttr.
Theorem C04_one_sew_attr_data `{Sig} : forall E n ks l r c w cnt w' cnt',
  dom_ok E n -> wf2 n w -> okd n w l -> okd n w r -> beta w 2 l <> 0 -> NoDup (map fst ks) ->
  run E (one_sew n ks l r) c w cnt = (Done tt, w', cnt') ->
  exists i1 i2 i',
    is_vid n w (beta w 2 l) i1 /\ is_vid n w r i2 /\ is_vid n (set1 w l r) r i' /\
    attrs_effect ks KVertex w w' i1 i2 i'.
Proof. exact one_sew_attr_data. Qed.
Print Assumptions C04_one_sew_attr_data.

Theorem C04_one_unsew_attr_data `{Sig} : forall E n ks l c w cnt w' cnt',
  dom_ok E n -> wf2 n w -> okd n w l -> beta w 2 l <> 0 -> beta w 1 l <> 0 -> NoDup (map fst ks) ->
  run E (one_unsew n ks l) c w cnt = (Done tt, w', cnt') ->
  let r := beta w 1 l in let w1 := clr1 w l r in
  exists i0 il ir,
    is_vid n w r i0 /\ is_vid n w1 (beta w 2 l) il /\ is_vid n w1 r ir /\
    attrs_split_effect ks KVertex w w' il ir i0.
Proof. exact one_unsew_attr_data. Qed.
Print Assumptions C04_one_unsew_attr_data.

Theorem C04_two_sew_attr_data_none `{Sig} : forall E n ks l r c w cnt w' cnt',
  dom_ok E n -> wf2 n w -> okd n w l -> okd n w r -> l <> r -> beta w 1 l = 0 -> beta w 1 r = 0 -> NoDup (map fst ks) ->
  run E (two_sew n ks l r) c w cnt = (Done tt, w', cnt') ->
  exists en, is_eid n (set2 w l r) l en /\ attrs_effect ks KEdge w w' l r en.
Proof. exact two_sew_attr_data_none. Qed.
Print Assumptions C04_two_sew_attr_data_none.

Theorem C04_two_sew_attr_data_left `{Sig} : forall E n ks l r c w cnt w' cnt',
  dom_ok E n -> wf2 n w -> okd n w l -> okd n w r -> l <> r -> beta w 1 l = 0 -> beta w 1 r <> 0 -> NoDup (map fst ks) ->
  run E (two_sew n ks l r) c w cnt = (Done tt, w', cnt') ->
  exists i1 i2 i' en wa,
    is_vid n w l i1 /\ is_vid n w (beta w 1 r) i2 /\ is_vid n (set2 w l r) l i' /\ is_eid n (set2 w l r) l en /\
    attrs_effect ks KVertex w wa i1 i2 i' /\ attrs_effect ks KEdge wa w' l r en.
Proof. exact two_sew_attr_data_left. Qed.
Print Assumptions C04_two_sew_attr_data_left.

Theorem C04_two_sew_attr_data_right `{Sig} : forall E n ks l r c w cnt w' cnt',
  dom_ok E n -> wf2 n w -> okd n w l -> okd n w r -> l <> r -> beta w 1 l <> 0 -> beta w 1 r = 0 -> NoDup (map fst ks) ->
  run E (two_sew n ks l r) c w cnt = (Done tt, w', cnt') ->
  exists i1 i2 i' en wa,
    is_vid n w (beta w 1 l) i1 /\ is_vid n w r i2 /\ is_vid n (set2 w l r) r i' /\ is_eid n (set2 w l r) l en /\
    attrs_effect ks KVertex w wa i1 i2 i' /\ attrs_effect ks KEdge wa w' l r en.
Proof. exact two_sew_attr_data_right. Qed.
Print Assumptions C04_two_sew_attr_data_right.

Theorem C04_two_sew_attr_data_both `{Sig} : forall E n ks l r c w cnt w' cnt',
  dom_ok E n -> wf2 n w -> okd n w l -> okd n w r -> l <> r -> beta w 1 l <> 0 -> beta w 1 r <> 0 -> NoDup (map fst ks) ->
  run E (two_sew n ks l r) c w cnt = (Done tt, w', cnt') ->
  exists i1 i2 i3 i4 iL iR en wa wb,
    is_vid n w l i1 /\ is_vid n w (beta w 1 r) i2 /\ is_vid n w (beta w 1 l) i3 /\ is_vid n w r i4 /\
    is_vid n (set2 w l r) l iL /\ is_vid n (set2 w l r) r iR /\ is_eid n (set2 w l r) l en /\
    attrs_effect ks KVertex w wa i1 i2 iL /\ attrs_effect ks KVertex wa wb i3 i4 iR /\ attrs_effect ks KEdge wb w' l r en.
Proof. exact two_sew_attr_data_both. Qed.
Print Assumptions C04_two_sew_attr_data_both.

Theorem C04_two_unsew_attr_data_none `{Sig} : forall E n ks l c w cnt w' cnt',
  dom_ok E n -> wf2 n w -> okd n w l -> beta w 2 l <> 0 -> beta w 1 l = 0 -> beta w 1 (beta w 2 l) = 0 -> NoDup (map fst ks) ->
  run E (two_unsew n ks l) c w cnt = (Done tt, w', cnt') ->
  let r := beta w 2 l in let w1 := clr2 w l r in
  exists eo, is_eid n w l eo /\ attrs_split_effect ks KEdge w w' l r eo.
Proof. exact two_unsew_attr_data_none. Qed.
Print Assumptions C04_two_unsew_attr_data_none.

Theorem C04_two_unsew_attr_data_left `{Sig} : forall E n ks l c w cnt w' cnt',
  dom_ok E n -> wf2 n w -> okd n w l -> beta w 2 l <> 0 -> beta w 1 l = 0 -> beta w 1 (beta w 2 l) <> 0 -> NoDup (map fst ks) ->
  run E (two_unsew n ks l) c w cnt = (Done tt, w', cnt') ->
  let r := beta w 2 l in let w1 := clr2 w l r in
  exists eo i0 il ir wa,
    is_eid n w l eo /\ is_vid n w l i0 /\ is_vid n w1 l il /\ is_vid n w1 (beta w 1 r) ir /\
    attrs_split_effect ks KEdge w wa l r eo /\ attrs_split_effect ks KVertex wa w' il ir i0.
Proof. exact two_unsew_attr_data_left. Qed.
Print Assumptions C04_two_unsew_attr_data_left.

Theorem C04_two_unsew_attr_data_right `{Sig} : forall E n ks l c w cnt w' cnt',
  dom_ok E n -> wf2 n w -> okd n w l -> beta w 2 l <> 0 -> beta w 1 l <> 0 -> beta w 1 (beta w 2 l) = 0 -> NoDup (map fst ks) ->
  run E (two_unsew n ks l) c w cnt = (Done tt, w', cnt') ->
  let r := beta w 2 l in let w1 := clr2 w l r in
  exists eo i0 il ir wa,
    is_eid n w l eo /\ is_vid n w r i0 /\ is_vid n w1 (beta w 1 l) il /\ is_vid n w1 r ir /\
    attrs_split_effect ks KEdge w wa l r eo /\ attrs_split_effect ks KVertex wa w' il ir i0.
Proof. exact two_unsew_attr_data_right. Qed.
Print Assumptions C04_two_unsew_attr_data_right.

Theorem C04_two_unsew_attr_data_both `{Sig} : forall E n ks l c w cnt w' cnt',
  dom_ok E n -> wf2 n w -> okd n w l -> beta w 2 l <> 0 -> beta w 1 l <> 0 -> beta w 1 (beta w 2 l) <> 0 -> NoDup (map fst ks) ->
  run E (two_unsew n ks l) c w cnt = (Done tt, w', cnt') ->
  let r := beta w 2 l in let w1 := clr2 w l r in
  exists eo j0 jl jr k0 kl kr wa wb,
    is_eid n w l eo /\ is_vid n w l j0 /\ is_vid n w r k0 /\
    is_vid n w1 l jl /\ is_vid n w1 (beta w 1 r) jr /\ is_vid n w1 (beta w 1 l) kl /\ is_vid n w1 r kr /\
    attrs_split_effect ks KEdge w wa l r eo /\ attrs_split_effect ks KVertex wa wb jl jr j0 /\ attrs_split_effect ks KVertex wb w' kl kr k0.
Proof. exact two_unsew_attr_data_both. Qed.
Print Assumptions C04_two_unsew_attr_data_both.


(** Tie to the source: the four programs [one_sew], [one_unsew], [two_sew], [two_unsew] about which the theorems above
    speak are, verbatim, the programs that tools/tr_sews.py regenerates from dim2/sews/one.rs and two.rs on every run
    (Map2/GenSews.v); an edit of those functions changes the generated file and this theorem stops compiling. *)
From HC Require Import Map2.GenSews Map2.GenSewsLaws.
Theorem C04_sews_are_the_source `{Sig} :
  (forall n ks l r, gen_one_sew n ks l r = one_sew n ks l r) /\ (forall n ks l, gen_one_unsew n ks l = one_unsew n ks l) /\
  (forall n ks l r, gen_two_sew n ks l r = two_sew n ks l r) /\ (forall n ks l, gen_two_unsew n ks l = two_unsew n ks l).
Proof. exact sews_are_the_source. Qed.
Print Assumptions C04_sews_are_the_source.
