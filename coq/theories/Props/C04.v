(** * C04 -- 2D sew/unsew keep embedded data attached to the right cells (work in progress). *)
From Coq Require Import List NArith Bool.
From HC Require Import Stm.Prog Stm.Atomic Map2.Ops2 Map2.State2 Map2.Tx2Proofs.
Open Scope N_scope.

(** A merge or split rejected by the attribute makes the whole call fail, and a failed call
    changes nothing: instance of C06. *)
Theorem C04_failure_is_atomic `{Sig} : forall fa st o e, fst (step2 fa st o) = RErr e -> snd (step2 fa st o) = st.
Proof. exact step2_err_noop. Qed.
Print Assumptions C04_failure_is_atomic.
