(** * C04 -- 2D sew/unsew keep embedded data attached to the right cells (work in progress). *)
From Coq Require Import List NArith Bool.
From HC Require Import Stm.Prog Stm.Atomic Map2.Ops2 Map2.State2 Map2.Tx2Proofs.
Open Scope N_scope.

(** A merge or split rejected by the attribute makes the whole call fail, and a failed call
    changes nothing: instance of C06. *)
Theorem C04_failure_is_atomic `{Sig} : forall fa st o e, fst (step2 fa st o) = RErr e -> snd (step2 fa st o) = st.
Proof. exact step2_err_noop. Qed.
Print Assumptions C04_failure_is_atomic.

(** Topology clause, for every store, every dart pair, every attribute law and fault position: a sew / unsew
    that terminates normally has exactly the effect of the corresponding link / unlink on the images and removal
    flags of every dart ([topo_eq]: equal images and flags at every identifier), and that link / unlink succeeds. *)
From HC Require Import Map2.Wf2Proofs Map2.SewTopo.
Theorem C04_one_sew_topology `{Sig} : forall E n ks l r c w cnt w1 cnt1,
  run E (one_sew n ks l r) c w cnt = (Done tt, w1, cnt1) ->
  exists w2, run E (one_link_core l r) c w cnt = (Done tt, w2, cnt) /\ topo_eq w2 w1.
Proof. exact one_sew_topology. Qed.
Print Assumptions C04_one_sew_topology.

Theorem C04_two_sew_topology `{Sig} : forall E n ks l r c w cnt w1 cnt1,
  run E (two_sew n ks l r) c w cnt = (Done tt, w1, cnt1) ->
  exists w2, run E (two_link_core l r) c w cnt = (Done tt, w2, cnt) /\ topo_eq w2 w1.
Proof. exact two_sew_topology. Qed.
Print Assumptions C04_two_sew_topology.

Theorem C04_one_unsew_topology `{Sig} : forall E n ks l c w cnt w1 cnt1,
  run E (one_unsew n ks l) c w cnt = (Done tt, w1, cnt1) ->
  exists w2, run E (one_unlink_core l) c w cnt = (Done tt, w2, cnt) /\ topo_eq w2 w1.
Proof. exact one_unsew_topology. Qed.
Print Assumptions C04_one_unsew_topology.

Theorem C04_two_unsew_topology `{Sig} : forall E n ks l c w cnt w1 cnt1,
  run E (two_unsew n ks l) c w cnt = (Done tt, w1, cnt1) ->
  exists w2, run E (two_unlink_core l) c w cnt = (Done tt, w2, cnt) /\ topo_eq w2 w1.
Proof. exact two_unsew_topology. Qed.
Print Assumptions C04_two_unsew_topology.
