(** * C15 -- remeshing primitives keep a triangle mesh a triangle mesh (work in progress). *)
From Coq Require Import List NArith Bool.
From HC Require Import Stm.Prog Stm.Atomic Map2.Ops2 Map2.State2 Map2.Orbit2 Map2.Kern2 Map2.KOps2.
Open Scope N_scope.

Theorem C15_failure_is_atomic `{Sig} : forall E n ks k st e st',
  atomically E (kcall_prog n ks k) st = (RErr e, st') -> st' = st.
Proof. intros E n ks k. exact (atomically_err_noop E (kcall_prog n ks k)). Qed.
Print Assumptions C15_failure_is_atomic.

(** The identity behind "the signed area is conserved by a swap": the two triangles on either diagonal of a
    quadrilateral a b c d have the same total signed area. *)
From Coq Require Import ZArith Lia.
From HC Require Import Geom.Shoelace.
Theorem C15_swap_conserves_area : forall a b c d : P,
  (tri2 a b c + tri2 a c d = tri2 b c d + tri2 b d a)%Z.
Proof. intros a b c d. unfold tri2. ring. Qed.
Print Assumptions C15_swap_conserves_area.

(** ... and by cutting an edge at a point m of the segment [a, b] (m = a + t (b - a), here with the
    parameter cleared: den * m = (den - num) * a + num * b): the triangle a b c splits in a m c and m b c. *)
Theorem C15_cut_conserves_area : forall (a b c m : P) (num den : Z),
  (den * fst m = (den - num) * fst a + num * fst b)%Z -> (den * snd m = (den - num) * snd a + num * snd b)%Z ->
  (den * (tri2 a m c + tri2 m b c) = den * tri2 a b c)%Z.
Proof.
  intros a b c m num den Hx Hy. unfold tri2.
  transitivity (den * (- fst a * (snd c - snd a) + snd a * (fst c - fst a) + fst b * snd c - snd b * fst c)
                + (den * fst m) * (snd b - snd a) + (den * snd m) * (fst a - fst b))%Z; [ring|].
  rewrite Hx, Hy. ring.
Qed.
Print Assumptions C15_cut_conserves_area.
