(** * C15 -- remeshing primitives keep a triangle mesh a triangle mesh.  Proved: failures are atomic, the area
    identities behind swap and cut, and the well-formedness clause for swap and boundary cut; the other clauses
    are decided by the executable specification Extract/KernOracle.v on implementation observations. *)
From Coq Require Import List NArith Bool.
From HC Require Import Stm.Prog Stm.Atomic Map2.Ops2 Map2.State2 Map2.Orbit2 Map2.Kern2 Map2.KOps2.
Open Scope N_scope.

Theorem C15_failure_is_atomic `{Sig} : forall E n ks k st e st',
  atomically E (kcall_prog n ks k) st = (RErr e, st') -> st' = st.
Proof. intros E n ks k. exact (atomically_err_noop E (kcall_prog n ks k)). Qed.
Print Assumptions C15_failure_is_atomic.

(** The identity behind "the signed area is conserved by a swap": the two triangles on either diagonal of a
    quadrilateral a b c d have the same total signed area. *)
From Coq Require Import ZArith Lia.
From HC Require Import Geom.Shoelace.
Theorem C15_swap_conserves_area : forall a b c d : P,
  (tri2 a b c + tri2 a c d = tri2 b c d + tri2 b d a)%Z.
Proof. intros a b c d. unfold tri2. ring. Qed.
Print Assumptions C15_swap_conserves_area.

(** ... and by cutting an edge at a point m of the segment [a, b] (m = a + t (b - a), here with the
    parameter cleared: den * m = (den - num) * a + num * b): the triangle a b c splits in a m c and m b c. *)
Theorem C15_cut_conserves_area : forall (a b c m : P) (num den : Z),
  (den * fst m = (den - num) * fst a + num * fst b)%Z -> (den * snd m = (den - num) * snd a + num * snd b)%Z ->
  (den * (tri2 a m c + tri2 m b c) = den * tri2 a b c)%Z.
Proof.
  intros a b c m num den Hx Hy. unfold tri2.
  transitivity (den * (- fst a * (snd c - snd a) + snd a * (fst c - fst a) + fst b * snd c - snd b * fst c)
                + (den * fst m) * (snd b - snd a) + (den * snd m) * (fst a - fst b))%Z; [ring|].
  rewrite Hx, Hy. ring.
Qed.
Print Assumptions C15_cut_conserves_area.

(** Well-formedness clause for two of the primitives, for ALL maps: a swap that terminates normally keeps the
    2-map well formed whatever surrounds the edge (if one of the six darts around it is missing, an unsew of the
    null dart makes the whole kernel fail); a cut of a boundary edge that terminates normally keeps it well formed
    when the edge's dart has a predecessor and the three spare darts are in use (the first two distinct, the
    third not the edge's dart). *)
From Coq Require Import List.
From HC Require Import Stm.ProgFacts Map2.Wf2 Map2.KernWf.
Theorem C15_swap_keeps_wf2 `{Sig} : forall E n ks e c w cnt w' cnt',
  wf2 n w -> okd n w e ->
  run E (swap_edge n ks e) c w cnt = (Done tt, w', cnt') -> wf2 n w'.
Proof. intros E n ks e c w cnt w' cnt'. exact (swap_edge_wf E n w ks e c cnt w' cnt'). Qed.
Print Assumptions C15_swap_keeps_wf2.
Theorem C15_cut_outer_keeps_wf2 `{Sig} : forall E n ks e nd1 nd2 nd3 c w cnt w' cnt',
  wf2 n w -> okd n w e -> okd n w nd1 -> okd n w nd2 -> okd n w nd3 -> nd1 <> nd2 -> e <> nd3 -> beta w 0 e <> 0 ->
  run E (cut_outer_edge n ks e nd1 nd2 nd3) c w cnt = (Done tt, w', cnt') -> wf2 n w'.
Proof. intros E n ks e nd1 nd2 nd3 c w cnt w' cnt'. exact (cut_outer_edge_wf E n w ks e nd1 nd2 nd3 c cnt w' cnt'). Qed.
Print Assumptions C15_cut_outer_keeps_wf2.

(** ... and the cut of an interior edge, when the edge's dart and its 2-image have predecessors, the six spare darts
    are in use, the pairs that get 2-linked are distinct, and the spare darts differ from the darts of the edge. *)
Theorem C15_cut_inner_keeps_wf2 `{Sig} : forall E n ks e nd1 nd2 nd3 nd4 nd5 nd6 rd c w cnt w' cnt',
  wf2 n w -> okd n w e -> okd n w nd1 -> okd n w nd2 -> okd n w nd3 -> okd n w nd4 -> okd n w nd5 -> okd n w nd6 ->
  nd1 <> nd2 -> nd4 <> nd5 -> beta w 2 e = rd -> beta w 0 e <> 0 -> beta w 0 rd <> 0 ->
  ~ In e (nd1 :: nd2 :: nd3 :: nd4 :: nd5 :: nd6 :: nil) -> rd <> nd3 -> rd <> nd6 ->
  run E (cut_inner_edge n ks e nd1 nd2 nd3 nd4 nd5 nd6) c w cnt = (Done tt, w', cnt') -> wf2 n w'.
Proof. intros E n ks e nd1 nd2 nd3 nd4 nd5 nd6 rd c w cnt w' cnt'. exact (cut_inner_edge_wf E n w ks e nd1 nd2 nd3 nd4 nd5 nd6 rd c cnt w' cnt'). Qed.
Print Assumptions C15_cut_inner_keeps_wf2.

(** The swap puts the other diagonal.  For the edge (l, r = beta2 l) between the triangles l -> a -> b -> l and
    r -> c -> d -> r (a, b the 1- and 0-images of l; c, d those of r; six distinct non-null darts), a swap that
    terminates normally leaves exactly: l -> d -> a -> l and r -> b -> c -> r (1-images and, inversely, 0-images), and
    the 0- / 1-images of every other dart and all 2-images as they were: the two faces stay triangles, the edge now
    joins the two opposite corners, the surrounding mesh is untouched.  On every well-formed map, for the program
    regenerated from swap.rs. *)
From HC Require Import Map2.SwapTopo.
Import ListNotations.
Theorem C15_swap_is_other_diagonal `{Sig} : forall E n ks e c w cnt w' cnt',
  let l := e in let r := beta w 2 e in
  let a := beta w 1 l in let b := beta w 0 l in let c0 := beta w 1 r in let d := beta w 0 r in
  wf2 n w -> e < n ->
  NoDup [l; a; b; r; c0; d] -> ~ In 0 [l; a; b; r; c0; d] ->
  run E (swap_edge n ks e) c w cnt = (Done tt, w', cnt') ->
  forall i x, beta w' i x =
    if i =? 1 then (if x =? l then d else if x =? d then a else if x =? a then l else
                    if x =? r then b else if x =? b then c0 else if x =? c0 then r else beta w 1 x)
    else if i =? 0 then (if x =? d then l else if x =? a then d else if x =? l then a else
                         if x =? b then r else if x =? c0 then b else if x =? r then c0 else beta w 0 x)
    else beta w i x.
Proof. exact swap_edge_other_diagonal. Qed.
Print Assumptions C15_swap_is_other_diagonal.

(** The cuts, in the same style: exact images after a cut that terminates normally.  Boundary edge e of the triangle
    e -> a -> b: the result is e -> nd1 -> b and nd3 -> a -> nd2, glued along nd1 | nd2.  Inner edge (e, r) between
    e -> a -> b and r -> c -> d: four triangles e -> nd1 -> b, nd3 -> a -> nd2, r -> nd4 -> d, nd6 -> c -> nd5, glued
    nd1 | nd2, nd4 | nd5, e | nd6, r | nd3.  Every other image is untouched (triangles stay triangles; the
    neighbourhood of the edited edge keeps its adjacency). *)
Theorem C15_cut_outer_topology `{Sig} : forall E n ks e nd1 nd2 nd3 c w cnt w' cnt',
  let a := beta w 1 e in let b := beta w 0 e in
  NoDup [e; a; b; nd1; nd2; nd3] -> ~ In 0 [e; a; b; nd1; nd2; nd3] -> beta w 1 a = b ->
  run E (cut_outer_edge n ks e nd1 nd2 nd3) c w cnt = (Done tt, w', cnt') ->
  forall i x, beta w' i x =
    if i =? 1 then (if x =? e then nd1 else if x =? nd1 then b else if x =? nd3 then a else
                    if x =? a then nd2 else if x =? nd2 then nd3 else beta w 1 x)
    else if i =? 0 then (if x =? nd1 then e else if x =? b then nd1 else if x =? a then nd3 else
                         if x =? nd2 then a else if x =? nd3 then nd2 else beta w 0 x)
    else if i =? 2 then (if x =? nd1 then nd2 else if x =? nd2 then nd1 else beta w 2 x)
    else beta w i x.
Proof. exact cut_outer_edge_topology. Qed.
Print Assumptions C15_cut_outer_topology.

Theorem C15_cut_inner_topology `{Sig} : forall E n ks e nd1 nd2 nd3 nd4 nd5 nd6 c w cnt w' cnt',
  let r := beta w 2 e in
  let a := beta w 1 e in let b := beta w 0 e in let c0 := beta w 1 r in let d := beta w 0 r in
  NoDup [e; a; b; r; c0; d; nd1; nd2; nd3; nd4; nd5; nd6] -> ~ In 0 [e; a; b; r; c0; d; nd1; nd2; nd3; nd4; nd5; nd6] ->
  beta w 1 a = b -> beta w 1 c0 = d ->
  run E (cut_inner_edge n ks e nd1 nd2 nd3 nd4 nd5 nd6) c w cnt = (Done tt, w', cnt') ->
  forall i x, beta w' i x =
    if i =? 1 then (if x =? e then nd1 else if x =? nd1 then b else if x =? nd3 then a else if x =? a then nd2 else
                    if x =? nd2 then nd3 else if x =? r then nd4 else if x =? nd4 then d else if x =? nd6 then c0 else
                    if x =? c0 then nd5 else if x =? nd5 then nd6 else beta w 1 x)
    else if i =? 0 then (if x =? nd1 then e else if x =? b then nd1 else if x =? a then nd3 else if x =? nd2 then a else
                         if x =? nd3 then nd2 else if x =? nd4 then r else if x =? d then nd4 else if x =? c0 then nd6 else
                         if x =? nd5 then c0 else if x =? nd6 then nd5 else beta w 0 x)
    else if i =? 2 then (if x =? nd1 then nd2 else if x =? nd2 then nd1 else if x =? nd4 then nd5 else if x =? nd5 then nd4 else
                         if x =? e then nd6 else if x =? nd6 then e else if x =? r then nd3 else if x =? nd3 then r else beta w 2 x)
    else beta w i x.
Proof. exact cut_inner_edge_topology. Qed.
Print Assumptions C15_cut_inner_topology.

(** Tie to the source: [swap_edge], [cut_outer_edge], [cut_inner_edge] -- the programs of the three theorems above --
    are, verbatim, the programs that tools/tr_kern.py regenerates from remeshing/swap.rs and remeshing/cut.rs on every
    run (Map2/GenKern.v); an edit of those kernels changes the generated file and this theorem stops compiling. *)
From HC Require Import Map2.GenKern Map2.GenKernLaws.
Theorem C15_kernels_are_the_source `{Sig} :
  (forall n ks e nd1 nd2 nd3, gen_cut_outer_edge n ks e nd1 nd2 nd3 = cut_outer_edge n ks e nd1 nd2 nd3) /\
  (forall n ks e nd1 nd2 nd3 nd4 nd5 nd6, gen_cut_inner_edge n ks e nd1 nd2 nd3 nd4 nd5 nd6 = cut_inner_edge n ks e nd1 nd2 nd3 nd4 nd5 nd6) /\
  (forall n ks e, gen_swap_edge n ks e = swap_edge n ks e).
Proof. exact kernels_are_the_source. Qed.
Print Assumptions C15_kernels_are_the_source.

(** Edge collapse to the midpoint, interior case: for the edge (l | r) between the triangles l -> a -> b and r -> c -> d
    whose four other sides are glued to A2, B2, C2, D2 (ten distinct non-null darts), a collapse that terminates
    normally removes the six darts of the two triangles (all their images null, flagged as removed), glues B2 | A2 and
    D2 | C2, and leaves every other image and flag as it was.  On every store. *)
From HC Require Import Map2.FanTopo Map2.CollapseTopo.
Theorem C15_collapse_midpoint_topology `{Sig} : forall E n ks l c w cnt vid w' cnt',
  let a := beta w 1 l in let b := beta w 0 l in let r := beta w 2 l in
  let c0 := beta w 1 r in let d := beta w 0 r in
  let A2 := beta w 2 a in let B2 := beta w 2 b in let C2 := beta w 2 c0 in let D2 := beta w 2 d in
  NoDup [l; a; b; r; c0; d; A2; B2; C2; D2] -> ~ In 0 [l; a; b; r; c0; d; A2; B2; C2; D2] ->
  beta w 1 a = b -> beta w 1 b = l -> beta w 1 c0 = d -> beta w 1 d = r -> beta w 2 r = l ->
  run E (collapse_edge_to_midpoint n ks b l a d r c0) c w cnt = (Done vid, w', cnt') ->
  (forall i x, beta w' i x =
     if (x =? l) || (x =? a) || (x =? b) || (x =? r) || (x =? c0) || (x =? d) then (if i <? 3 then 0 else beta w i x)
     else if i =? 2 then (if x =? B2 then A2 else if x =? A2 then B2 else if x =? D2 then C2 else if x =? C2 then D2 else beta w 2 x)
     else beta w i x) /\
  (forall x, unused w' x = if (x =? l) || (x =? a) || (x =? b) || (x =? r) || (x =? c0) || (x =? d) then true else unused w x).
Proof. exact collapse_midpoint_topology. Qed.
Print Assumptions C15_collapse_midpoint_topology.

(** ... and the map stays well formed: derived from the exact images and flags above, clause by clause. *)
From HC Require Import Map2.Wf2.
Theorem C15_collapse_midpoint_keeps_wf2 `{Sig} : forall E n ks l c w cnt vid w' cnt',
  let a := beta w 1 l in let b := beta w 0 l in let r := beta w 2 l in
  let c0 := beta w 1 r in let d := beta w 0 r in
  let A2 := beta w 2 a in let B2 := beta w 2 b in let C2 := beta w 2 c0 in let D2 := beta w 2 d in
  wf2 n w -> l < n ->
  NoDup [l; a; b; r; c0; d; A2; B2; C2; D2] -> ~ In 0 [l; a; b; r; c0; d; A2; B2; C2; D2] ->
  beta w 1 a = b -> beta w 1 c0 = d ->
  run E (collapse_edge_to_midpoint n ks b l a d r c0) c w cnt = (Done vid, w', cnt') ->
  wf2 n w'.
Proof. exact collapse_midpoint_wf. Qed.
Print Assumptions C15_collapse_midpoint_keeps_wf2.

(** the half-cell of a collapse towards an end point whose next edge lies on the boundary (the branch repaired by the
    fix 667f50e): the triangle pe -> e -> ne -> pe disappears entirely -- its three darts end with every image null and
    are flagged unused, so no removed dart keeps a neighbour --, the former 2-neighbour of pe becomes a boundary dart,
    and no other image or flag changes.  On every store. *)
Theorem C15_collapse_to_base_boundary_removes_cell `{Sig} : forall E n ks pe e ne c w cnt w' cnt',
  let x := beta w 2 pe in
  NoDup [pe; e; ne; x] -> pe <> 0 -> e <> 0 -> ne <> 0 ->
  beta w 1 pe = e -> beta w 1 e = ne -> beta w 1 ne = pe ->
  beta w 2 ne = 0 -> beta w 2 e = 0 -> (x <> 0 -> beta w 2 x = pe) ->
  run E (collapse_halfcell_to_base n ks pe e ne) c w cnt = (Done tt, w', cnt') ->
  (forall i y, beta w' i y =
     if (y =? pe) || (y =? e) || (y =? ne) then (if i <? 3 then 0 else beta w i y)
     else if (i =? 2) && (y =? x) && negb (x =? 0) then 0
     else beta w i y) /\
  (forall y, unused w' y = if (y =? pe) || (y =? e) || (y =? ne) then true else unused w y).
Proof. exact halfcell_to_base_boundary. Qed.
Print Assumptions C15_collapse_to_base_boundary_removes_cell.

(** ... and the same half-cell when its next edge is glued to q, a dart of the face ... -> p0 -> q -> p1 -> ...: the
    darts e, ne and q disappear (every image null, flagged unused) and pe takes the place of q in the neighbouring
    face; the 2-image of pe and every other image and flag are as they were.  On every store. *)
Theorem C15_collapse_to_base_inner_merges_cell `{Sig} : forall E n ks pe e ne c w cnt w' cnt',
  let q := beta w 2 ne in let p0 := beta w 0 q in let p1 := beta w 1 q in
  NoDup [pe; e; ne; q; p0; p1] -> ~ In 0 [pe; e; ne; q; p0; p1] ->
  beta w 1 pe = e -> beta w 1 e = ne -> beta w 1 ne = pe -> beta w 1 p0 = q -> beta w 2 e = 0 ->
  run E (collapse_halfcell_to_base n ks pe e ne) c w cnt = (Done tt, w', cnt') ->
  (forall i y, beta w' i y =
     if (y =? e) || (y =? ne) || (y =? q) then (if i <? 3 then 0 else beta w i y)
     else if (i =? 1) && (y =? pe) then p1 else if (i =? 0) && (y =? pe) then p0
     else if (i =? 1) && (y =? p0) then pe else if (i =? 0) && (y =? p1) then pe
     else beta w i y) /\
  (forall y, unused w' y = if (y =? e) || (y =? ne) || (y =? q) then true else unused w y).
Proof. exact halfcell_to_base_inner. Qed.
Print Assumptions C15_collapse_to_base_inner_merges_cell.

(** ... and the boundary half-cell leaves a well-formed map: every premise is about the well-formed map before the call
    (the triangle, its two free sides), none about the result.  This is the clause the code before the fix 667f50e
    broke: it removed the previous edge's dart while that dart still had a 2-neighbour. *)
Theorem C15_collapse_to_base_boundary_keeps_wf2 `{Sig} : forall E n ks pe e ne c w cnt w' cnt',
  wf2 n w -> pe < n -> pe <> e -> pe <> ne -> e <> ne -> e <> 0 -> ne <> 0 ->
  beta w 1 pe = e -> beta w 1 e = ne -> beta w 1 ne = pe ->
  beta w 2 ne = 0 -> beta w 2 e = 0 ->
  run E (collapse_halfcell_to_base n ks pe e ne) c w cnt = (Done tt, w', cnt') ->
  wf2 n w'.
Proof. exact halfcell_to_base_boundary_wf. Qed.
Print Assumptions C15_collapse_to_base_boundary_keeps_wf2.

(** ... and the interior half-cell leaves a well-formed map: premises on the well-formed map before the call only. *)
Theorem C15_collapse_to_base_inner_keeps_wf2 `{Sig} : forall E n ks pe e ne c w cnt w' cnt',
  let q := beta w 2 ne in let p0 := beta w 0 q in let p1 := beta w 1 q in
  wf2 n w -> pe < n ->
  NoDup [pe; e; ne; q; p0; p1] -> ~ In 0 [pe; e; ne; q; p0; p1] ->
  beta w 1 pe = e -> beta w 1 e = ne -> beta w 1 ne = pe -> beta w 2 e = 0 ->
  run E (collapse_halfcell_to_base n ks pe e ne) c w cnt = (Done tt, w', cnt') ->
  wf2 n w'.
Proof. exact halfcell_to_base_inner_wf. Qed.
Print Assumptions C15_collapse_to_base_inner_keeps_wf2.

(** The whole driver of the collapse towards an end point, for a boundary edge l (no right side) whose triangle
    b0l -> l -> b1l has its next side on the boundary too: reads of the coordinates and anchor to keep, the half-cell,
    the identifier of the resulting vertex, the writes of the kept data.  Its topological effect is exactly that of the
    half-cell -- the triangle disappears, the 2-neighbour of b0l becomes a boundary dart, nothing else changes -- and it
    leaves a well-formed map.  On every store. *)
From HC Require Import Map2.CollapseBase.
Theorem C15_collapse_to_base_boundary_edge_topology `{Sig} : forall E n ks b0l l b1l b0r b1r c w cnt vid w' cnt',
  let x := beta w 2 b0l in
  NoDup [b0l; l; b1l; x] -> b0l <> 0 -> l <> 0 -> b1l <> 0 ->
  beta w 1 b0l = l -> beta w 1 l = b1l -> beta w 1 b1l = b0l ->
  beta w 2 b1l = 0 -> beta w 2 l = 0 -> (x <> 0 -> beta w 2 x = b0l) ->
  run E (collapse_edge_to_base n ks b0l l b1l b0r 0 b1r) c w cnt = (Done vid, w', cnt') ->
  (forall i y, beta w' i y =
     if (y =? b0l) || (y =? l) || (y =? b1l) then (if i <? 3 then 0 else beta w i y)
     else if (i =? 2) && (y =? x) && negb (x =? 0) then 0
     else beta w i y) /\
  (forall y, unused w' y = if (y =? b0l) || (y =? l) || (y =? b1l) then true else unused w y).
Proof. exact collapse_to_base_boundary. Qed.
Print Assumptions C15_collapse_to_base_boundary_edge_topology.

Theorem C15_collapse_to_base_boundary_edge_keeps_wf2 `{Sig} : forall E n ks b0l l b1l b0r b1r c w cnt vid w' cnt',
  wf2 n w -> b0l < n -> b0l <> l -> b0l <> b1l -> l <> b1l -> l <> 0 -> b1l <> 0 ->
  beta w 1 b0l = l -> beta w 1 l = b1l -> beta w 1 b1l = b0l ->
  beta w 2 b1l = 0 -> beta w 2 l = 0 ->
  run E (collapse_edge_to_base n ks b0l l b1l b0r 0 b1r) c w cnt = (Done vid, w', cnt') ->
  wf2 n w'.
Proof. exact collapse_to_base_boundary_wf. Qed.
Print Assumptions C15_collapse_to_base_boundary_edge_keeps_wf2.

(** ... and the same boundary edge when the next side b1l of its triangle is interior, glued to q in the face
    ... -> p0 -> q -> p1 -> ...: l, b1l and q disappear, b0l takes the place of q in the neighbouring face, nothing else
    changes, and the map stays well formed.  On every store. *)
Theorem C15_collapse_to_base_boundary_edge_merges `{Sig} : forall E n ks b0l l b1l b0r b1r c w cnt vid w' cnt',
  let q := beta w 2 b1l in let p0 := beta w 0 q in let p1 := beta w 1 q in
  NoDup [b0l; l; b1l; q; p0; p1] -> ~ In 0 [b0l; l; b1l; q; p0; p1] ->
  beta w 1 b0l = l -> beta w 1 l = b1l -> beta w 1 b1l = b0l -> beta w 1 p0 = q -> beta w 2 l = 0 ->
  run E (collapse_edge_to_base n ks b0l l b1l b0r 0 b1r) c w cnt = (Done vid, w', cnt') ->
  (forall i y, beta w' i y =
     if (y =? l) || (y =? b1l) || (y =? q) then (if i <? 3 then 0 else beta w i y)
     else if (i =? 1) && (y =? b0l) then p1 else if (i =? 0) && (y =? b0l) then p0
     else if (i =? 1) && (y =? p0) then b0l else if (i =? 0) && (y =? p1) then b0l
     else beta w i y) /\
  (forall y, unused w' y = if (y =? l) || (y =? b1l) || (y =? q) then true else unused w y).
Proof. exact collapse_to_base_boundary_inner. Qed.
Print Assumptions C15_collapse_to_base_boundary_edge_merges.

Theorem C15_collapse_to_base_boundary_edge_merge_keeps_wf2 `{Sig} : forall E n ks b0l l b1l b0r b1r c w cnt vid w' cnt',
  let q := beta w 2 b1l in let p0 := beta w 0 q in let p1 := beta w 1 q in
  wf2 n w -> b0l < n ->
  NoDup [b0l; l; b1l; q; p0; p1] -> ~ In 0 [b0l; l; b1l; q; p0; p1] ->
  beta w 1 b0l = l -> beta w 1 l = b1l -> beta w 1 b1l = b0l -> beta w 2 l = 0 ->
  run E (collapse_edge_to_base n ks b0l l b1l b0r 0 b1r) c w cnt = (Done vid, w', cnt') ->
  wf2 n w'.
Proof. exact collapse_to_base_boundary_inner_wf. Qed.
Print Assumptions C15_collapse_to_base_boundary_edge_merge_keeps_wf2.

(** Collapse to the midpoint of a boundary edge l (no right side) with triangle l -> a -> b whose other sides are glued
    to A2 and B2: the three darts disappear, B2 | A2 are glued, nothing else changes (the boundary counterpart of
    C15_collapse_midpoint_topology).  On every store. *)
Theorem C15_collapse_midpoint_boundary_edge_topology `{Sig} : forall E n ks l a b b0r b1r c w cnt vid w' cnt',
  let A2 := beta w 2 a in let B2 := beta w 2 b in
  NoDup [l; a; b; A2; B2] -> ~ In 0 [l; a; b; A2; B2] ->
  beta w 1 l = a -> beta w 1 a = b -> beta w 1 b = l -> beta w 2 l = 0 ->
  run E (collapse_edge_to_midpoint n ks b l a b0r 0 b1r) c w cnt = (Done vid, w', cnt') ->
  (forall i y, beta w' i y =
     if (y =? l) || (y =? a) || (y =? b) then (if i <? 3 then 0 else beta w i y)
     else if i =? 2 then (if y =? B2 then A2 else if y =? A2 then B2 else beta w 2 y)
     else beta w i y) /\
  (forall y, unused w' y = if (y =? l) || (y =? a) || (y =? b) then true else unused w y).
Proof. exact collapse_to_midpoint_boundary. Qed.
Print Assumptions C15_collapse_midpoint_boundary_edge_topology.

Theorem C15_collapse_midpoint_boundary_edge_keeps_wf2 `{Sig} : forall E n ks l a b b0r b1r c w cnt vid w' cnt',
  let A2 := beta w 2 a in let B2 := beta w 2 b in
  wf2 n w -> l < n ->
  NoDup [l; a; b; A2; B2] -> ~ In 0 [l; a; b; A2; B2] ->
  beta w 1 l = a -> beta w 1 a = b -> beta w 1 b = l -> beta w 2 l = 0 ->
  run E (collapse_edge_to_midpoint n ks b l a b0r 0 b1r) c w cnt = (Done vid, w', cnt') ->
  wf2 n w'.
Proof. exact collapse_to_midpoint_boundary_wf. Qed.
Print Assumptions C15_collapse_midpoint_boundary_edge_keeps_wf2.

(** Non-vacuity: the unit square split in two triangles 1 -> 2 -> 3 and 4 -> 5 -> 6 glued along 3 | 4 (the mesh of the
    repaired defect) meets the premises of the boundary theorems with (pe, e, ne) = (3, 1, 2) -- both other sides of the
    first triangle are on the boundary, pe is glued to 4 -- and those of the interior theorems with (pe, e, ne) = (1, 2, 3):
    ne is glued to q = 4 in the face 6 -> 4 -> 5. *)
Definition c15_square (i d : N) : N :=
  if i =? 1 then (if d =? 1 then 2 else if d =? 2 then 3 else if d =? 3 then 1 else if d =? 4 then 5 else if d =? 5 then 6 else if d =? 6 then 4 else 0)
  else if i =? 0 then (if d =? 2 then 1 else if d =? 3 then 2 else if d =? 1 then 3 else if d =? 5 then 4 else if d =? 6 then 5 else if d =? 4 then 6 else 0)
  else if i =? 2 then (if d =? 3 then 4 else if d =? 4 then 3 else 0)
  else 0.
Example C15_to_base_boundary_premises :
  let f := c15_square in let x := f 2 3 in
  NoDup [3; 1; 2; x] /\ f 1 3 = 1 /\ f 1 1 = 2 /\ f 1 2 = 3 /\ f 2 2 = 0 /\ f 2 1 = 0 /\ x <> 0 /\ f 2 x = 3.
Proof.
  cbv zeta. repeat split; try discriminate; try reflexivity.
  cbn. repeat (constructor; [cbn; intros Q; repeat (destruct Q as [Q|Q]; [discriminate Q|]); exact Q|]). constructor.
Qed.
Example C15_to_base_inner_premises :
  let f := c15_square in let q := f 2 3 in let p0 := f 0 q in let p1 := f 1 q in
  NoDup [1; 2; 3; q; p0; p1] /\ ~ In 0 [1; 2; 3; q; p0; p1] /\
  f 1 1 = 2 /\ f 1 2 = 3 /\ f 1 3 = 1 /\ f 1 p0 = q /\ f 2 2 = 0.
Proof.
  cbv zeta. repeat split; try discriminate; try reflexivity.
  - cbn. repeat (constructor; [cbn; intros Q; repeat (destruct Q as [Q|Q]; [discriminate Q|]); exact Q|]). constructor.
  - cbn. intros Q; repeat (destruct Q as [Q|Q]; [discriminate Q|]); exact Q.
Qed.

(** Non-vacuity of the midpoint collapse of a boundary edge: a strip of three triangles 1 -> 2 -> 3, 4 -> 5 -> 6 and
    7 -> 8 -> 9 glued along 2 | 4 and 3 | 7.  The edge l = 1 is on the boundary, its two other sides a = 2 and b = 3 are
    interior, and the five darts l, a, b, beta2 a = 4, beta2 b = 7 are distinct and non-null -- the premises of
    C15_collapse_midpoint_boundary_edge_topology / _keeps_wf2; the conclusion then says that 4 and 7 end glued together. *)
Definition c15_strip (i d : N) : N :=
  if i =? 1 then (if d =? 1 then 2 else if d =? 2 then 3 else if d =? 3 then 1 else if d =? 4 then 5 else if d =? 5 then 6 else if d =? 6 then 4
                  else if d =? 7 then 8 else if d =? 8 then 9 else if d =? 9 then 7 else 0)
  else if i =? 0 then (if d =? 2 then 1 else if d =? 3 then 2 else if d =? 1 then 3 else if d =? 5 then 4 else if d =? 6 then 5 else if d =? 4 then 6
                  else if d =? 8 then 7 else if d =? 9 then 8 else if d =? 7 then 9 else 0)
  else if i =? 2 then (if d =? 2 then 4 else if d =? 4 then 2 else if d =? 3 then 7 else if d =? 7 then 3 else 0)
  else 0.
Example C15_midpoint_boundary_premises :
  let f := c15_strip in let A2 := f 2 2 in let B2 := f 2 3 in
  NoDup [1; 2; 3; A2; B2] /\ ~ In 0 [1; 2; 3; A2; B2] /\ f 1 1 = 2 /\ f 1 2 = 3 /\ f 1 3 = 1 /\ f 2 1 = 0.
Proof.
  cbv zeta. repeat split; try discriminate; try reflexivity.
  - cbn. repeat (constructor; [cbn; intros Q; repeat (destruct Q as [Q|Q]; [discriminate Q|]); exact Q|]). constructor.
  - cbn. intros Q; repeat (destruct Q as [Q|Q]; [discriminate Q|]); exact Q.
Qed.

From HC Require Import Map2.Wf2Proofs Map2.InsertTopo Map2.CollapseBase.
(** Collapse towards an end point of an INTERIOR edge (l | r): on every store, whenever the driver returns normally its
    run is -- as far as images and removal flags are concerned -- exactly three steps in sequence: the 2-unsew of the
    edge, the half-cell on the right (b1r -> r -> b0r), the half-cell on the left (b0l -> l -> b1l), each of which
    returned normally; before them the driver only reads ([s_same]: the stores agree on every variable) and after them
    it only writes data ([topo_eq]: same images, same flags).  The theorems on the 2-unsew (C04_two_unsew_topology) and
    on the half-cells (C15_collapse_to_base_{boundary_removes_cell,inner_merges_cell} and their wf2 companions) thus
    apply to the driver's own intermediate stores w3 .. w6.  A driver that reordered the half-cells, skipped the unsew,
    or edited images after the half-cells would not satisfy this statement. *)
Theorem C15_collapse_to_base_interior_edge_is_three_steps `{Sig} : forall E n ks b0l l b1l b0r r b1r c w cnt vid w' cnt',
  r <> 0 ->
  run E (collapse_edge_to_base n ks b0l l b1l b0r r b1r) c w cnt = (Done vid, w', cnt') ->
  exists w3 c3 w4 c4 w5 c5 w6 c6, s_same w w3 /\
    run E (two_unsew n ks l) c w3 c3 = (Done tt, w4, c4) /\
    run E (collapse_halfcell_to_base n ks b1r r b0r) c w4 c4 = (Done tt, w5, c5) /\
    run E (collapse_halfcell_to_base n ks b0l l b1l) c w5 c5 = (Done tt, w6, c6) /\
    topo_eq w6 w'.
Proof. exact to_base_interior_split. Qed.
Print Assumptions C15_collapse_to_base_interior_edge_is_three_steps.

(** The second of those three steps, the half-cell on the RIGHT of the edge, is the same routine called as
    (b1r, r, b0r): the triangle is r -> b1r -> b0r -> r, so the dart in the first slot is the NEXT side and the one in
    the third slot the previous side -- the orientation opposite to the one of the theorems above.  Mirrored variant
    (Map2/CollapseMirror.v), on every store: when the dart in the third slot and the edge dart are 2-free, the triangle
    disappears entirely (three darts null in every image and flagged), the 2-neighbour x of the first-slot dart becomes
    a boundary dart, nothing else changes; and the map stays well formed. *)
From HC Require Import Map2.CollapseMirror.
Theorem C15_collapse_to_base_right_halfcell_removes_cell `{Sig} : forall E n ks pe e ne c w cnt w' cnt',
  let x := beta w 2 pe in
  NoDup [pe; e; ne; x] -> pe <> 0 -> e <> 0 -> ne <> 0 ->
  beta w 1 e = pe -> beta w 1 pe = ne -> beta w 1 ne = e ->
  beta w 2 ne = 0 -> beta w 2 e = 0 -> (x <> 0 -> beta w 2 x = pe) ->
  run E (collapse_halfcell_to_base n ks pe e ne) c w cnt = (Done tt, w', cnt') ->
  (forall i y, beta w' i y =
     if (y =? pe) || (y =? e) || (y =? ne) then (if i <? 3 then 0 else beta w i y)
     else if (i =? 2) && (y =? x) && negb (x =? 0) then 0
     else beta w i y) /\
  (forall y, unused w' y = if (y =? pe) || (y =? e) || (y =? ne) then true else unused w y).
Proof. exact halfcell_to_base_boundary_mirror. Qed.
Print Assumptions C15_collapse_to_base_right_halfcell_removes_cell.

Theorem C15_collapse_to_base_right_halfcell_keeps_wf2 `{Sig} : forall E n ks pe e ne c w cnt w' cnt',
  wf2 n w -> pe < n -> pe <> e -> pe <> ne -> e <> ne -> e <> 0 -> ne <> 0 ->
  beta w 1 e = pe -> beta w 1 pe = ne -> beta w 1 ne = e ->
  beta w 2 ne = 0 -> beta w 2 e = 0 ->
  run E (collapse_halfcell_to_base n ks pe e ne) c w cnt = (Done tt, w', cnt') ->
  wf2 n w'.
Proof. exact halfcell_to_base_boundary_mirror_wf. Qed.
Print Assumptions C15_collapse_to_base_right_halfcell_keeps_wf2.

(** ... and when the dart in the third slot is glued to q (mirrored variant of C15_collapse_to_base_inner_merges_cell):
    e, ne and q disappear and the first-slot dart takes the place of q in the neighbouring face.  On every store. *)
Theorem C15_collapse_to_base_right_halfcell_merges_cell `{Sig} : forall E n ks pe e ne c w cnt w' cnt',
  let q := beta w 2 ne in let p0 := beta w 0 q in let p1 := beta w 1 q in
  NoDup [pe; e; ne; q; p0; p1] -> ~ In 0 [pe; e; ne; q; p0; p1] ->
  beta w 1 e = pe -> beta w 1 pe = ne -> beta w 1 ne = e -> beta w 1 p0 = q -> beta w 2 e = 0 ->
  run E (collapse_halfcell_to_base n ks pe e ne) c w cnt = (Done tt, w', cnt') ->
  (forall i y, beta w' i y =
     if (y =? e) || (y =? ne) || (y =? q) then (if i <? 3 then 0 else beta w i y)
     else if (i =? 1) && (y =? pe) then p1 else if (i =? 0) && (y =? pe) then p0
     else if (i =? 1) && (y =? p0) then pe else if (i =? 0) && (y =? p1) then pe
     else beta w i y) /\
  (forall y, unused w' y = if (y =? e) || (y =? ne) || (y =? q) then true else unused w y).
Proof. exact halfcell_to_base_inner_mirror. Qed.
Print Assumptions C15_collapse_to_base_right_halfcell_merges_cell.

Theorem C15_collapse_to_base_right_halfcell_merge_keeps_wf2 `{Sig} : forall E n ks pe e ne c w cnt w' cnt',
  let q := beta w 2 ne in let p0 := beta w 0 q in let p1 := beta w 1 q in
  wf2 n w -> pe < n ->
  NoDup [pe; e; ne; q; p0; p1] -> ~ In 0 [pe; e; ne; q; p0; p1] ->
  beta w 1 e = pe -> beta w 1 pe = ne -> beta w 1 ne = e -> beta w 2 e = 0 ->
  run E (collapse_halfcell_to_base n ks pe e ne) c w cnt = (Done tt, w', cnt') ->
  wf2 n w'.
Proof. exact halfcell_to_base_inner_mirror_wf. Qed.
Print Assumptions C15_collapse_to_base_right_halfcell_merge_keeps_wf2.

(** Non-vacuity: in the unit square above (triangles 1 -> 2 -> 3 and 4 -> 5 -> 6 glued along 3 | 4), once the diagonal
    is unsewn -- the store the driver hands to the right half-cell -- the call (b1r, r, b0r) = (5, 4, 6) meets the
    mirrored premises: 4 -> 5 -> 6 -> 4, and 6, 4 and 5 are all 2-free (x = 0). *)
Definition c15_square_unsewn (i d : N) : N := if i =? 2 then 0 else c15_square i d.
Example C15_right_halfcell_premises :
  let f := c15_square_unsewn in let x := f 2 5 in
  NoDup [5; 4; 6; x] /\ f 1 4 = 5 /\ f 1 5 = 6 /\ f 1 6 = 4 /\ f 2 6 = 0 /\ f 2 4 = 0 /\ x = 0.
Proof.
  cbv zeta. repeat split; try discriminate; try reflexivity.
  cbn. repeat (constructor; [cbn; intros Q; repeat (destruct Q as [Q|Q]; [discriminate Q|]); exact Q|]). constructor.
Qed.

(** Non-vacuity of the merging variant: in the strip above, (pe, e, ne) = (2, 1, 3) is a mirrored call -- 1 -> 2 -> 3 -> 1,
    the edge dart 1 is 2-free -- whose third-slot dart 3 is glued to q = 7 in the face 9 -> 7 -> 8. *)
Example C15_right_halfcell_merge_premises :
  let f := c15_strip in let q := f 2 3 in let p0 := f 0 q in let p1 := f 1 q in
  NoDup [2; 1; 3; q; p0; p1] /\ ~ In 0 [2; 1; 3; q; p0; p1] /\
  f 1 1 = 2 /\ f 1 2 = 3 /\ f 1 3 = 1 /\ f 1 p0 = q /\ f 2 1 = 0.
Proof.
  cbv zeta. repeat split; try discriminate; try reflexivity.
  - cbn. repeat (constructor; [cbn; intros Q; repeat (destruct Q as [Q|Q]; [discriminate Q|]); exact Q|]). constructor.
  - cbn. intros Q; repeat (destruct Q as [Q|Q]; [discriminate Q|]); exact Q.
Qed.

(** The two half-cell routines of the edge collapse -- the programs the four collapse theorems above are about -- are,
    verbatim, what tools/tr_kern.py regenerates from remeshing/collapse.rs on every run: an edit of either routine
    changes Map2/GenKern.v and this theorem stops compiling. *)
Theorem C15_collapse_halfcells_are_the_source `{Sig} :
  (forall n ks b0d d b1d, gen_collapse_halfcell_to_midpoint n ks b0d d b1d = collapse_halfcell_to_midpoint n ks b0d d b1d) /\
  (forall n ks d_pe d_e d_ne, gen_collapse_halfcell_to_base n ks d_pe d_e d_ne = collapse_halfcell_to_base n ks d_pe d_e d_ne).
Proof. exact collapse_halfcells_are_the_source. Qed.
Print Assumptions C15_collapse_halfcells_are_the_source.

(** ... and so are the two drivers that call them (one half-cell per side of the edge, then the identifier of the
    resulting vertex): [collapse_edge_to_midpoint] -- the program of C15_collapse_midpoint_topology and
    C15_collapse_midpoint_keeps_wf2 -- and [collapse_edge_to_base]. *)
Theorem C15_collapse_drivers_are_the_source `{Sig} :
  (forall n ks b0l l b1l b0r r b1r, gen_collapse_edge_to_midpoint n ks b0l l b1l b0r r b1r = collapse_edge_to_midpoint n ks b0l l b1l b0r r b1r) /\
  (forall n ks b0l l b1l b0r r b1r, gen_collapse_edge_to_base n ks b0l l b1l b0r r b1r = collapse_edge_to_base n ks b0l l b1l b0r r b1r).
Proof. exact collapse_drivers_are_the_source. Qed.
Print Assumptions C15_collapse_drivers_are_the_source.
