(** * C15 -- remeshing primitives keep a triangle mesh a triangle mesh (work in progress). *)
From Coq Require Import List NArith Bool.
From HC Require Import Stm.Prog Stm.Atomic Map2.Ops2 Map2.State2 Map2.Orbit2 Map2.Kern2 Map2.KOps2.
Open Scope N_scope.

Theorem C15_failure_is_atomic `{Sig} : forall E n ks k st e st',
  atomically E (kcall_prog n ks k) st = (RErr e, st') -> st' = st.
Proof. intros E n ks k. exact (atomically_err_noop E (kcall_prog n ks k)). Qed.
Print Assumptions C15_failure_is_atomic.
