(** * C02 -- 3-map structural integrity (work in progress: statements proved so far). *)
From Coq Require Import List NArith Bool.
From HC Require Import Stm.Prog Stm.Atomic Map2.Ops2 Map2.State2 Map3.Ops3.
Open Scope N_scope.
(** a refused request (e.g. faces that cannot be mirrored) changes nothing *)
Theorem C02_refusal_is_atomic `{Sig} : forall E n ks c st e st',
  atomically E (call3_prog n ks c) st = (RErr e, st') -> st' = st.
Proof. intros E n ks c. exact (atomically_err_noop E (call3_prog n ks c)). Qed.
Print Assumptions C02_refusal_is_atomic.
