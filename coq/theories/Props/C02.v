(** * C02 -- 3-map structural integrity (work in progress: statements proved so far). *)
From Coq Require Import List NArith Bool.
From HC Require Import Stm.Prog Stm.Atomic Map2.Ops2 Map2.State2 Map3.Ops3.
Open Scope N_scope.
(** a refused request (e.g. faces that cannot be mirrored) changes nothing *)
Theorem C02_refusal_is_atomic `{Sig} : forall E n ks c st e st',
  atomically E (call3_prog n ks c) st = (RErr e, st') -> st' = st.
Proof. intros E n ks c. exact (atomically_err_noop E (call3_prog n ks c)). Qed.
Print Assumptions C02_refusal_is_atomic.

(** The 3-link / 3-unlink cores of the model are the programs regenerated from components/betas.rs. *)
From HC Require Import Map2.GenBetas Map2.GenBetasLaws.
Theorem C02_cores_are_the_source `{Sig} :
  (forall l r, gen_three_link_core l r = three_link_core l r) /\ (forall l, gen_three_unlink_core l = three_unlink_core l) /\
  (forall l r, gen_one_link_core l r = one_link_core l r) /\ (forall l r, gen_two_link_core l r = two_link_core l r).
Proof.
  destruct cores_are_the_source as (A & B & C & _ & _ & D). repeat split; assumption.
Qed.
Print Assumptions C02_cores_are_the_source.

(** The executable oracle applied to implementation dumps decides exactly the stated well-formedness
    (range, inverse / involution laws, the mirror clause of glued faces, removed darts free). *)
From HC Require Import Map3.Wf3 Map3.Wf3Dec.
Theorem C02_oracle_wf3 `{Sig} : forall n s, wf3b n s = true <-> 0 < n /\ wf3 n s.
Proof. exact wf3b_spec. Qed.
Print Assumptions C02_oracle_wf3.

(** The proved part of the invariant (full statement: every history of public calls with in-use darts keeps wf3
    -- NOT proved for successful links and sews, see Map3/Wf3Proofs.v): allocation, slot reuse, removal, data-only
    transactions, and every step that does not report success keep the 3-map invariant. *)
From HC Require Import Map3.Wf3Proofs.
Theorem C02_invariant_partial `{Sig} : forall fa st o, inv3 st ->
  proved_step3 o = true \/ (forall x, fst (step3 fa st o) <> ROk x) ->
  inv3 (snd (step3 fa st o)).
Proof. exact inv3_step_partial. Qed.
Print Assumptions C02_invariant_partial.

Theorem C02_init `{Sig} : forall n ks, inv3 {| nd := n + 1; mem := blank; aks := ks |}.
Proof. exact inv3_empty. Qed.
Print Assumptions C02_init.

(** ... and by the 2-links / 2-unlinks of in-use darts (success or refusal): the mirror clause only mentions
    beta1 and beta3. *)
From HC Require Import Map3.Wf3Links.
Theorem C02_link2_keeps_invariant `{Sig} : forall fa st c, inv3 st ->
  match c with L2 _ _ | U2 _ => True | _ => False end ->
  pre_call3b (nd st) (mem st) c = true ->
  inv3 (snd (step3 fa st (Force3 c))).
Proof. exact inv3_step_link2. Qed.
Print Assumptions C02_link2_keeps_invariant.
