(** * C02 -- 3-map structural integrity survives every editing history.
    Statements only; every proof is [exact] of a lemma proved elsewhere. *)
From Coq Require Import List NArith Bool.
From HC Require Import Stm.Prog Stm.Atomic Map2.Ops2 Map2.State2 Map3.Ops3.
Open Scope N_scope.
(** a refused request (e.g. faces that cannot be mirrored) changes nothing *)
Theorem C02_refusal_is_atomic `{Sig} : forall E n ks c st e st',
  atomically E (call3_prog n ks c) st = (RErr e, st') -> st' = st.
Proof. intros E n ks c. exact (atomically_err_noop E (call3_prog n ks c)). Qed.
Print Assumptions C02_refusal_is_atomic.

(** The 3-link / 3-unlink cores of the model are the programs regenerated from components/betas.rs. *)
From HC Require Import Map2.GenBetas Map2.GenBetasLaws.
Theorem C02_cores_are_the_source `{Sig} :
  (forall l r, gen_three_link_core l r = three_link_core l r) /\ (forall l, gen_three_unlink_core l = three_unlink_core l) /\
  (forall l r, gen_one_link_core l r = one_link_core l r) /\ (forall l r, gen_two_link_core l r = two_link_core l r).
Proof.
  destruct cores_are_the_source as (A & B & C & _ & _ & D). repeat split; assumption.
Qed.
Print Assumptions C02_cores_are_the_source.

(** The executable oracle applied to implementation dumps decides exactly the stated well-formedness
    (range, inverse / involution laws, the mirror clause of glued faces, removed darts free). *)
From HC Require Import Map3.Wf3 Map3.Wf3Dec.
Theorem C02_oracle_wf3 `{Sig} : forall n s, wf3b n s = true <-> 0 < n /\ wf3 n s.
Proof. exact wf3b_spec. Qed.
Print Assumptions C02_oracle_wf3.

(** The proved part of the invariant (full statement: every history of public calls with in-use darts keeps wf3
    -- NOT proved for successful links and sews, see Map3/Wf3Proofs.v): allocation, slot reuse, removal, data-only
    transactions, and every step that does not report success keep the 3-map invariant. *)
From HC Require Import Map3.Wf3Proofs.
Theorem C02_invariant_partial `{Sig} : forall fa st o, inv3 st ->
  proved_step3 o = true \/ (forall x, fst (step3 fa st o) <> ROk x) ->
  inv3 (snd (step3 fa st o)).
Proof. exact inv3_step_partial. Qed.
Print Assumptions C02_invariant_partial.

Theorem C02_init `{Sig} : forall n ks, inv3 {| nd := n + 1; mem := blank; aks := ks |}.
Proof. exact inv3_empty. Qed.
Print Assumptions C02_init.

(** ... and by the 2-links / 2-unlinks of in-use darts (success or refusal): the mirror clause only mentions
    beta1 and beta3. *)
From HC Require Import Map3.Wf3Links.
Theorem C02_link2_keeps_invariant `{Sig} : forall fa st c, inv3 st ->
  match c with L2 _ _ | U2 _ => True | _ => False end ->
  pre_call3b (nd st) (mem st) c = true ->
  inv3 (snd (step3 fa st (Force3 c))).
Proof. exact inv3_step_link2. Qed.
Print Assumptions C02_link2_keeps_invariant.

(** Every history of public editing calls of a 3-map (allocation, removal, links, unlinks, sews and unsews in
    dimensions 1, 2 and 3, data writes; own-transaction [Force3] form or user [Block3] form; any attribute laws,
    any injected law failure; succeeding, refused, hanging or crashing) made with non-null in-use darts (distinct
    darts for 2- and 3-links) keeps the 3-map well formed: null dart inert, images in range, beta0 / beta1 inverse,
    beta2 and beta3 fixed-point-free involutions, glued faces mirrored, removed darts free. *)
From HC Require Import Map3.Wf3All.
Theorem C02_history `{Sig} : forall fail_at ops st,
  inv3 st -> hist_pre3 fail_at st ops -> inv3 (exec3 fail_at st ops).
Proof. exact history_inv3. Qed.
Print Assumptions C02_history.

(** One step, as applied by the oracle to implementation observations. *)
Theorem C02_step `{Sig} : forall fail_at st o,
  inv3 st -> pre_op3 fail_at st o -> wf3 (nd (snd (step3 fail_at st o))) (mem (snd (step3 fail_at st o))).
Proof. intros fa st o Hi Hp. exact (proj1 (proj2 (inv3_step fa st o Hi Hp))). Qed.
Print Assumptions C02_step.

(** The heart of it: a 3-link that terminates normally on in-use, distinct darts of a well-formed 3-map leaves
    a well-formed 3-map -- whatever the two faces look like (the lock-step walks refuse everything else). *)
From HC Require Import Map3.Wf3Link3 Stm.ProgFacts.
Theorem C02_three_link `{Sig} : forall E n ld rd c w0 cnt w' cnt',
  wf3 n w0 -> okd3p n w0 ld -> okd3p n w0 rd -> ld <> rd ->
  run E (three_link n ld rd) c w0 cnt = (Done tt, w', cnt') -> wf3 n w'.
Proof. exact three_link_done. Qed.
Print Assumptions C02_three_link.

(** The refusal clause: a 3-link that terminates normally was asked to glue mirrorable faces (both closed with as
    many sides, or both open with equally long chains after and before the darts) ... *)
From HC Require Import Map3.Wf3Mirror.
Theorem C02_three_link_mirrorable `{Sig} : forall E n ld rd c w0 cnt w' cnt',
  wf3 n w0 -> okd3p n w0 ld -> okd3p n w0 rd -> ld <> rd ->
  run E (three_link n ld rd) c w0 cnt = (Done tt, w', cnt') -> mirrorable n w0 ld rd = true.
Proof. exact three_link_mirrorable. Qed.
Print Assumptions C02_three_link_mirrorable.

(** ... hence a request to 3-link or 3-sew two faces that cannot be mirrored onto each other never succeeds and
    leaves the map exactly as it was (that the outcome is an error value rather than a hang or a crash is what
    the correspondence with the implementation shows on every explored input). *)
Theorem C02_refuses_non_mirrorable `{Sig} : forall fa st l r (sew : bool),
  let c := if sew then S3 l r else L3 l r in
  inv3 st -> pre_call3b (nd st) (mem st) c = true -> mirrorable (nd st) (mem st) l r = false ->
  (forall x, fst (step3 fa st (Force3 c)) <> ROk x) /\ snd (step3 fa st (Force3 c)) = st.
Proof. exact refuses_non_mirrorable. Qed.
Print Assumptions C02_refuses_non_mirrorable.

(** Non-vacuity: a concrete history meets the premises of [C02_history] and really glues two triangles face to
    face, then takes them apart again (executed on the f64 instance of the model). *)
From Coq Require Import Floats. Import ListNotations.
From HC Require Import Extract.Run3.
Fixpoint hist_pre3b (fa : option N) (st : state2) (ops : list op3) : bool :=
  match ops with
  | [] => true
  | o :: rest =>
    (match o with Force3 c => pre_call3b (nd st) (mem st) c | Block3 _ => false | _ => true end) &&
    hist_pre3b fa (snd (step3 fa st o)) rest
  end.
Lemma hist_pre3b_sound : forall fa ops st, hist_pre3b fa st ops = true -> hist_pre3 fa st ops.
Proof.
  intros fa. induction ops as [|o rest IH]; intros st Hb; cbn [hist_pre3b hist_pre3] in *; [exact I|].
  apply andb_prop in Hb as [Ho Hr]. split; [|now apply IH].
  destruct o; cbn [pre_op3]; try exact I; [exact Ho|discriminate].
Qed.
Definition c02_ops : list op3 :=
  [Force3 (L1 1 2); Force3 (L1 2 3); Force3 (L1 3 1); Force3 (L1 4 5); Force3 (L1 5 6); Force3 (L1 6 4);
   Force3 (L3 1 4); AddDart3; Force3 (L3 2 5); Force3 (U3 3); RemoveDart3 7; Force3 (L2 1 2)].
Definition c02_start : state2 := {| nd := 7; mem := blank; aks := [] |}.
Example C02_history_nonvacuous :
  hist_pre3 None c02_start c02_ops /\
  let st := exec3 None c02_start (firstn 7 c02_ops) in
  beta (mem st) 3 1 = 4 /\ beta (mem st) 3 2 = 6 /\ beta (mem st) 3 3 = 5 /\ beta (mem st) 3 5 = 3.
Proof. split; [apply hist_pre3b_sound; vm_compute; reflexivity | vm_compute; repeat split; reflexivity]. Qed.
Example C02_history_end :
  let st := exec3 None c02_start c02_ops in
  beta (mem st) 3 1 = 0 /\ beta (mem st) 3 6 = 0 /\ beta (mem st) 2 1 = 2 /\ nd st = 8 /\ unused (mem st) 7 = true.
Proof. vm_compute; repeat split; reflexivity. Qed.
