(** * C16 -- grisubal.  The end-to-end property is decided per explored input by the validator
    Extract/GrisOracle.check16 (exact dyadic arithmetic, tolerance 2^-30 for computed intersection points);
    no model of the kernel is claimed.  Proved here: the validator's rejection premise is the property's
    wording ("some vertex starts two segments or ends two segments"). *)
From Coq Require Import List Arith Bool ZArith Lia.
From HC Require Import Extract.GrisOracle.
Import ListNotations.

Lemma count_nat_length f l : count_nat f l = length (filter f l).
Proof. reflexivity. Qed.

Theorem C16_misoriented_spec : forall g, misoriented g = true <->
  exists i : nat, (i < length (g_pts g))%nat /\
            ((1 < count_nat (Nat.eqb i) (map fst (g_segs g)))%nat \/ (1 < count_nat (Nat.eqb i) (map snd (g_segs g)))%nat).
Proof.
  intros g. unfold misoriented. rewrite existsb_exists. split.
  - intros (i & Hin & Hi). apply in_seq in Hin. exists i. split; [lia|].
    apply orb_true_iff in Hi as [Hi|Hi]; apply Nat.ltb_lt in Hi; auto.
  - intros (i & Hlt & Hi). exists i. split; [apply in_seq; lia|].
    apply orb_true_iff. destruct Hi as [Hi|Hi]; [left|right]; now apply Nat.ltb_lt.
Qed.
Print Assumptions C16_misoriented_spec.

(** a closed, consistently oriented boundary is never flagged as mis-oriented *)
Theorem C16_closed_not_misoriented : forall g, closed_oriented g = true -> misoriented g = false.
Proof.
  intros g Hc. unfold closed_oriented in Hc. rewrite forallb_forall in Hc.
  unfold misoriented. apply not_true_is_false. rewrite existsb_exists. intros (i & Hin & Hi).
  specialize (Hc i Hin). apply andb_true_iff in Hc as [H1 H2].
  apply Nat.eqb_eq in H1, H2. rewrite H1, H2 in Hi. discriminate.
Qed.
Print Assumptions C16_closed_not_misoriented.
