(** * C18 -- dart allocation hands out fresh, blank, addressable darts (2-maps). *)
From Coq Require Import List NArith Bool.
From HC Require Import Stm.Prog Map2.Ops2 Map2.State2 Map2.Wf2 Map2.Alloc2.
Open Scope N_scope.

(** Append: the returned id is the old dart count, non-null; the count grows by k; every new
    slot is free, in use, without coordinates or attribute value; nothing else changes. *)
Theorem C18_append `{Sig} : forall st k, ainv st -> spare_untouched st ->
  let d := fst (add_free_darts st k) in let st' := snd (add_free_darts st k) in
  d = nd st /\ d <> 0 /\ nd st' = nd st + k /\
  (forall e, nd st <= e -> blank_slot (mem st') e) /\
  (forall v, mem st' v = mem st v) /\
  count_unused (nd st') (mem st') = count_unused (nd st) (mem st) /\ ainv st'.
Proof. exact add_spec. Qed.
Print Assumptions C18_append.

(** insert_free_dart: reuses the first flagged slot (count unchanged, removed count - 1), or
    appends when there is none; the dart obtained is non-null, below the count, free, in use. *)
Theorem C18_insert `{Sig} : forall st, ainv st -> spare_untouched st ->
  let d := fst (insert_free_dart st) in let st' := snd (insert_free_dart st) in
  d <> 0 /\ d < nd st' /\ free_slot (mem st') d /\ unused (mem st') d = false /\ ainv st' /\
  ( (d < nd st /\ unused (mem st) d = true /\ (forall e, e < d -> unused (mem st) e = false) /\
     nd st' = nd st /\ (count_unused (nd st') (mem st') + 1 = count_unused (nd st) (mem st))%nat)
    \/
    (d = nd st /\ (forall e, e < nd st -> unused (mem st) e = false) /\ nd st' = nd st + 1 /\
     blank_slot (mem st') d)).
Proof. exact insert_spec. Qed.
Print Assumptions C18_insert.

(** Removal: accepted exactly for a free dart in use (flag set, removed count + 1);
    a linked or already removed dart is refused and the map is unchanged. *)
Theorem C18_remove `{Sig} : forall st d, ainv st -> d <> 0 -> d < nd st ->
  match remove_free_dart st d with
  | (ROk _, st') =>
      is_free2 (mem st) d = true /\ unused (mem st) d = false /\ unused (mem st') d = true /\
      nd st' = nd st /\ (count_unused (nd st') (mem st') = count_unused (nd st) (mem st) + 1)%nat /\ ainv st'
  | (RPanic _, st') =>
      (is_free2 (mem st) d = false \/ unused (mem st) d = true) /\
      nd st' = nd st /\ (forall i e, beta (mem st') i e = beta (mem st) i e) /\
      (forall e, unused (mem st') e = unused (mem st) e)
  | _ => False
  end.
Proof. exact remove_spec. Qed.
Print Assumptions C18_remove.

(** Every identifier below the dart count is addressable in every registered storage. *)
Theorem C18_addressable `{Sig} : forall st fa d k c, d < nd st -> In (k, c) (aks st) ->
  e_dom (env2 st fa) (XVertex d) = true /\ e_dom (env2 st fa) (XAttr k d) = true /\
  forall i, i < 3 -> e_dom (env2 st fa) (XBeta i d) = true.
Proof. exact addressable. Qed.
Print Assumptions C18_addressable.
(** "Removed darts are reported by no iterator and no orbit of a remaining dart" is
    C03_iter / C03_in_use (Props/C03.v). *)

(** The "blank" clause does NOT hold on slot reuse in the faithful model (known finding
    C18:stale-slot-on-reuse): write_vertex(2, v); remove_free_dart(2); insert_free_dart()
    returns 2 and the old coordinates are still there. *)
From Coq Require Import Floats Uint63. Import ListNotations.
From HC Require Import Extract.Run2.
Definition stale_witness : state2 :=
  exec2 None (empty2 2 []) [Force (WriteVertex 2 (PrimFloat.of_uint63 1, PrimFloat.of_uint63 2)); RemoveDart 2].
Theorem C18_blank_on_reuse_refuted :
  fst (insert_free_dart stale_witness) = 2 /\
  vertex (mem (snd (insert_free_dart stale_witness))) 2 = Some (PrimFloat.of_uint63 1, PrimFloat.of_uint63 2).
Proof. vm_compute. split; reflexivity. Qed.
Print Assumptions C18_blank_on_reuse_refuted.
