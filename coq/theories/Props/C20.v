(** * C20 -- the viewer's scene extraction.  Decided per explored map by the validators
    Extract/SceneOracle2.check_scene2 / SceneOracle3.check_scene3 applied to the scene a headless bevy App
    extracts (entities, coordinate table, normals); no model of the extraction systems is claimed.
    Proved here: the validator's row lookup returns the position of the identifier in the table order. *)
From Coq Require Import List NArith Arith Lia.
From HC Require Import Extract.SceneParse.
Import ListNotations.

Theorem C20_index_of_spec : forall x l k0 k, index_of x l k0 = Some k ->
  (k0 <= k)%nat /\ nth_error l (k - k0) = Some x.
Proof.
  intros x l. induction l as [|y r IH]; intros k0 k Hk; cbn in Hk; [discriminate|].
  destruct (N.eqb_spec x y) as [->|Hne].
  - injection Hk as <-. split; [lia|]. rewrite Nat.sub_diag. reflexivity.
  - destruct (IH (S k0) k Hk) as [Hle Hn]. split; [lia|].
    replace (k - k0)%nat with (S (k - S k0)) by lia. exact Hn.
Qed.
Print Assumptions C20_index_of_spec.
